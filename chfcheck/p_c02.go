package main

import (
	"fmt"
	"go/constant"
	"go/token"
	"go/types"
	"reflect"
	"sort"
	"strings"

	"golang.org/x/tools/go/ssa"
)

// C02: reported usage is recorded exactly once, in the right session's CDR.

const cdrTypePath = modPath + "/cdr/cdrType"

func init() { register("C02", "other", checkC02) }

func checkC02(c *Ctx, r *Report) {
	r.Explanation = "Structural clauses decided on go/ssa: (R1) the record that update/release hand to UpdateCDR/CloseCDR/dumpCdrFile is selected by the request's session reference - every look-up of subscriber state it depends on is keyed by that parameter (or it is a record created in the same call from such a one) and it never depends on an element of the subscriber-wide record list; (R2) exactly once: each of create/update/release calls UpdateCDR exactly once on every success path and not in a loop, UpdateCDR appends MultiUnitUsageToCdr(request.MultipleUnitUsage) exactly once, and the two conversion loops append exactly one element per iteration (order and 1:1 by loop shape); (R3) field provenance: each CDR member listed in the table takes its value from the corresponding request member and from no other member of the table; (R4) cause-for-closing is the constant 1 on the partial edge and 0 otherwise; (R5) every BCD octet of the opening timestamp has both nibbles in 0..9 for all time.Time field ranges and all zone offsets, and the sign octet is '+'/'-' selected by the sign of the offset (interval analysis with a nibble transfer function); (R6) wherever a new record is published under a session reference (the split of an over-long record, the re-open after a partial record) its usage list is a fresh empty list at that point - not a re-slice or shallow copy of the closed record's list (shared backing array: later appends overwrite recorded usage) and not an un-emptied deep copy (usage repeated); (R7) the JSON deep copy made at the split preserves every member: for every type reachable from CHFRecord custom JSON/text marshalling is symmetric, members are exported, uniquely named and of marshalable kinds (exhaustive over the type graph)."
	r.Undecided = []string{"content equality of decoded records (values are not compared)", "value fidelity of encoding/json itself for the built-in kinds (trusted)", "which instant the timestamp denotes (only the BCD well-formedness and sign are decided)"}
	r.Assumptions = append(r.Assumptions, "time.Time accessors return values in their documented ranges; |zone offset| < 24 h; years 0..9999")
	r.rule("C02.R1", "the record used by update/release is selected by the request's session reference only", 4)
	r.rule("C02.R2", "usage is appended exactly once per request and per reported container", 6)
	r.rule("C02.R3", "CDR members take their value from the corresponding request member", 10)
	r.rule("C02.R4", "cause for record closing: 1 on the partial edge, 0 otherwise", 2)
	r.rule("C02.R5", "opening timestamp: BCD nibbles within 0..9 and sign octet selected by the offset's sign", 9)
	r.rule("C02.R9", "the record opened or continued under a session reference (ue.Cdr[ref] = rec) is the record added to the subscriber's record list (ue.Records) in the same step, and the reverse: the file is dumped from the list, updates go to the map", 2)
	r.rule("C02.R8", "every CHOICE value built by the module selects (Present) exactly the alternative it fills", 3)
	r.rule("C02.R7", "every type reachable from the record round-trips through the JSON deep copy of the split (exhaustive over the type graph)", 40)
	r.rule("C02.R10", "a session reference designates the record of one session only: allocated number, injective construction, writers of ue.Cdr, a new record per new reference (shared with C10.R1/R2/R3/R6) - otherwise usage reported for one session lands in another session's record", 4)
	r.rule("C02.R11", "the records and containers built in a loop do not share a variable: an address put into the element of an iteration is that of a variable of that iteration", 4)
	r.rule("C02.R12", "the list of records the subscriber's file is written from only grows: every assignment of ChfUe.Records is an append to itself", 2)
	r.rule("C02.R13", "the record that continues a session carries its identification: it is a decoder's copy of the closed record, or a record in which every member is assigned that the record opened at creation gets", 1)
	r.rule("C02.R14", "the records of a session live in the subscriber context that stays in the pool: contexts enter the pool atomically (LoadOrStore, the stored one used) and are not removed (shared with C09.R4/R5/R6) - a session registered in an orphaned context is updated by nobody and its usage reaches no record", 3)
	r.rule("C02.R6", "a record that continues a session starts with a fresh empty usage list (no shared backing array, no repeated containers)", 2)

	c02RecordSelection(c, r)
	c02ExactlyOnce(c, r)
	c02Provenance(c, r)
	c02Cause(c, r)
	c02Timestamp(c, r)
	c02SplitFresh(c, r, "C02.R6")
	c02ContinuationIdentity(c, r, "C02.R13")
	// R12: the list the subscriber's file is written from only grows
	{
		n := 0
		for _, f := range c.ModFuncs {
			eachInstr(f, func(_ *ssa.BasicBlock, _ int, ins ssa.Instruction) {
				st, ok := ins.(*ssa.Store)
				if !ok {
					return
				}
				fa, ok := isFieldAddr(st.Addr, ctxPath, "ChfUe", "Records")
				if !ok {
					return
				}
				n++
				grows := false
				if call, ok := stripConv(st.Val).(*ssa.Call); ok {
					if bi, ok := call.Call.Value.(*ssa.Builtin); ok && bi.Name() == "append" && len(call.Call.Args) >= 1 {
						if ld, ok := stripConv(call.Call.Args[0]).(*ssa.UnOp); ok && ld.Op == token.MUL {
							if fa2, ok := isFieldAddr(ld.X, ctxPath, "ChfUe", "Records"); ok && fa2.X == fa.X {
								grows = true
							}
						}
					}
				}
				if rn := rootOf(f).Name(); rn == "init" || rn == "NewCHFUe" {
					grows = true // the constructor of a context that is not published yet
				}
				r.check(grows, "C02.R12", fmt.Sprintf("%s|assignment of ChfUe.Records #%d", fnKey(rootOf(f)), n), posOf(c, st), "the list is extended by append", "ChfUe.Records is assigned "+describe(st.Val)+", not an extension of itself: the subscriber's file is rewritten from this list on every request, so a record that is cut out (the last one, when an older session is released) disappears from the file together with the usage it holds")
			})
		}
		if n == 0 {
			r.viol("C02.R12", "ChfUe.Records|writers", "", "nothing appends to ChfUe.Records (anchor moved)")
		}
	}
	// R11: no variable shared by the containers / records a loop builds
	{
		n := 0
		for _, f := range c.ModFuncs {
			if f.Pkg == nil || !(strings.HasSuffix(f.Pkg.Pkg.Path(), "/cdr/cdrConvert") || strings.HasSuffix(f.Pkg.Pkg.Path(), "/internal/sbi/processor")) {
				continue
			}
			hasLoop := false
			for _, b := range f.Blocks {
				if inCycle(b) {
					hasLoop = true
				}
			}
			if !hasLoop {
				continue
			}
			n++
			fs := loopSharedAddressFindings(c, f)
			bad, pos := "", c.rel(f.Pos())
			if len(fs) > 0 {
				bad, pos = fs[0].what+": a container that was reported with its own value is recorded with another one's", c.rel(fs[0].pos)
			}
			r.check(bad == "", "C02.R11", fnKey(f)+"|per-iteration variables", pos, "no variable declared in front of a loop has its address put into what the iterations build", bad)
		}
	}
	r.shareFrom(c, checkC10, map[string]string{"C10.R1": "C02.R10", "C10.R2": "C02.R10", "C10.R3": "C02.R10", "C10.R6": "C02.R10"})
	r.shareFrom(c, checkC09, map[string]string{"C09.R4": "C02.R14", "C09.R5": "C02.R14", "C09.R6": "C02.R14"})
	c02DeepCopyFidelity(c, r, "C02.R7")
	c02ChoiceSelectors(c, r, "C02.R8")
	c02RecordsAgree(c, r)
}

// ---- R1
func c02RecordSelection(c *Ctx, r *Report) {
	procs := map[string]bool{"Processor.UpdateCDR": true, "Processor.CloseCDR": true}
	for _, name := range []string{"Processor.ChargingDataUpdate", "Processor.ChargingDataRelease"} {
		f := c.fn("internal/sbi/processor", name)
		sess := paramByName(f, "chargingSessionId")
		key := fnKey(f)
		n := 0
		eachInstr(f, func(_ *ssa.BasicBlock, _ int, ins ssa.Instruction) {
			call, ok := ins.(*ssa.Call)
			if !ok {
				return
			}
			obj := calleeObj(&call.Call)
			if obj == nil || obj.Pkg() == nil || obj.Pkg().Path() != procPath {
				return
			}
			var recs []ssa.Value
			what := funcLocalName(obj)
			switch {
			case procs[what]:
				recs = append(recs, call.Call.Args[1])
			case what == "dumpCdrFile":
				// a literal list of records: its elements; the subscriber's whole list is a full dump
				if ld, ok := call.Call.Args[1].(*ssa.UnOp); ok && ld.Op == token.MUL {
					if _, ok := isFieldAddr(ld.X, ctxPath, "ChfUe", "Records"); ok {
						return
					}
				}
				recs = append(recs, variadicElems(call.Call.Args[1])...)
				if len(recs) == 0 {
					recs = append(recs, call.Call.Args[1])
				}
			default:
				return
			}
			for _, rec := range recs {
				n++
				k := fmt.Sprintf("%s|%s record #%d", key, what, n)
				bad := ""
				keyed := false
				for d := range depSet(f, rec) {
					switch x := d.(type) {
					case *ssa.Lookup:
						if name, ok := ueFieldOfValue(x.X); ok {
							if x.Index == ssa.Value(sess) {
								keyed = true
							} else {
								bad = "it depends on ue." + name + "[...] looked up with a key other than the request's session reference"
							}
						}
					case *ssa.IndexAddr:
						if name, ok := ueFieldOfValue(x.X); ok {
							bad = "it depends on an element of the subscriber-wide list ue." + name + ": with two sessions of one subscriber an update for the older one is written into another session's record"
						}
					case *ssa.Index:
						if name, ok := ueFieldOfValue(x.X); ok {
							bad = "it depends on an element of the subscriber-wide list ue." + name
						}
					case *ssa.Next:
						bad = "it depends on an iteration over subscriber state"
					}
				}
				if bad == "" && !keyed {
					bad = "it does not depend on a look-up keyed by the request's session reference"
				}
				r.check(bad == "", "C02.R1", k, posOf(c, call), "record selected by ue.Cdr[chargingSessionId] (or created from it in this call)", "the record passed to "+what+" is not the named session's record: "+bad)
			}
		})
		if n == 0 {
			r.viol("C02.R1", key+"|records", c.rel(f.Pos()), "no record is passed to UpdateCDR/CloseCDR (anchor moved)")
		}
	}
}

// ---- R2
func c02ExactlyOnce(c *Ctx, r *Report) {
	upd := c.fn("internal/sbi/processor", "Processor.UpdateCDR")
	for _, name := range []string{"Processor.ChargingDataCreate", "Processor.ChargingDataUpdate", "Processor.ChargingDataRelease"} {
		f := c.fn("internal/sbi/processor", name)
		key := fnKey(f)
		var calls []*ssa.Call
		eachInstr(f, func(_ *ssa.BasicBlock, _ int, ins ssa.Instruction) {
			if call, ok := ins.(*ssa.Call); ok && call.Call.StaticCallee() == upd {
				calls = append(calls, call)
			}
		})
		ok := len(calls) == 1 && !inCycle(calls[0].Block())
		why := fmt.Sprintf("%d call sites of UpdateCDR (expected exactly one, outside any loop): the request's usage is recorded more than once or not at all", len(calls))
		if ok {
			// dominates every success return
			pdIdx := -1
			res := f.Signature.Results()
			for i := 0; i < res.Len(); i++ {
				if typeIs(res.At(i).Type(), modelsPath, "ProblemDetails") {
					pdIdx = i
				}
			}
			for _, ri := range returnsOf(f) {
				if pdIdx >= 0 && pdIdx < len(ri.Vals) && isNilConst(ri.Vals[pdIdx]) {
					if !instrDominates(calls[0], ri.Point()) {
						ok = false
						why = "a success return at " + posOf(c, ri.Ret) + " is reached without UpdateCDR: the reported usage is lost"
					}
				}
			}
		}
		pos := c.rel(f.Pos())
		if len(calls) > 0 {
			pos = posOf(c, calls[0])
		}
		r.check(ok, "C02.R2", key+"|UpdateCDR once", pos, "one call, not in a loop, dominating every success return", why)
	}
	// UpdateCDR: one append of MultiUnitUsageToCdr(request.MultipleUnitUsage)
	{
		f := upd
		key := fnKey(f)
		conv := c.fn("cdr/cdrConvert", "MultiUnitUsageToCdr")
		var stores []*ssa.Store
		eachInstr(f, func(_ *ssa.BasicBlock, _ int, ins ssa.Instruction) {
			if st, ok := ins.(*ssa.Store); ok {
				if fa, ok := st.Addr.(*ssa.FieldAddr); ok && fieldName(fa) == "ListOfMultipleUnitUsage" && typeIs(fa.X.Type(), cdrTypePath, "ChargingRecord") {
					stores = append(stores, st)
				}
			}
		})
		ok := len(stores) == 1 && !inCycle(stores[0].Block())
		why := fmt.Sprintf("%d stores of ListOfMultipleUnitUsage in UpdateCDR (expected one append)", len(stores))
		if ok {
			ok = false
			why = "the list is not extended by append(list, MultiUnitUsageToCdr(request.MultipleUnitUsage)...)"
			if ap, isCall := stores[0].Val.(*ssa.Call); isCall {
				if b, isB := ap.Call.Value.(*ssa.Builtin); isB && b.Name() == "append" && len(ap.Call.Args) == 2 {
					// first arg: the same field; second: result of the conversion of the request's usage
					sameList := false
					if ld, isLd := ap.Call.Args[0].(*ssa.UnOp); isLd {
						if fa, isFa := ld.X.(*ssa.FieldAddr); isFa && fieldName(fa) == "ListOfMultipleUnitUsage" {
							sameList = true
						}
					}
					fromConv := false
					if cv, isCv := ap.Call.Args[1].(*ssa.Call); isCv && cv.Call.StaticCallee() == conv {
						cd := paramByName(f, "chargingData")
						if cd != nil && isParamFieldLoad(cv.Call.Args[0], cd, "MultipleUnitUsage") {
							fromConv = true
						}
					}
					if sameList && fromConv {
						ok = true
					}
				}
			}
		}
		pos := c.rel(f.Pos())
		if len(stores) > 0 {
			pos = posOf(c, stores[0])
		}
		r.check(ok, "C02.R2", key+"|one append", pos, "ListOfMultipleUnitUsage = append(same list, MultiUnitUsageToCdr(request.MultipleUnitUsage)...), once", why)
	}
	// conversion loops
	for _, name := range []string{"MultiUnitUsageToCdr", "UsedUnitContainerToCdr"} {
		f := c.fn("cdr/cdrConvert", name)
		key := fnKey(f)
		ok, why := oneAppendPerIteration(f)
		r.check(ok, "C02.R2", key+"|loop shape", c.rel(f.Pos()), "one append per input element on every iteration, result returned in input order", why)
	}
}

// oneAppendPerIteration: the function ranges over its slice parameter and on
// every iteration appends exactly one element (built from the current input
// element) to the loop-carried result, which it returns.
func oneAppendPerIteration(f *ssa.Function) (bool, string) {
	if len(f.Params) != 1 {
		return false, "unexpected signature"
	}
	in := f.Params[0]
	var appends []*ssa.Call
	eachInstr(f, func(_ *ssa.BasicBlock, _ int, ins ssa.Instruction) {
		if call, ok := ins.(*ssa.Call); ok {
			if b, ok := call.Call.Value.(*ssa.Builtin); ok && b.Name() == "append" {
				appends = append(appends, call)
			}
		}
	})
	if len(appends) == 0 {
		return oneStorePerIndex(f, in)
	}
	if len(appends) != 1 {
		return false, fmt.Sprintf("%d append calls (expected one)", len(appends))
	}
	ap := appends[0]
	if !inCycle(ap.Block()) {
		return false, "the append is not inside the loop"
	}
	// loop-carried accumulator: append's first argument is a phi that has the append result as an input
	acc, ok := ap.Call.Args[0].(*ssa.Phi)
	if !ok {
		return false, "the list appended to is not the loop-carried result"
	}
	carried := false
	for _, e := range acc.Edges {
		if e == ssa.Value(ap) {
			carried = true
		}
	}
	if !carried {
		return false, "the append result is not carried to the next iteration (elements are lost)"
	}
	// exactly one element appended
	elems := variadicElems(ap.Call.Args[1])
	if len(elems) != 1 {
		return false, "more or fewer than one element appended per iteration"
	}
	// the element derives from in[rangeindex]
	fromCur := false
	var idx ssa.Value
	for d := range depSet(f, elems[0]) {
		if ia, ok := d.(*ssa.IndexAddr); ok && ia.X == ssa.Value(in) {
			fromCur = true
			idx = ia.Index
		}
	}
	if !fromCur {
		return false, "the appended element is not built from the current input element"
	}
	// the index is the range index: phi(-1, idx)+1
	if bo, ok := idx.(*ssa.BinOp); !ok || bo.Op != token.ADD {
		// or a counting loop over every index: i := 0; i < len(in); i++
		ph, isPhi := idx.(*ssa.Phi)
		full := false
		if isPhi {
			step, okStep := phiStep(ph)
			fromZero := false
			for _, e := range ph.Edges {
				if k, ok := constInt(e); ok && k == 0 {
					fromZero = true
				}
			}
			if okStep && step == 1 && fromZero && len(ph.Block().Instrs) > 0 {
				if ifi, ok := ph.Block().Instrs[len(ph.Block().Instrs)-1].(*ssa.If); ok {
					if cmp, ok := ifi.Cond.(*ssa.BinOp); ok && cmp.Op == token.LSS && cmp.X == ssa.Value(ph) {
						if call, ok := cmp.Y.(*ssa.Call); ok {
							if b, ok := call.Call.Value.(*ssa.Builtin); ok && b.Name() == "len" && call.Call.Args[0] == ssa.Value(in) {
								full = true
							}
						}
					}
				}
			}
		}
		if !full {
			return false, "input is not traversed by a range loop (or by a counting loop over 0..len-1)"
		}
	}
	// every path through the body passes the append
	head := acc.Block()
	if len(head.Instrs) == 0 {
		return false, "loop head not found"
	}
	ifi, ok := head.Instrs[len(head.Instrs)-1].(*ssa.If)
	if !ok {
		return false, "loop head not found"
	}
	body := ifi.Block().Succs[0]
	if body != ap.Block() {
		avoid := map[*ssa.BasicBlock]bool{ap.Block(): true}
		if reachableFrom(body, nil, nil, avoid)[head] {
			return false, "an iteration can skip the append (continue / conditional): a reported container is dropped"
		}
	}
	// result returned is the accumulator
	for _, ri := range returnsOf(f) {
		if len(ri.Vals) != 1 || ri.Vals[0] != ssa.Value(acc) {
			return false, "the function does not return the accumulated list"
		}
	}
	return true, ""
}

// oneStorePerIndex: the other way to convert a list element by element: the
// result is made with the length of the input, a counting loop i = 0..len-1
// fills result[i] from input[i] on every iteration, and the result is returned.
func oneStorePerIndex(f *ssa.Function, in ssa.Value) (bool, string) {
	var out *ssa.MakeSlice
	eachInstr(f, func(_ *ssa.BasicBlock, _ int, ins ssa.Instruction) {
		if ms, ok := ins.(*ssa.MakeSlice); ok && types.Identical(ms.Type(), f.Signature.Results().At(0).Type()) {
			out = ms
		}
	})
	if out == nil {
		return false, "0 append calls and no result list made with the input's length"
	}
	if !isLenOf(f, stripConv(out.Len), in) {
		return false, "the result list is not made with the length of the input list"
	}
	// element addresses result[i] written in the loop
	var idx *ssa.Phi
	var storeBlocks []*ssa.BasicBlock
	bad := ""
	eachInstr(f, func(b *ssa.BasicBlock, _ int, ins ssa.Instruction) {
		ia, ok := ins.(*ssa.IndexAddr)
		if !ok || ia.X != ssa.Value(out) {
			return
		}
		ph, ok := ia.Index.(*ssa.Phi)
		if !ok {
			bad = "an element of the result is addressed with something else than the loop counter"
			return
		}
		if idx != nil && idx != ph {
			bad = "the result is filled through two different counters"
			return
		}
		idx = ph
		if !inCycle(b) {
			bad = "the result is written outside the loop"
		}
		storeBlocks = append(storeBlocks, b)
	})
	if bad != "" {
		return false, bad
	}
	if idx == nil {
		return false, "no element of the result list is written"
	}
	step, okStep := phiStep(idx)
	fromZero := false
	for _, e := range idx.Edges {
		if k, ok := constInt(e); ok && k == 0 {
			fromZero = true
		}
	}
	if !okStep || step != 1 || !fromZero {
		return false, "the loop counter does not run 0, 1, 2, ..."
	}
	head := idx.Block()
	ifi, ok := head.Instrs[len(head.Instrs)-1].(*ssa.If)
	if !ok {
		return false, "loop head not found"
	}
	cmp, ok := ifi.Cond.(*ssa.BinOp)
	if !ok || cmp.Op != token.LSS || cmp.X != ssa.Value(idx) || !isLenOf(f, stripConv(cmp.Y), in) {
		return false, "the loop does not run over every index of the input (i < len(input))"
	}
	// the element is built from input[i]
	fromCur := false
	eachInstr(f, func(_ *ssa.BasicBlock, _ int, ins ssa.Instruction) {
		if ia, ok := ins.(*ssa.IndexAddr); ok && ia.X == in && ia.Index == ssa.Value(idx) {
			fromCur = true
		}
	})
	if !fromCur {
		return false, "the element stored is not built from the input element of the same index"
	}
	// every iteration writes result[i]
	body := head.Succs[0]
	avoid := map[*ssa.BasicBlock]bool{}
	for _, b := range storeBlocks {
		avoid[b] = true
	}
	if !avoid[body] && reachableFrom(body, nil, nil, avoid)[head] {
		return false, "an iteration can skip the element (continue / conditional): a reported container is dropped"
	}
	for _, ri := range returnsOf(f) {
		if len(ri.Vals) != 1 || ri.Vals[0] != ssa.Value(out) {
			return false, "the function does not return the filled list"
		}
	}
	return true, ""
}

// isLenOf: v is len(in), possibly hoisted into a local (the same SSA value).
func isLenOf(f *ssa.Function, v ssa.Value, in ssa.Value) bool {
	call, ok := stripConv(v).(*ssa.Call)
	if !ok {
		return false
	}
	bi, ok := call.Call.Value.(*ssa.Builtin)
	return ok && bi.Name() == "len" && len(call.Call.Args) == 1 && sameSliceValue(f, call.Call.Args[0], in)
}

// ---- R3
type provRow struct {
	dst, src string
}

func c02Provenance(c *Ctx, r *Report) {
	// provenance helper: names of request-model fields the value depends on
	srcFields := func(f *ssa.Function, v ssa.Value) map[string]bool {
		out := map[string]bool{}
		for d := range depSet(f, v) {
			switch x := d.(type) {
			case *ssa.FieldAddr:
				if n := namedOf(x.X.Type()); n != nil && n.Obj().Pkg() != nil && (n.Obj().Pkg().Path() == modelsPath || n.Obj().Pkg().Path() == ctxPath) {
					out[fieldName(x)] = true
					out["@"+n.Obj().Name()+"."+fieldName(x)] = true // qualified by the owning type
				}
			case *ssa.Field:
				if st, ok := x.X.Type().Underlying().(*types.Struct); ok {
					if n := namedOf(x.X.Type()); n != nil && n.Obj().Pkg() != nil && n.Obj().Pkg().Path() == modelsPath {
						out[st.Field(x.Field).Name()] = true
						out["@"+n.Obj().Name()+"."+st.Field(x.Field).Name()] = true
					}
				}
			case *ssa.Parameter:
				out["param:"+x.Name()] = true
			}
		}
		return out
	}
	check := func(f *ssa.Function, litType string, rows []provRow) {
		key := fnKey(f)
		tableSrc := map[string]bool{}
		for _, row := range rows {
			tableSrc[row.src] = true
		}
		// find the composite literal(s) of the destination type
		var lits []*ssa.Alloc
		eachInstr(f, func(_ *ssa.BasicBlock, _ int, ins ssa.Instruction) {
			if a, ok := ins.(*ssa.Alloc); ok && typeIs(a.Type(), cdrTypePath, litType) {
				if _, isPP := a.Type().Underlying().(*types.Pointer).Elem().Underlying().(*types.Pointer); !isPP {
					lits = append(lits, a)
				}
			}
		})
		if len(lits) == 0 {
			r.viol("C02.R3", key+"|"+litType, c.rel(f.Pos()), "no "+litType+" is built here (anchor moved)")
			return
		}
		for _, row := range rows {
			found := false
			bad := ""
			for _, lit := range lits {
				stores := flattenStoresDeep(f, lit)
				// later assignments through a pointer member of the literal (rec.ChargingID.Value = ..)
				eachInstr(f, func(_ *ssa.BasicBlock, _ int, ins ssa.Instruction) {
					st, ok := ins.(*ssa.Store)
					if !ok {
						return
					}
					if ap, ok := pathOf(st.Addr); ok && ap.Root == ssa.Value(lit) && strings.Join(ap.Elems, ".") == row.dst {
						for _, fs := range stores {
							if fs.val == st.Val && fs.path == row.dst {
								return
							}
						}
						stores = append(stores, flatStore{row.dst, st.Val, st})
					}
				})
				for _, fs := range stores {
					if fs.path != row.dst {
						continue
					}
					if _, isLit := fs.val.(*ssa.Alloc); isLit {
						continue // nested literal: its members are separate rows
					}
					found = true
					got := srcFields(f, fs.val)
					if !got[row.src] {
						var plain []string
						for _, k := range sortedKeysB(got) {
							if !strings.HasPrefix(k, "@") || strings.HasPrefix(row.src, "@") {
								plain = append(plain, strings.TrimPrefix(k, "@"))
							}
						}
						bad = "does not take its value from " + strings.TrimPrefix(row.src, "@") + " (depends on " + strings.Join(plain, ", ") + ")"
					}
					for s := range got {
						if strings.HasPrefix(s, "@") {
							continue
						}
						if s != row.src && tableSrc[s] {
							bad = "also depends on " + s + ", which belongs to another member (members swapped?)"
						}
					}
				}
			}
			if !found {
				bad = "member is not assigned"
			}
			r.check(bad == "", "C02.R3", key+"|"+row.dst+" <- "+row.src, c.rel(f.Pos()), "takes its value from the corresponding request member only", litType+"."+row.dst+" "+bad)
		}
	}
	check(c.fn("cdr/cdrConvert", "UsedUnitContainerToCdr"), "UsedUnitContainer", []provRow{
		{"LocalSequenceNumber.Value", "LocalSequenceNumber"},
		{"DataVolumeUplink.Value", "UplinkVolume"},
		{"DataVolumeDownlink.Value", "DownlinkVolume"},
		{"DataTotalVolume.Value", "TotalVolume"},
		{"ServiceSpecificUnits.*", "ServiceSpecificUnits"},
	})
	check(c.fn("cdr/cdrConvert", "MultiUnitUsageToCdr"), "MultipleUnitUsage", []provRow{
		{"RatingGroup.Value", "RatingGroup"},
		{"UsedUnitContainers", "UsedUnitContainer"},
	})
	check(c.fn("internal/sbi/processor", "Processor.OpenCDR"), "ChargingRecord", []provRow{
		{"SubscriberIdentifier.SubscriptionIDData", "Supi"},
		{"ChargingSessionIdentifier.Value", "param:sessionId"},
		{"ChargingID.Value", "@ChfConvergedChargingChargingDataRequest.ChargingId"}, // the request's own id, not the optional one inside pDUSessionChargingInformation
	})
	check(c.fn("internal/sbi/processor", "Processor.OpenCDR"), "NetworkFunctionInformation", []provRow{
		{"NetworkFunctionName.Value", "NFName"},
		{"NetworkFunctionIPv4Address.IPTextV4Address", "NFIPv4Address"},
		{"NetworkFunctionIPv6Address.IPTextV6Address", "NFIPv6Address"},
		{"NetworkFunctionFQDN.DomainName", "NFFqdn"},
		{"NetworkFunctionPLMNIdentifier.Value", "NFPLMNID"},
	})
}

func sortedKeysB(m map[string]bool) []string {
	var ks []string
	for k := range m {
		ks = append(ks, k)
	}
	sort.Strings(ks)
	return ks
}

// flattenStoresDeep is flattenStores plus: pointers to basic values (new T;
// *p = v) become "<member>.*", and members assigned through a later
// FieldAddr on a local struct value.
func flattenStoresDeep(f *ssa.Function, root ssa.Value) []flatStore {
	out := flattenStores(f, root)
	var extra []flatStore
	for _, fs := range out {
		a, ok := fs.val.(*ssa.Alloc)
		if !ok {
			continue
		}
		for _, ref := range *a.Referrers() {
			if st, ok := ref.(*ssa.Store); ok && st.Addr == ssa.Value(a) {
				extra = append(extra, flatStore{fs.path + ".*", st.Val, fs.at})
			}
		}
		// conversion of the address of a local string variable: (*T)(&x)
	}
	// values that are conversions of addresses of locals: follow to the stored content
	for _, fs := range out {
		v := stripConv(fs.val)
		if a, ok := v.(*ssa.Alloc); ok && a != fs.val {
			for _, ref := range *a.Referrers() {
				if st, ok := ref.(*ssa.Store); ok && st.Addr == ssa.Value(a) {
					extra = append(extra, flatStore{fs.path, st.Val, fs.at})
				}
			}
		}
	}
	return append(out, extra...)
}

// ---- R4
func c02Cause(c *Ctx, r *Report) {
	f := c.fn("internal/sbi/processor", "Processor.CloseCDR")
	key := fnKey(f)
	partial := paramByName(f, "partial")
	n, nPartial, nNormal := 0, 0, 0
	eachInstr(f, func(_ *ssa.BasicBlock, _ int, ins ssa.Instruction) {
		st, ok := ins.(*ssa.Store)
		if !ok {
			return
		}
		// store of the Value member of a CauseForRecClosing (directly or via a literal copied into the record)
		fa, ok := st.Addr.(*ssa.FieldAddr)
		if !ok || fieldName(fa) != "Value" || !typeIs(fa.X.Type(), cdrTypePath, "CauseForRecClosing") {
			return
		}
		// where does the value take effect: at the store itself, or - for a literal built
		// in a local that is merged into a result variable - on the merge edge it arrives by
		type arrival struct {
			from, at *ssa.BasicBlock
			// the literal is assigned to a struct variable (go/ssa keeps aggregates in memory):
			// the assignment and the variable
			varStore *ssa.Store
			varAlloc *ssa.Alloc
		}
		var arrivals []arrival
		if a, ok := fa.X.(*ssa.Alloc); ok && !a.Heap {
			for _, ref := range *a.Referrers() {
				ld, ok := ref.(*ssa.UnOp)
				if !ok || ld.Op != token.MUL || ld.X != ssa.Value(a) {
					continue
				}
				for _, r2 := range *ld.Referrers() {
					switch y := r2.(type) {
					case *ssa.Phi:
						for i, e := range y.Edges {
							if e == ssa.Value(ld) {
								arrivals = append(arrivals, arrival{from: y.Block().Preds[i], at: y.Block()})
							}
						}
					case *ssa.Store:
						if va, ok := y.Addr.(*ssa.Alloc); ok && !va.Heap && y.Val == ssa.Value(ld) {
							arrivals = append(arrivals, arrival{nil, y.Block(), y, va})
						} else {
							arrivals = append(arrivals, arrival{from: nil, at: y.Block()})
						}
					}
				}
			}
		}
		for _, lf := range leavesOf(st.Val) {
			if lf.from == nil && len(arrivals) == 1 {
				lf.from, lf.at = arrivals[0].from, arrivals[0].at
				if lf.from == nil {
					lf.at = nil
				}
			}
			n++
			v, isC := constInt(lf.val)
			// which edge of `partial`?
			onPartial, onNormal := false, false
			for _, b := range f.Blocks {
				if len(b.Instrs) == 0 || len(b.Succs) != 2 {
					continue
				}
				ifi, ok := b.Instrs[len(b.Instrs)-1].(*ssa.If)
				if !ok {
					continue
				}
				// `if partial`, or the same test spelled as a comparison with a constant
				// (`switch partial { case true: ...`): swapped when the true edge means !partial
				swapped := false
				if ifi.Cond != ssa.Value(partial) {
					bo, isB := ifi.Cond.(*ssa.BinOp)
					if !isB || (bo.Op != token.EQL && bo.Op != token.NEQ) {
						continue
					}
					x, y := bo.X, bo.Y
					if y == ssa.Value(partial) {
						x, y = y, x
					}
					k, isC := y.(*ssa.Const)
					if x != ssa.Value(partial) || !isC || k.Value == nil || k.Value.Kind() != constant.Bool {
						continue
					}
					swapped = constant.BoolVal(k.Value) != (bo.Op == token.EQL)
				}
				on := func(i int) bool {
					if swapped {
						i = 1 - i
					}
					if lf.from == nil {
						blk := st.Block()
						if len(arrivals) == 1 && arrivals[0].from == nil {
							blk = arrivals[0].at
						}
						if edgeDominates(b, b.Succs[i], blk) {
							return true
						}
						// the value sits in a struct variable (go/ssa keeps aggregates in memory):
						// either the literal is built in the variable itself, or it is copied into it
						var varAlloc *ssa.Alloc
						var defBlock *ssa.BasicBlock
						if len(arrivals) == 1 && arrivals[0].varStore != nil {
							varAlloc, defBlock = arrivals[0].varAlloc, arrivals[0].varStore.Block()
						} else if a, ok := fa.X.(*ssa.Alloc); ok && !a.Heap {
							varAlloc, defBlock = a, st.Block()
						}
						if varAlloc != nil {
							// assigned before the test and overwritten on the other branch: the value
							// is the one read later only along this edge
							killers := map[*ssa.BasicBlock]bool{}
							var loads []*ssa.UnOp
							var visit func(addr ssa.Value)
							visit = func(addr ssa.Value) {
								for _, ref := range *addr.Referrers() {
									switch y := ref.(type) {
									case *ssa.Store:
										if y.Addr == addr && y.Block() != defBlock {
											killers[y.Block()] = true
										}
									case *ssa.UnOp:
										if y.Op == token.MUL && y.X == addr && addr == ssa.Value(varAlloc) {
											loads = append(loads, y)
										}
									case *ssa.FieldAddr:
										if y.X == addr {
											visit(y)
										}
									}
								}
							}
							visit(varAlloc)
							if edgeDominates(b, b.Succs[i], defBlock) {
								return true // assigned on this branch
							}
							if defBlock != b || len(loads) == 0 {
								return false
							}
							for _, ld := range loads {
								if ld.Block() == b {
									return false // read before the test
								}
								with := reachableFrom(b, nil, nil, killers)
								without := reachableFrom(b, b, b.Succs[i], killers)
								if !with[ld.Block()] || without[ld.Block()] {
									return false
								}
							}
							return true
						}
						return false
					}
					// the value arrives at the merge over the edge from->at
					if lf.from == b {
						return lf.at == b.Succs[i] && b.Succs[0] != b.Succs[1]
					}
					return edgeDominates(b, b.Succs[i], lf.from)
				}
				if on(0) {
					onPartial = true
				}
				if on(1) {
					onNormal = true
				}
			}
			k := fmt.Sprintf("%s|cause #%d", key, n)
			switch {
			case onPartial:
				nPartial++
				r.check(isC && v == 1, "C02.R4", k, posOf(c, st), "partial edge: cause 1 (partialRecord)", fmt.Sprintf("on the partial-record edge the cause for closing is %s, TS 32.298 partialRecord is 1", describe(lf.val)))
			case onNormal:
				nNormal++
				r.check(isC && v == 0, "C02.R4", k, posOf(c, st), "normal edge: cause 0 (normalRelease)", fmt.Sprintf("on the normal-release edge the cause for closing is %s, TS 32.298 normalRelease is 0", describe(lf.val)))
			default:
				r.viol("C02.R4", k, posOf(c, st), "cause for closing assigned outside the partial / normal branches")
			}
		}
	})
	if nPartial == 0 || nNormal == 0 {
		r.viol("C02.R4", key+"|causes", c.rel(f.Pos()), "expected a cause for the partial and for the normal edge")
	}
	// every successful exit has set the cause in the record: a closure that reports success but keeps
	// whatever cause the record carried (a record re-opened after a partial closure still says 1)
	// files a released session as a partial record
	setBlocks := map[*ssa.BasicBlock]bool{}
	eachInstr(f, func(b *ssa.BasicBlock, _ int, ins ssa.Instruction) {
		st, ok := ins.(*ssa.Store)
		if !ok {
			return
		}
		hit := false
		var x ssa.Value = st.Addr
		for {
			fa, ok := x.(*ssa.FieldAddr)
			if !ok {
				break
			}
			if fieldName(fa) == "CauseForRecClosing" {
				hit = true
			}
			x = fa.X
		}
		if a, isLocal := x.(*ssa.Alloc); hit && !(isLocal && !a.Heap) {
			setBlocks[b] = true
		}
	})
	if len(setBlocks) > 0 && len(f.Blocks) > 0 {
		unset := reachableFrom(f.Blocks[0], nil, nil, setBlocks)
		nExit := 0
		for _, b := range f.Blocks {
			if len(b.Instrs) == 0 {
				continue
			}
			ret, ok := b.Instrs[len(b.Instrs)-1].(*ssa.Return)
			if !ok || len(ret.Results) == 0 {
				continue
			}
			if nilTestDominates(f, ret.Results[len(ret.Results)-1], b) {
				continue // returned behind `if err != nil`: not a success exit
			}
			for _, lf := range leavesOf(ret.Results[len(ret.Results)-1]) {
				if k, isC := lf.val.(*ssa.Const); !isC || k.Value != nil {
					continue
				}
				exit := b
				if lf.from != nil {
					exit = lf.from
				}
				nExit++
				r.check(!unset[exit], "C02.R4", fmt.Sprintf("%s|success exit #%d sets the cause", key, nExit), posOf(c, ret),
					"every path to this success return stores the cause for closing in the record",
					"CloseCDR can return success without storing a cause in the record: the record keeps the cause it carried - a record that was re-opened after a partial closure (cause 1) and is closed by the release stays a partial record")
			}
		}
	}
	// who asks for which cause: a released session (and a one-time event) is closed normally,
	// whatever the credit control of the same request reported
	for _, g := range c.ModFuncs {
		eachInstr(g, func(_ *ssa.BasicBlock, _ int, ins ssa.Instruction) {
			call, ok := ins.(*ssa.Call)
			if !ok || call.Call.StaticCallee() != f || len(call.Call.Args) < 3 {
				return
			}
			root := rootOf(g)
			arg := call.Call.Args[len(call.Call.Args)-1]
			k := fnKey(root) + "|cause asked for"
			switch root.Name() {
			case "ChargingDataRelease", "ChargingDataCreate":
				kv, isConst := arg.(*ssa.Const)
				r.check(isConst && kv.Value != nil && !constant.BoolVal(kv.Value), "C02.R4", k, posOf(c, call), "closed with the normal cause (constant false)",
					"the record is closed with a cause that depends on "+describe(arg)+" instead of the normal release: a released session whose last usage report did not end in a FINAL trigger is filed as a partial record (cause 1), although the session is over")
			default:
				_, isConst := arg.(*ssa.Const)
				r.check(!isConst, "C02.R4", k, posOf(c, call), "closed with the cause the credit control of the request reports", "an update closes the record with a constant cause: the partial-record edge of the statement can no longer be taken (or is always taken)")
			}
		})
	}
}

// ---- R5
type nib struct {
	hi, lo ival
	ok     bool
}

func c02Timestamp(c *Ctx, r *Report) {
	f := c.fn("cdr/cdrConvert", "TimeStampToCdr")
	key := fnKey(f)
	re := newRangeEval(f)
	var nibbles func(v ssa.Value, at ssa.Instruction, depth int) nib
	nibbles = func(v ssa.Value, at ssa.Instruction, depth int) nib {
		if depth > 6 {
			return nib{}
		}
		if k, ok := constInt(v); ok && k >= 0 && k <= 255 {
			return nib{rng(k>>4, k>>4), rng(k&15, k&15), true}
		}
		switch x := v.(type) {
		case *ssa.Convert:
			if isIntegerType(x.X.Type()) {
				src := re.evalAt(x.X, at)
				if src.within(0, 255) {
					return nibbles(x.X, at, depth+1)
				}
				return nib{}
			}
		case *ssa.BinOp:
			if x.Op == token.OR || x.Op == token.ADD {
				for _, pair := range [][2]ssa.Value{{x.X, x.Y}, {x.Y, x.X}} {
					hiPart, loPart := pair[0], pair[1]
					var a ssa.Value
					if sh, ok := hiPart.(*ssa.BinOp); ok {
						if k, okk := constInt(sh.Y); okk && ((sh.Op == token.SHL && k == 4) || (sh.Op == token.MUL && k == 16)) {
							a = sh.X
						}
					}
					if a == nil {
						continue
					}
					ra, rb := re.evalAt(a, at), re.evalAt(loPart, at)
					if ra.within(0, 15) && rb.within(0, 15) {
						return nib{ra, rb, true}
					}
					return nib{}
				}
			}
		}
		rv := re.evalAt(v, at)
		if rv.within(0, 15) {
			return nib{rng(0, 0), rv, true}
		}
		return nib{}
	}
	n := 0
	eachInstr(f, func(_ *ssa.BasicBlock, _ int, ins ssa.Instruction) {
		st, ok := ins.(*ssa.Store)
		if !ok {
			return
		}
		ia, ok := st.Addr.(*ssa.IndexAddr)
		if !ok {
			return
		}
		idx, ok := constInt(ia.Index)
		if !ok {
			return
		}
		n++
		k := fmt.Sprintf("%s|octet %d", key, idx)
		if idx == 6 {
			// sign octet: '+' / '-' selected by the sign of the zone offset
			okSign := true
			why := ""
			for _, lf := range leavesOf(st.Val) {
				ch, isC := constInt(lf.val)
				if !isC || (ch != '+' && ch != '-') {
					okSign, why = false, "the sign octet is not one of '+' / '-'"
					continue
				}
				// zone offset on this edge
				var off ssa.Value
				eachInstr(f, func(_ *ssa.BasicBlock, _ int, i2 ssa.Instruction) {
					if ex, ok := i2.(*ssa.Extract); ok && ex.Index == 1 {
						if call, ok := ex.Tuple.(*ssa.Call); ok && isFunc(calleeObj(&call.Call), "time", "Time.Zone") {
							off = ex
						}
					}
				})
				if off == nil {
					okSign, why = false, "zone offset not found"
					continue
				}
				var rr ival
				if lf.from != nil {
					rr = re.evalOnEdge(off, lf.from, lf.at)
				} else {
					rr = re.evalAt(off, st)
				}
				if ch == '+' && !(rr.ok && rr.lo >= 0) {
					okSign, why = false, "'+' is stored on a path where the zone offset may be negative"
				}
				if ch == '-' && !(rr.ok && rr.hi < 0) {
					okSign, why = false, "'-' is stored on a path where the zone offset may be non-negative"
				}
			}
			r.check(okSign, "C02.R5", k, posOf(c, st), "sign octet '+'/'-' selected by the sign of the UTC offset", why)
			return
		}
		// which calendar component the two digits are taken from (TS 32.298 TimeStamp: YYMMDDhhmmssShhmm);
		// reported only when the component can be named and is the wrong one
		if want := c02TimeComponents[idx]; want != "" {
			hi, lo := c02DigitsOf(st.Val)
			for _, d := range []struct{ got, digit string }{{hi.comp, hi.digit}, {lo.comp, lo.digit}} {
				if d.got == "" {
					continue
				}
				got := d.got
				if got == "year%100" || (got == "year" && d.digit == "units") {
					got = "year"
				}
				if got != want {
					r.viol("C02.R5", k+"|component", posOf(c, st), fmt.Sprintf("octet %d of the time stamp has to hold the %s, but its %s digit is taken from the %s: the record opening time does not denote the instant of creation (for zone offsets this shows only in zones that are not a whole number of hours from UTC)", idx, want, d.digit, d.got))
				}
			}
			if hi.comp != "" && lo.comp != "" && (hi.digit != "tens" || lo.digit != "units") {
				r.viol("C02.R5", k+"|digit order", posOf(c, st), fmt.Sprintf("octet %d holds the %s digit in its high nibble and the %s digit in its low nibble: BCD wants tens then units", idx, hi.digit, lo.digit))
			}
		}
		nb := nibbles(st.Val, st, 0)
		ok9 := nb.ok && nb.hi.within(0, 9) && nb.lo.within(0, 9)
		detail := "both nibbles within 0..9"
		bad := "the octet is not BCD for every instant/zone: "
		if !nb.ok {
			bad += "its nibbles cannot be bounded (a component may be negative or exceed 15 - e.g. hours of a western zone, or seconds taken for minutes)"
		} else {
			bad += fmt.Sprintf("high nibble in [%d,%d], low nibble in [%d,%d]", nb.hi.lo, nb.hi.hi, nb.lo.lo, nb.lo.hi)
		}
		r.check(ok9, "C02.R5", k, posOf(c, st), detail, bad)
	})
	if n < 9 {
		r.viol("C02.R5", key+"|octets", c.rel(f.Pos()), fmt.Sprintf("only %d of the 9 timestamp octets are assigned", n))
	}
}

// ---- R6: a record published under a session reference starts with a fresh,
// empty usage list.
//
// UpdateCDR appends to record.ChargingFunctionRecord.ListOfMultipleUnitUsage.
// When a function publishes a record for a session (ue.Cdr[ref] = rec: the
// record opened by create, the split of an over-long record), that record's
// usage list must be a fresh, empty list at the publication: a re-slice of the
// old list ([:0]) shares its backing array, so later appends overwrite the
// usage of the closed record; a copied, un-emptied list repeats it.
func c02SplitFresh(c *Ctx, r *Report, rule string) {
	n := 0
	for _, name := range []string{"Processor.ChargingDataCreate", "Processor.ChargingDataUpdate"} {
		f := c.fn("internal/sbi/processor", name)
		eachInstr(f, func(_ *ssa.BasicBlock, _ int, ins ssa.Instruction) {
			mu, ok := ins.(*ssa.MapUpdate)
			if !ok {
				return
			}
			ld, ok := mu.Map.(*ssa.UnOp)
			if !ok || ld.Op != token.MUL {
				return
			}
			if _, ok := isFieldAddr(ld.X, ctxPath, "ChfUe", "Cdr"); !ok {
				return
			}
			n++
			key := fmt.Sprintf("%s|record published under the session reference #%d", fnKey(f), n)
			ok2, good, bad, pos := usageListFresh(c, f, mu.Value, mu, 0)
			if pos == "" {
				pos = posOf(c, mu)
			}
			r.check(ok2, rule, key, pos, good, bad)
		})
	}
}

// usageListFresh decides whether the record value v, as it is at instruction
// `at` of f, has a fresh empty usage list.
func usageListFresh(c *Ctx, f *ssa.Function, v ssa.Value, at ssa.Instruction, depth int) (bool, string, string, string) {
	const listField = "ListOfMultipleUnitUsage"
	type listStore struct {
		st   *ssa.Store
		root ssa.Value
	}
	var lss []listStore
	eachInstr(f, func(_ *ssa.BasicBlock, _ int, ins ssa.Instruction) {
		st, ok := ins.(*ssa.Store)
		if !ok {
			return
		}
		fa, ok := st.Addr.(*ssa.FieldAddr)
		if !ok || fieldName(fa) != listField {
			return
		}
		if ap, ok := pathOf(st.Addr); ok {
			lss = append(lss, listStore{st, ap.Root})
		}
	})
	for i := 0; i < 4; i++ {
		v = resolveLocalLoad(v)
	}
	ap, ok := pathOf(v)
	if !ok || len(ap.Elems) != 0 {
		return false, "", "undecided: the published record " + describe(v) + " is not a locally built object", ""
	}
	root := ap.Root
	state, roots := "unknown", []ssa.Value{root}
	var callee *ssa.Function
	var calleeIdx int
	switch x := root.(type) {
	case *ssa.Alloc:
		elem := x.Type().(*types.Pointer).Elem()
		if _, isPtr := elem.Underlying().(*types.Pointer); isPtr {
			// a pointer variable: filled by a decoder (deep copy) or by assignments
			state = "assigned"
			for _, ref := range *x.Referrers() {
				if call, ok := ref.(*ssa.Call); ok {
					if obj := calleeObj(&call.Call); obj != nil && obj.Pkg() != nil && obj.Pkg().Path() == "encoding/json" && obj.Name() == "Unmarshal" {
						state = "copied"
					}
				}
			}
		} else {
			// a composite literal of the record: look at its ChargingFunctionRecord member
			state = "zero"
			for _, st := range storesToField(x, "ChargingFunctionRecord") {
				wa, isAlloc := st.Val.(*ssa.Alloc)
				if !isAlloc {
					state = "assigned"
					continue
				}
				roots = append(roots, wa)
				for _, ref := range *wa.Referrers() {
					if st2, ok := ref.(*ssa.Store); ok && st2.Addr == ssa.Value(wa) {
						state = "aliased" // whole-struct copy: the slice header of the source is copied
					}
				}
			}
		}
	case *ssa.Call:
		state, callee = "callee", x.Call.StaticCallee()
	case *ssa.Extract:
		if call, ok := x.Tuple.(*ssa.Call); ok {
			state, callee, calleeIdx = "callee", call.Call.StaticCallee(), x.Index
		}
		if lk, ok := x.Tuple.(*ssa.Lookup); ok && isCdrMapValue(lk.X) {
			state = "existing"
		}
	case *ssa.Lookup:
		if isCdrMapValue(x.X) {
			state = "existing"
		}
	}
	var last *ssa.Store
	for _, ls := range lss {
		match := false
		for _, rt := range roots {
			if ls.root == rt {
				match = true
			}
		}
		if !match || !instrDominates(ls.st, at) {
			continue
		}
		if last == nil || instrDominates(last, ls.st) {
			last = ls.st
		}
	}
	switch {
	case last != nil:
		ok, why := freshEmptySlice(last.Val)
		return ok, "its usage list is assigned a fresh empty list before it is published", "the usage list of the record published for the session " + why + ": usage of the closed record is overwritten or repeated once further usage is appended", posOf(c, last)
	case state == "zero":
		return true, "built from scratch: the usage list is the zero value", "", ""
	case state == "existing":
		return true, "the record already published for a session (looked up in ue.Cdr), not a new one", "", ""
	case state == "callee" && callee != nil && depth < 2 && c.inModule(callee):
		nret := 0
		for _, ri := range returnsOf(callee) {
			if calleeIdx >= len(ri.Vals) || isNilConst(ri.Vals[calleeIdx]) {
				continue
			}
			nret++
			if ok, _, bad, pos := usageListFresh(c, callee, ri.Vals[calleeIdx], ri.Ret, depth+1); !ok {
				return false, "", "record returned by " + callee.Name() + ": " + bad, pos
			}
		}
		if nret == 0 {
			return false, "", "undecided: " + callee.Name() + " returns no record", ""
		}
		return true, "record returned by " + callee.Name() + ", where it is built from scratch with an empty usage list", "", ""
	case state == "copied":
		return false, "", "the record published for the session is a deep copy of the closed record and its usage list is not emptied: every container already recorded appears a second time", ""
	case state == "aliased":
		return false, "", "the record published for the session is a shallow copy of the closed record: both usage lists share one backing array, so appends to the new record overwrite usage of the closed one", ""
	}
	return false, "", "undecided: cannot establish that the published record " + describe(v) + " starts with a fresh empty usage list", ""
}

func freshEmptySlice(v ssa.Value) (bool, string) {
	switch x := v.(type) {
	case *ssa.Const:
		if x.IsNil() {
			return true, ""
		}
	case *ssa.MakeSlice:
		if n, ok := constInt(x.Len); ok && n == 0 {
			return true, ""
		}
		return false, "is created non-empty"
	case *ssa.Slice:
		if a, ok := x.X.(*ssa.Alloc); ok {
			if arr, ok := a.Type().(*types.Pointer).Elem().Underlying().(*types.Array); ok {
				lo, hi := int64(0), arr.Len()
				okc := true
				if x.Low != nil {
					lo, okc = constInt(x.Low)
				}
				if x.High != nil && okc {
					hi, okc = constInt(x.High)
				}
				if okc && hi-lo == 0 {
					return true, ""
				}
				return false, "is created non-empty"
			}
		}
		return false, "is a re-slice of an existing list (" + describe(x.X) + "), which shares its backing array"
	}
	return false, "is " + describe(v) + ", not a fresh empty list"
}

func isCdrMapValue(m ssa.Value) bool {
	ld, ok := m.(*ssa.UnOp)
	if !ok || ld.Op != token.MUL {
		return false
	}
	_, ok = isFieldAddr(ld.X, ctxPath, "ChfUe", "Cdr")
	return ok
}

// ---- R7: the deep copy made at the record split preserves every member ----
//
// ChargingDataUpdate clones the record through json.Marshal / json.Unmarshal.
// The clone is faithful only if every type reachable from cdrType.CHFRecord
// round-trips through encoding/json.  Decided on the types (exhaustive over the
// type graph): custom marshalling is symmetric (MarshalJSON <=> UnmarshalJSON,
// MarshalText <=> UnmarshalText - a one-sided MarshalText on an octet-string
// type makes json write text and read base64), every struct member is exported
// and not excluded by a `json:"-"` tag, member names are unique up to case
// within a struct, and no member is an interface, function or channel.
func c02DeepCopyFidelity(c *Ctx, r *Report, rule string) {
	root := c.namedType("cdr/cdrType", "CHFRecord")
	seen := map[types.Type]bool{}
	nTypes := 0
	var walk func(t types.Type, via string)
	hasMethod := func(t types.Type, name string) bool {
		for _, tt := range []types.Type{t, types.NewPointer(t)} {
			ms := types.NewMethodSet(tt)
			for i := 0; i < ms.Len(); i++ {
				if ms.At(i).Obj().Name() == name {
					return true
				}
			}
		}
		return false
	}
	walk = func(t types.Type, via string) {
		if seen[t] {
			return
		}
		seen[t] = true
		if n, ok := t.(*types.Named); ok {
			nTypes++
			name := n.Obj().Name()
			if n.Obj().Pkg() != nil {
				name = n.Obj().Pkg().Name() + "." + name
			}
			var bad []string
			mj, uj := hasMethod(n, "MarshalJSON"), hasMethod(n, "UnmarshalJSON")
			mt, ut := hasMethod(n, "MarshalText"), hasMethod(n, "UnmarshalText")
			if mj != uj {
				bad = append(bad, fmt.Sprintf("MarshalJSON=%v but UnmarshalJSON=%v", mj, uj))
			}
			if mt != ut && !(mj && uj) {
				bad = append(bad, fmt.Sprintf("MarshalText=%v but UnmarshalText=%v: encoding/json writes the type with the custom method and reads it back with its built-in rule (or the reverse)", mt, ut))
			}
			if st, ok := n.Underlying().(*types.Struct); ok && !(mj && uj) {
				names := map[string]string{}
				for i := 0; i < st.NumFields(); i++ {
					f := st.Field(i)
					tag := reflect.StructTag(st.Tag(i)).Get("json")
					jn := strings.Split(tag, ",")[0]
					if !f.Exported() {
						bad = append(bad, "member "+f.Name()+" is unexported: it is not copied")
						continue
					}
					if jn == "-" {
						bad = append(bad, "member "+f.Name()+" is excluded by its json tag: it is not copied")
						continue
					}
					if jn == "" {
						jn = f.Name()
					}
					if prev, dup := names[strings.ToLower(jn)]; dup {
						bad = append(bad, "members "+prev+" and "+f.Name()+" share one JSON name up to case")
					}
					names[strings.ToLower(jn)] = f.Name()
					switch f.Type().Underlying().(type) {
					case *types.Interface:
						bad = append(bad, "member "+f.Name()+" is an interface: the copy holds generic maps instead of the original type")
					case *types.Signature, *types.Chan:
						bad = append(bad, "member "+f.Name()+" cannot be marshalled")
					}
				}
			}
			pos := c.rel(n.Obj().Pos())
			r.check(len(bad) == 0, rule, "type "+name, pos, "round-trips through encoding/json (symmetric marshalling, all members exported and named uniquely)", "the JSON deep copy made when a record is split does not preserve "+name+" ("+via+"): "+strings.Join(bad, "; ")+" - the record that continues the session loses or alters these members")
			if mj && uj {
				return // custom symmetric marshalling: members are the type's own business
			}
		}
		switch u := t.Underlying().(type) {
		case *types.Struct:
			for i := 0; i < u.NumFields(); i++ {
				walk(u.Field(i).Type(), via+"."+u.Field(i).Name())
			}
		case *types.Pointer:
			walk(u.Elem(), via)
		case *types.Slice:
			walk(u.Elem(), via+"[]")
		case *types.Array:
			walk(u.Elem(), via+"[]")
		case *types.Map:
			walk(u.Key(), via+"(key)")
			walk(u.Elem(), via+"[]")
		}
	}
	walk(root, "CHFRecord")
	r.count("record_types_in_copy_graph", nTypes)
}

// ---- R8: a CHOICE value built by the module selects the alternative it fills
//
// The generated CHOICE types are structs { Present int; alternatives... }; the
// encoder uses Present as the index of the member to encode.  Wherever module
// code builds such a value (composite literal or member-wise), the constant
// stored into Present must be the index of the member that is filled, and that
// member must be the only one filled - otherwise the encoder picks a nil member
// (marshalling fails: every later update of the session is refused and its
// usage recorded nowhere) or encodes the wrong alternative.
func c02ChoiceSelectors(c *Ctx, r *Report, rule string) {
	n := 0
	for _, f := range c.ModFuncs {
		if f.Pkg != nil && strings.HasSuffix(f.Pkg.Pkg.Path(), "/cdr/asn") {
			continue
		}
		cnt := 0
		eachInstr(f, func(_ *ssa.BasicBlock, _ int, ins ssa.Instruction) {
			al, ok := ins.(*ssa.Alloc)
			if !ok {
				return
			}
			nt := namedOf(al.Type())
			if nt == nil || nt.Obj().Pkg() == nil || nt.Obj().Pkg().Path() != cdrTypePath {
				return
			}
			st, ok := nt.Underlying().(*types.Struct)
			if !ok || st.NumFields() < 2 || st.Field(0).Name() != "Present" {
				return
			}
			// stores into the members of this object
			var present []*ssa.Store
			filled := map[int]*ssa.Store{}
			for _, ref := range *al.Referrers() {
				fa, ok := ref.(*ssa.FieldAddr)
				if !ok {
					continue
				}
				for _, r2 := range *fa.Referrers() {
					sto, ok := r2.(*ssa.Store)
					if !ok || sto.Addr != ssa.Value(fa) {
						continue
					}
					if fa.Field == 0 {
						present = append(present, sto)
					} else if !isNilConst(sto.Val) {
						filled[fa.Field] = sto
					}
				}
			}
			if len(present) == 0 && len(filled) == 0 {
				return // declared, filled elsewhere (e.g. by the decoder)
			}
			cnt++
			n++
			key := fmt.Sprintf("%s|CHOICE %s #%d", fnKey(f), nt.Obj().Name(), cnt)
			if len(present) != 1 {
				r.viol(rule, key, posOf(c, al), fmt.Sprintf("the CHOICE value has %d assignments of Present (expected exactly one constant)", len(present)))
				return
			}
			k, isC := constInt(present[0].Val)
			if !isC {
				r.viol(rule, key, posOf(c, present[0]), "Present is not a constant: the selected alternative cannot be compared with the member that is filled")
				return
			}
			var names []string
			for idx := range filled {
				names = append(names, st.Field(idx).Name())
			}
			sort.Strings(names)
			okSel := len(filled) == 1 && filled[int(k)] != nil
			want := "?"
			if k >= 1 && int(k) < st.NumFields() {
				want = st.Field(int(k)).Name()
			}
			r.check(okSel, rule, key, posOf(c, present[0]), fmt.Sprintf("Present = %d selects %s, the member that is filled", k, want),
				fmt.Sprintf("Present = %d selects the alternative %s, but the member(s) filled are {%s}: the encoder uses Present as the member index, so it finds a nil alternative (marshalling fails, the session's later updates are refused) or encodes another value than the one given", k, want, strings.Join(names, ", ")))
		})
	}
	if n == 0 {
		r.viol(rule, "choices", "", "no CHOICE value is built by module code (anchor moved?)")
	}
}

// c02RecordsAgree (R9): the subscriber keeps every record twice: in ue.Cdr,
// keyed by the session reference (where updates and the release find it), and
// in ue.Records (what dumpCdrFile writes).  Wherever a record is published
// under a reference, that same record must be appended to the list, and what
// is appended to the list must be a record published in the same function -
// otherwise usage recorded through the map never reaches the file (or a closed
// record is written twice).
func c02RecordsAgree(c *Ctx, r *Report) {
	for _, f := range c.ModFuncs {
		if rootOf(f).Pkg == nil || !strings.HasPrefix(rootOf(f).Pkg.Pkg.Path(), modPath) {
			continue
		}
		type pub struct {
			ins      ssa.Instruction
			key, val ssa.Value
		}
		var pubs, apps []pub
		eachInstr(f, func(_ *ssa.BasicBlock, _ int, ins ssa.Instruction) {
			switch x := ins.(type) {
			case *ssa.MapUpdate:
				if n, ok := ueFieldOfValue(x.Map); ok && n == "Cdr" {
					pubs = append(pubs, pub{ins, x.Key, x.Value})
				}
			case *ssa.Store:
				fa, ok := x.Addr.(*ssa.FieldAddr)
				if !ok || !typeIs(fa.X.Type(), ctxPath, "ChfUe") || fieldName(fa) != "Records" {
					return
				}
				call, ok := x.Val.(*ssa.Call)
				if !ok {
					return
				}
				if b, ok := call.Call.Value.(*ssa.Builtin); !ok || b.Name() != "append" || len(call.Call.Args) != 2 {
					return
				}
				for _, e := range variadicElemsOrdered(call.Call.Args[1]) {
					apps = append(apps, pub{ins, nil, e})
				}
			}
		})
		if len(pubs) == 0 && len(apps) == 0 {
			continue
		}
		// a local whose address is taken stays in memory: two reads with no assignment
		// in between are the same value (store-to-load forwarding)
		resolve := func(v ssa.Value) ssa.Value {
			v = stripConv(v)
			for i := 0; i < 4; i++ {
				ld, ok := v.(*ssa.UnOp)
				if !ok || ld.Op != token.MUL {
					break
				}
				sv, ok := forwardLoad(ld)
				if !ok {
					sv, ok = localStoreBefore(ld)
				}
				if !ok {
					break
				}
				v = stripConv(sv)
			}
			return v
		}
		same := func(a pub, p pub) bool {
			if resolve(a.val) == resolve(p.val) {
				return true
			}
			if sameLocalReads(resolve(a.val), resolve(p.val)) {
				return true
			}
			// append(ue.Records, ue.Cdr[key]) right after ue.Cdr[key] = rec
			if lk, ok := stripConv(a.val).(*ssa.Lookup); ok {
				if n, ok := ueFieldOfValue(lk.X); ok && n == "Cdr" && lk.Index == p.key && instrDominates(p.ins, lk) {
					return true
				}
			}
			return false
		}
		for i, p := range pubs {
			ok := false
			for _, a := range apps {
				if same(a, p) {
					ok = true
				}
			}
			r.check(ok, "C02.R9", fmt.Sprintf("%s|record published #%d", fnKey(f), i+1), posOf(c, p.ins), "the record stored under the session reference is the one appended to ue.Records",
				"the record stored under the session reference ("+describe(p.val)+") is not the one appended to the subscriber's record list in "+shortFn(f)+": updates and the release write into a record that dumpCdrFile never sees - everything reported from here on is missing from the CDR file (and the record that was appended instead is written again)")
		}
		for i, a := range apps {
			ok := false
			for _, p := range pubs {
				if same(a, p) {
					ok = true
				}
			}
			r.check(ok, "C02.R9", fmt.Sprintf("%s|record listed #%d", fnKey(f), i+1), posOf(c, a.ins), "the record appended to ue.Records is the one stored under the session reference",
				"the record appended to the subscriber's record list ("+describe(a.val)+") is not the one stored under the session reference in "+shortFn(f)+": the list and the map of open records drift apart")
		}
	}
}

// localStoreBefore: ld reads a local variable that lives in memory; the value
// of the last assignment to it earlier in the same block, provided nothing in
// between is handed the variable's address.
func localStoreBefore(ld *ssa.UnOp) (ssa.Value, bool) {
	a, ok := ld.X.(*ssa.Alloc)
	if !ok {
		return nil, false
	}
	b := ld.Block()
	for i := instrIndex(ld) - 1; i >= 0; i-- {
		switch x := b.Instrs[i].(type) {
		case *ssa.Store:
			if x.Addr == ssa.Value(a) {
				return x.Val, true
			}
		case ssa.CallInstruction:
			for _, arg := range x.Common().Args {
				if arg == ssa.Value(a) {
					return nil, false
				}
			}
		}
	}
	return nil, false
}

// sameLocalReads: two reads of one local variable in one block with nothing in
// between that could assign it (no store to it, no call that is handed its
// address) yield the same value.
func sameLocalReads(x, y ssa.Value) bool {
	lx, ok1 := x.(*ssa.UnOp)
	ly, ok2 := y.(*ssa.UnOp)
	if !ok1 || !ok2 || lx.Op != token.MUL || ly.Op != token.MUL || lx.X != ly.X || lx.Block() != ly.Block() {
		return false
	}
	a, ok := lx.X.(*ssa.Alloc)
	if !ok {
		return false
	}
	i, j := instrIndex(lx), instrIndex(ly)
	if i > j {
		i, j = j, i
	}
	b := lx.Block()
	for k := i + 1; k < j; k++ {
		switch ins := b.Instrs[k].(type) {
		case *ssa.Store:
			if ins.Addr == ssa.Value(a) {
				return false
			}
		case ssa.CallInstruction:
			for _, arg := range ins.Common().Args {
				if arg == ssa.Value(a) {
					return false
				}
			}
		}
	}
	return true
}

// ---- which component a BCD digit of the time stamp is taken from

var c02TimeComponents = map[int64]string{0: "year", 1: "month", 2: "day", 3: "hour", 4: "minute", 5: "second", 7: "zone-hour", 8: "zone-minute"}

type c02Digit struct{ comp, digit string }

// c02DigitsOf: octet = hi<<4 | lo: the component and the digit (tens/units) of each nibble, as
// far as the expression names them.
func c02DigitsOf(v ssa.Value) (hi, lo c02Digit) {
	v = stripConvAll(v)
	bo, ok := v.(*ssa.BinOp)
	if !ok || (bo.Op != token.OR && bo.Op != token.ADD) {
		return
	}
	for _, pair := range [][2]ssa.Value{{bo.X, bo.Y}, {bo.Y, bo.X}} {
		sh, ok := stripConvAll(pair[0]).(*ssa.BinOp)
		if !ok {
			continue
		}
		if k, okk := constInt(sh.Y); okk && ((sh.Op == token.SHL && k == 4) || (sh.Op == token.MUL && k == 16)) {
			return c02Digit1(sh.X), c02Digit1(pair[1])
		}
	}
	return
}

func stripConvAll(v ssa.Value) ssa.Value {
	for i := 0; i < 8; i++ {
		switch x := v.(type) {
		case *ssa.Convert:
			v = x.X
		case *ssa.ChangeType:
			v = x.X
		default:
			return resolveMem(v)
		}
	}
	return v
}

func c02Digit1(v ssa.Value) c02Digit {
	v = stripConvAll(v)
	bo, ok := v.(*ssa.BinOp)
	if !ok {
		return c02Digit{}
	}
	k, isK := constInt(bo.Y)
	if !isK || k != 10 {
		return c02Digit{}
	}
	switch bo.Op {
	case token.QUO:
		return c02Digit{c02Component(bo.X), "tens"}
	case token.REM:
		return c02Digit{c02Component(bo.X), "units"}
	}
	return c02Digit{}
}

func c02Component(v ssa.Value) string {
	v = stripConvAll(v)
	isZone := func(v ssa.Value) bool { // the zone offset or its absolute value
		seen := map[ssa.Value]bool{}
		var visit func(v ssa.Value, d int) bool
		visit = func(v ssa.Value, d int) bool {
			v = stripConvAll(v)
			if d > 6 {
				return false
			}
			if _, isPhi := v.(*ssa.Phi); isPhi {
				if seen[v] {
					return true // round a loop: decided by the other edges
				}
				seen[v] = true
			}
			switch x := v.(type) {
			case *ssa.Extract:
				if call, ok := x.Tuple.(*ssa.Call); ok && x.Index == 1 && isFunc(calleeObj(&call.Call), "time", "Time.Zone") {
					return true
				}
			case *ssa.Phi:
				for _, e := range x.Edges {
					if !visit(e, d+1) {
						return false
					}
				}
				return len(x.Edges) > 0
			case *ssa.UnOp:
				if x.Op == token.SUB {
					return visit(x.X, d+1)
				}
			case *ssa.BinOp:
				if x.Op == token.SUB {
					if k, ok := constInt(x.X); ok && k == 0 {
						return visit(x.Y, d+1)
					}
				}
			}
			return false
		}
		return visit(v, 0)
	}
	switch x := v.(type) {
	case *ssa.Call:
		if obj := calleeObj(&x.Call); obj != nil && obj.Pkg() != nil && obj.Pkg().Path() == "time" {
			switch funcLocalName(obj) {
			case "Time.Year":
				return "year"
			case "Time.Month":
				return "month"
			case "Time.Day":
				return "day"
			case "Time.Hour":
				return "hour"
			case "Time.Minute":
				return "minute"
			case "Time.Second":
				return "second"
			}
		}
	case *ssa.Extract:
		if call, ok := x.Tuple.(*ssa.Call); ok {
			if obj := calleeObj(&call.Call); obj != nil && obj.Pkg() != nil && obj.Pkg().Path() == "time" {
				switch funcLocalName(obj) {
				case "Time.Date":
					return []string{"year", "month", "day"}[x.Index]
				case "Time.Clock":
					return []string{"hour", "minute", "second"}[x.Index]
				}
			}
		}
	case *ssa.BinOp:
		k, isK := constInt(x.Y)
		if !isK {
			return ""
		}
		inner := stripConvAll(x.X)
		switch {
		case x.Op == token.REM && k == 100 && c02Component(inner) == "year":
			return "year%100"
		case x.Op == token.QUO && k == 3600 && isZone(inner):
			return "zone-hour"
		case x.Op == token.REM && k == 60 && isZone(inner):
			return "seconds part of the zone offset"
		case x.Op == token.QUO && k == 60 && isZone(inner):
			return "zone offset in minutes (hours not taken off)"
		case x.Op == token.REM && k == 3600 && isZone(inner):
			return "zone offset modulo one hour, in seconds"
		case x.Op == token.QUO && k == 60:
			if ib, ok := inner.(*ssa.BinOp); ok && ib.Op == token.REM {
				if kk, ok := constInt(ib.Y); ok && kk == 3600 && isZone(stripConvAll(ib.X)) {
					return "zone-minute"
				}
			}
		case x.Op == token.REM && k == 60:
			if ib, ok := inner.(*ssa.BinOp); ok && ib.Op == token.QUO {
				if kk, ok := constInt(ib.Y); ok && kk == 60 && isZone(stripConvAll(ib.X)) {
					return "zone-minute"
				}
			}
		}
	}
	return ""
}

// c02ContinuationIdentity (C02.R13): the ChargingRecord literals built in ChargingDataUpdate
// (the split) assign every member OpenCDR assigns, except the usage list.
func c02ContinuationIdentity(c *Ctx, r *Report, rule string) {
	membersOf := func(f *ssa.Function) (map[string]bool, []*ssa.Alloc) {
		out := map[string]bool{}
		var lits []*ssa.Alloc
		eachInstr(f, func(_ *ssa.BasicBlock, _ int, ins ssa.Instruction) {
			a, ok := ins.(*ssa.Alloc)
			if !ok || !typeIs(a.Type(), cdrTypePath, "ChargingRecord") {
				return
			}
			if _, isPP := a.Type().Underlying().(*types.Pointer).Elem().Underlying().(*types.Pointer); isPP {
				return
			}
			lits = append(lits, a)
		})
		for _, lit := range lits {
			for _, ref := range *lit.Referrers() {
				if fa, ok := ref.(*ssa.FieldAddr); ok {
					for _, r2 := range *fa.Referrers() {
						if st, ok := r2.(*ssa.Store); ok && st.Addr == ssa.Value(fa) {
							out[fieldName(fa)] = true
						}
					}
				}
			}
		}
		// later assignments through the pointer (rec.X.Y = ..): the member X counts
		eachInstr(f, func(_ *ssa.BasicBlock, _ int, ins ssa.Instruction) {
			if st, ok := ins.(*ssa.Store); ok {
				if ap, ok := pathOf(st.Addr); ok && len(ap.Elems) > 0 {
					for _, lit := range lits {
						if ap.Root == ssa.Value(lit) {
							out[ap.Elems[0]] = true
						}
					}
				}
			}
		})
		return out, lits
	}
	open, _ := membersOf(c.fn("internal/sbi/processor", "Processor.OpenCDR"))
	upd := c.fn("internal/sbi/processor", "Processor.ChargingDataUpdate")
	got, lits := membersOf(upd)
	key := fnKey(upd) + "|identification of the continuation record"
	// a continuation record opened with OpenCDR takes charging id and consumer identification from
	// the *update* request, which may legally leave them out or carry other values than the create
	openFn := c.fn("internal/sbi/processor", "Processor.OpenCDR")
	reopened := ""
	eachInstr(upd, func(_ *ssa.BasicBlock, _ int, ins ssa.Instruction) {
		if call, ok := ins.(*ssa.Call); ok && call.Call.StaticCallee() == openFn && len(call.Call.Args) > 0 {
			// OpenCDR(.., partial=true) only renumbers the existing record: a call whose last
			// argument is true on the path (a constant, or the value the enclosing `if` tests)
			flag := call.Call.Args[len(call.Call.Args)-1]
			if k, isC := flag.(*ssa.Const); isC && k.Value != nil && k.Value.Kind() == constant.Bool && constant.BoolVal(k.Value) {
				return
			}
			for _, b := range upd.Blocks {
				if len(b.Instrs) == 0 || len(b.Succs) != 2 {
					continue
				}
				if ifi, ok := b.Instrs[len(b.Instrs)-1].(*ssa.If); ok && ifi.Cond == flag && edgeDominates(b, b.Succs[0], call.Block()) {
					return
				}
			}
			reopened = posOf(c, call)
		}
	})
	if reopened != "" {
		r.viol(rule, key, reopened, "the update opens a record with OpenCDR from its own request: the record that continues the session carries the charging id, consumer name and addresses of the update request - which may omit them or differ - instead of those given when the session was created; usage reported after the split is filed under another identification")
		return
	}
	if len(lits) == 0 {
		r.proven(rule, key, c.rel(upd.Pos()), "the update builds no ChargingRecord of its own: the continuation record is a copy made by the decoder (C02.R7) with its usage list emptied (C02.R6)")
		return
	}
	var missing []string
	for m := range open {
		if m == "ListOfMultipleUnitUsage" || got[m] {
			continue
		}
		missing = append(missing, m)
	}
	sort.Strings(missing)
	r.check(len(missing) == 0, rule, key, posOf(c, lits[0]), "every member the record opened at creation gets is assigned in the continuation record as well", "the record that continues a session after the 64 KiB split is built member by member and leaves out "+strings.Join(missing, ", ")+", which the record opened at creation carries: the usage reported after the split is filed in a record without that identification")
}
