package main

import (
	"bytes"
	"crypto/sha256"
	"encoding/hex"
	"encoding/json"
	"fmt"
	"os"
	"os/exec"
	"path/filepath"
	"sort"
	"strings"
	"sync"
	"time"
)

// Positive / negative controls (thorough tier): each patch under
// <verif>/mutants/<prop>/ is applied to a scratch copy of the repository under
// analysis; the same binary is run on the copy and must report the named rule
// (or stay silent for `expect_silent` controls: behaviour-preserving edits).

type controlMeta struct {
	Property     string `json:"property"`
	Name         string `json:"name"`
	Expect       string `json:"expect"`
	What         string `json:"what"`
	ExpectSilent bool   `json:"expect_silent"`
	ExpectProven string `json:"expect_proven"` // with expect_silent: this obligation key prefix must be PROVEN on the variant
}

type controlResult struct {
	Name    string `json:"name"`
	Expect  string `json:"expect"`
	Outcome string `json:"outcome"` // fired | silent-as-expected | skipped | MISSED | FALSE-ALARM | error
	Detail  string `json:"detail,omitempty"`
}

func runControls(c *Ctx, prop string) ([]controlResult, bool) {
	dir := filepath.Join(verifDir(), "mutants", prop)
	metas, _ := filepath.Glob(filepath.Join(dir, "*.json"))
	sort.Strings(metas)
	// the corpus of behaviour-preserving refactorings (written by independent
	// agents for all properties): every one must leave this property's check silent
	rfs, _ := filepath.Glob(filepath.Join(verifDir(), "refactorings", "C*", "r*.diff"))
	sort.Strings(rfs)
	results := make([]controlResult, len(metas)+len(rfs))
	exe, err := os.Executable()
	if err != nil {
		broken("controls: %v", err)
	}
	par := 8
	sem := make(chan struct{}, par)
	var wg sync.WaitGroup
	for i, mp := range metas {
		wg.Add(1)
		go func(i int, mp string) {
			defer wg.Done()
			sem <- struct{}{}
			defer func() { <-sem }()
			results[i] = runOneControl(c, exe, prop, mp, nil)
		}(i, mp)
	}
	for i, rp := range rfs {
		wg.Add(1)
		go func(i int, rp string) {
			defer wg.Done()
			sem <- struct{}{}
			defer func() { <-sem }()
			results[len(metas)+i] = runRefactoringControl(c, exe, prop, rp)
		}(i, rp)
	}
	wg.Wait()
	ok := true
	for _, r := range results {
		if r.Outcome == "MISSED" || r.Outcome == "FALSE-ALARM" || r.Outcome == "error" {
			ok = false
		}
	}
	return results, ok
}

func runOneControl(c *Ctx, exe, prop, metaPath string, given *controlMeta) controlResult {
	var m controlMeta
	patch := strings.TrimSuffix(metaPath, ".json") + ".patch"
	if given != nil {
		m = *given
		patch = metaPath
	} else {
		b, err := os.ReadFile(metaPath)
		if err != nil {
			return controlResult{Name: metaPath, Outcome: "error", Detail: err.Error()}
		}
		if err := json.Unmarshal(b, &m); err != nil {
			return controlResult{Name: metaPath, Outcome: "error", Detail: err.Error()}
		}
	}
	res := controlResult{Name: m.Name, Expect: m.Expect}
	if m.ExpectSilent {
		res.Expect = "(silent)"
	}
	tmp, err := os.MkdirTemp("", "chfverif.")
	if err != nil {
		res.Outcome, res.Detail = "error", err.Error()
		return res
	}
	defer os.RemoveAll(tmp)
	cp := exec.Command("rsync", "-a", "--exclude", ".git", c.RepoDir+"/", tmp+"/")
	if out, err := cp.CombinedOutput(); err != nil {
		res.Outcome, res.Detail = "error", "copy: "+string(out)
		return res
	}
	ap := exec.Command("patch", "-p1", "-s", "-f", "--no-backup-if-mismatch", "-i", patch)
	ap.Dir = tmp
	if out, err := ap.CombinedOutput(); err != nil {
		res.Outcome, res.Detail = "skipped", "control no longer applies to this tree: "+firstLine(string(out))
		return res
	}
	run := exec.Command(exe, "-repo", tmp, "-property", prop, "-evidence-dir", "none", "-rules")
	run.Env = append(os.Environ(), "CHFCHECK_VERIF="+verifDir())
	var out bytes.Buffer
	run.Stdout = &out
	run.Stderr = &out
	err = run.Run()
	code := 0
	if ee, ok := err.(*exec.ExitError); ok {
		code = ee.ExitCode()
	} else if err != nil {
		res.Outcome, res.Detail = "error", err.Error()
		return res
	}
	var viols, provens []string
	for _, line := range strings.Split(out.String(), "\n") {
		if strings.HasPrefix(line, "OB "+stViol+" ") {
			viols = append(viols, strings.TrimPrefix(line, "OB "+stViol+" "))
		}
		if strings.HasPrefix(line, "OB "+stProven+" ") {
			provens = append(provens, strings.TrimPrefix(line, "OB "+stProven+" "))
		}
	}
	if code == 2 {
		// the mutant does not type-check or the analyser could not decide
		if strings.Contains(out.String(), "has errors") {
			res.Outcome, res.Detail = "skipped", "mutant does not compile on this tree: "+firstLine(out.String())
		} else {
			res.Outcome, res.Detail = "error", firstLine(out.String())
		}
		return res
	}
	if m.ExpectSilent {
		if len(viols) == 0 && code == 0 {
			res.Outcome = "silent-as-expected"
			if m.ExpectProven != "" {
				found := false
				for _, pv := range provens {
					if strings.HasPrefix(pv, m.ExpectProven) {
						found = true
						res.Detail = "proven: " + pv
					}
				}
				if !found {
					res.Outcome, res.Detail = "MISSED", "expected "+m.ExpectProven+" to be PROVEN on the repaired variant"
				}
			}
		} else {
			res.Outcome, res.Detail = "FALSE-ALARM", strings.Join(viols, " ; ")
		}
		return res
	}
	for _, v := range viols {
		if strings.HasPrefix(v, m.Expect) {
			res.Outcome, res.Detail = "fired", v
			return res
		}
	}
	res.Outcome = "MISSED"
	if len(viols) > 0 {
		res.Detail = "other rules fired: " + strings.Join(viols, " ; ")
	}
	return res
}

// rfOutcome is what all checks said about one refactoring; it is computed once
// per (analysed tree, checker binary, refactoring) and shared by the thorough
// runs of the twenty properties through a scratch cache (an optimisation only:
// a missing or unreadable cache entry is recomputed).
type rfOutcome struct {
	Status string              `json:"status"` // ok | skipped | error
	Detail string              `json:"detail,omitempty"`
	Viols  map[string][]string `json:"viols"`  // property -> violated obligations
	Broken map[string]string   `json:"broken"` // property -> CHECKER-BROKEN message
}

var rfKeyOnce sync.Once
var rfKeyBase string

func rfCacheKey(c *Ctx, exe string) string {
	rfKeyOnce.Do(func() {
		h := sha256.New()
		if b, err := os.ReadFile(exe); err == nil {
			h.Write(b)
		}
		_ = filepath.Walk(c.RepoDir, func(path string, fi os.FileInfo, err error) error {
			if err != nil {
				return nil
			}
			if fi.IsDir() {
				if fi.Name() == ".git" {
					return filepath.SkipDir
				}
				return nil
			}
			if strings.HasSuffix(path, ".go") || fi.Name() == "go.mod" || fi.Name() == "go.sum" {
				rel, _ := filepath.Rel(c.RepoDir, path)
				h.Write([]byte(rel))
				if b, err := os.ReadFile(path); err == nil {
					h.Write(b)
				}
			}
			return nil
		})
		for _, extra := range []string{"known_findings.json", "reviewed.json", "chfcheck/baseline_funcs.txt"} {
			if b, err := os.ReadFile(filepath.Join(verifDir(), extra)); err == nil {
				h.Write(b)
			}
		}
		rfKeyBase = hex.EncodeToString(h.Sum(nil))[:24]
		// entries of other trees / binaries are of no use any more
		root := filepath.Join(os.TempDir(), "chfcheck-rfcache")
		if ents, err := os.ReadDir(root); err == nil {
			for _, e := range ents {
				if fi, err := e.Info(); err == nil && e.Name() != rfKeyBase && time.Since(fi.ModTime()) > 2*time.Hour {
					_ = os.RemoveAll(filepath.Join(root, e.Name()))
				}
			}
		}
	})
	return rfKeyBase
}

func runRefactoringControl(c *Ctx, exe, prop, rp string) controlResult {
	name := "refactoring_" + filepath.Base(filepath.Dir(rp)) + "_" + strings.TrimSuffix(filepath.Base(rp), ".diff")
	res := controlResult{Name: name, Expect: "(silent)"}
	diff, err := os.ReadFile(rp)
	if err != nil {
		res.Outcome, res.Detail = "error", err.Error()
		return res
	}
	dh := sha256.Sum256(diff)
	cdir := filepath.Join(os.TempDir(), "chfcheck-rfcache", rfCacheKey(c, exe))
	cfile := filepath.Join(cdir, name+"-"+hex.EncodeToString(dh[:8])+".json")
	var oc rfOutcome
	cached := false
	if os.Getenv("CHFCHECK_NO_RFCACHE") == "" {
		if b, err := os.ReadFile(cfile); err == nil && json.Unmarshal(b, &oc) == nil && oc.Status != "" {
			cached = true
		}
	}
	if !cached {
		oc = computeRefactoring(c, exe, rp)
		if oc.Status != "error" && os.MkdirAll(cdir, 0o755) == nil {
			if b, err := json.Marshal(oc); err == nil {
				tmp := cfile + fmt.Sprintf(".%d", os.Getpid())
				if os.WriteFile(tmp, b, 0o644) == nil {
					_ = os.Rename(tmp, cfile)
				}
			}
		}
	}
	switch {
	case oc.Status == "skipped":
		res.Outcome, res.Detail = "skipped", oc.Detail
	case oc.Status == "error":
		res.Outcome, res.Detail = "error", oc.Detail
	case oc.Broken[prop] != "":
		res.Outcome, res.Detail = "error", oc.Broken[prop]
	case len(oc.Viols[prop]) > 0:
		res.Outcome, res.Detail = "FALSE-ALARM", strings.Join(oc.Viols[prop], " ; ")
	default:
		res.Outcome = "silent-as-expected"
	}
	return res
}

func computeRefactoring(c *Ctx, exe, rp string) rfOutcome {
	oc := rfOutcome{Status: "ok", Viols: map[string][]string{}, Broken: map[string]string{}}
	tmp, err := os.MkdirTemp("", "chfverif.")
	if err != nil {
		return rfOutcome{Status: "error", Detail: err.Error()}
	}
	defer os.RemoveAll(tmp)
	cp := exec.Command("rsync", "-a", "--exclude", ".git", c.RepoDir+"/", tmp+"/")
	if out, err := cp.CombinedOutput(); err != nil {
		return rfOutcome{Status: "error", Detail: "copy: " + string(out)}
	}
	ap := exec.Command("patch", "-p1", "-s", "-f", "--no-backup-if-mismatch", "-i", rp)
	ap.Dir = tmp
	if out, err := ap.CombinedOutput(); err != nil {
		return rfOutcome{Status: "skipped", Detail: "refactoring no longer applies to this tree: " + firstLine(string(out))}
	}
	run := exec.Command(exe, "-repo", tmp, "-property", "all", "-evidence-dir", "none", "-rules")
	run.Env = append(os.Environ(), "CHFCHECK_VERIF="+verifDir())
	var out bytes.Buffer
	run.Stdout = &out
	run.Stderr = &out
	err = run.Run()
	if _, isExit := err.(*exec.ExitError); err != nil && !isExit {
		return rfOutcome{Status: "error", Detail: err.Error()}
	}
	for _, line := range strings.Split(out.String(), "\n") {
		if strings.HasPrefix(line, "OB "+stViol+" ") {
			v := strings.TrimPrefix(line, "OB "+stViol+" ")
			if len(v) >= 3 {
				oc.Viols[v[:3]] = append(oc.Viols[v[:3]], v)
			}
		}
		if strings.HasPrefix(line, "CHECKER-BROKEN: property=") {
			rest := strings.TrimPrefix(line, "CHECKER-BROKEN: property=")
			if len(rest) >= 3 {
				oc.Broken[rest[:3]] = firstLine(rest)
			}
		} else if strings.HasPrefix(line, "CHECKER-BROKEN: ") {
			if strings.Contains(line, "has errors") {
				return rfOutcome{Status: "skipped", Detail: "refactoring does not compile on this tree: " + firstLine(line)}
			}
			return rfOutcome{Status: "error", Detail: firstLine(line)}
		}
	}
	return oc
}

func firstLine(s string) string {
	s = strings.TrimSpace(s)
	if i := strings.Index(s, "\n"); i >= 0 {
		s = s[:i]
	}
	if len(s) > 300 {
		s = s[:300]
	}
	return s
}

func summariseControls(rs []controlResult) map[string]any {
	cnt := map[string]int{}
	for _, r := range rs {
		cnt[r.Outcome]++
	}
	return map[string]any{"total": len(rs), "by_outcome": cnt, "results": rs,
		"note": fmt.Sprintf("each control is a patch of /verif/mutants applied to a scratch copy of the analysed tree; 'fired' = the named rule reported the mutated construct; 'skipped' = patch no longer applies; refactoring_* controls are the behaviour-preserving refactorings of /verif/refactorings, each analysed once by all checks per (tree, checker binary) and shared between the properties' thorough runs")}
}
