package main

import (
	"bytes"
	"encoding/json"
	"fmt"
	"os"
	"os/exec"
	"path/filepath"
	"sort"
	"strings"
	"sync"
)

// Positive / negative controls (thorough tier): each patch under
// <verif>/mutants/<prop>/ is applied to a scratch copy of the repository under
// analysis; the same binary is run on the copy and must report the named rule
// (or stay silent for `expect_silent` controls: behaviour-preserving edits).

type controlMeta struct {
	Property     string `json:"property"`
	Name         string `json:"name"`
	Expect       string `json:"expect"`
	What         string `json:"what"`
	ExpectSilent bool   `json:"expect_silent"`
	ExpectProven string `json:"expect_proven"` // with expect_silent: this obligation key prefix must be PROVEN on the variant
}

type controlResult struct {
	Name    string `json:"name"`
	Expect  string `json:"expect"`
	Outcome string `json:"outcome"` // fired | silent-as-expected | skipped | MISSED | FALSE-ALARM | error
	Detail  string `json:"detail,omitempty"`
}

func runControls(c *Ctx, prop string) ([]controlResult, bool) {
	dir := filepath.Join(verifDir(), "mutants", prop)
	metas, _ := filepath.Glob(filepath.Join(dir, "*.json"))
	sort.Strings(metas)
	results := make([]controlResult, len(metas))
	exe, err := os.Executable()
	if err != nil {
		broken("controls: %v", err)
	}
	par := 6
	sem := make(chan struct{}, par)
	var wg sync.WaitGroup
	for i, mp := range metas {
		wg.Add(1)
		go func(i int, mp string) {
			defer wg.Done()
			sem <- struct{}{}
			defer func() { <-sem }()
			results[i] = runOneControl(c, exe, prop, mp)
		}(i, mp)
	}
	wg.Wait()
	ok := true
	for _, r := range results {
		if r.Outcome == "MISSED" || r.Outcome == "FALSE-ALARM" || r.Outcome == "error" {
			ok = false
		}
	}
	return results, ok
}

func runOneControl(c *Ctx, exe, prop, metaPath string) controlResult {
	var m controlMeta
	b, err := os.ReadFile(metaPath)
	if err != nil {
		return controlResult{Name: metaPath, Outcome: "error", Detail: err.Error()}
	}
	if err := json.Unmarshal(b, &m); err != nil {
		return controlResult{Name: metaPath, Outcome: "error", Detail: err.Error()}
	}
	res := controlResult{Name: m.Name, Expect: m.Expect}
	if m.ExpectSilent {
		res.Expect = "(silent)"
	}
	patch := strings.TrimSuffix(metaPath, ".json") + ".patch"
	tmp, err := os.MkdirTemp("", "chfverif.")
	if err != nil {
		res.Outcome, res.Detail = "error", err.Error()
		return res
	}
	defer os.RemoveAll(tmp)
	cp := exec.Command("rsync", "-a", "--exclude", ".git", c.RepoDir+"/", tmp+"/")
	if out, err := cp.CombinedOutput(); err != nil {
		res.Outcome, res.Detail = "error", "copy: "+string(out)
		return res
	}
	ap := exec.Command("patch", "-p1", "-s", "-f", "--no-backup-if-mismatch", "-i", patch)
	ap.Dir = tmp
	if out, err := ap.CombinedOutput(); err != nil {
		res.Outcome, res.Detail = "skipped", "control no longer applies to this tree: "+firstLine(string(out))
		return res
	}
	run := exec.Command(exe, "-repo", tmp, "-property", prop, "-evidence-dir", "none", "-rules")
	run.Env = append(os.Environ(), "CHFCHECK_VERIF="+verifDir())
	var out bytes.Buffer
	run.Stdout = &out
	run.Stderr = &out
	err = run.Run()
	code := 0
	if ee, ok := err.(*exec.ExitError); ok {
		code = ee.ExitCode()
	} else if err != nil {
		res.Outcome, res.Detail = "error", err.Error()
		return res
	}
	var viols, provens []string
	for _, line := range strings.Split(out.String(), "\n") {
		if strings.HasPrefix(line, "OB "+stViol+" ") {
			viols = append(viols, strings.TrimPrefix(line, "OB "+stViol+" "))
		}
		if strings.HasPrefix(line, "OB "+stProven+" ") {
			provens = append(provens, strings.TrimPrefix(line, "OB "+stProven+" "))
		}
	}
	if code == 2 {
		// the mutant does not type-check or the analyser could not decide
		if strings.Contains(out.String(), "has errors") {
			res.Outcome, res.Detail = "skipped", "mutant does not compile on this tree: "+firstLine(out.String())
		} else {
			res.Outcome, res.Detail = "error", firstLine(out.String())
		}
		return res
	}
	if m.ExpectSilent {
		if len(viols) == 0 && code == 0 {
			res.Outcome = "silent-as-expected"
			if m.ExpectProven != "" {
				found := false
				for _, pv := range provens {
					if strings.HasPrefix(pv, m.ExpectProven) {
						found = true
						res.Detail = "proven: " + pv
					}
				}
				if !found {
					res.Outcome, res.Detail = "MISSED", "expected "+m.ExpectProven+" to be PROVEN on the repaired variant"
				}
			}
		} else {
			res.Outcome, res.Detail = "FALSE-ALARM", strings.Join(viols, " ; ")
		}
		return res
	}
	for _, v := range viols {
		if strings.HasPrefix(v, m.Expect) {
			res.Outcome, res.Detail = "fired", v
			return res
		}
	}
	res.Outcome = "MISSED"
	if len(viols) > 0 {
		res.Detail = "other rules fired: " + strings.Join(viols, " ; ")
	}
	return res
}

func firstLine(s string) string {
	s = strings.TrimSpace(s)
	if i := strings.Index(s, "\n"); i >= 0 {
		s = s[:i]
	}
	if len(s) > 300 {
		s = s[:300]
	}
	return s
}

func summariseControls(rs []controlResult) map[string]any {
	cnt := map[string]int{}
	for _, r := range rs {
		cnt[r.Outcome]++
	}
	return map[string]any{"total": len(rs), "by_outcome": cnt, "results": rs,
		"note": fmt.Sprintf("each control is a patch of /verif/mutants applied to a scratch copy of the analysed tree; 'fired' = the named rule reported the mutated construct; 'skipped' = patch no longer applies")}
}
