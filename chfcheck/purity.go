package main

import (
	"go/token"
	"go/types"
	"sort"
	"strings"

	"golang.org/x/tools/go/ssa"
)

// Effect analysis for the codec: "the result is a function of the arguments
// only".  A function that writes package-level state on the encode / decode
// path makes the result depend on what was processed earlier.  The one
// accepted idiom is a memo table keyed by the identity of the Go type
// (a key of static type reflect.Type): Go type identity is the only key under
// which two different types can never share an entry (names, String() and
// PkgPath+Name collide for function-local types and same-named packages).

type stateWrite struct {
	ins     ssa.Instruction
	global  *ssa.Global
	how     string
	keyType types.Type // for map / sync.Map writes
}

// globalRoot follows an address or value back to the package-level variable
// it is rooted in, if any.
func globalRoot(v ssa.Value) *ssa.Global {
	for i := 0; i < 32 && v != nil; i++ {
		switch x := v.(type) {
		case *ssa.Global:
			return x
		case *ssa.FieldAddr:
			v = x.X
		case *ssa.IndexAddr:
			v = x.X
		case *ssa.Field:
			v = x.X
		case *ssa.Index:
			v = x.X
		case *ssa.UnOp:
			if x.Op != token.MUL {
				return nil
			}
			v = x.X
		case *ssa.Slice:
			v = x.X
		case *ssa.ChangeType:
			v = x.X
		case *ssa.Convert:
			v = x.X
		default:
			return nil
		}
	}
	return nil
}

var syncMapWriters = map[string]bool{"Store": true, "LoadOrStore": true, "Swap": true, "CompareAndSwap": true, "Delete": true, "LoadAndDelete": true, "CompareAndDelete": true, "Clear": true}

func stateWritesOf(f *ssa.Function) []stateWrite {
	var ws []stateWrite
	eachInstr(f, func(_ *ssa.BasicBlock, _ int, ins ssa.Instruction) {
		switch x := ins.(type) {
		case *ssa.Store:
			if g := globalRoot(x.Addr); g != nil {
				ws = append(ws, stateWrite{ins: ins, global: g, how: "assignment"})
			}
		case *ssa.MapUpdate:
			if g := globalRoot(x.Map); g != nil {
				ws = append(ws, stateWrite{ins: ins, global: g, how: "map update", keyType: x.Key.Type()})
			}
		case ssa.CallInstruction:
			com := x.Common()
			obj := calleeObj(com)
			if obj == nil || obj.Pkg() == nil {
				return
			}
			switch obj.Pkg().Path() {
			case "sync":
				recv := obj.Type().(*types.Signature).Recv()
				if recv == nil || len(com.Args) == 0 {
					return
				}
				g := globalRoot(com.Args[0])
				if g == nil {
					return
				}
				rn := types.TypeString(recv.Type(), func(*types.Package) string { return "" })
				if strings.HasSuffix(rn, "Map") && syncMapWriters[obj.Name()] {
					w := stateWrite{ins: ins, global: g, how: "sync.Map." + obj.Name()}
					if len(com.Args) > 1 {
						k := com.Args[1]
						switch mi := k.(type) {
						case *ssa.MakeInterface:
							k = mi.X
						case *ssa.ChangeInterface:
							k = mi.X
						}
						w.keyType = k.Type()
					}
					ws = append(ws, w)
				}
			case "sync/atomic":
				if len(com.Args) > 0 {
					if g := globalRoot(com.Args[0]); g != nil && (strings.HasPrefix(obj.Name(), "Add") || strings.HasPrefix(obj.Name(), "Store") || strings.HasPrefix(obj.Name(), "Swap") || strings.HasPrefix(obj.Name(), "CompareAndSwap")) {
						ws = append(ws, stateWrite{ins: ins, global: g, how: "atomic " + obj.Name()})
					}
				}
			}
		}
	})
	return ws
}

func isReflectType(t types.Type) bool {
	if t == nil {
		return false
	}
	n, ok := t.(*types.Named)
	return ok && n.Obj().Pkg() != nil && n.Obj().Pkg().Path() == "reflect" && n.Obj().Name() == "Type"
}

// codecPurity emits one obligation per function of pkgPath reachable from the
// roots ("writes no package-level state, or only a memo table keyed by type
// identity") and one per package-level variable those functions read
// ("assigned at initialisation only").
func codecPurity(c *Ctx, r *Report, roots []*ssa.Function, pkgPath, rule, what string) {
	reachSet, _ := c.reach(roots)
	var fs []*ssa.Function
	for f := range reachSet {
		rf := rootOf(f)
		if rf != nil && rf.Pkg != nil && rf.Pkg.Pkg.Path() == pkgPath && len(f.Blocks) > 0 {
			fs = append(fs, f)
		}
	}
	sort.Slice(fs, func(i, j int) bool { return fs[i].String() < fs[j].String() })
	read := map[*ssa.Global]bool{}
	for _, f := range fs {
		ws := stateWritesOf(f)
		key := fnKey(f) + "|package-level state"
		bad := ""
		memo := 0
		pos := c.rel(f.Pos())
		for _, w := range ws {
			if w.keyType != nil && isReflectType(w.keyType) {
				memo++
				continue
			}
			pos = posOf(c, w.ins)
			if w.keyType != nil {
				bad = w.how + " of " + w.global.Name() + " keyed by a " + types.TypeString(w.keyType, func(p *types.Package) string { return p.Name() }) + " (not by the reflect.Type itself: names and String() of distinct types can coincide, so one type's entry is served for another)"
			} else {
				bad = w.how + " to " + w.global.Name()
			}
			break
		}
		okMsg := "writes no package-level state"
		if memo > 0 {
			okMsg = "writes only a memo table keyed by reflect.Type identity"
		}
		r.check(bad == "", rule, key, pos, okMsg, "on the "+what+" path "+f.Name()+" performs a "+bad+": the result then depends on what was processed before, not only on the arguments")
		eachInstr(f, func(_ *ssa.BasicBlock, _ int, ins ssa.Instruction) {
			for _, op := range ins.Operands(nil) {
				if op == nil || *op == nil {
					continue
				}
				if g, ok := (*op).(*ssa.Global); ok && g.Pkg != nil && strings.HasPrefix(g.Pkg.Pkg.Path(), modPath) {
					read[g] = true
				}
			}
		})
	}
	// package-level variables used on the path are assigned at initialisation only
	var gs []*ssa.Global
	for g := range read {
		gs = append(gs, g)
	}
	sort.Slice(gs, func(i, j int) bool { return gs[i].String() < gs[j].String() })
	inFs := map[*ssa.Function]bool{}
	for _, f := range fs {
		inFs[f] = true
	}
	for _, g := range gs {
		bad := ""
		pos := c.rel(g.Pos())
		for _, f := range c.ModFuncs {
			if inFs[f] {
				continue // reported above
			}
			if f.Name() == "init" && f.Signature.Recv() == nil {
				continue
			}
			for _, w := range stateWritesOf(f) {
				if w.global == g && !(w.keyType != nil && isReflectType(w.keyType)) {
					bad = fnKey(f)
					pos = posOf(c, w.ins)
				}
			}
		}
		r.check(bad == "", rule, "variable "+g.Pkg.Pkg.Name()+"."+g.Name()+"|assigned at initialisation only", pos, "read on the "+what+" path, assigned only by the package initialiser", "package-level variable "+g.Name()+" is read on the "+what+" path and modified by "+bad+": the result depends on when that ran")
	}
}

// handlerStateless: a Diameter handler is one function value that serves every
// request of every connection.  Anything it keeps outside its own frame - a
// variable of the enclosing function captured by the closure and assigned or
// handed out by address, or a package-level variable it writes - survives from
// one request to the next: fields an answer does not set keep the previous
// request's values (go-diameter's Unmarshal only sets AVPs that are present),
// and concurrent connections share it.  One obligation per handler closure.
func handlerStateless(c *Ctx, r *Report, rule, rel, outerName string) bool {
	ok := handlerStateless1(c, r, rule, rel, outerName)
	// what is registered for the command may be the handler wrapped in something else
	// (mux.Handle("CCR", answerOnce(handleCCR()))): the wrappers are handlers too
	inner := c.fn(rel, outerName)
	for _, f := range c.ModFuncs {
		if f.Pkg == nil || f.Pkg != inner.Pkg {
			continue
		}
		eachInstr(f, func(_ *ssa.BasicBlock, _ int, ins ssa.Instruction) {
			call, isCall := ins.(*ssa.Call)
			if !isCall {
				return
			}
			obj := calleeObj(&call.Call)
			if obj == nil || (obj.Name() != "Handle" && obj.Name() != "HandleFunc" && obj.Name() != "HandleIdx") || len(call.Call.Args) < 2 {
				return
			}
			// the handler argument: follow module calls that take the inner handler
			v := stripConv(call.Call.Args[len(call.Call.Args)-1])
			for depth := 0; depth < 4; depth++ {
				if mi, isMI := v.(*ssa.MakeInterface); isMI {
					v = stripConv(mi.X)
				}
				if mc, isMC := v.(*ssa.MakeClosure); isMC {
					// a literal built where the handler is registered (a wrapper that was inlined)
					if lit, isFn := mc.Fn.(*ssa.Function); isFn {
						if !checkHandlerFns(c, r, rule, f, withAnon(lit)) {
							ok = false
						}
					}
					return
				}
				wc, isWrap := v.(*ssa.Call)
				if !isWrap {
					return
				}
				g := wc.Call.StaticCallee()
				if g == nil || g == inner || !c.inModule(g) {
					return
				}
				wrapsInner := false
				var next ssa.Value
				for _, a := range wc.Call.Args {
					if ic, isIC := stripConv(a).(*ssa.Call); isIC {
						if ic.Call.StaticCallee() == inner {
							wrapsInner = true
						} else {
							next = ic
						}
					}
				}
				if !handlerStateless1(c, r, rule, rel, g.Name()) {
					ok = false
				}
				if wrapsInner || next == nil {
					return
				}
				v = next
			}
		})
	}
	return ok
}

func handlerStateless1(c *Ctx, r *Report, rule, rel, outerName string) bool {
	outer := c.fn(rel, outerName)
	// the handler(s): the literal(s) of the constructor, or the named function / method it returns
	var handlers []*ssa.Function
	seenH := map[*ssa.Function]bool{outer: true}
	for _, f := range withAnon(outer) {
		if !seenH[f] {
			seenH[f] = true
			handlers = append(handlers, f)
		}
	}
	for _, h := range returnedFuncs(outer) {
		for _, f := range withAnon(h) {
			if !seenH[f] {
				seenH[f] = true
				handlers = append(handlers, f)
			}
		}
	}
	return checkHandlerFns(c, r, rule, outer, handlers)
}

// checkHandlerFns: the statelessness obligations for the given handler functions (closures of
// outer, or functions it returns).
func checkHandlerFns(c *Ctx, r *Report, rule string, outer *ssa.Function, handlers []*ssa.Function) bool {
	ok := true
	for _, f := range handlers {
		bad := ""
		pos := c.rel(f.Pos())
		for _, fv := range f.FreeVars {
			for _, ref := range *fv.Referrers() {
				written := ""
				switch x := ref.(type) {
				case *ssa.UnOp:
					// a read - but what is read may be a reference (pointer, map, slice) to an
					// object that outlives the request: written through it?
					if why := writtenThrough(c, x, 0, map[ssa.Value]bool{}); why != "" {
						written = "a reference to an object that lives across requests, and the handler writes it (" + why + ")"
					} else {
						continue
					}
				case *ssa.Store:
					if x.Addr == ssa.Value(fv) {
						written = "assigned"
					}
				case *ssa.FieldAddr, *ssa.IndexAddr:
					// a member of the captured variable: written if stored through or handed out
					for _, r2 := range *x.(ssa.Value).Referrers() {
						switch y := r2.(type) {
						case *ssa.Store:
							if y.Addr == x.(ssa.Value) {
								written = "assigned (member)"
							}
						case ssa.CallInstruction:
							written = "handed out by address to " + callName(y)
						}
					}
				case ssa.CallInstruction:
					written = "handed out by address to " + callName(x)
				case *ssa.MakeInterface, *ssa.MakeClosure:
					written = "handed out by address"
				}
				if written != "" && bad == "" {
					bad = "captured variable " + fv.Name() + " of " + outer.Name() + " is " + written
					pos = posOf(c, ref)
				}
			}
		}
		for _, w := range stateWritesOf(f) {
			if bad == "" {
				bad = "package-level variable " + w.global.Name() + " is written (" + w.how + ")"
				pos = posOf(c, w.ins)
			}
		}
		// objects recycled through a sync.Pool carry the previous request's contents
		// unless they are reset as a whole before use
		eachInstr(f, func(_ *ssa.BasicBlock, _ int, ins ssa.Instruction) {
			call, ok := ins.(*ssa.Call)
			if !ok || bad != "" {
				return
			}
			obj := calleeObj(&call.Call)
			if obj == nil || obj.Pkg() == nil || obj.Pkg().Path() != "sync" || obj.Name() != "Get" {
				return
			}
			recv := obj.Type().(*types.Signature).Recv()
			if recv == nil || !strings.HasSuffix(types.TypeString(recv.Type(), nil), "sync.Pool") {
				return
			}
			reset := false
			for _, ref := range *call.Referrers() {
				ta, ok := ref.(*ssa.TypeAssert)
				if !ok {
					continue
				}
				for _, r2 := range *ta.Referrers() {
					var ptr ssa.Value = ta
					if ex, ok := r2.(*ssa.Extract); ok && ex.Index == 0 {
						ptr = ex
					}
					for _, r3 := range *ptr.Referrers() {
						if st, ok := r3.(*ssa.Store); ok && st.Addr == ptr {
							if k, ok := st.Val.(*ssa.Const); ok && k.Value == nil {
								reset = true
							}
						}
					}
				}
			}
			if !reset {
				bad = "a working object is taken from a sync.Pool and used without being reset as a whole (*p = T{})"
				pos = posOf(c, call)
			}
		})
		if !r.check(bad == "", rule, fnKey(f)+"|no state kept between requests", pos, "the handler's working variables are local to one invocation", "the handler closure keeps state between requests: "+bad+" - members an incoming message does not set keep the previous request's values (e.g. the subscriber of the previous request is debited, the previous grant is repeated), and connections race on it") {
			ok = false
		}
	}
	return ok
}

// writtenThrough: v is a value of reference kind (or an address derived from one); does the
// function - or a module function it hands v to - store through it?  Returns a description
// of the first write found, "" when there is none.  Library callees are taken to read only,
// except the mutators of sync.Map / sync/atomic / containers (named below).
func writtenThrough(c *Ctx, v ssa.Value, depth int, seen map[ssa.Value]bool) string {
	if seen[v] || depth > 4 {
		return ""
	}
	seen[v] = true
	switch v.Type().Underlying().(type) {
	case *types.Pointer, *types.Map, *types.Slice, *types.Chan, *types.Interface:
	default:
		return ""
	}
	refs := v.Referrers()
	if refs == nil {
		return ""
	}
	for _, ref := range *refs {
		switch x := ref.(type) {
		case *ssa.Store:
			if x.Addr == v {
				return "assignment at " + c.rel(x.Pos())
			}
		case *ssa.MapUpdate:
			if x.Map == v {
				return "map entry assigned at " + c.rel(x.Pos())
			}
		case *ssa.FieldAddr:
			if w := writtenThrough(c, x, depth, seen); w != "" {
				return w
			}
		case *ssa.IndexAddr:
			if w := writtenThrough(c, x, depth, seen); w != "" {
				return w
			}
		case *ssa.UnOp:
			if x.Op == token.MUL {
				if w := writtenThrough(c, x, depth, seen); w != "" {
					return w
				}
			}
		case *ssa.Phi, *ssa.ChangeType, *ssa.Convert, *ssa.Slice:
			if w := writtenThrough(c, x.(ssa.Value), depth, seen); w != "" {
				return w
			}
		case *ssa.Send:
			if x.Chan == v {
				return "sent on at " + c.rel(x.Pos())
			}
		case ssa.CallInstruction:
			com := x.Common()
			if bi, ok := com.Value.(*ssa.Builtin); ok {
				if (bi.Name() == "delete" || bi.Name() == "clear" || bi.Name() == "copy") && len(com.Args) > 0 && com.Args[0] == v {
					return bi.Name() + " at " + c.rel(x.Pos())
				}
				continue
			}
			callee := com.StaticCallee()
			if callee != nil && c.inModule(callee) && callee.Blocks != nil {
				for i, a := range com.Args {
					if a == v && i < len(callee.Params) {
						if w := writtenThrough(c, callee.Params[i], depth+1, seen); w != "" {
							return w + " in " + callee.Name()
						}
					}
				}
				continue
			}
			obj := calleeObj(com)
			if obj == nil || obj.Pkg() == nil {
				continue
			}
			first := len(com.Args) > 0 && com.Args[0] == v || com.IsInvoke() && com.Value == v
			if !first {
				continue
			}
			switch obj.Pkg().Path() {
			case "sync", "sync/atomic", "container/list", "container/heap", "container/ring":
				for _, p := range []string{"Store", "Add", "Swap", "CompareAnd", "LoadOr", "LoadAnd", "Delete", "Clear", "Push", "Insert", "Remove", "Move", "Put", "And", "Or"} {
					if strings.HasPrefix(obj.Name(), p) {
						return obj.Pkg().Name() + "." + obj.Name() + " at " + c.rel(x.Pos())
					}
				}
			}
		}
	}
	return ""
}

func callName(ci ssa.CallInstruction) string {
	if obj := calleeObj(ci.Common()); obj != nil {
		return obj.Name()
	}
	return "a call"
}
