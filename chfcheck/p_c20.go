package main

import (
	"fmt"
	"go/constant"
	"go/token"
	"go/types"
	"reflect"
	"sort"
	"strings"

	"golang.org/x/tools/go/ssa"
)

// C20: validated configurations start without crashing; invalid ones are rejected.

const factoryPath = modPath + "/pkg/factory"

func init() { register("C20", "other", checkC20) }

func checkC20(c *Ctx, r *Report) {
	r.Explanation = "Soundness of validation relative to what the runtime dereferences, decided over the whole configuration space by types instead of by sample files: (R1) a guarantee table is computed from the `valid` struct tags of pkg/factory - a pointer-typed section is guaranteed present iff its tag contains `required` (govalidator rejects a nil required pointer and visits nested structs); (R2) every dereference of a configuration pointer member anywhere in the module either is dominated by a non-nil test of the same access path or concerns a guaranteed member; (R3) rejection clauses: the service-name switch of Configuration.validate has an error default and accepts exactly the names the router registers, the registered `scheme` validator accepts exactly the schemes startServer serves, ReadConfig returns an error whenever Validate does, and the configuration in use comes from ReadConfig; (R4) each function that calls govalidator.ValidateStruct hands a non-nil error to its caller whenever the validator reported one - directly or through a helper that returns nil only for a nil argument."
	r.Undecided = []string{"value-level validators (host, port, url, in(...))", "semantics of govalidator beyond required/nested traversal (trusted)", "runtime failures that are not nil dereferences (ports in use, unreadable certificates)"}
	r.Trusted = append(r.Trusted, "govalidator.ValidateStruct fails for a nil pointer field tagged required and descends into nested struct pointers")
	r.Exhaustive = true
	r.rule("C20.R1", "guarantee table from the valid tags of every pointer-typed configuration member", 8)
	r.rule("C20.R2", "every dereference of a configuration pointer member is guarded or guaranteed by validation", 20)
	r.rule("C20.R3", "rejection clauses: service names, scheme, ReadConfig error propagation, provenance of the configuration in use", 5)
	r.rule("C20.R5", "building the router cannot register a path twice for a validated service list: distinct constant prefixes per service, no service mounted twice", 4)
	r.rule("C20.R6", "the hand-written validation passes, which run before ValidateStruct has evaluated the `required` tags, test every configuration section for nil before they use it", 1)
	r.rule("C20.R4", "a validation failure reported by ValidateStruct is never dropped on its way to ReadConfig", 3)

	fp := c.pkg("pkg/factory")
	cfgT := c.namedType("pkg/factory", "Config")
	// R1: walk struct types reachable from Config inside the package
	guaranteed := map[*types.Var]bool{}
	optional := map[*types.Var]bool{}
	seen := map[*types.Named]bool{}
	var walk func(n *types.Named)
	walk = func(n *types.Named) {
		if seen[n] {
			return
		}
		seen[n] = true
		st, ok := n.Underlying().(*types.Struct)
		if !ok {
			return
		}
		for i := 0; i < st.NumFields(); i++ {
			f := st.Field(i)
			tag := reflect.StructTag(st.Tag(i)).Get("valid")
			if pt, ok := f.Type().Underlying().(*types.Pointer); ok {
				req := false
				for _, part := range strings.Split(tag, ",") {
					if strings.TrimSpace(part) == "required" {
						req = true
					}
				}
				key := n.Obj().Name() + "." + f.Name()
				if req {
					guaranteed[f] = true
					r.proven("C20.R1", key, c.rel(f.Pos()), "valid:\""+tag+"\": guaranteed non-nil by validation")
				} else {
					optional[f] = true
					r.proven("C20.R1", key, c.rel(f.Pos()), "valid:\""+tag+"\": may be absent - every dereference needs its own nil test (R2)")
				}
				if pn := namedOf(pt.Elem()); pn != nil && pn.Obj().Pkg() == fp.Types {
					walk(pn)
				}
			} else if fn := namedOf(f.Type()); fn != nil && fn.Obj().Pkg() == fp.Types {
				walk(fn)
			}
		}
	}
	walk(cfgT)
	r.count("config_struct_types", len(seen))
	r.count("guaranteed_pointer_members", len(guaranteed))
	r.count("optional_pointer_members", len(optional))

	// R2: nil-guard analysis with the optional members as sources, over the whole module
	ne := newNilEngine(c, func(owner *types.Named, fld *types.Var) bool {
		return owner.Obj().Pkg() == fp.Types && !guaranteed[fld]
	})
	// also count the dereferences of guaranteed members (as discharged by the table)
	neAll := newNilEngine(c, func(owner *types.Named, fld *types.Var) bool {
		return owner.Obj().Pkg() == fp.Types
	})
	nder := 0
	for _, f := range c.ModFuncs {
		cnt := map[string]int{}
		optSites := map[ssa.Instruction]nilSite{}
		for _, s := range ne.sites(f) {
			optSites[s.ins] = s
		}
		for _, s := range neAll.sites(f) {
			nder++
			member := strings.Join(s.path.Elems, ".")
			if member == "" {
				member = describe(s.ptr)
			}
			cnt[member]++
			key := fmt.Sprintf("%s|%s#%d", fnKey(f), member, cnt[member])
			if os, isOpt := optSites[s.ins]; isOpt {
				if os.guarded {
					r.proven("C20.R2", key, posOf(c, s.ins), "optional member, "+os.how)
				} else {
					r.viol("C20.R2", key, posOf(c, s.ins), "configuration member "+member+" is not guaranteed by validation (its valid tag lacks `required`) and is dereferenced without a nil test: a configuration that validates but omits the block crashes here")
				}
			} else {
				r.proven("C20.R2", key, posOf(c, s.ins), "member guaranteed present by its `required` tag")
			}
		}
	}
	r.count("config_pointer_dereferences", nder)
	c20OptionalReceivers(c, r, "C20.R2", optional)

	// R3a: service names
	validate := c.fn("pkg/factory", "Configuration.validate")
	accepted := stringConstsComparedIn(validate)
	newRouter := c.fn("internal/sbi", "newRouter")
	routed := stringConstsComparedIn(newRouter)
	aKeys, rKeys := sortedKeys(accepted), sortedKeys(routed)
	r.check(len(aKeys) > 0 && strings.Join(aKeys, ",") == strings.Join(rKeys, ","), "C20.R3", "service-names", c.rel(validate.Pos()),
		"validation accepts exactly the service names the router registers: "+strings.Join(aKeys, ", "),
		"validation accepts {"+strings.Join(aKeys, ", ")+"} but the router registers {"+strings.Join(rKeys, ", ")+"}: an accepted name yields no routes or an unknown one is served")
	// default case returns an error: some return of validate has a non-nil error built by errors.New/fmt.Errorf
	// reachable only when no name matched
	defErr := false
	for _, ri := range returnsOf(validate) {
		if len(ri.Vals) == 2 {
			// the error returned may be built where it is returned, or reach the return through a
			// result variable (an extracted `validateServiceNameList` whose error the caller hands on)
			for _, lf := range leavesOf(ri.Vals[1]) {
				call, ok := lf.val.(*ssa.Call)
				if !ok {
					continue
				}
				if obj := calleeObj(&call.Call); obj != nil && (isFunc(obj, "errors", "New") || isFunc(obj, "fmt", "Errorf")) {
					// inside the loop over the service list, and on the path on which no name matched: not
					// reachable (within the iteration) from the matching edge of any name comparison
					at := call.Block()
					if lf.from == nil && call.Block() == ri.Ret.Block() {
						at = ri.At
					}
					if (inCycle(at) || dominatedByRange(call)) && !reachedFromNameMatch(validate, at) {
						defErr = true
					}
				}
			}
		}
	}
	r.check(defErr, "C20.R3", "service-name-default", c.rel(validate.Pos()), "an unknown service name makes validate return a non-nil error", "Configuration.validate no longer rejects an unknown service name")

	// R3b: scheme validator vs startServer
	sbiValidate := c.fn("pkg/factory", "Sbi.validate")
	var schemeFn *ssa.Function
	eachInstr(sbiValidate, func(_ *ssa.BasicBlock, _ int, ins ssa.Instruction) {
		if mu, ok := ins.(*ssa.MapUpdate); ok {
			if k, ok := constString(mu.Key); ok && k == "scheme" {
				switch v := stripConv(mu.Value).(type) {
				case *ssa.MakeClosure:
					schemeFn, _ = v.Fn.(*ssa.Function)
				case *ssa.Function:
					schemeFn = v
				}
			}
		}
	})
	if schemeFn == nil {
		r.viol("C20.R3", "scheme-validator", c.rel(sbiValidate.Pos()), "no validator registered for the `scheme` tag: govalidator then ignores or rejects the tag")
	} else {
		acc := stringConstsComparedIn(schemeFn)
		start := c.fn("internal/sbi", "Server.startServer")
		served := stringConstsComparedIn(start)
		a, s := sortedKeys(acc), sortedKeys(served)
		r.check(len(a) > 0 && strings.Join(a, ",") == strings.Join(s, ","), "C20.R3", "scheme", c.rel(schemeFn.Pos()),
			"the scheme validator accepts exactly the schemes startServer serves: "+strings.Join(a, ", "),
			"the scheme validator accepts {"+strings.Join(a, ", ")+"} but startServer serves {"+strings.Join(s, ", ")+"}")
		// what is compared is the configured value itself: the value is used as configured
		// everywhere else (startServer, context initialisation, the NF profile)
		raw, derived := 0, ""
		for _, g := range withAnon(schemeFn) {
			eachInstr(g, func(_ *ssa.BasicBlock, _ int, ins ssa.Instruction) {
				bo, ok := ins.(*ssa.BinOp)
				if !ok || (bo.Op != token.EQL && bo.Op != token.NEQ) {
					return
				}
				x, y := bo.X, bo.Y
				if _, isC := x.(*ssa.Const); isC {
					x, y = y, x
				}
				if k, isC := y.(*ssa.Const); !isC || k.Value == nil || k.Value.Kind() != constant.String {
					return
				}
				isParam := false
				for _, p := range g.Params {
					if stripConv(x) == ssa.Value(p) {
						isParam = true
					}
				}
				if isParam {
					raw++
				} else {
					derived = describe(x) + " at " + posOf(c, bo)
				}
			})
		}
		r.check(raw > 0 && derived == "", "C20.R3", "scheme-as-configured", c.rel(schemeFn.Pos()), "the validator compares the configured value itself with the served schemes",
			"the scheme validator compares a derived form of the configured value ("+derived+") with the served schemes: a value that differs from them in case or surrounding blanks is accepted, and the code that uses the value as configured (the https test of the context initialisation, startServer) does not recognise it - a scheme other than http / https passes validation")
	}

	// R3c: ReadConfig propagates the validation error
	read := c.fn("pkg/factory", "ReadConfig")
	var vcall *ssa.Call
	eachInstr(read, func(_ *ssa.BasicBlock, _ int, ins ssa.Instruction) {
		if call, ok := ins.(*ssa.Call); ok && isFunc(calleeObj(&call.Call), factoryPath, "Config.Validate") {
			vcall = call
		}
	})
	if vcall == nil {
		r.viol("C20.R3", "read-validates", c.rel(read.Pos()), "ReadConfig does not call Validate")
	} else {
		var errv ssa.Value
		for _, ref := range *vcall.Referrers() {
			if ex, ok := ref.(*ssa.Extract); ok && ex.Index == 1 {
				errv = ex
			}
		}
		ok := false
		why := "no branch on the error of Validate"
		if errv != nil {
			for _, ref := range *errv.Referrers() {
				bo, isBo := ref.(*ssa.BinOp)
				if !isBo || (bo.Op != token.NEQ && bo.Op != token.EQL) {
					continue
				}
				if !(isNilConst(bo.X) || isNilConst(bo.Y)) {
					continue
				}
				for _, r2 := range *bo.Referrers() {
					ifi, isIf := r2.(*ssa.If)
					if !isIf {
						continue
					}
					// `if err != nil {..}` or the guard form `if err == nil { return cfg, nil }`
					errEdge := ifi.Block().Succs[0]
					if bo.Op == token.EQL {
						errEdge = ifi.Block().Succs[1]
					}
					reach := reachableFrom(errEdge, nil, nil, nil)
					all := true
					n := 0
					for _, ri := range returnsOf(read) {
						if !reach[ri.At] || !edgeDominates(ifi.Block(), errEdge, ri.At) {
							continue
						}
						n++
						if len(ri.Vals) != 2 || isNilConst(ri.Vals[1]) || !isNilConst(ri.Vals[0]) {
							all = false
						}
					}
					// success return must not be reachable from the error edge
					for _, ri := range returnsOf(read) {
						if reach[ri.At] && len(ri.Vals) == 2 && isNilConst(ri.Vals[1]) {
							all = false
						}
					}
					if n > 0 && all {
						ok = true
					} else {
						why = "a path on which Validate failed returns a configuration / a nil error"
					}
				}
			}
		}
		r.check(ok, "C20.R3", "read-propagates", posOf(c, vcall), "every return on the error edge of Validate is (nil, non-nil error)", why)
	}
	// R3d: ChfConfig is only assigned from ReadConfig's result (non-test code)
	nstore := 0
	okAll := true
	for _, f := range c.ModFuncs {
		eachInstr(f, func(_ *ssa.BasicBlock, _ int, ins ssa.Instruction) {
			st, ok := ins.(*ssa.Store)
			if !ok {
				return
			}
			g, ok := st.Addr.(*ssa.Global)
			if !ok || g.Name() != "ChfConfig" || g.Pkg.Pkg.Path() != factoryPath {
				return
			}
			nstore++
			fromRead := false
			for d := range depSet(f, st.Val) {
				if call, ok := d.(*ssa.Call); ok && isFunc(calleeObj(&call.Call), factoryPath, "ReadConfig") {
					fromRead = true
				}
			}
			if !fromRead {
				okAll = false
				r.viol("C20.R3", "config-provenance|"+fnKey(f), posOf(c, ins), "factory.ChfConfig is assigned a configuration that did not pass ReadConfig/Validate")
			}
		})
	}
	if okAll && nstore > 0 {
		r.proven("C20.R3", "config-provenance", "", fmt.Sprintf("%d assignment(s) of factory.ChfConfig, all from ReadConfig", nstore))
	}
	c20ErrorsNotDropped(c, r, "C20.R4")
	c20DistinctRouteGroups(c, r, "C20.R5")
	c20ValidationGuardsItself(c, r, "C20.R6")
}

// c20DistinctRouteGroups (C20.R5): gin panics when a path is registered twice.  Two things
// keep a validated service list from doing that while the router is built: (a) the services
// mount their routes under pairwise different constant prefixes; (b) no service is mounted
// twice - validation refuses a repeated name (an error exit of the loop over the list that
// depends on a set look-up or on a comparison with another element), or the router skips it.
func c20DistinctRouteGroups(c *Ctx, r *Report, rule string) {
	newRouter := c.fn("internal/sbi", "newRouter")
	prefixes := map[string][]string{}
	n := 0
	for _, f := range withAnon(newRouter) {
		eachInstr(f, func(_ *ssa.BasicBlock, _ int, ins ssa.Instruction) {
			call, ok := ins.(*ssa.Call)
			if !ok {
				return
			}
			obj := calleeObj(&call.Call)
			if obj == nil || obj.Pkg() == nil || obj.Pkg().Path() != ginPath || obj.Name() != "Group" || len(call.Call.Args) < 2 {
				return
			}
			n++
			// a constant, or one constant per service (a result variable assigned in the cases of a switch)
			allConst := true
			for _, lf := range leavesOf(resolveMem(call.Call.Args[1])) {
				p, ok := constString(resolveMem(lf.val))
				if !ok {
					allConst = false
					continue
				}
				if p != "" { // "" is the no-such-service exit, which mounts nothing
					prefixes[p] = append(prefixes[p], posOf(c, call))
				}
			}
			if !allConst {
				r.viol(rule, fmt.Sprintf("%s|group#%d", fnKey(newRouter), n), posOf(c, call), "the prefix of a route group is not a constant: cannot tell whether two services share a path")
			}
		})
	}
	for _, p := range sortedKeys(prefixes) {
		at := prefixes[p]
		r.check(len(at) == 1, rule, fnKey(newRouter)+"|group "+p, at[0], "mounted once", "the route groups created at "+strings.Join(at, " and ")+" have the same prefix "+p+": a configuration that names both services passes validation and gin panics (\"handlers are already registered for path\") while the SBI server is built")
	}
	if n == 0 {
		r.viol(rule, fnKey(newRouter)+"|groups", c.rel(newRouter.Pos()), "no route group is created in newRouter (anchor moved)")
	}
	// (a') inside one route table: two patterns that agree up to a wildcard segment must name it alike
	// (gin: "':X' in new path conflicts with existing wildcard ':Y'" - a panic while the router is built)
	sbiPkg := c.pkg("internal/sbi")
	for _, g := range c.ModFuncs {
		if g.Pkg == nil || g.Pkg.Pkg != sbiPkg.Types || g.Parent() != nil {
			continue
		}
		var pats []string
		eachInstr(g, func(_ *ssa.BasicBlock, _ int, ins ssa.Instruction) {
			st, ok := ins.(*ssa.Store)
			if !ok {
				return
			}
			fa, ok := st.Addr.(*ssa.FieldAddr)
			if !ok || fieldName(fa) != "Pattern" {
				return
			}
			if s, ok := constString(st.Val); ok {
				pats = append(pats, s)
			}
		})
		if len(pats) < 2 {
			continue
		}
		conflict := ""
		wild := map[string]string{} // path prefix -> wildcard name seen there
		for _, p := range pats {
			segs := strings.Split(strings.Trim(p, "/"), "/")
			prefix := ""
			for _, sg := range segs {
				if strings.HasPrefix(sg, ":") || strings.HasPrefix(sg, "*") {
					if prev, ok := wild[prefix]; ok && prev != sg {
						conflict = fmt.Sprintf("%q and %q name the wildcard after %q differently", prev, sg, prefix)
					}
					wild[prefix] = sg
					prefix += "/" + ":"
				} else {
					prefix += "/" + sg
				}
			}
		}
		r.check(conflict == "", rule, fnKey(g)+"|wildcards of the route table", c.rel(g.Pos()), fmt.Sprintf("%d patterns, wildcard segments named consistently", len(pats)), "in the route table of "+g.Name()+" "+conflict+": gin refuses the second registration with a panic, so a validated configuration that lists this service crashes while the SBI server is built")
	}
	// (b) a repeated name
	dedup := func(f *ssa.Function) bool {
		found := false
		for _, b := range f.Blocks {
			if len(b.Instrs) == 0 || len(b.Succs) != 2 {
				continue
			}
			iff, ok := b.Instrs[len(b.Instrs)-1].(*ssa.If)
			if !ok || !inCycle(b) {
				continue
			}
			viaSet := false
			for d := range depSet(f, iff.Cond) {
				switch x := d.(type) {
				case *ssa.Lookup:
					if _, isMap := x.X.Type().Underlying().(*types.Map); isMap {
						viaSet = true
					}
				case *ssa.Call:
					if obj := calleeObj(&x.Call); obj != nil && obj.Pkg() != nil && (obj.Pkg().Path() == "slices" || obj.Pkg().Path() == "golang.org/x/exp/slices") && (strings.HasPrefix(obj.Name(), "Contains") || strings.HasPrefix(obj.Name(), "Index")) {
						viaSet = true
					}
				}
			}
			// ... or a comparison of two elements of the list with each other
			if bo, ok := iff.Cond.(*ssa.BinOp); ok && (bo.Op == token.EQL || bo.Op == token.NEQ) && !viaSet {
				elems := 0
				for _, op := range []ssa.Value{bo.X, bo.Y} {
					for d := range depSet(f, op) {
						if ia, ok := d.(*ssa.IndexAddr); ok {
							for d2 := range depSet(f, ia.X) {
								if fa, ok := d2.(*ssa.FieldAddr); ok && fieldName(fa) == "ServiceNameList" {
									elems++
								}
							}
							break
						}
					}
				}
				if elems >= 2 {
					viaSet = true
				}
			}
			if !viaSet {
				continue
			}
			// one edge must leave the iteration early: an error return, or a continue that skips the mounting
			for _, sc := range b.Succs {
				for _, ri := range returnsOf(f) {
					if len(ri.Vals) > 0 && !isNilConst(ri.Vals[len(ri.Vals)-1]) && edgeDominates(b, sc, ri.At) {
						found = true
					}
				}
				if len(sc.Succs) == 1 && inCycle(sc) && len(sc.Instrs) <= 2 {
					found = true // `continue`
				}
			}
		}
		return found
	}
	validate := c.fn("pkg/factory", "Configuration.validate")
	okDedup := dedup(validate) || dedup(newRouter)
	r.check(okDedup, rule, "service named twice", c.rel(validate.Pos()), "a repeated service name is refused by validation (or skipped by the router)",
		"a service name that is listed twice passes validation, and newRouter mounts the same routes twice: gin panics (\"handlers are already registered for path\") while the SBI server of the validated configuration is built")
}

// stringConstsComparedIn: the string constants a function compares (==) some
// value with - the case list of its switch / condition chain.
func stringConstsComparedIn(f *ssa.Function) map[string]bool {
	out := map[string]bool{}
	for _, g := range withAnon(f) {
		if g != f && g.Parent() == f {
			// nested literals belong to other concerns (middleware closures)
			continue
		}
		eachInstr(g, func(_ *ssa.BasicBlock, _ int, ins ssa.Instruction) {
			bo, ok := ins.(*ssa.BinOp)
			if !ok || (bo.Op != token.EQL && bo.Op != token.NEQ) {
				return
			}
			for _, v := range []ssa.Value{bo.X, bo.Y} {
				if cst, ok := v.(*ssa.Const); ok && cst.Value != nil && cst.Value.Kind() == constant.String {
					s := constant.StringVal(cst.Value)
					if s != "" {
						out[s] = true
					}
				}
			}
		})
	}
	return out
}

// reachedFromNameMatch: blk can be reached, without going round the loop, from the edge on
// which a comparison of a string with a constant succeeded (== true edge, != false edge).
func reachedFromNameMatch(f *ssa.Function, blk *ssa.BasicBlock) bool {
	heads := map[*ssa.BasicBlock]bool{}
	for _, b := range f.Blocks {
		for _, p := range b.Preds {
			if b.Dominates(p) {
				heads[b] = true
			}
		}
	}
	for _, b := range f.Blocks {
		if len(b.Instrs) == 0 || len(b.Succs) != 2 {
			continue
		}
		iff, ok := b.Instrs[len(b.Instrs)-1].(*ssa.If)
		if !ok {
			continue
		}
		bo, ok := iff.Cond.(*ssa.BinOp)
		if !ok || (bo.Op != token.EQL && bo.Op != token.NEQ) {
			continue
		}
		isName := false
		for _, v := range []ssa.Value{bo.X, bo.Y} {
			if s, ok := constString(v); ok && s != "" {
				isName = true
			}
		}
		if !isName {
			continue
		}
		match := b.Succs[0]
		if bo.Op == token.NEQ {
			match = b.Succs[1]
		}
		if match == blk || threadedReachAvoid(b, match, heads)[blk] {
			return true
		}
	}
	return false
}

// dominatedByRange: the instruction lies in a block dominated by a loop head.
func dominatedByRange(ins ssa.Instruction) bool {
	for _, b := range ins.Parent().Blocks {
		if inCycle(b) && b.Dominates(ins.Block()) {
			return true
		}
	}
	return false
}

var _ = sort.Strings

// ---- R4: a validation failure is never dropped on its way to the caller ----
//
// govalidator.ValidateStruct reports failures as its error result.  Each
// function of pkg/factory that calls it must hand a non-nil error to its own
// caller whenever that result is non-nil: it returns the result itself, or
// passes it through a module function that returns nil only when its argument
// is nil.  (A helper that filters the error list and returns nil when nothing
// is left silently accepts configurations whose only defects sit in nested
// sections - they are reported as one nested element.)
func c20ErrorsNotDropped(c *Ctx, r *Report, rule string) {
	fp := c.pkg("pkg/factory")
	n := 0
	for _, f := range c.ModFuncs {
		if f.Pkg == nil || f.Pkg.Pkg != fp.Types {
			continue
		}
		eachInstr(f, func(_ *ssa.BasicBlock, _ int, ins ssa.Instruction) {
			call, ok := ins.(*ssa.Call)
			if !ok {
				return
			}
			obj := calleeObj(&call.Call)
			if obj == nil || obj.Pkg() == nil {
				return
			}
			what := ""
			switch {
			case strings.HasSuffix(obj.Pkg().Path(), "govalidator") && obj.Name() == "ValidateStruct":
				what = "ValidateStruct"
			case obj.Pkg() == fp.Types && (obj.Name() == "validate" || obj.Name() == "Validate"):
				if sig, ok := obj.Type().(*types.Signature); ok && sig.Results().Len() == 2 && isErrorType(sig.Results().At(1).Type()) {
					what = funcLocalName(obj)
				}
			}
			if what == "" {
				return
			}
			var errV ssa.Value
			for _, ref := range *call.Referrers() {
				if ex, ok := ref.(*ssa.Extract); ok && ex.Index == 1 {
					errV = ex
				}
			}
			n++
			key := fmt.Sprintf("%s|result of %s #%d", fnKey(f), what, n)
			if errV == nil {
				r.viol(rule, key, posOf(c, call), "the error result of ValidateStruct is discarded")
				return
			}
			bad := ""
			nret := 0
			// where the failure is known: the non-nil edges of tests of the result, or -
			// when it is never tested - everything after the call
			var failBlocks map[*ssa.BasicBlock]bool
			for _, b := range f.Blocks {
				if len(b.Instrs) == 0 {
					continue
				}
				ifi, ok := b.Instrs[len(b.Instrs)-1].(*ssa.If)
				if !ok {
					continue
				}
				bo, ok := ifi.Cond.(*ssa.BinOp)
				if !ok || (bo.Op != token.EQL && bo.Op != token.NEQ) || !((bo.X == errV && isNilConst(bo.Y)) || (bo.Y == errV && isNilConst(bo.X))) {
					continue
				}
				succ := b.Succs[0]
				if bo.Op == token.EQL {
					succ = b.Succs[1]
				}
				if failBlocks == nil {
					failBlocks = map[*ssa.BasicBlock]bool{}
				}
				for bb := range reachableFrom(succ, nil, nil, nil) {
					failBlocks[bb] = true
				}
			}
			for _, ri := range returnsOf(f) {
				if len(ri.Vals) == 0 {
					continue
				}
				if failBlocks != nil {
					if !failBlocks[ri.At] {
						continue
					}
				} else if !canReach(call, ri.Point()) {
					continue
				}
				nret++
				v := ri.Vals[len(ri.Vals)-1]
				if why := preservesNonNil(c, v, errV, 0); why != "" {
					bad = why
				}
			}
			if nret == 0 {
				bad = "no return follows the validation"
			}
			r.check(bad == "", rule, key, posOf(c, call), "every return after the validation hands on its error (directly or through a helper that returns nil only for a nil argument)", "a validation failure can be dropped: "+bad+" - a configuration whose defects are reported this way is accepted and later dereferenced")
		})
	}
}

// preservesNonNil: is v non-nil whenever src is?  "" = yes, otherwise why not.
func preservesNonNil(c *Ctx, v, src ssa.Value, depth int) string {
	if v == src {
		return ""
	}
	switch x := v.(type) {
	case *ssa.Call:
		if obj := calleeObj(&x.Call); obj != nil && (isFunc(obj, "fmt", "Errorf") || isFunc(obj, "errors", "New")) {
			return "" // a freshly made error is never nil
		}
		sc := x.Call.StaticCallee()
		if sc == nil || !c.inModule(sc) || len(sc.Blocks) == 0 || depth > 2 {
			return "the error is passed through " + callName(x) + ", which cannot be inspected"
		}
		argIdx := -1
		for i, a := range x.Call.Args {
			if a == src {
				argIdx = i
			}
		}
		if argIdx < 0 {
			return "the returned error " + describe(v) + " does not derive from the validation result"
		}
		return nilOnlyIfParamNil(c, sc, sc.Params[argIdx], depth)
	case *ssa.Phi:
		for _, e := range x.Edges {
			if why := preservesNonNil(c, e, src, depth); why != "" {
				return why
			}
		}
		return ""
	}
	return "the returned error " + describe(v) + " does not derive from the validation result"
}

// nilOnlyIfParamNil: every return of g yields a non-nil error unless it lies on
// the `p == nil` edge.
func nilOnlyIfParamNil(c *Ctx, g *ssa.Function, p *ssa.Parameter, depth int) string {
	for _, ri := range returnsOf(g) {
		if len(ri.Vals) == 0 {
			continue
		}
		v := ri.Vals[len(ri.Vals)-1]
		leaves := []ssa.Value{v}
		if ph, ok := v.(*ssa.Phi); ok {
			leaves = ph.Edges
		}
		for _, lf := range leaves {
			switch y := lf.(type) {
			case *ssa.MakeInterface:
				if _, isPtr := y.X.Type().Underlying().(*types.Pointer); !isPtr {
					continue // an interface holding a non-pointer value is never nil
				}
				return g.Name() + " may return a nil pointer wrapped in an error"
			case *ssa.Call:
				if obj := calleeObj(&y.Call); obj != nil && (isFunc(obj, "fmt", "Errorf") || isFunc(obj, "errors", "New")) {
					continue
				}
				return g.Name() + " returns the result of " + callName(y)
			case *ssa.Parameter:
				if y == p {
					continue
				}
				return g.Name() + " returns another parameter"
			case *ssa.Const:
				if !y.IsNil() {
					continue
				}
				// nil: only on the edge where the parameter was tested nil
				onNilEdge := false
				for _, b := range g.Blocks {
					if len(b.Instrs) == 0 {
						continue
					}
					ifi, ok := b.Instrs[len(b.Instrs)-1].(*ssa.If)
					if !ok {
						continue
					}
					bo, ok := ifi.Cond.(*ssa.BinOp)
					if !ok || (bo.Op != token.EQL && bo.Op != token.NEQ) {
						continue
					}
					if !((bo.X == ssa.Value(p) && isNilConst(bo.Y)) || (bo.Y == ssa.Value(p) && isNilConst(bo.X))) {
						continue
					}
					succ := b.Succs[0]
					if bo.Op == token.NEQ {
						succ = b.Succs[1]
					}
					if edgeDominates(b, succ, ri.At) {
						onNilEdge = true
					}
				}
				if !onNilEdge {
					return g.Name() + " returns nil (at " + posOf(c, ri.Ret) + ") on a path where its argument is not known to be nil"
				}
			default:
				return g.Name() + " returns " + describe(lf)
			}
		}
	}
	return ""
}

// onNilEdgeOf: block b is reached only over the edge of a test that found v nil.
func onNilEdgeOf(f *ssa.Function, v ssa.Value, blk *ssa.BasicBlock) bool {
	for _, b := range f.Blocks {
		if len(b.Instrs) == 0 {
			continue
		}
		ifi, ok := b.Instrs[len(b.Instrs)-1].(*ssa.If)
		if !ok {
			continue
		}
		bo, ok := ifi.Cond.(*ssa.BinOp)
		if !ok || (bo.Op != token.EQL && bo.Op != token.NEQ) {
			continue
		}
		if !((bo.X == v && isNilConst(bo.Y)) || (bo.Y == v && isNilConst(bo.X))) {
			continue
		}
		succ := b.Succs[0]
		if bo.Op == token.NEQ {
			succ = b.Succs[1]
		}
		if edgeDominates(b, succ, blk) {
			return true
		}
	}
	return false
}
