package main

import (
	"fmt"
	"go/token"
	"go/types"
	"math/big"
	"sort"
	"strings"

	"golang.org/x/tools/go/ssa"
)

// Digit-count analysis: an exact abstract interpretation of the small integer
// loops that decide how many octets a tag number, a length or an INTEGER value
// is written in.
//
// One input x ranges over an interval.  Every integer SSA value is either a
// constant, the input shifted - (x + a) >> sh - or unknown.  A comparison of a
// shifted input with a constant is monotone in x, so a branch splits the
// interval exactly into the part that takes the true edge and the part that
// takes the false edge; loops unroll because each part is followed on its own.
// The result is a partition of the input range into intervals, each with the
// constant number of octets computed for it (or "left without an octet
// count").  No input value is ever executed: the pieces are intervals, and the
// verdict (enough octets, and no more than needed) is a comparison of interval
// bounds with powers of the base.

type dkind int

const (
	dUnknown dkind = iota
	dConst
	dShift
)

type dval struct {
	kind dkind
	k    int64 // dConst
	a    int64 // dShift: (x + a) >> sh, or (-x + a) >> sh when neg
	sh   uint
	neg  bool
}

func (v dval) String() string {
	switch v.kind {
	case dConst:
		return fmt.Sprint(v.k)
	case dShift:
		s := "x"
		if v.neg {
			s = "-x"
		}
		if v.a != 0 {
			s = fmt.Sprintf("(%s%+d)", s, v.a)
		}
		if v.sh != 0 {
			s += fmt.Sprintf(">>%d", v.sh)
		}
		return s
	}
	return "?"
}

type dpiece struct {
	lo, hi int64
	// outcome
	observed bool
	val      dval   // value observed (octet count)
	end      string // how the path ended when nothing was observed: "return", "unknown condition at ...", "step limit"
}

type drun struct {
	c       *Ctx
	f       *ssa.Function
	env     map[ssa.Value]dval
	mem     map[string]dval
	observe func(ins ssa.Instruction, r *drun) (dval, bool)
	steps   int
	depth   int
	out     *[]dpiece
}

func (r *drun) clone() *drun {
	n := *r
	n.env = map[ssa.Value]dval{}
	for k, v := range r.env {
		n.env[k] = v
	}
	n.mem = map[string]dval{}
	for k, v := range r.mem {
		n.mem[k] = v
	}
	return &n
}

func memKeyOf(addr ssa.Value) (string, bool) {
	switch x := addr.(type) {
	case *ssa.Alloc:
		return fmt.Sprintf("%p", x), true
	case *ssa.FieldAddr:
		b, ok := memKeyOf(x.X)
		if !ok {
			return "", false
		}
		st := derefStruct(x.X.Type())
		if st == nil {
			return "", false
		}
		return b + "." + st.Field(x.Field).Name(), true
	}
	return "", false
}

func (r *drun) val(v ssa.Value) dval {
	if k, ok := constInt(v); ok {
		return dval{kind: dConst, k: k}
	}
	if d, ok := r.env[v]; ok {
		return d
	}
	return dval{}
}

// threshold returns the smallest x with (x + a) >> sh >= m, as a big integer.
func threshold(m int64, a int64, sh uint) *big.Int {
	t := new(big.Int).Lsh(big.NewInt(m), sh)
	if m < 0 {
		// Lsh of a negative big.Int multiplies by 2^sh: correct for arithmetic shift
	}
	return t.Sub(t, big.NewInt(a))
}

func clampBig(t *big.Int) int64 {
	if t.IsInt64() {
		return t.Int64()
	}
	if t.Sign() > 0 {
		return int64(^uint64(0) >> 1)
	}
	return -int64(^uint64(0)>>1) - 1
}

// splitGE: the sub-intervals of [lo,hi] on which v >= m holds / fails.
func splitGE(lo, hi int64, v dval, m int64) (tlo, thi int64, tok bool, flo, fhi int64, fok bool) {
	if v.neg {
		// (-x + a) >> sh >= m  <=>  -x + a >= m << sh  <=>  x <= a - (m << sh)
		T := new(big.Int).Lsh(big.NewInt(m), v.sh)
		T.Sub(big.NewInt(v.a), T)
		if T.Cmp(big.NewInt(hi)) >= 0 {
			return lo, hi, true, 0, 0, false
		}
		if T.Cmp(big.NewInt(lo)) < 0 {
			return 0, 0, false, lo, hi, true
		}
		tt := clampBig(T)
		return lo, tt, true, tt + 1, hi, true
	}
	t := threshold(m, v.a, v.sh)
	if t.Cmp(big.NewInt(lo)) <= 0 {
		return lo, hi, true, 0, 0, false
	}
	if t.Cmp(big.NewInt(hi)) > 0 {
		return 0, 0, false, lo, hi, true
	}
	tt := clampBig(t)
	return tt, hi, true, lo, tt - 1, true
}

// run interprets from block b (coming from prev) for the input interval [lo,hi].
func (r *drun) run(b, prev *ssa.BasicBlock, lo, hi int64) {
outer:
	for {
		r.steps++
		if r.steps > 4000 {
			*r.out = append(*r.out, dpiece{lo: lo, hi: hi, end: "step limit"})
			return
		}
		// phis first, simultaneously
		if prev != nil {
			idx := -1
			for i, p := range b.Preds {
				if p == prev {
					idx = i
				}
			}
			upd := map[ssa.Value]dval{}
			for _, ins := range b.Instrs {
				ph, ok := ins.(*ssa.Phi)
				if !ok {
					break
				}
				if idx >= 0 {
					upd[ph] = r.val(ph.Edges[idx])
				}
			}
			for k, v := range upd {
				r.env[k] = v
			}
		}
		for _, ins := range b.Instrs {
			if r.observe != nil {
				if v, ok := r.observe(ins, r); ok {
					*r.out = append(*r.out, dpiece{lo: lo, hi: hi, observed: true, val: v})
					return
				}
			}
			switch x := ins.(type) {
			case *ssa.Phi:
			case *ssa.BinOp:
				r.env[x] = r.binop(x)
			case *ssa.Convert:
				r.env[x] = r.val(x.X) // integer conversions inside the analysed ranges are value preserving (ranges are chosen inside both types)
			case *ssa.ChangeType:
				r.env[x] = r.val(x.X)
			case *ssa.UnOp:
				if x.Op == token.MUL {
					if k, ok := memKeyOf(x.X); ok {
						if v, ok := r.mem[k]; ok {
							r.env[x] = v
						}
					}
				} else if x.Op == token.SUB || x.Op == token.XOR {
					// -v, and ^v = -v - 1
					v := r.val(x.X)
					switch {
					case v.kind == dConst && x.Op == token.SUB:
						r.env[x] = dval{kind: dConst, k: -v.k}
					case v.kind == dConst:
						r.env[x] = dval{kind: dConst, k: ^v.k}
					case v.kind == dShift && v.sh == 0:
						nv := dval{kind: dShift, neg: !v.neg, a: -v.a}
						if x.Op == token.XOR {
							nv.a--
						}
						r.env[x] = nv
					}
				}
			case *ssa.Store:
				if k, ok := memKeyOf(x.Addr); ok {
					if isStructValue(x.Val.Type()) {
						// spill of a struct parameter: members keep what the caller seeded
					} else {
						r.mem[k] = r.val(x.Val)
					}
				}
			case *ssa.Call:
				if pieces, ok := r.call(x, lo, hi); ok {
					// continue each sub-interval separately after the call
					rest := func(rr *drun, l, h int64) {
						rr.afterCall(b, x, l, h)
					}
					for i, p := range pieces {
						rr := r
						if i < len(pieces)-1 {
							rr = r.clone()
						}
						rr.env[x] = p.val
						rest(rr, p.lo, p.hi)
					}
					return
				}
			case *ssa.If:
				tl, th, tok, fl, fh, fok, decided := r.branch(x.Cond, lo, hi)
				if !decided {
					*r.out = append(*r.out, dpiece{lo: lo, hi: hi, end: "a condition that does not depend on the analysed value alone, at " + posOf(r.c, x)})
					return
				}
				if tok && fok {
					o := r.clone()
					o.run(b.Succs[1], b, fl, fh)
					r.steps = o.steps
					b, prev, lo, hi = b.Succs[0], b, tl, th
				} else if tok {
					b, prev, lo, hi = b.Succs[0], b, tl, th
				} else {
					b, prev, lo, hi = b.Succs[1], b, fl, fh
				}
				continue outer
			case *ssa.Jump:
				b, prev = b.Succs[0], b
				continue outer
			case *ssa.Return:
				p := dpiece{lo: lo, hi: hi, end: "return"}
				if r.depth > 0 && len(x.Results) > 0 {
					p.observed, p.val = true, r.val(x.Results[0])
				}
				*r.out = append(*r.out, p)
				return
			case *ssa.Panic:
				*r.out = append(*r.out, dpiece{lo: lo, hi: hi, end: "panic"})
				return
			}
		}
		return
	}
}

// afterCall resumes block b after instruction `after` for one sub-interval.
func (r *drun) afterCall(b *ssa.BasicBlock, after ssa.Instruction, lo, hi int64) {
	// execute the remainder of the block by re-running with a filter: build a
	// synthetic continuation
	idx := instrIndex(after)
	// simple approach: interpret the remaining instructions inline
	for i := idx + 1; i < len(b.Instrs); i++ {
		ins := b.Instrs[i]
		if r.observe != nil {
			if v, ok := r.observe(ins, r); ok {
				*r.out = append(*r.out, dpiece{lo: lo, hi: hi, observed: true, val: v})
				return
			}
		}
		switch x := ins.(type) {
		case *ssa.BinOp:
			r.env[x] = r.binop(x)
		case *ssa.Convert:
			r.env[x] = r.val(x.X)
		case *ssa.ChangeType:
			r.env[x] = r.val(x.X)
		case *ssa.UnOp:
			if x.Op == token.MUL {
				if k, ok := memKeyOf(x.X); ok {
					if v, ok := r.mem[k]; ok {
						r.env[x] = v
					}
				}
			}
		case *ssa.Store:
			if k, ok := memKeyOf(x.Addr); ok && !isStructValue(x.Val.Type()) {
				r.mem[k] = r.val(x.Val)
			}
		case *ssa.Call:
			if pieces, ok := r.call(x, lo, hi); ok {
				for i, p := range pieces {
					rr := r
					if i < len(pieces)-1 {
						rr = r.clone()
					}
					rr.env[x] = p.val
					rr.afterCall(b, x, p.lo, p.hi)
				}
				return
			}
		case *ssa.If:
			tl, th, tok, fl, fh, fok, decided := r.branch(x.Cond, lo, hi)
			if !decided {
				*r.out = append(*r.out, dpiece{lo: lo, hi: hi, end: "a condition that does not depend on the analysed value alone, at " + posOf(r.c, x)})
				return
			}
			if fok {
				o := r
				if tok {
					o = r.clone()
				}
				o.run(b.Succs[1], b, fl, fh)
			}
			if tok {
				r.run(b.Succs[0], b, tl, th)
			}
			return
		case *ssa.Jump:
			r.run(b.Succs[0], b, lo, hi)
			return
		case *ssa.Return:
			p := dpiece{lo: lo, hi: hi, end: "return"}
			if r.depth > 0 && len(x.Results) > 0 {
				p.observed, p.val = true, r.val(x.Results[0])
			}
			*r.out = append(*r.out, p)
			return
		}
	}
}

func (r *drun) binop(x *ssa.BinOp) dval {
	a, b := r.val(x.X), r.val(x.Y)
	if a.kind == dConst && b.kind == dConst {
		switch x.Op {
		case token.ADD:
			return dval{kind: dConst, k: a.k + b.k}
		case token.SUB:
			return dval{kind: dConst, k: a.k - b.k}
		case token.MUL:
			return dval{kind: dConst, k: a.k * b.k}
		case token.QUO:
			if b.k != 0 {
				return dval{kind: dConst, k: a.k / b.k}
			}
		case token.REM:
			if b.k != 0 {
				return dval{kind: dConst, k: a.k % b.k}
			}
		case token.SHL:
			if b.k >= 0 && b.k < 63 {
				return dval{kind: dConst, k: a.k << uint(b.k)}
			}
		case token.SHR:
			if b.k >= 0 && b.k < 64 {
				return dval{kind: dConst, k: a.k >> uint(b.k)}
			}
		case token.AND:
			return dval{kind: dConst, k: a.k & b.k}
		case token.OR:
			return dval{kind: dConst, k: a.k | b.k}
		}
		return dval{}
	}
	if a.kind == dShift && b.kind == dConst {
		switch x.Op {
		case token.SHR:
			if b.k >= 0 && b.k < 64 && a.sh+uint(b.k) < 64 {
				return dval{kind: dShift, a: a.a, sh: a.sh + uint(b.k), neg: a.neg}
			}
		case token.ADD:
			if a.sh == 0 {
				return dval{kind: dShift, a: a.a + b.k, neg: a.neg}
			}
		case token.SUB:
			if a.sh == 0 {
				return dval{kind: dShift, a: a.a - b.k, neg: a.neg}
			}
		case token.XOR:
			// v ^ -1 = ^v
			if a.sh == 0 && b.k == -1 {
				return dval{kind: dShift, a: -a.a - 1, neg: !a.neg}
			}
		}
	}
	if a.kind == dConst && b.kind == dShift && b.sh == 0 {
		switch x.Op {
		case token.ADD:
			return dval{kind: dShift, a: b.a + a.k, neg: b.neg}
		case token.SUB:
			// k - (s x + a) = (-s) x + (k - a)
			return dval{kind: dShift, a: a.k - b.a, neg: !b.neg}
		}
	}
	return dval{}
}

// branch splits [lo,hi] by a comparison with a constant.
func (r *drun) branch(cond ssa.Value, lo, hi int64) (tl, th int64, tok bool, fl, fh int64, fok bool, decided bool) {
	bo, ok := cond.(*ssa.BinOp)
	if !ok {
		return
	}
	a, b := r.val(bo.X), r.val(bo.Y)
	op := bo.Op
	if a.kind == dConst && b.kind == dShift {
		// c op v  ==  v op' c
		a, b = b, a
		switch op {
		case token.LSS:
			op = token.GTR
		case token.LEQ:
			op = token.GEQ
		case token.GTR:
			op = token.LSS
		case token.GEQ:
			op = token.LEQ
		}
	}
	if a.kind == dConst && b.kind == dConst {
		res := false
		switch op {
		case token.LSS:
			res = a.k < b.k
		case token.LEQ:
			res = a.k <= b.k
		case token.GTR:
			res = a.k > b.k
		case token.GEQ:
			res = a.k >= b.k
		case token.EQL:
			res = a.k == b.k
		case token.NEQ:
			res = a.k != b.k
		default:
			return
		}
		if res {
			return lo, hi, true, 0, 0, false, true
		}
		return 0, 0, false, lo, hi, true, true
	}
	if a.kind != dShift || b.kind != dConst {
		return
	}
	switch op {
	case token.GEQ:
		tl, th, tok, fl, fh, fok = splitGE(lo, hi, a, b.k)
	case token.GTR:
		if b.k == int64(^uint64(0)>>1) {
			return 0, 0, false, lo, hi, true, true
		}
		tl, th, tok, fl, fh, fok = splitGE(lo, hi, a, b.k+1)
	case token.LSS:
		fl, fh, fok, tl, th, tok = splitGE(lo, hi, a, b.k)
	case token.LEQ:
		if b.k == int64(^uint64(0)>>1) {
			return lo, hi, true, 0, 0, false, true
		}
		fl, fh, fok, tl, th, tok = splitGE(lo, hi, a, b.k+1)
	default:
		return
	}
	return tl, th, tok, fl, fh, fok, true
}

// call interprets calls the analysis understands: math/bits.Len*, and module
// functions (interpreted recursively with their first integer parameter bound).
func (r *drun) call(x *ssa.Call, lo, hi int64) ([]dpiece, bool) {
	obj := calleeObj(&x.Call)
	if obj != nil && obj.Pkg() != nil && obj.Pkg().Path() == "math/bits" && strings.HasPrefix(obj.Name(), "Len") && len(x.Call.Args) == 1 {
		v := r.val(x.Call.Args[0])
		if v.kind == dConst {
			n := int64(0)
			for u := uint64(v.k); u != 0; u >>= 1 {
				n++
			}
			return []dpiece{{lo: lo, hi: hi, val: dval{kind: dConst, k: n}}}, true
		}
		if v.kind != dShift {
			return nil, false
		}
		// Len(v) = L  <=>  2^(L-1) <= v < 2^L  (v >= 0); negative v as an unsigned 64-bit number has 64 bits
		var out []dpiece
		curLo, curHi := lo, hi
		// negative part (as an unsigned 64-bit number: 64 bits); the part that remains is where v >= 0
		{
			tl, th, tok, fl, fh, fok := splitGE(lo, hi, v, 0)
			if fok {
				out = append(out, dpiece{lo: fl, hi: fh, val: dval{kind: dConst, k: 64}})
			}
			if !tok {
				return out, true
			}
			curLo, curHi = tl, th
		}
		for L := int64(0); L <= 63; L++ {
			if L == 63 {
				out = append(out, dpiece{lo: curLo, hi: curHi, val: dval{kind: dConst, k: L}})
				break
			}
			// v < 2^L has L bits; what remains is where v >= 2^L (the lower or the upper part
			// of the interval, depending on the sign of the slope)
			var m int64 = 1 << uint(L)
			tl, th, tok, fl, fh, fok := splitGE(curLo, curHi, v, m)
			if fok {
				out = append(out, dpiece{lo: fl, hi: fh, val: dval{kind: dConst, k: L}})
			}
			if !tok {
				break
			}
			curLo, curHi = tl, th
		}
		sort.Slice(out, func(i, j int) bool { return out[i].lo < out[j].lo })
		return out, true
	}
	sc := x.Call.StaticCallee()
	if sc == nil || !r.c.inModule(sc) || len(sc.Blocks) == 0 || r.depth >= 2 {
		return nil, false
	}
	// only helpers that take integers
	sub := &drun{c: r.c, f: sc, env: map[ssa.Value]dval{}, mem: map[string]dval{}, depth: r.depth + 1}
	any := false
	for i, p := range sc.Params {
		if i < len(x.Call.Args) {
			v := r.val(x.Call.Args[i])
			sub.env[p] = v
			if v.kind != dUnknown {
				any = true
			}
		}
	}
	if !any || sc.Signature.Results().Len() != 1 {
		return nil, false
	}
	var res []dpiece
	sub.out = &res
	sub.run(sc.Blocks[0], nil, lo, hi)
	for _, p := range res {
		if !p.observed {
			return nil, false
		}
	}
	return res, true
}

// ---------------------------------------------------------------------------

func pow2(n uint) *big.Int { return new(big.Int).Lsh(big.NewInt(1), n) }

func describePieces(ps []dpiece) string {
	var parts []string
	for _, p := range ps {
		if p.observed {
			parts = append(parts, fmt.Sprintf("[%d..%d]->%s", p.lo, p.hi, p.val))
		} else {
			parts = append(parts, fmt.Sprintf("[%d..%d]->(%s)", p.lo, p.hi, p.end))
		}
	}
	return strings.Join(parts, " ")
}

// checkDigitPieces: every piece that got an octet count n must satisfy
// base^(n-1) <= x < base^n (minFirst replaces base^(n-1) for n == 1), and every
// piece without a count must lie inside [.., shortMax].
func checkDigitPieces(ps []dpiece, bits uint, minFirst, shortMax int64, what string) (bool, string) {
	sort.Slice(ps, func(i, j int) bool { return ps[i].lo < ps[j].lo })
	nObs := 0
	for _, p := range ps {
		if !p.observed {
			if p.hi <= shortMax {
				continue // short form: the value leaves the part of the code that counts octets
			}
			if p.end != "return" {
				return false, fmt.Sprintf("undecided for %s in [%d..%d]: %s", what, p.lo, p.hi, p.end)
			}
			if p.hi > shortMax {
				return false, fmt.Sprintf("%s values up to %d are written without an octet count although only values up to %d fit the short form", what, p.hi, shortMax)
			}
			continue
		}
		nObs++
		if p.val.kind != dConst {
			return false, fmt.Sprintf("the octet count for %s in [%d..%d] is not a constant of the interval (%s)", what, p.lo, p.hi, p.val)
		}
		n := p.val.k
		if n < 1 || n > 9 {
			return false, fmt.Sprintf("%d octets are announced for %s in [%d..%d]", n, what, p.lo, p.hi)
		}
		// enough: hi < 2^(bits*n)
		if big.NewInt(p.hi).Cmp(pow2(bits*uint(n))) >= 0 {
			return false, fmt.Sprintf("%s = %d gets %d octet(s), which hold values below %s only: the most significant digit is dropped", what, firstAtLeast(p.lo, pow2(bits*uint(n))), n, pow2(bits*uint(n)).String())
		}
		// minimal: lo >= 2^(bits*(n-1))  (or minFirst for n == 1)
		min := big.NewInt(minFirst)
		if n > 1 {
			min = pow2(bits * uint(n-1))
		}
		if big.NewInt(p.lo).Cmp(min) < 0 {
			return false, fmt.Sprintf("%s = %d gets %d octets although %d suffice: the encoding is not minimal", what, p.lo, n, n-1)
		}
	}
	if nObs == 0 {
		return false, "no octet count was found for " + what
	}
	return true, ""
}

func firstAtLeast(lo int64, t *big.Int) int64 {
	if big.NewInt(lo).Cmp(t) >= 0 {
		return lo
	}
	return clampBig(t)
}

// checkSignedPieces: two's complement INTEGER: -2^(8n-1) <= x < 2^(8n-1), minimal.
func checkSignedPieces(ps []dpiece) (bool, string) {
	sort.Slice(ps, func(i, j int) bool { return ps[i].lo < ps[j].lo })
	if len(ps) == 0 {
		return false, "no result"
	}
	for _, p := range ps {
		if !p.observed || p.val.kind != dConst {
			return false, fmt.Sprintf("undecided for values in [%d..%d]: %s %s", p.lo, p.hi, p.end, p.val)
		}
		n := p.val.k
		if n < 1 || n > 8 {
			return false, fmt.Sprintf("%d contents octets for values in [%d..%d]", n, p.lo, p.hi)
		}
		hiLim := new(big.Int).Sub(pow2(uint(8*n-1)), big.NewInt(1))
		loLim := new(big.Int).Neg(pow2(uint(8*n - 1)))
		if big.NewInt(p.hi).Cmp(hiLim) > 0 || big.NewInt(p.lo).Cmp(loLim) < 0 {
			return false, fmt.Sprintf("values in [%d..%d] get %d contents octet(s), which hold %s..%s only", p.lo, p.hi, n, loLim, hiLim)
		}
		if n > 1 {
			hiPrev := new(big.Int).Sub(pow2(uint(8*(n-1)-1)), big.NewInt(1))
			loPrev := new(big.Int).Neg(pow2(uint(8*(n-1) - 1)))
			// not minimal if some value of the piece fits n-1 octets
			if big.NewInt(p.lo).Cmp(hiPrev) <= 0 && big.NewInt(p.hi).Cmp(loPrev) >= 0 {
				return false, fmt.Sprintf("values in [%d..%d] get %d contents octets although some of them fit %d: not the minimal two's complement form", p.lo, p.hi, n, n-1)
			}
		}
	}
	return true, ""
}

// firstIfOn: the first block (in dominance order) ending in a comparison that
// reads member `field` of the struct parameter spill of f.
func firstIfOn(f *ssa.Function, field string) (*ssa.BasicBlock, *ssa.Alloc) {
	var best *ssa.BasicBlock
	var spill *ssa.Alloc
	for _, b := range f.DomPreorder() {
		if len(b.Instrs) == 0 {
			continue
		}
		ifi, ok := b.Instrs[len(b.Instrs)-1].(*ssa.If)
		if !ok {
			continue
		}
		bo, ok := ifi.Cond.(*ssa.BinOp)
		if !ok {
			continue
		}
		for _, op := range []ssa.Value{bo.X, bo.Y} {
			ld, ok := op.(*ssa.UnOp)
			if !ok || ld.Op != token.MUL {
				continue
			}
			fa, ok := ld.X.(*ssa.FieldAddr)
			if !ok || fieldName(fa) != field {
				continue
			}
			if a, ok := fa.X.(*ssa.Alloc); ok && best == nil {
				best, spill = b, a
			}
		}
		if best != nil {
			break
		}
	}
	return best, spill
}

// writeLoopShape: in f, a loop stores byte(v) into consecutive positions of a
// slice and shifts v right by `shift` bits per iteration, the position
// decreasing with the loop counter (most significant digit first).
func writeLoopShape(c *Ctx, f *ssa.Function, field string, shift int64) (bool, string) {
	fe := newFormEval(f)
	found := false
	why := "no loop writes the digits of " + field
	eachInstr(f, func(b *ssa.BasicBlock, _ int, ins ssa.Instruction) {
		st, ok := ins.(*ssa.Store)
		if !ok || !inCycle(b) {
			return
		}
		ia, ok := st.Addr.(*ssa.IndexAddr)
		if !ok || sizeOfBasic(st.Val.Type()) != 1 {
			return
		}
		// the stored octet derives from the member (or the parameter) being shifted
		if !digitSource(st.Val, field, 0) {
			return
		}
		// the shift in the same loop
		shiftOK := false
		for _, bb := range f.Blocks {
			if !inCycle(bb) {
				continue
			}
			for _, i2 := range bb.Instrs {
				if bo, ok := i2.(*ssa.BinOp); ok && bo.Op == token.SHR {
					if k, ok := constInt(bo.Y); ok && k == shift {
						shiftOK = true
					}
				}
			}
		}
		if !shiftOK {
			why = fmt.Sprintf("the loop that writes the digits of %s does not shift by %d bits per octet", field, shift)
			return
		}
		// the position moves down by one per iteration: (coefficient of the loop
		// counter in the index) x (the counter's step) = -1 - `n-1-j` with j++ as
		// well as `j` with j--
		idx := fe.eval(ia.Index)
		neg := false
		for mono, cf := range idx {
			if !strings.HasPrefix(mono, "phi:") {
				continue
			}
			step := int64(1)
			if ph, ok := fe.atoms[mono].(*ssa.Phi); ok {
				if s, ok := phiStep(ph); ok {
					step = s
				}
			}
			if cf*step == -1 {
				neg = true
			}
		}
		if !neg {
			why = "the digits of " + field + " are not written most significant first (index " + idx.String() + ")"
			return
		}
		found = true
	})
	if found {
		return true, ""
	}
	return false, why
}

// c04DigitCounts emits the obligations of C04.R9.
func c04DigitCounts(c *Ctx, r *Report, rule string) {
	f := c.fn("cdr/asn", "appendTagAndLen")
	maxI := int64(^uint64(0) >> 1)
	type job struct {
		field    string
		bits     uint
		shift    int64
		lo, hi   int64
		minFirst int64
		shortMax int64
		what     string
	}
	for _, j := range []job{
		{"len", 8, 8, 0, maxI, 128, 127, "a content length"},
		{"tagNumber", 7, 7, 0, 1 << 40, 31, 30, "a tag number"},
	} {
		key := fnKey(f) + "|" + j.what
		start, spill := firstIfOn(f, j.field)
		if start == nil {
			r.viol(rule, key+": octet count", c.rel(f.Pos()), "no comparison on "+j.field+" found in appendTagAndLen")
			continue
		}
		var res []dpiece
		run := &drun{c: c, f: f, env: map[ssa.Value]dval{}, mem: map[string]dval{}, out: &res}
		mk, _ := memKeyOf(spill)
		run.mem[mk+"."+j.field] = dval{kind: dShift}
		// the loads in the start block happen before its If: interpret the block's own instructions
		run.observe = func(ins ssa.Instruction, rr *drun) (dval, bool) {
			if ms, ok := ins.(*ssa.MakeSlice); ok {
				return rr.val(ms.Len), true
			}
			return dval{}, false
		}
		run.run(start, nil, j.lo, j.hi)
		ok, why := checkDigitPieces(res, j.bits, j.minFirst, j.shortMax, j.what)
		r.check(ok, rule, key+": octet count", posOf(c, start.Instrs[len(start.Instrs)-1]), "exact interval partition: "+describePieces(res), "the number of octets written for "+j.what+" is wrong for some values: "+why)
		ok2, why2 := writeLoopShape(c, f, j.field, j.shift)
		r.check(ok2, rule, key+": digits", c.rel(f.Pos()), fmt.Sprintf("the digits are written most significant first, %d bits per octet", j.shift), why2)
	}
	// INTEGER / ENUMERATED contents
	lenF := c.fn("cdr/asn", "int64Encoder.Len")
	{
		var res []dpiece
		run := &drun{c: c, f: lenF, env: map[ssa.Value]dval{}, mem: map[string]dval{}, out: &res, depth: 1}
		for _, p := range lenF.Params {
			if isIntegerType(p.Type()) {
				run.env[p] = dval{kind: dShift}
			}
		}
		run.run(lenF.Blocks[0], nil, -maxI-1, maxI)
		ok, why := checkSignedPieces(res)
		r.check(ok, rule, fnKey(lenF)+"|INTEGER contents: octet count", c.rel(lenF.Pos()), "exact interval partition: "+describePieces(res), "the number of contents octets of an INTEGER is wrong for some values: "+why)
		encF := c.fn("cdr/asn", "int64Encoder.Encode")
		ok2, why2 := writeLoopShape(c, encF, "", 8)
		r.check(ok2, rule, fnKey(encF)+"|INTEGER contents: digits", c.rel(encF.Pos()), "the contents octets are written most significant first, 8 bits per octet", why2)
	}
	_ = types.Typ
}

// digitSource: v is byte(X) (possibly or-ed / and-ed with constants) where X is
// a direct load of member `field`, or - for field "" - the loop-carried value
// of an integer parameter.
func digitSource(v ssa.Value, field string, depth int) bool {
	if depth > 6 {
		return false
	}
	switch x := v.(type) {
	case *ssa.Convert:
		return digitSource(x.X, field, depth+1)
	case *ssa.ChangeType:
		return digitSource(x.X, field, depth+1)
	case *ssa.BinOp:
		if x.Op == token.OR || x.Op == token.AND {
			if _, isC := x.Y.(*ssa.Const); isC {
				return digitSource(x.X, field, depth+1)
			}
			if _, isC := x.X.(*ssa.Const); isC {
				return digitSource(x.Y, field, depth+1)
			}
		}
		if x.Op == token.SHR && field == "" {
			return digitSource(x.X, field, depth+1)
		}
	case *ssa.UnOp:
		if x.Op == token.MUL {
			if fa, ok := x.X.(*ssa.FieldAddr); ok {
				return field != "" && fieldName(fa) == field
			}
		}
	case *ssa.Phi:
		if field != "" {
			return false
		}
		for _, e := range x.Edges {
			if p, ok := stripConv(e).(*ssa.Parameter); ok && isIntegerType(p.Type()) {
				return true
			}
		}
	case *ssa.Parameter:
		return field == "" && isIntegerType(x.Type())
	}
	return false
}

// phiStep: the constant a loop-carried variable changes by per iteration
// (phi = [init, phi + k] or [init, phi - k]).
func phiStep(ph *ssa.Phi) (int64, bool) {
	step, found := int64(0), false
	for _, e := range ph.Edges {
		bo, ok := e.(*ssa.BinOp)
		if !ok || (bo.Op != token.ADD && bo.Op != token.SUB) {
			continue
		}
		var k int64
		var isK bool
		switch {
		case bo.X == ssa.Value(ph):
			k, isK = constInt(bo.Y)
		case bo.Y == ssa.Value(ph) && bo.Op == token.ADD:
			k, isK = constInt(bo.X)
		}
		if !isK {
			continue
		}
		if bo.Op == token.SUB {
			k = -k
		}
		if found && k != step {
			return 0, false
		}
		step, found = k, true
	}
	return step, found
}
