package main

import (
	"fmt"
	"go/token"
	"go/types"
	"math"
	"strings"

	"golang.org/x/tools/go/ssa"
)

// E4 (relational part): linear facts D <= c over polynomial forms, collected
// from the branch edges that dominate a program point and from callee
// post-conditions; entailment by interval bounds plus combinations of at most
// two facts.  Lengths are terms: len(s[a:b]) = b - a.

type linFact struct {
	d   poly
	c   int64
	why string
}

type postCond struct {
	// facts about results in terms of "res#i", "res#0.<field>" and "len(arg#j)" atoms
	facts []linFact
	// lower bounds for result atoms
	lows map[string]int64
}

type relEngine struct {
	threadDepth int
	c           *Ctx
	f           *ssa.Function
	fe          *formEval
	re          *rangeEval
	posts       map[*ssa.Function]*postCond
	lows        map[string]int64 // lower bounds of atoms established by post-conditions (valid wherever the atom is used after the success test)
}

func newRelEngine(c *Ctx, f *ssa.Function, posts map[*ssa.Function]*postCond) *relEngine {
	e := &relEngine{c: c, f: f, posts: posts, lows: map[string]int64{}}
	e.re = newRangeEval(f)
	fe := newFormEval(f)
	fe.override = func(v ssa.Value) (poly, bool) {
		switch x := v.(type) {
		case *ssa.Call:
			// len only: cap(x) may exceed len(x), and a bound against the capacity says nothing about
			// the octets the caller handed over (re-slicing up to cap does not panic, it over-reads)
			if b, ok := x.Call.Value.(*ssa.Builtin); ok && b.Name() == "len" && len(x.Call.Args) == 1 {
				return e.lenForm(x.Call.Args[0], 0), true
			}
		case *ssa.Convert:
			if isIntegerType(x.Type()) && isIntegerType(x.X.Type()) {
				// byte(x), uint16(x): narrowing is not the identity; only widening/same-size conversions are
				ts, ss := sizeOfBasic(x.Type()), sizeOfBasic(x.X.Type())
				if ts >= ss {
					return fe.eval(x.X), true
				}
				return atomPoly(fe.atomKeyOf(x)), true
			}
		case *ssa.UnOp:
			if x.Op == token.MUL {
				// field of a struct variable that was assigned a call result as a whole
				if p, ok := pathOf(x); ok && len(p.Elems) > 0 {
					if a, ok := p.Root.(*ssa.Alloc); ok {
						if sv := reachingStructStore(a, x); sv != nil {
							return atomPoly("mem:(" + fe.atomKeyOf(sv) + ")." + strings.Join(p.Elems, ".")), true
						}
					}
				}
			}
		case *ssa.Field:
			if p, ok := pathOf(x); ok {
				return atomPoly("mem:(" + fe.atomKeyOf(p.Root) + ")." + strings.Join(p.Elems, ".")), true
			}
		}
		return nil, false
	}
	e.fe = fe
	return e
}

// reachingStructStore: the whole-struct value most recently stored into the
// local `a` on the straight-line path dominating the load (unique store that
// dominates and no other store of `a` can intervene).
func reachingStructStore(a *ssa.Alloc, at ssa.Instruction) ssa.Value {
	var best *ssa.Store
	var all []*ssa.Store
	for _, ref := range *a.Referrers() {
		if st, ok := ref.(*ssa.Store); ok && st.Addr == ssa.Value(a) {
			all = append(all, st)
		}
	}
	for _, st := range all {
		if instrDominates(st, at) && (best == nil || instrDominates(best, st)) {
			best = st
		}
	}
	if best == nil {
		return nil
	}
	// no other store may lie between best and at
	for _, st := range all {
		if st != best && canReach(best, st) && canReach(st, at) {
			return nil
		}
	}
	if _, isStruct := best.Val.Type().Underlying().(*types.Struct); !isStruct {
		return nil
	}
	return best.Val
}

// lenForm: the length of a slice/string value as a polynomial.
func (e *relEngine) lenForm(v ssa.Value, depth int) poly {
	if depth > 8 {
		return atomPoly("len(" + e.fe.atomKeyOf(v) + ")")
	}
	switch x := v.(type) {
	case *ssa.Slice:
		var hi poly
		if x.High != nil {
			hi = e.fe.eval(x.High)
		} else {
			if pt, ok := x.X.Type().Underlying().(*types.Pointer); ok {
				if arr, ok := pt.Elem().Underlying().(*types.Array); ok {
					hi = constPoly(arr.Len())
				}
			}
			if hi == nil {
				hi = e.lenForm(x.X, depth+1)
			}
		}
		lo := poly{}
		if x.Low != nil {
			lo = e.fe.eval(x.Low)
		}
		return polyAdd(hi, lo, -1)
	case *ssa.ChangeType:
		return e.lenForm(x.X, depth+1)
	case *ssa.Convert:
		return e.lenForm(x.X, depth+1)
	case *ssa.Const:
		if s, ok := constString(x); ok {
			return constPoly(int64(len(s)))
		}
		if x.IsNil() {
			return poly{}
		}
	case *ssa.MakeSlice:
		return e.fe.eval(x.Len)
	}
	return atomPoly("len(" + e.fe.atomKeyOf(v) + ")")
}

func (e *relEngine) lenAtomName(v ssa.Value) string {
	p := e.lenForm(v, 0)
	return p.String()
}

// ---------------------------------------------------------------------------
// facts

func negOp(op token.Token) token.Token {
	switch op {
	case token.LSS:
		return token.GEQ
	case token.LEQ:
		return token.GTR
	case token.GTR:
		return token.LEQ
	case token.GEQ:
		return token.LSS
	case token.EQL:
		return token.NEQ
	case token.NEQ:
		return token.EQL
	}
	return op
}

func (e *relEngine) factsOfCond(cond ssa.Value, taken bool, why string) []linFact {
	bo, ok := cond.(*ssa.BinOp)
	if !ok {
		return nil
	}
	if !isIntegerType(bo.X.Type()) {
		return nil
	}
	op := bo.Op
	if !taken {
		op = negOp(op)
	}
	x, y := e.fe.eval(bo.X), e.fe.eval(bo.Y)
	xy := polyAdd(x, y, -1)
	yx := polyAdd(y, x, -1)
	split := func(p poly) (poly, int64) {
		q := p.clone()
		c := q[""]
		delete(q, "")
		return q, -c
	}
	mk := func(p poly, c int64) linFact {
		d, k := split(p)
		return linFact{d: d, c: c + k, why: why}
	}
	switch op {
	case token.LSS:
		return []linFact{mk(xy, -1)}
	case token.LEQ:
		return []linFact{mk(xy, 0)}
	case token.GTR:
		return []linFact{mk(yx, -1)}
	case token.GEQ:
		return []linFact{mk(yx, 0)}
	case token.EQL:
		return []linFact{mk(xy, 0), mk(yx, 0)}
	case token.NEQ:
		// x != y together with a one-sided bound gives a strict inequality
		if e.upper(yx, nil, e.f.Blocks[0]) <= 0 { // x - y >= 0 always
			return []linFact{mk(yx, -1)}
		}
		if e.upper(xy, nil, e.f.Blocks[0]) <= 0 { // x - y <= 0 always
			return []linFact{mk(xy, -1)}
		}
	}
	return nil
}

// factsAt collects the facts that hold when control is in block b, having
// arrived (optionally) through the edge from->b.
func (e *relEngine) factsAt(from, b *ssa.BasicBlock) []linFact {
	var out []linFact
	target := from
	if target == nil {
		target = b
	}
	if from != nil && len(from.Instrs) > 0 {
		if ifi, ok := from.Instrs[len(from.Instrs)-1].(*ssa.If); ok && from.Succs[0] != from.Succs[1] {
			if from.Succs[0] == b {
				out = append(out, e.factsOfCond(ifi.Cond, true, posOf(e.c, ifi))...)
			} else if from.Succs[1] == b {
				out = append(out, e.factsOfCond(ifi.Cond, false, posOf(e.c, ifi))...)
			}
		}
	}
	for _, blk := range e.f.Blocks {
		if len(blk.Instrs) == 0 || blk == from {
			continue
		}
		ifi, ok := blk.Instrs[len(blk.Instrs)-1].(*ssa.If)
		if !ok {
			continue
		}
		d0 := edgeDominates(blk, blk.Succs[0], target)
		d1 := edgeDominates(blk, blk.Succs[1], target)
		if d0 && !d1 {
			out = append(out, e.factsOfCond(ifi.Cond, true, posOf(e.c, ifi))...)
		} else if d1 && !d0 {
			out = append(out, e.factsOfCond(ifi.Cond, false, posOf(e.c, ifi))...)
		}
	}
	// callee post-conditions: calls whose success edge dominates the point
	eachInstr(e.f, func(_ *ssa.BasicBlock, _ int, ins ssa.Instruction) {
		call, ok := ins.(*ssa.Call)
		if !ok {
			return
		}
		sc := call.Call.StaticCallee()
		pc := e.posts[sc]
		if pc == nil {
			return
		}
		if !onSuccessEdge(call, target) {
			return
		}
		out = append(out, e.instantiate(pc, call)...)
	})
	// merge blocks that dominate the point and can, given what is known there,
	// only have been entered over one edge (correlated phis: e.g. the merged
	// returns of an inlined helper behind the caller's error test): what held at
	// the end of that predecessor still holds
	if e.threadDepth < 3 {
		e.threadDepth++
		for _, m := range e.f.Blocks {
			if len(m.Preds) < 2 || m == target || !m.Dominates(target) {
				continue
			}
			var ph *ssa.Phi
			for _, ins := range m.Instrs {
				if p, ok := ins.(*ssa.Phi); ok {
					ph = p
					break
				}
			}
			if ph == nil {
				continue
			}
			only, n := -1, 0
			for i := range m.Preds {
				if phiEdgeFeasible(ph, i, target) {
					only = i
					n++
				}
			}
			if n == 1 {
				out = append(out, e.factsAt(m.Preds[only], m)...)
				out = append(out, e.factsAt(nil, m.Preds[only])...)
			}
		}
		e.threadDepth--
	}
	return out
}

// instantiate renames the atoms of a post-condition to the call site's values.
func (e *relEngine) instantiate(pc *postCond, call *ssa.Call) []linFact {
	base := e.fe.atomKeyOf(call)
	ren := func(atom string) poly {
		switch {
		case strings.HasPrefix(atom, "res#"):
			return atomPoly(strings.Replace(atom, "res", base, 1))
		case strings.HasPrefix(atom, "mem:(res#"):
			return atomPoly(strings.Replace(atom, "mem:(res", "mem:("+base, 1))
		case strings.HasPrefix(atom, "len(arg#"):
			var idx int
			fmt.Sscanf(atom, "len(arg#%d)", &idx)
			if idx < len(call.Call.Args) {
				return e.lenForm(call.Call.Args[idx], 0)
			}
		}
		return atomPoly(atom)
	}
	var out []linFact
	for _, f := range pc.facts {
		d := poly{}
		for mono, cf := range f.d {
			term := constPoly(cf)
			for _, a := range strings.Split(mono, monoSep) {
				term = polyMul(term, ren(a))
			}
			d = polyAdd(d, term, 1)
		}
		c := f.c
		if k, ok := d[""]; ok {
			c -= k
			delete(d, "")
		}
		out = append(out, linFact{d: d, c: c, why: "post-condition of " + shortFn(call.Call.StaticCallee())})
	}
	for a, lo := range pc.lows {
		p := ren(a)
		for k := range p {
			e.lows[k] = lo
		}
	}
	return out
}

// ---------------------------------------------------------------------------
// bounds of atoms and polynomials

const inf = math.MaxInt64 / 4

func (e *relEngine) atomBounds(key string, from, b *ssa.BasicBlock) (lo, hi int64) {
	lo, hi = -inf, inf
	if strings.HasPrefix(key, "len(") {
		lo = 0
	}
	if l, ok := e.lows[key]; ok && l > lo {
		lo = l
	}
	if v := e.fe.atoms[key]; v != nil && isIntegerType(v.Type()) {
		if ph, ok := v.(*ssa.Phi); ok {
			if l, ok := e.phiLower(ph); ok && l > lo {
				lo = l
			}
		}
		r := e.re.evalOnEdge(v, from, b)
		if r.ok {
			if r.lo > lo && r.lo != math.MinInt64 {
				lo = r.lo
			}
			if r.hi < hi && r.hi != math.MaxInt64 {
				hi = r.hi
			}
		}
	}
	return
}

func (e *relEngine) upper(p poly, from, b *ssa.BasicBlock) int64 {
	var s int64
	for mono, cf := range p {
		if mono == "" {
			s += cf
			continue
		}
		if strings.Contains(mono, monoSep) {
			return inf
		}
		lo, hi := e.atomBounds(mono, from, b)
		if cf > 0 {
			if hi >= inf {
				return inf
			}
			s += cf * hi
		} else {
			if lo <= -inf {
				return inf
			}
			s += cf * lo
		}
		if s > inf || s < -inf {
			return inf
		}
	}
	return s
}

// prove: d <= c holds at the point.  When the direct argument fails and d
// mentions a (non-loop) phi, the phi is expanded: for each reaching definition
// the claim is proved under the facts of the point plus those of the edge the
// definition arrives on.
func (e *relEngine) prove(d poly, c int64, from, b *ssa.BasicBlock) (bool, string) {
	if ok, why := e.prove0(d, c, e.factsAt(from, b), from, b); ok {
		return true, why
	}
	for mono, cf := range d {
		if mono == "" || strings.Contains(mono, monoSep) {
			continue
		}
		ph, ok := e.fe.atoms[mono].(*ssa.Phi)
		if !ok {
			continue
		}
		selfDep := false
		for _, lf := range leavesOf(ph) {
			if _, has := e.fe.eval(lf.val)[mono]; has {
				selfDep = true
			}
		}
		if selfDep {
			continue
		}
		all := true
		for _, lf := range feasibleLeaves(ph, b) {
			sub := d.clone()
			delete(sub, mono)
			sub = polyAdd(sub, polyMul(constPoly(cf), e.fe.eval(lf.val)), 1)
			facts := append(e.factsAt(from, b), e.factsAt(lf.from, lf.at)...)
			if ok, _ := e.prove0(sub, c, facts, from, b); !ok {
				all = false
				break
			}
		}
		if all {
			return true, "for each definition reaching " + mono
		}
	}
	return false, ""
}

func (e *relEngine) prove0(d poly, c int64, facts []linFact, from, b *ssa.BasicBlock) (bool, string) {
	blk := b
	if k, ok := d[""]; ok {
		d = d.clone()
		delete(d, "")
		c -= k
	}
	if e.upper(d, from, b) <= c {
		return true, "by value ranges"
	}
	for _, f := range facts {
		r := polyAdd(d, f.d, -1)
		if e.upper(r, from, b) <= c-f.c {
			return true, "by the test at " + f.why
		}
	}
	// a fact scaled by a positive integer (m x (F <= k) gives m x F <= m x k)
	for _, f := range facts {
		for mono, a := range f.d {
			b, has := d[mono]
			if !has || a == 0 || b%a != 0 {
				continue
			}
			m := b / a
			if m < 2 || m > 1<<20 {
				continue
			}
			r := polyAdd(d, polyMul(constPoly(m), f.d), -1)
			if e.upper(r, from, blk) <= c-m*f.c {
				return true, "by the test at " + f.why + " (scaled)"
			}
		}
	}
	for i, f := range facts {
		for j, g := range facts {
			if j <= i {
				continue
			}
			r := polyAdd(polyAdd(d, f.d, -1), g.d, -1)
			if e.upper(r, from, b) <= c-f.c-g.c {
				return true, "by the tests at " + f.why + " and " + g.why
			}
		}
	}
	return false, ""
}

// proveVal: the value v satisfies v <= bound (+k) where bound is a polynomial,
// handling phis leaf by leaf.
func (e *relEngine) proveLeq(v ssa.Value, bound poly, k int64, at ssa.Instruction) (bool, string) {
	ph, isPhi := v.(*ssa.Phi)
	if isPhi && ph.Block() == at.Block() {
		// facts differ per incoming edge
		for _, lf := range leavesOf(v) {
			d := polyAdd(e.fe.eval(lf.val), bound, -1)
			if ok, _ := e.prove(d, k, lf.from, lf.at); !ok {
				return false, ""
			}
		}
		return true, "on every incoming edge"
	}
	d := polyAdd(e.fe.eval(v), bound, -1)
	return e.prove(d, k, nil, at.Block())
}

// prime instantiates the post-conditions of every call once so that the lower
// bounds of result atoms are known wherever those atoms are used (they are only
// used after the caller's success test; this is checked by the rule that the
// error of each such call is tested before its results are used).
func (e *relEngine) prime() {
	eachInstr(e.f, func(_ *ssa.BasicBlock, _ int, ins ssa.Instruction) {
		if call, ok := ins.(*ssa.Call); ok {
			if pc := e.posts[call.Call.StaticCallee()]; pc != nil {
				e.instantiate(pc, call)
			}
		}
	})
}

var phiBoundsBusy = map[string]bool{}

// phiLower: lower bound of a loop-carried phi whose other edges only add
// non-negative amounts.
func (e *relEngine) phiLower(ph *ssa.Phi) (int64, bool) {
	key := e.fe.atomKeyOf(ph)
	if phiBoundsBusy[key] {
		return 0, false
	}
	phiBoundsBusy[key] = true
	defer delete(phiBoundsBusy, key)
	self := atomPoly(key)
	lo := int64(inf)
	for i, edge := range ph.Edges {
		if edge == ssa.Value(ph) {
			continue
		}
		pred := ph.Block().Preds[i]
		form := e.fe.eval(edge)
		if c, has := form[key]; has && c == 1 {
			inc := polyAdd(form, self, -1)
			// increment must be >= 0:  -inc <= 0
			neg := polyAdd(poly{}, inc, -1)
			if e.upper(neg, pred, ph.Block()) > 0 {
				if ok, _ := e.prove(neg, 0, pred, ph.Block()); !ok {
					return 0, false
				}
			}
			continue
		}
		// initial edge: lower bound of form
		neg := polyAdd(poly{}, form, -1)
		u := e.upper(neg, pred, ph.Block())
		if u >= inf {
			return 0, false
		}
		if -u < lo {
			lo = -u
		}
	}
	if lo >= inf {
		return 0, false
	}
	return lo, true
}

// feasibleLeaves: the reaching definitions of ph, without those that come in
// over an edge contradicting what is known at block `at` about a sibling phi.
func feasibleLeaves(ph *ssa.Phi, at *ssa.BasicBlock) []phiLeaf {
	var out []phiLeaf
	for i, e := range ph.Edges {
		if !phiEdgeFeasible(ph, i, at) {
			continue
		}
		if inner, ok := e.(*ssa.Phi); ok && inner != ph {
			out = append(out, leavesOf(inner)...)
			continue
		}
		out = append(out, phiLeaf{val: e, from: ph.Block().Preds[i], at: ph.Block()})
	}
	if len(out) == 0 {
		return leavesOf(ph)
	}
	return out
}
