package main

import (
	"fmt"
	"go/token"
	"go/types"
	"strings"

	"golang.org/x/tools/go/ssa"
)

// Integer width flow.
//
// Two clauses that several properties depend on and that example tests do not
// reach, because they only show for values beyond a narrower type's range:
//
//   (parse)  a number parsed from text (strconv.ParseInt / ParseUint / Atoi)
//            reaches the integer variable, member or parameter it is meant for
//            without passing through anything narrower than that destination:
//            neither the bitSize of the parse nor a conversion on the way is
//            smaller than the destination's width.  ParseInt(s, 10, 16) feeding a
//            uint64 member refuses (and with the `if err == nil` idiom silently
//            drops) every value from 32768 on; uint64(uint8(i)) wraps from 256 on.
//
//   (key)    an identifier taken from a request and used to select a database
//            document is not narrowed on the way: uint16(ratingGroup) selects the
//            tariff of another rating group for ids from 65536 on.
//
// The engine is a forward walk over SSA use chains (conversions, phis, extracts,
// stores into non-escaping locals and their loads); it reports the first sink
// whose static width exceeds the narrowest width met on the way.

func intBits(t types.Type) (bits int, unsigned bool, ok bool) {
	b, isBasic := t.Underlying().(*types.Basic)
	if !isBasic || b.Info()&types.IsInteger == 0 {
		return 0, false, false
	}
	switch b.Kind() {
	case types.Int8:
		return 8, false, true
	case types.Uint8:
		return 8, true, true
	case types.Int16:
		return 16, false, true
	case types.Uint16:
		return 16, true, true
	case types.Int32:
		return 32, false, true
	case types.Uint32:
		return 32, true, true
	case types.Int64, types.Int:
		return 64, false, true
	case types.Uint64, types.Uint, types.Uintptr:
		return 64, true, true
	}
	return 0, false, false
}

type widthFinding struct {
	fn   *ssa.Function
	pos  token.Pos
	what string
}

// parseWidthFindings: the (parse) clause for every strconv parse in f.
func parseWidthFindings(c *Ctx, f *ssa.Function) (findings []widthFinding, nParses int) {
	eachInstr(f, func(_ *ssa.BasicBlock, _ int, ins ssa.Instruction) {
		call, ok := ins.(*ssa.Call)
		if !ok {
			return
		}
		obj := calleeObj(&call.Call)
		if obj == nil || obj.Pkg() == nil || obj.Pkg().Path() != "strconv" {
			return
		}
		bits := 0
		switch obj.Name() {
		case "Atoi":
			bits = 64
		case "ParseInt", "ParseUint":
			if len(call.Call.Args) != 3 {
				return
			}
			// the texts parsed here (database values, path parameters, struct tags) are decimal
			if base, isConst := constInt(call.Call.Args[1]); isConst && base != 10 {
				what := fmt.Sprintf("base %d", base)
				if base == 0 {
					what = "base 0 (the prefix decides: a leading 0 means octal, 0x hexadecimal)"
				}
				findings = append(findings, widthFinding{f, call.Pos(), fmt.Sprintf("the decimal text is parsed by %s in %s: \"010\" is read as 8 (or 16), so the number used differs from the number stored / requested", obj.Name(), what)})
			}
			k, isConst := constInt(call.Call.Args[2])
			if !isConst {
				return
			}
			bits = int(k)
			if bits == 0 {
				bits = 64
			}
		default:
			return
		}
		nParses++
		// the parsed value: result 0
		var val ssa.Value
		for _, ref := range *call.Referrers() {
			if ex, ok := ref.(*ssa.Extract); ok && ex.Index == 0 {
				val = ex
			}
		}
		if val == nil {
			return
		}
		src := fmt.Sprintf("%s(.., %d bits)", obj.Name(), bits)
		seen := map[ssa.Value]bool{}
		var walk func(v ssa.Value, min int, via string, depth int)
		walk = func(v ssa.Value, min int, via string, depth int) {
			if seen[v] || depth > 12 {
				return
			}
			seen[v] = true
			refs := v.Referrers()
			if refs == nil {
				return
			}
			report := func(pos token.Pos, sinkBits int, sink string) {
				if sinkBits > min {
					findings = append(findings, widthFinding{f, pos, fmt.Sprintf("the number parsed by %s at %s reaches %s (%d bits) through %s: values that need more than %d bits are refused or wrapped although the destination holds them", src, c.rel(call.Pos()), sink, sinkBits, via, min)})
				}
			}
			for _, ref := range *refs {
				switch x := ref.(type) {
				case *ssa.Convert:
					if b, _, ok := intBits(x.Type()); ok {
						// a conversion to a wider type is a sink for what came before it
						report(x.Pos(), b, "a value of type "+types.TypeString(x.Type(), nil))
						nm, nvia := min, via
						if b < min {
							nm, nvia = b, "a conversion to "+types.TypeString(x.Type(), nil)
						}
						walk(x, nm, nvia, depth+1)
					}
				case *ssa.ChangeType:
					walk(x, min, via, depth+1)
				case *ssa.Phi:
					walk(x, min, via, depth+1)
				case *ssa.Store:
					if x.Val != v {
						continue
					}
					if b, _, ok := intBits(x.Val.Type()); ok {
						_ = b
					}
					// into a plain local: follow its loads; into a member / pointee: a sink of the value's own type
					if al, ok := x.Addr.(*ssa.Alloc); ok {
						for _, r2 := range *al.Referrers() {
							if ld, ok := r2.(*ssa.UnOp); ok && ld.Op == token.MUL {
								walk(ld, min, via, depth+1)
							}
						}
					} else if b, _, ok := intBits(v.Type()); ok {
						report(x.Pos(), b, "a member of type "+types.TypeString(v.Type(), nil))
					}
				case *ssa.DebugRef, *ssa.Extract:
				case *ssa.BinOp:
					switch x.Op {
					case token.EQL, token.NEQ, token.LSS, token.LEQ, token.GTR, token.GEQ:
						// a test of the parsed number
					default:
						if b, _, ok := intBits(v.Type()); ok {
							report(x.Pos(), b, "an operand of type "+types.TypeString(v.Type(), nil))
						}
					}
				default:
					// used as it is (stored into a member, handed to a call, boxed): its static type
					// is the width the user expects
					if b, _, ok := intBits(v.Type()); ok {
						report(ref.Pos(), b, "a use as "+types.TypeString(v.Type(), nil))
					}
				}
			}
		}
		own, _, _ := intBits(val.Type())
		via := "the parse itself"
		min := bits
		if own < min {
			min = own
		}
		walk(val, min, via, 0)
	})
	return findings, nParses
}

// keyNarrowingFindings: the (key) clause: integer conversions that narrow a value derived
// from `req` (the decoded request) and feed an argument of one of the `lookups` calls.
func keyNarrowingFindings(c *Ctx, f *ssa.Function, req ssa.Value, lookups []*ssa.Call) []widthFinding {
	var out []widthFinding
	seen := map[*ssa.Convert]bool{}
	for _, lk := range lookups {
		if lk == nil {
			continue
		}
		var roots []ssa.Value
		for _, a := range lk.Call.Args {
			roots = append(roots, a)
			// a filter built as a map literal: the keys and values put into it
			mv := stripConv(a)
			if mi, ok := mv.(*ssa.MakeInterface); ok {
				mv = stripConv(mi.X)
			}
			if mm, ok := mv.(*ssa.MakeMap); ok {
				for _, ref := range *mm.Referrers() {
					if mu, ok := ref.(*ssa.MapUpdate); ok && mu.Map == ssa.Value(mm) {
						roots = append(roots, mu.Key, mu.Value)
					}
				}
			}
		}
		for _, a := range roots {
			for d := range depSet(f, a) {
				cv, ok := d.(*ssa.Convert)
				if !ok || seen[cv] {
					continue
				}
				to, _, ok1 := intBits(cv.Type())
				from, _, ok2 := intBits(cv.X.Type())
				if !ok1 || !ok2 || to >= from {
					continue
				}
				fromReq := false
				for d2 := range depSet(f, cv.X) {
					if ld, ok := d2.(*ssa.UnOp); ok && ld.Op == token.MUL {
						if base := allocBase(ld.X); base != nil && base == req {
							fromReq = true
						}
					}
				}
				if !fromReq {
					continue
				}
				seen[cv] = true
				out = append(out, widthFinding{f, cv.Pos(), fmt.Sprintf("an identifier of the request (%s, %d bits) is narrowed to %s (%d bits) before it selects the document in %s: from %d on it selects the document of another identifier with the same low bits", strings.TrimPrefix(types.TypeString(cv.X.Type(), nil), modPath+"/"), from, types.TypeString(cv.Type(), nil), to, callName(lk), int64(1)<<uint(to))})
			}
		}
	}
	return out
}

// checkParseWidths reports the (parse) clause for the given functions under `rule`.
func checkParseWidths(c *Ctx, r *Report, rule string, fns ...*ssa.Function) {
	for _, f0 := range fns {
		for _, f := range withAnon(f0) {
			fs, n := parseWidthFindings(c, f)
			if n == 0 {
				if f == f0 {
					r.proven(rule, fnKey(f)+"|parsed numbers keep their width", c.rel(f.Pos()), "no strconv text-to-integer parse in this function: nothing can be narrowed by one")
				}
				continue
			}
			bad := ""
			pos := c.rel(f.Pos())
			if len(fs) > 0 {
				bad, pos = fs[0].what, c.rel(fs[0].pos)
			}
			r.check(bad == "", rule, fnKey(f)+"|parsed numbers keep their width", pos, fmt.Sprintf("%d text-to-integer parse(s): none passes through anything narrower than its destination", n), bad)
		}
	}
}

// rfWidthRules / abmfWidthRules: both width clauses for the rating / account-balance server.
func rfWidthRules(c *Ctx, r *Report, rule string) {
	if rule == "" {
		return
	}
	if !handlerStateless(c, newReport("scratch"), "x", "pkg/rf", "handleSUR") {
		r.blockedBy("the handler keeps state between requests", rule)
		return // reported by the statelessness rule; the model needs per-invocation variables
	}
	m := buildRfModel(c)
	checkParseWidths(c, r, rule, m.f, c.fn("pkg/rf", "buildTaffif"))
	fs := keyNarrowingFindings(c, m.f, m.req, []*ssa.Call{m.getOne})
	bad, pos := "", posOf(c, m.getOne)
	if len(fs) > 0 {
		bad, pos = fs[0].what, c.rel(fs[0].pos)
	}
	r.check(bad == "", rule, fnKey(m.f)+"|tariff looked up under the request's own identifiers", pos, "no identifier of the request is narrowed on its way into the look-up filter", bad)
}

func abmfWidthRules(c *Ctx, r *Report, rule string) {
	if rule == "" {
		return
	}
	if !handlerStateless(c, newReport("scratch"), "x", "pkg/abmf", "handleCCR") {
		r.blockedBy("the handler keeps state between requests", rule)
		return
	}
	m := buildAbmfModel(c)
	checkParseWidths(c, r, rule, m.f)
	fs := keyNarrowingFindings(c, m.f, m.req, []*ssa.Call{m.getOne, m.putOne})
	bad, pos := "", posOf(c, m.getOne)
	if len(fs) > 0 {
		bad, pos = fs[0].what, c.rel(fs[0].pos)
	}
	r.check(bad == "", rule, fnKey(m.f)+"|account looked up under the request's own identifiers", pos, "no identifier of the request is narrowed on its way into the look-up filter", bad)
}

// ---- one variable shared by the elements a loop builds
//
// `var x T` declared in front of a loop, assigned in every iteration, and its ADDRESS put into
// the element the iteration builds: all elements point at the same variable and show the
// value of the last iteration.  (Inside the loop `var x T` makes a new variable per
// iteration, which is what the code means.)
func loopSharedAddressFindings(c *Ctx, f *ssa.Function) []widthFinding {
	var out []widthFinding
	for _, b := range f.Blocks {
		for _, ins := range b.Instrs {
			al, ok := ins.(*ssa.Alloc)
			if !ok || al.Referrers() == nil {
				continue
			}
			avoid := map[*ssa.BasicBlock]bool{al.Block(): true}
			inLoopOutsideDecl := func(blk *ssa.BasicBlock) bool {
				if blk == al.Block() {
					return false
				}
				for _, sc := range blk.Succs {
					if sc == blk || reachableFrom(sc, nil, nil, avoid)[blk] {
						return true
					}
				}
				return false
			}
			var escapes, writes ssa.Instruction
			for _, ref := range *al.Referrers() {
				switch x := ref.(type) {
				case *ssa.Store:
					if x.Val == ssa.Value(al) && inLoopOutsideDecl(x.Block()) {
						escapes = x
					}
					if x.Addr == ssa.Value(al) && inLoopOutsideDecl(x.Block()) {
						if k, isK := x.Val.(*ssa.Const); !isK || k.Value != nil || true {
							writes = x
						}
					}
				case *ssa.FieldAddr:
					for _, r2 := range *x.Referrers() {
						if st, ok := r2.(*ssa.Store); ok && st.Addr == ssa.Value(x) && inLoopOutsideDecl(st.Block()) {
							writes = st
						}
					}
				}
			}
			if escapes != nil && writes != nil {
				out = append(out, widthFinding{f, escapes.Pos(), fmt.Sprintf("the address of %s (declared at %s, in front of the loop) is put into what each iteration builds at %s, and the variable is assigned again in every iteration (%s): all elements share the one variable and end up showing the value of the last iteration", describe(al), c.rel(al.Pos()), c.rel(escapes.Pos()), c.rel(writes.Pos()))})
			}
		}
	}
	return out
}

// ---- membership test of the subscriber's rating groups (C01.R10 / C06.R9)
//
// FindRatingGroup decides whether a rating group is new to the subscriber: a new one starts in
// reserve mode, a known one keeps its mode.  It has to compare the *elements* of
// ChfUe.RatingGroups - all of them - with the group asked for.
func checkFindRatingGroup(c *Ctx, r *Report, rule string) {
	f := c.fn("internal/context", "ChfUe.FindRatingGroup")
	key := fnKey(f) + "|membership"
	if len(f.Params) < 2 {
		r.viol(rule, key, c.rel(f.Pos()), "FindRatingGroup has no rating-group parameter (anchor moved)")
		return
	}
	want := ssa.Value(f.Params[1])
	isList := func(v ssa.Value) bool {
		ld, ok := stripConv(v).(*ssa.UnOp)
		if !ok || ld.Op != token.MUL {
			return false
		}
		_, ok = isFieldAddr(ld.X, ctxPath, "ChfUe", "RatingGroups")
		return ok
	}
	// slices.Contains(ue.RatingGroups, rg)
	viaContains := false
	eachInstr(f, func(_ *ssa.BasicBlock, _ int, ins ssa.Instruction) {
		if call, ok := ins.(*ssa.Call); ok {
			if obj := calleeObj(&call.Call); obj != nil && obj.Pkg() != nil && strings.HasSuffix(obj.Pkg().Path(), "slices") && strings.HasPrefix(obj.Name(), "Contains") && len(call.Call.Args) == 2 && isList(call.Call.Args[0]) && stripConv(call.Call.Args[1]) == want {
				viaContains = true
			}
		}
	})
	if viaContains {
		r.proven(rule, key, c.rel(f.Pos()), "slices.Contains(ue.RatingGroups, ratingGroup)")
		return
	}
	bad := ""
	// the comparison with the group asked for
	cmpElem, cmpOther := false, ""
	eachInstr(f, func(_ *ssa.BasicBlock, _ int, ins ssa.Instruction) {
		bo, ok := ins.(*ssa.BinOp)
		if !ok || (bo.Op != token.EQL && bo.Op != token.NEQ) {
			return
		}
		var other ssa.Value
		switch {
		case stripConv(bo.X) == want:
			other = bo.Y
		case stripConv(bo.Y) == want:
			other = bo.X
		default:
			return
		}
		o := stripConv(other)
		if ld, ok := o.(*ssa.UnOp); ok && ld.Op == token.MUL {
			if ia, ok := ld.X.(*ssa.IndexAddr); ok && isList(ia.X) {
				cmpElem = true
				return
			}
		}
		cmpOther = describe(other)
	})
	if !cmpElem {
		bad = "the rating group asked for is compared with " + cmpOther + ", not with the elements of ChfUe.RatingGroups (the loop variable of `for x := range list` is the index): a group is taken for known - and keeps whatever mode the zero value gives it, never charged - or for new, depending on its number, not on the list"
		if cmpOther == "" {
			bad = "FindRatingGroup does not compare the rating group asked for with the elements of ChfUe.RatingGroups"
		}
	}
	// every element is visited: the loop runs while index < len(list)
	if bad == "" {
		full := false
		for _, b := range f.Blocks {
			if len(b.Instrs) == 0 || len(b.Succs) != 2 || !inCycle(b) {
				continue
			}
			iff, ok := b.Instrs[len(b.Instrs)-1].(*ssa.If)
			if !ok {
				continue
			}
			bo, ok := iff.Cond.(*ssa.BinOp)
			if !ok || bo.Op != token.LSS {
				continue
			}
			if call, ok := stripConv(bo.Y).(*ssa.Call); ok {
				if bi, ok := call.Call.Value.(*ssa.Builtin); ok && bi.Name() == "len" && isList(call.Call.Args[0]) {
					full = true
				}
			}
		}
		if !full {
			bad = "the loop over ChfUe.RatingGroups does not run while index < len(list) (a bound of len-1 never looks at the last group: the group added last is taken for new on its next request and put back into reserve mode)"
		}
	}
	r.check(bad == "", rule, key, c.rel(f.Pos()), "every element of ChfUe.RatingGroups is compared with the group asked for", bad)
}
