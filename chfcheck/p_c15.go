package main

import (
	"fmt"
	"go/constant"
	"go/token"
	"go/types"
	"sort"
	"strings"

	"golang.org/x/tools/go/ssa"
)

// C14: CDR file codec round-trips every well-formed file structure.
// C15: CDR file bytes follow the TS 32.297 layout (independent table oracle).

func init() {
	register("C14", "other", checkC14)
	register("C15", "other", checkC15)
}

// efield: one field as the encoder lays it out.
type efield struct {
	Name   string
	Off    string
	Width  int // octets of the word it lives in; -1 variable
	Shift  int
	Bits   int   // number of bits (Width*8 for whole words)
	Mask   int64 // encoder side: the member is and-ed with this before it is placed (0 = not masked)
	LenOf  string
	Order  string
	Pos    token.Pos
	offPol poly
}

// length pairing of the variable regions (the statement's well-formedness:
// "length and count fields consistent with the content").
var lenPair = map[string]string{
	"CDRRouteingFilter": "LengthOfCdrRouteingFilter",
	"PrivateExtension":  "LengthOfPrivateExtension",
	"CdrByte":           "CdrLength",
}

func trimElem(name string) string {
	if i := strings.Index(name, ":"); i >= 0 {
		return name[i+1:]
	}
	return name
}

// fieldsOf lays the segments out from `base` and returns the fields and the end offset.
func fieldsOf(segs []seg, base poly) ([]efield, poly, error) {
	off := base.clone()
	var out []efield
	for _, s := range segs {
		switch s.Kind {
		case "field":
			out = append(out, efield{Name: trimElem(s.Name), Off: off.String(), offPol: off.clone(), Width: s.Width, Bits: s.Width * 8, Order: s.Order, Pos: s.Pos})
			off = polyAdd(off, constPoly(int64(s.Width)), 1)
		case "pack":
			top := s.Width * 8
			bits := append([]bitField{}, s.Bits...)
			sort.Slice(bits, func(i, j int) bool { return bits[i].Shift > bits[j].Shift })
			for _, b := range bits {
				out = append(out, efield{Name: trimElem(b.Field), Off: off.String(), offPol: off.clone(), Width: s.Width, Shift: b.Shift, Bits: top - b.Shift, Mask: b.Mask, Order: s.Order, Pos: s.Pos})
				top = b.Shift
			}
			off = polyAdd(off, constPoly(int64(s.Width)), 1)
		case "var":
			name := trimElem(s.Name)
			lf, ok := lenPair[name]
			if !ok {
				return nil, nil, fmt.Errorf("variable region %s has no length field in the pairing table", name)
			}
			out = append(out, efield{Name: name, Off: off.String(), offPol: off.clone(), Width: -1, LenOf: lf, Pos: s.Pos})
			off = polyAdd(off, atomPoly("val("+lf+")"), 1)
		default:
			return nil, nil, fmt.Errorf("unexpected %s segment inside a header", s.Kind)
		}
	}
	return out, off, nil
}

type layouts struct {
	c         *Ctx
	hdrFn     *ssa.Function
	recFn     *ssa.Function
	fileFn    *ssa.Function
	decFn     *ssa.Function
	hdrConds  []string
	recConds  []string
	fileShape string
}

func loadLayouts(c *Ctx) *layouts {
	l := &layouts{c: c}
	l.hdrFn = c.fn("cdr/cdrFile", "CdrFileHeader.Encoding")
	l.recFn = c.fn("cdr/cdrFile", "CdrHeader.Encoding")
	l.fileFn = c.fn("cdr/cdrFile", "CDRFile.Encoding")
	l.decFn = c.fn("cdr/cdrFile", "CDRFile.Decoding")
	l.hdrConds = releaseConds(c, l.hdrFn)
	l.recConds = releaseConds(c, l.recFn)
	return l
}

// ---------------------------------------------------------------------------
// C15

type tsRow struct {
	name  string
	width int // octets of the containing word; -1 variable
	shift int
	bits  int
	cond  string // release member that must be 7 for the row to be present
}

// TS 32.297 clause 6.1.1 (file header) and 6.1.2 (CDR header), written from the
// specification, not from the code.  Names are those of the Go structures.
var ts32297Header = []tsRow{
	{"FileLength", 4, 0, 32, ""},
	{"HeaderLength", 4, 0, 32, ""},
	{"HighReleaseIdentifier", 1, 5, 3, ""},
	{"HighVersionIdentifier", 1, 0, 5, ""},
	{"LowReleaseIdentifier", 1, 5, 3, ""},
	{"LowVersionIdentifier", 1, 0, 5, ""},
	{"FileOpeningTimestamp.MonthLocal", 4, 28, 4, ""},
	{"FileOpeningTimestamp.DateLocal", 4, 23, 5, ""},
	{"FileOpeningTimestamp.HourLocal", 4, 18, 5, ""},
	{"FileOpeningTimestamp.MinuteLocal", 4, 12, 6, ""},
	{"FileOpeningTimestamp.SignOfTheLocalTimeDifferentialFromUtc", 4, 11, 1, ""},
	{"FileOpeningTimestamp.HourDeviation", 4, 6, 5, ""},
	{"FileOpeningTimestamp.MinuteDeviation", 4, 0, 6, ""},
	{"TimestampWhenLastCdrWasAppendedToFIle.MonthLocal", 4, 28, 4, ""},
	{"TimestampWhenLastCdrWasAppendedToFIle.DateLocal", 4, 23, 5, ""},
	{"TimestampWhenLastCdrWasAppendedToFIle.HourLocal", 4, 18, 5, ""},
	{"TimestampWhenLastCdrWasAppendedToFIle.MinuteLocal", 4, 12, 6, ""},
	{"TimestampWhenLastCdrWasAppendedToFIle.SignOfTheLocalTimeDifferentialFromUtc", 4, 11, 1, ""},
	{"TimestampWhenLastCdrWasAppendedToFIle.HourDeviation", 4, 6, 5, ""},
	{"TimestampWhenLastCdrWasAppendedToFIle.MinuteDeviation", 4, 0, 6, ""},
	{"NumberOfCdrsInFile", 4, 0, 32, ""},
	{"FileSequenceNumber", 4, 0, 32, ""},
	{"FileClosureTriggerReason", 1, 0, 8, ""},
	{"IpAddressOfNodeThatGeneratedFile", 20, 0, 160, ""},
	{"LostCdrIndicator", 1, 0, 8, ""},
	{"LengthOfCdrRouteingFilter", 2, 0, 16, ""},
	{"CDRRouteingFilter", -1, 0, 0, ""},
	{"LengthOfPrivateExtension", 2, 0, 16, ""},
	{"PrivateExtension", -1, 0, 0, ""},
	{"HighReleaseIdentifierExtension", 1, 0, 8, "HighReleaseIdentifier"},
	{"LowReleaseIdentifierExtension", 1, 0, 8, "LowReleaseIdentifier"},
}

var ts32297Record = []tsRow{
	{"CdrLength", 2, 0, 16, ""},
	{"ReleaseIdentifier", 1, 5, 3, ""},
	{"VersionIdentifier", 1, 0, 5, ""},
	{"DataRecordFormat", 1, 5, 3, ""},
	{"TsNumber", 1, 0, 5, ""},
	{"ReleaseIdentifierExtension", 1, 0, 8, "ReleaseIdentifier"},
}

// expectedFrom lays the specification rows out under an assignment.
func expectedFrom(rows []tsRow, assign map[string]bool, base poly) []efield {
	off := base.clone()
	var out []efield
	i := 0
	for i < len(rows) {
		row := rows[i]
		if row.cond != "" && !assign[row.cond] {
			i++
			continue
		}
		if row.width == -1 {
			out = append(out, efield{Name: row.name, Off: off.String(), Width: -1, LenOf: lenPair[row.name]})
			off = polyAdd(off, atomPoly("val("+lenPair[row.name]+")"), 1)
			i++
			continue
		}
		// rows of one word: consecutive rows whose bit counts add up to the word
		total := 0
		j := i
		for j < len(rows) && total < row.width*8 {
			out = append(out, efield{Name: rows[j].name, Off: off.String(), Width: rows[j].width, Shift: rows[j].shift, Bits: rows[j].bits})
			total += rows[j].bits
			j++
		}
		off = polyAdd(off, constPoly(int64(row.width)), 1)
		i = j
	}
	return out
}

func compareFields(got []efield, want []efield) []string {
	var diffs []string
	gm := map[string]efield{}
	for _, g := range got {
		gm[g.Name] = g
	}
	wm := map[string]bool{}
	for _, w := range want {
		wm[w.Name] = true
		g, ok := gm[w.Name]
		if !ok {
			diffs = append(diffs, w.Name+" is not written")
			continue
		}
		if g.Off != w.Off {
			diffs = append(diffs, fmt.Sprintf("%s is written at offset %s, the specification places it at %s", w.Name, g.Off, w.Off))
		}
		if g.Width != w.Width {
			diffs = append(diffs, fmt.Sprintf("%s is written in a %d-octet word, specified %d", w.Name, g.Width, w.Width))
		}
		if w.Width > 0 && (g.Shift != w.Shift) {
			diffs = append(diffs, fmt.Sprintf("%s is placed at bit shift %d, specified %d", w.Name, g.Shift, w.Shift))
		}
		if w.Width > 0 && g.Shift == w.Shift && g.Bits != w.Bits {
			diffs = append(diffs, fmt.Sprintf("%s occupies %d bits, specified %d", w.Name, g.Bits, w.Bits))
		}
		if w.Width > 0 && g.Mask != 0 && w.Bits > 0 && w.Bits < 63 {
			full := int64(1)<<uint(w.Bits) - 1
			if g.Mask&full != full {
				diffs = append(diffs, fmt.Sprintf("%s is and-ed with %#x before it is written, the field has %d bits (%#x): larger values are silently truncated", w.Name, g.Mask, w.Bits, full))
			}
		}
	}
	for _, g := range got {
		if !wm[g.Name] {
			diffs = append(diffs, g.Name+" is written but not part of the specified layout for this combination")
		}
	}
	return diffs
}

func checkC15(c *Ctx, r *Report) {
	r.Explanation = "The byte layout is extracted from the encoders by abstract interpretation of their write calls (E5d) for every combination of the release-identifier tests and compared, field by field, with a table written from TS 32.297 clause 6.1.1/6.1.2 in the checker (not derived from the code): offset (as a form over the length fields), word width, bit shift and bit count of every field, presence of the extension octets exactly on identifier == 7 and in high-then-low order, big-endian byte order of every multi-octet word, and the file = header + repeat(record header + payload) shape.  The decoder's reads (offset, width, shift, mask) are compared with the same table, so an encoder and decoder agreeing on a wrong position are caught by the table, not by each other."
	r.Undecided = []string{"an exotic but correct rewrite of the encoders that the extractor cannot interpret is reported as undecided (the check then fails rather than passes)"}
	r.Trusted = append(r.Trusted, "encoding/binary.Write writes exactly the fixed-size representation of its argument in the given order; bytes.Buffer appends")
	r.Exhaustive = true
	r.rule("C15.R1", "encoder layout equals the TS 32.297 table for every release-identifier combination", 6)
	r.rule("C15.R2", "every multi-octet word is written / read big-endian", 2)
	r.rule("C15.R3", "decoder reads (offset, width, shift, mask) equal the TS 32.297 table", 6)
	r.rule("C15.R4", "file shape: header, then per record header + exactly the payload", 1)
	r.rule("C15.R6", "every buffer an encoder assembles its octets in is empty when the first octet is written (fresh, or emptied by a Reset that dominates every write)", 3)
	r.rule("C15.R5", "the file on disk is replaced by exactly the encoded octets (truncating write)", 1)
	r.rule("C15.R8", "no packed member loses bits to a left shift computed in an 8- or 16-bit type", 2)
	r.rule("C15.R9", "the named values of the header enumerations (closure reason, release identifier, record format, TS number) are the numbers TS 32.297 assigns (exhaustive table)", 40)
	r.rule("C15.R7", "the encoders write the members of the object they are given: no member of the receiver is assigned or taken from elsewhere", 3)

	l := loadLayouts(c)
	// header
	for _, a := range allAssignments(l.hdrConds) {
		key := "file header|" + assignString(a)
		segs, _, err := encoderLayout(c, l.hdrFn, a)
		if err != nil {
			r.viol("C15.R1", key, c.rel(l.hdrFn.Pos()), "undecided: "+err.Error())
			continue
		}
		got, _, err := fieldsOf(segs, poly{})
		if err != nil {
			r.viol("C15.R1", key, c.rel(l.hdrFn.Pos()), "undecided: "+err.Error())
			continue
		}
		want := expectedFrom(ts32297Header, a, poly{})
		diffs := compareFields(got, want)
		r.check(len(diffs) == 0, "C15.R1", key, c.rel(l.hdrFn.Pos()), fmt.Sprintf("%d fields at the specified offsets/bits", len(want)), strings.Join(diffs, "; "))
		c15Order(r, "file header|"+assignString(a), segs, c, l.hdrFn)
	}
	for _, a := range allAssignments(l.recConds) {
		key := "record header|" + assignString(a)
		segs, _, err := encoderLayout(c, l.recFn, a)
		if err != nil {
			r.viol("C15.R1", key, c.rel(l.recFn.Pos()), "undecided: "+err.Error())
			continue
		}
		got, _, err := fieldsOf(segs, poly{})
		if err != nil {
			r.viol("C15.R1", key, c.rel(l.recFn.Pos()), "undecided: "+err.Error())
			continue
		}
		want := expectedFrom(ts32297Record, a, poly{})
		diffs := compareFields(got, want)
		r.check(len(diffs) == 0, "C15.R1", key, c.rel(l.recFn.Pos()), fmt.Sprintf("%d fields at the specified offsets/bits", len(want)), strings.Join(diffs, "; "))
		c15Order(r, key, segs, c, l.recFn)
	}
	// file shape
	{
		segs, _, err := encoderLayout(c, l.fileFn, map[string]bool{})
		key := "file"
		if err != nil {
			r.viol("C15.R4", key, c.rel(l.fileFn.Pos()), "undecided: "+err.Error())
		} else {
			shape := segsString(segs)
			want := "nested(Hdr/(cdr/cdrFile.CdrFileHeader).Encoding), repeat{nested(CDR:Hdr/(cdr/cdrFile.CdrHeader).Encoding), bytes(CDR:CdrByte)}"
			r.check(shape == want, "C15.R4", key, c.rel(l.fileFn.Pos()), "file = header, then for each record: record header, payload", "the file is assembled as "+shape+", specified: header, then for each record its header followed by exactly its payload")
		}
	}
	// decoder vs table
	c14Compare(c, r, l, true)
	fileReplaced(c, r, "C15.R5")
	buffersStartEmpty(c, r, "C15.R6", l.hdrFn, l.recFn, l.fileFn)
	encodersWriteWhatGiven(c, r, "C15.R7", l.hdrFn, l.recFn, l.fileFn)
	c15NarrowShifts(c, r, "C15.R8", l.hdrFn, l.recFn, l.fileFn)
	c15EnumValues(c, r, "C15.R9")
}

func c15Order(r *Report, key string, segs []seg, c *Ctx, f *ssa.Function) {
	bad := ""
	n := 0
	for _, s := range segs {
		if (s.Kind == "field" || s.Kind == "pack") && s.Width > 1 && !isByteArraySeg(s) {
			n++
			if s.Order != "BigEndian" {
				bad = fmt.Sprintf("%s is written %s", s.String(), s.Order)
			}
		}
	}
	if n > 0 {
		r.check(bad == "", "C15.R2", key, c.rel(f.Pos()), fmt.Sprintf("%d multi-octet words written big-endian", n), "TS 32.297 fields are big-endian: "+bad)
	}
}

func isByteArraySeg(s seg) bool { return s.Kind == "field" && s.Order == "" && s.Width > 8 }

// ---------------------------------------------------------------------------
// C14

func checkC14(c *Ctx, r *Report) {
	r.Explanation = "Encoder/decoder agreement decided from the two extracted layouts for all eight combinations of the release-identifier tests: every field the encoder writes is read back by the decoder into the same member from the same offset form (over the length fields), word width and bit position, with a mask of exactly the field's bits; the record loop starts where the header ends, advances by record header size + CdrLength, takes exactly CdrLength payload octets and runs NumberOfCdrsInFile times; (R2) no narrow (8/16-bit) offset arithmetic in the decoder can wrap for lengths up to 65535."
	r.Undecided = []string{"equality of structures for concrete values (follows from the layout agreement for well-formed inputs; not separately checked)", "behaviour on malformed files"}
	r.Exhaustive = true
	r.rule("C14.R1", "decoder reads every encoded field from the offset/width/bits the encoder writes it at, for every release-identifier combination", 8)
	r.rule("C14.R2", "decoder offset arithmetic cannot wrap", 1)
	r.rule("C14.R3", "record loop: starts after the header, advances by header + CdrLength, payload is exactly CdrLength octets, runs NumberOfCdrsInFile times", 4)
	r.rule("C14.R4", "the encoders write what they are given: members unmodified (shared with C15.R7), file shape header + records (shared with C15.R4)", 4)
	l := loadLayouts(c)
	c14Compare(c, r, l, false)
	c14Wrap(c, r, l)
	r.shareFrom(c, checkC15, map[string]string{"C15.R7": "C14.R4", "C15.R4": "C14.R4"})
}

// c14Compare compares the decoder with the encoder (C14) or with the table (C15).
func c14Compare(c *Ctx, r *Report, l *layouts, table bool) {
	ruleFields, ruleLoop := "C14.R1", "C14.R3"
	if table {
		ruleFields, ruleLoop = "C15.R3", ""
	}
	conds := append(append([]string{}, l.hdrConds...), l.recConds...)
	for _, a := range allAssignments(conds) {
		key := assignString(a)
		// the reference layout
		var hdrWant, recWant []efield
		var hdrEnd, recEnd poly
		hsegs, _, err1 := encoderLayout(c, l.hdrFn, a)
		rsegs, _, err2 := encoderLayout(c, l.recFn, a)
		if err1 != nil || err2 != nil {
			r.viol(ruleFields, key, c.rel(l.decFn.Pos()), fmt.Sprintf("undecided: %v %v", err1, err2))
			continue
		}
		encHdr, hEnd, e1 := fieldsOf(hsegs, poly{})
		encRec, rEnd, e2 := fieldsOf(append(append([]seg{}, rsegs...), seg{Kind: "var", Name: "CdrByte", Width: -1}), atomPoly("loop:tail"))
		if e1 != nil || e2 != nil {
			r.viol(ruleFields, key, c.rel(l.decFn.Pos()), fmt.Sprintf("undecided: %v %v", e1, e2))
			continue
		}
		if table {
			hdrWant = expectedFrom(ts32297Header, a, poly{})
			recWant = expectedFrom(append(append([]tsRow{}, ts32297Record...), tsRow{"CdrByte", -1, 0, 0, ""}), a, atomPoly("loop:tail"))
			hdrEnd, recEnd = hEnd, rEnd
		} else {
			hdrWant, recWant, hdrEnd, recEnd = encHdr, encRec, hEnd, rEnd
		}
		// naming functions for the decoder: by the ENCODER's positions (what is actually in the file)
		fieldAt := func(off string, width int) string {
			for _, e := range append(append([]efield{}, encHdr...), encRec...) {
				if e.Off == off && e.Width == width && e.Bits == width*8 {
					return e.Name
				}
			}
			for _, e := range append(append([]efield{}, encHdr...), encRec...) {
				if e.Off == off && e.Width == width {
					return "word@" + off
				}
			}
			return ""
		}
		relName := func(sig string) string {
			for _, e := range append(append([]efield{}, encHdr...), encRec...) {
				if fmt.Sprintf("%s|%d|%d", e.Off, e.Width, e.Shift) == sig && (e.Name == "HighReleaseIdentifier" || e.Name == "LowReleaseIdentifier" || e.Name == "ReleaseIdentifier") {
					return e.Name
				}
			}
			return ""
		}
		dl, err := decoderLayout(c, l.decFn, a, fieldAt, relName)
		if err != nil {
			r.viol(ruleFields, key, c.rel(l.decFn.Pos()), "undecided: "+err.Error())
			continue
		}
		diffs := compareReads(dl.header, "Hdr.", hdrWant)
		diffs = append(diffs, compareReads(dl.records, "CDR.", recWant)...)
		if !table {
			// a member the encoder narrows below the bits it occupies cannot be restored by any decoder
			for _, e := range append(append([]efield{}, encHdr...), encRec...) {
				if e.Mask != 0 && e.Bits > 0 && e.Bits < 63 {
					if full := int64(1)<<uint(e.Bits) - 1; e.Mask&full != full {
						diffs = append(diffs, fmt.Sprintf("the encoder and-s %s with %#x although the member occupies %d bits: values above the mask are not restored by decoding", e.Name, e.Mask, e.Bits))
					}
				}
			}
		}
		what := "encoder"
		if table {
			what = "TS 32.297 table"
		}
		r.check(len(diffs) == 0, ruleFields, key, c.rel(l.decFn.Pos()), fmt.Sprintf("%d header and %d record members read where the %s places them", len(hdrWant), len(recWant), what), strings.Join(diffs, "; "))
		if ruleLoop == "" {
			continue
		}
		// loop
		var ldiffs []string
		if dl.init["loop:tail"] != hdrEnd.String() {
			ldiffs = append(ldiffs, fmt.Sprintf("the first record is read at %s, the encoded header ends at %s", dl.init["loop:tail"], hdrEnd.String()))
		}
		wantStep := polyAdd(recEnd, atomPoly("loop:tail"), -1).String()
		if dl.step["loop:tail"] != wantStep {
			ldiffs = append(ldiffs, fmt.Sprintf("the record cursor advances by %s, an encoded record occupies %s", dl.step["loop:tail"], wantStep))
		}
		// iteration count
		cntOK := false
		for sym, init := range dl.init {
			if sym == "loop:tail" {
				continue
			}
			st := dl.step[sym]
			b := dl.bound
			if st == "1" && ((init == "1" && b == sym+" <= val(NumberOfCdrsInFile)") || (init == "0" && b == sym+" < val(NumberOfCdrsInFile)")) {
				cntOK = true
			}
		}
		if !cntOK {
			ldiffs = append(ldiffs, "the record loop does not run exactly NumberOfCdrsInFile times (bound "+dl.bound+")")
		}
		r.check(len(ldiffs) == 0, ruleLoop, key, c.rel(l.decFn.Pos()), "cursor starts at the header end, advances by one record, NumberOfCdrsInFile iterations", strings.Join(ldiffs, "; "))
	}
}

func compareReads(reads []dread, prefix string, want []efield) []string {
	var diffs []string
	rm := map[string]dread{}
	for _, rd := range reads {
		name := strings.TrimPrefix(rd.Target, prefix)
		name = strings.TrimPrefix(name, "Hdr.") // CDR.Hdr.X -> X
		rm[name] = rd
	}
	wm := map[string]bool{}
	for _, w := range want {
		wm[w.Name] = true
		rd, ok := rm[w.Name]
		if !ok || (rd.Width == 0 && strings.HasPrefix(rd.Off, "const")) {
			diffs = append(diffs, w.Name+" is not read back")
			continue
		}
		if w.Width == -1 {
			wantEnd := w.Off + " + val(" + w.LenOf + ")"
			// canonical form: compare through polynomials rendered by String(); build the expected end the same way
			if rd.Width != -1 {
				diffs = append(diffs, w.Name+" is not read as a byte region")
				continue
			}
			if rd.Off != w.Off {
				diffs = append(diffs, fmt.Sprintf("%s is read from %s, it is at %s", w.Name, rd.Off, w.Off))
			}
			if !sameEnd(rd.End, w) {
				diffs = append(diffs, fmt.Sprintf("%s is read up to %s, it ends at %s", w.Name, rd.End, wantEnd))
			}
			continue
		}
		if rd.Off != w.Off {
			diffs = append(diffs, fmt.Sprintf("%s is read from offset %s, it is at %s", w.Name, rd.Off, w.Off))
		}
		if rd.Width != w.Width {
			diffs = append(diffs, fmt.Sprintf("%s is read from a %d-octet word, it is in a %d-octet word", w.Name, rd.Width, w.Width))
			continue
		}
		if rd.Shift != w.Shift {
			diffs = append(diffs, fmt.Sprintf("%s is read with shift %d, it is at shift %d", w.Name, rd.Shift, w.Shift))
		}
		full := int64(1)<<uint(w.Bits) - 1
		topOfWord := w.Shift+w.Bits == w.Width*8
		if !(rd.Mask == full || (rd.Mask == 0 && topOfWord)) {
			diffs = append(diffs, fmt.Sprintf("%s is read with mask %d, the field has %d bits", w.Name, rd.Mask, w.Bits))
		}
		if w.Width > 1 && w.Width <= 8 && rd.Order != "BigEndian" {
			diffs = append(diffs, fmt.Sprintf("%s is read %s", w.Name, rd.Order))
		}
	}
	for name, rd := range rm {
		if !wm[name] && !(rd.Width == 0) {
			diffs = append(diffs, name+" is read by the decoder but not present in the file for this combination")
		}
	}
	sort.Strings(diffs)
	return diffs
}

// sameEnd: the region end equals offset + val(length field).
func sameEnd(end string, w efield) bool {
	want := polyAdd(w.offPol, atomPoly("val("+w.LenOf+")"), 1)
	if w.offPol == nil {
		// table rows carry no polynomial: rebuild from the string by comparison of renderings
		return strings.Contains(end, "val("+w.LenOf+")")
	}
	return end == want.String()
}

// c14Wrap: narrow unsigned arithmetic on values derived from file contents.
func c14Wrap(c *Ctx, r *Report, l *layouts) {
	f := l.decFn
	re := newRangeEval(f)
	n := 0
	bad := 0
	eachInstr(f, func(_ *ssa.BasicBlock, _ int, ins ssa.Instruction) {
		bo, ok := ins.(*ssa.BinOp)
		if !ok || (bo.Op != token.ADD && bo.Op != token.SUB && bo.Op != token.MUL) {
			return
		}
		sz := sizeOfBasic(bo.Type())
		if sz != 1 && sz != 2 {
			return
		}
		if _, isC := constInt(bo.X); isC {
			if _, isC2 := constInt(bo.Y); isC2 {
				return
			}
		}
		n++
		a, b := re.eval(bo.X), re.eval(bo.Y)
		tr := typeRange(bo.Type())
		var res ival
		if a.ok && b.ok {
			switch bo.Op {
			case token.ADD:
				res = rng(addSat(a.lo, b.lo), addSat(a.hi, b.hi))
			case token.SUB:
				res = rng(addSat(a.lo, -b.hi), addSat(a.hi, -b.lo))
			case token.MUL:
				res = rng(a.lo*b.lo, a.hi*b.hi)
			}
		}
		okFit := res.ok && res.lo >= tr.lo && res.hi <= tr.hi
		if !okFit {
			bad++
			r.viol("C14.R2", fmt.Sprintf("%s|%d-bit arithmetic #%d", fnKey(f), sz*8, n), posOf(c, bo), fmt.Sprintf("%d-bit offset arithmetic %s may wrap: a routeing filter / private extension length near 65535 moves every later offset to the wrong place", sz*8, bo.String()))
		}
	})
	if bad == 0 {
		r.proven("C14.R2", fnKey(f)+"|narrow arithmetic", c.rel(f.Pos()), fmt.Sprintf("%d narrow arithmetic operations, none can wrap", n))
	}
}

// fileReplaced: the destination file ends up holding exactly the encoded
// octets.  The encoder assembles the whole file in a buffer; the step that
// puts it on disk must replace the previous contents (os.WriteFile, os.Create,
// or os.OpenFile with O_TRUNC and without O_APPEND) and hand over the whole
// buffer.  Opening the existing file without truncation leaves the tail of a
// longer previous file behind: the file-length member no longer equals the
// file size and stale records follow the announced ones.
func fileReplaced(c *Ctx, r *Report, rule string) {
	f := c.fn("cdr/cdrFile", "CDRFile.Encoding")
	n := 0
	eachInstr(f, func(_ *ssa.BasicBlock, _ int, ins ssa.Instruction) {
		call, ok := ins.(*ssa.Call)
		if !ok {
			return
		}
		obj := calleeObj(&call.Call)
		if obj == nil || obj.Pkg() == nil {
			return
		}
		name := obj.Pkg().Path() + "." + obj.Name()
		key := fmt.Sprintf("%s|%s", fnKey(f), name)
		switch name {
		case "os.WriteFile", "io/ioutil.WriteFile", "os.Create":
			n++
			r.proven(rule, key, posOf(c, call), name+" replaces the previous contents of the file")
		case "os.OpenFile":
			n++
			flags, isC := constInt(call.Call.Args[1])
			// values of the os package constants on the analysed platform
			var oTrunc, oAppend int64 = 0x200, 0x400
			if o, ok := c.extObj("os", "O_TRUNC").(*types.Const); ok {
				oTrunc, _ = constant.Int64Val(o.Val())
			}
			if o, ok := c.extObj("os", "O_APPEND").(*types.Const); ok {
				oAppend, _ = constant.Int64Val(o.Val())
			}
			okT := isC && flags&oTrunc != 0 && flags&oAppend == 0
			why := "the open flags are not constant"
			if isC {
				why = fmt.Sprintf("the open flags %#x lack O_TRUNC (or carry O_APPEND)", flags)
			}
			r.check(okT, rule, key, posOf(c, call), "opened with O_TRUNC", "the CDR file is opened for writing without being emptied ("+why+"): when a shorter file is written to a name that already holds a longer one, the old tail stays - the file length member no longer equals the file size and stale records follow the announced ones")
		}
	})
	if n == 0 {
		r.viol(rule, fnKey(f)+"|write", c.rel(f.Pos()), "the encoder does not put the buffer on disk with a recognised call (os.WriteFile / os.Create / os.OpenFile)")
	}
}

// buffersStartEmpty: the layout rules describe what an encoder appends; they
// describe the octets of the file only if the buffer appended to holds
// nothing before the first append.  A buffer made in the function is empty; a
// buffer obtained elsewhere (a pool, a member, a parameter) must be emptied by
// a Reset / Truncate(0) that dominates every write - emptying it after use
// only leaves the octets of a call that returned early in front of the next
// file.
func buffersStartEmpty(c *Ctx, r *Report, rule string, fns ...*ssa.Function) {
	isBuf := func(t types.Type) bool {
		if p, ok := t.Underlying().(*types.Pointer); ok {
			t = p.Elem()
		}
		return typeIs(t, "bytes", "Buffer")
	}
	for _, f := range fns {
		if f == nil {
			continue
		}
		type use struct {
			writes []*ssa.Call
			resets []*ssa.Call
			root   ssa.Value
		}
		uses := map[string]*use{}
		var order []string
		keyOf := func(v ssa.Value) (string, ssa.Value) {
			v = stripConv(v)
			if p, ok := pathOf(v); ok && len(p.Elems) > 0 {
				return "path:" + p.String(), v
			}
			return fmt.Sprintf("val:%p", v), v
		}
		get := func(v ssa.Value) *use {
			k, root := keyOf(v)
			u := uses[k]
			if u == nil {
				u = &use{root: root}
				uses[k] = u
				order = append(order, k)
			}
			return u
		}
		eachInstr(f, func(_ *ssa.BasicBlock, _ int, ins ssa.Instruction) {
			call, ok := ins.(*ssa.Call)
			if !ok {
				return
			}
			obj := calleeObj(&call.Call)
			if obj == nil || obj.Pkg() == nil || len(call.Call.Args) == 0 {
				return
			}
			switch obj.Pkg().Path() + "." + funcLocalName(obj) {
			case "encoding/binary.Write":
				if b := stripConv(call.Call.Args[0]); isBuf(b.Type()) {
					u := get(b)
					u.writes = append(u.writes, call)
				}
			case "bytes.Buffer.Write", "bytes.Buffer.WriteByte", "bytes.Buffer.WriteString", "bytes.Buffer.WriteRune", "bytes.Buffer.ReadFrom":
				u := get(call.Call.Args[0])
				u.writes = append(u.writes, call)
			case "bytes.Buffer.Reset":
				u := get(call.Call.Args[0])
				u.resets = append(u.resets, call)
			case "bytes.Buffer.Truncate":
				if k, ok := constInt(call.Call.Args[1]); ok && k == 0 {
					u := get(call.Call.Args[0])
					u.resets = append(u.resets, call)
				}
			}
		})
		n := 0
		for _, k := range order {
			u := uses[k]
			if len(u.writes) == 0 {
				continue
			}
			n++
			key := fmt.Sprintf("%s|buffer #%d", fnKey(f), n)
			pos := posOf(c, u.writes[0])
			fresh, origin := false, describe(u.root)
			switch x := u.root.(type) {
			case *ssa.Alloc:
				fresh = true
				origin = "a buffer made in the function"
				for _, ref := range *x.Referrers() {
					if st, ok := ref.(*ssa.Store); ok && st.Addr == x {
						fresh = false
						origin = "a buffer overwritten with " + describe(st.Val)
					}
				}
			case *ssa.Call:
				if o := calleeObj(&x.Call); o != nil && o.Pkg() != nil && o.Pkg().Path() == "bytes" && (o.Name() == "NewBuffer" || o.Name() == "NewBufferString") && len(x.Call.Args) == 1 {
					origin = "bytes." + o.Name()
					switch a := x.Call.Args[0].(type) {
					case *ssa.Const:
						fresh = a.Value == nil || a.Value.ExactString() == `""`
					case *ssa.MakeSlice:
						if k, ok := constInt(a.Len); ok && k == 0 {
							fresh = true
						}
					}
				}
			}
			if fresh {
				r.proven(rule, key, pos, origin+": empty at the first write")
				continue
			}
			// a Reset that dominates every write
			okAll := len(u.resets) > 0
			bad := ""
			for _, w := range u.writes {
				dom := false
				for _, rs := range u.resets {
					if instrDominates(rs, w) {
						dom = true
					}
				}
				if !dom {
					okAll = false
					if bad == "" {
						bad = posOf(c, w)
					}
				}
			}
			r.check(okAll, rule, key, pos, "obtained from "+origin+" and emptied by a Reset that dominates every write",
				fmt.Sprintf("%s appends to a buffer obtained from %s that is not known to be empty (no Reset dominates the write at %s): whatever an earlier use left in it - e.g. the octets of a file whose write failed and returned early - precedes the octets of this file, and every offset of the format is shifted", shortFn(f), origin, bad))
		}
		if n == 0 {
			// assembled by append: the slice every return hands out must grow from an empty one
			var rootEmpty func(v ssa.Value, depth int) bool
			seenPhi := map[*ssa.Phi]bool{}
			rootEmpty = func(v ssa.Value, depth int) bool {
				if depth > 64 {
					return false
				}
				switch x := v.(type) {
				case *ssa.MakeSlice:
					k, ok := constInt(x.Len)
					return ok && k == 0
				case *ssa.Const:
					return x.Value == nil
				case *ssa.Slice:
					if x.High != nil && x.Low == nil {
						k, ok := constInt(x.High)
						return ok && k == 0
					}
				case *ssa.Phi:
					if seenPhi[x] {
						return true // loop-carried: decided by the other edges
					}
					seenPhi[x] = true
					for _, e := range x.Edges {
						if !rootEmpty(e, depth+1) {
							return false
						}
					}
					return len(x.Edges) > 0
				case *ssa.Call:
					if b, ok := x.Call.Value.(*ssa.Builtin); ok && b.Name() == "append" {
						return rootEmpty(x.Call.Args[0], depth+1)
					}
					// the octets another encoder of the format returned (checked on its own)
					if sc := x.Call.StaticCallee(); sc != nil {
						for _, g := range fns {
							if g == sc {
								return true
							}
						}
					}
					if o := calleeObj(&x.Call); o != nil && o.Pkg() != nil && o.Pkg().Path() == "encoding/binary" && strings.HasPrefix(o.Name(), "Append") && len(x.Call.Args) >= 2 {
						return rootEmpty(x.Call.Args[1], depth+1)
					}
				}
				return false
			}
			all, some := true, false
			for _, ri := range returnsOf(f) {
				for _, v := range ri.Vals {
					if sl, ok := v.Type().Underlying().(*types.Slice); ok && sizeOfBasic(sl.Elem()) == 1 {
						some = true
						if !rootEmpty(v, 0) {
							all = false
						}
					}
				}
			}
			// or handed to the file write directly
			eachInstr(f, func(_ *ssa.BasicBlock, _ int, ins ssa.Instruction) {
				if call, ok := ins.(*ssa.Call); ok {
					if o := calleeObj(&call.Call); o != nil && o.Pkg() != nil && o.Pkg().Path() == "os" && o.Name() == "WriteFile" && len(call.Call.Args) >= 2 {
						some = true
						if !rootEmpty(call.Call.Args[1], 0) {
							all = false
						}
					}
				}
			})
			appended := false
			eachInstr(f, func(_ *ssa.BasicBlock, _ int, ins ssa.Instruction) {
				if call, ok := ins.(*ssa.Call); ok {
					if b, ok := call.Call.Value.(*ssa.Builtin); ok && b.Name() == "append" {
						appended = true
					}
				}
			})
			if some && all {
				r.proven(rule, fnKey(f)+"|appended slice", c.rel(f.Pos()), "the octets are appended to a slice that starts empty (make with length 0 / nil) on every path to a return")
			} else if some && appended {
				r.viol(rule, fnKey(f)+"|appended slice", c.rel(f.Pos()), shortFn(f)+" assembles its octets by append, but the slice appended to is not known to start empty (not make(.., 0, ..), nil or s[:0]): whatever it already holds precedes the encoded octets and every offset of the format is shifted")
			} else {
				r.info(rule, fnKey(f)+"|no buffer", c.rel(f.Pos()), "the encoder does not assemble its octets in a bytes.Buffer")
			}
		}
	}
}
