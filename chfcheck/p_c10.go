package main

import (
	"fmt"
	"go/constant"
	"go/token"
	"go/types"
	"strings"

	"golang.org/x/tools/go/ssa"
)

// C10: charging-session references are unique and keep designating their session.

func init() { register("C10", "other", checkC10) }

func checkC10(c *Ctx, r *Report) {
	r.Explanation = "Decides three structural necessary conditions of uniqueness: (R1) the number placed in the session reference is an atomically allocated value - it is read from the shared counter inside the critical section (eligible lock held) that also increments it, with no release in between, or comes from an atomic add / id generator; (R2) the reference is an injective function of that number: the digits-only counter is the last (or first) component of the concatenation and is separated from free text by a constant whose adjacent character is not a digit; (R3) the session map ue.Cdr is written only by create under the key returned in Location (same SSA value, see C12.R1) and by update/release under the request's own session reference; nothing deletes or re-keys a live entry elsewhere."
	r.Undecided = []string{"uniqueness across process restarts", "overflow of a 64-bit counter (out of reach)"}
	r.Assumptions = append(r.Assumptions, "strconv.Itoa/FormatInt/FormatUint of a non-negative number yields digits only")
	r.rule("C10.R1", "the counter component of the session reference is allocated atomically (read in the critical section of its increment)", 1)
	r.rule("C10.R2", "the session reference is an injective function of the counter (constant non-digit separator next to the digits)", 1)
	r.rule("C10.R4", "the allocated number is carried in 64 bits from the counter to the digits (no wrap-around within the life of the process)", 1)
	r.rule("C10.R5", "the subscriber context a reference is registered in stays in the pool while requests are served (a reference registered in a context that was dropped designates nothing)", 1)
	r.rule("C10.R6", "the record registered under a newly allocated reference is a record made in that step, not one that another reference already designates", 1)
	r.rule("C10.R7", "the context a reference is registered in is the one in the pool: after LoadOrStore the request goes on with the stored context (shared with C09.R5) - a reference registered in a private copy designates nothing", 1)
	r.rule("C10.R8", "the reference keeps designating the record that receives the session's usage: where a session is continued in a new record, the entry under its reference is that new record (shared with C02.R9)", 2)
	r.rule("C10.R9", "the reference a create answers with is the one it registered its new record under (shared with C12.R1): a create that answers with a reference that exists already hands one session's reference to another", 4)
	r.rule("C10.R10", "the subscriber pool is read and written under the identifier as received (one key for create, update and release)", 3)
	r.rule("C10.R11", "the record a reference designates is looked up under the subscriber's lock (shared with C09.R1): a request that reads ue.Cdr[ref] before it has the lock goes on with the record that was current then, although the holder of the lock may have continued the session in a new one", 8)
	r.rule("C10.R3", "ue.Cdr is written only in create (key = the reference) and in update/release under the request's own reference", 1)

	create := c.fn("internal/sbi/processor", "Processor.ChargingDataCreate")
	key := fnKey(create)
	// the reference: key of the MapUpdate on ue.Cdr
	var idVal ssa.Value
	var idPos ssa.Instruction
	eachInstr(create, func(_ *ssa.BasicBlock, _ int, ins ssa.Instruction) {
		if mu, ok := ins.(*ssa.MapUpdate); ok {
			if name, ok := ueFieldOfValue(mu.Map); ok && name == "Cdr" {
				idVal = mu.Key
				idPos = ins
			}
		}
	})
	if idVal == nil {
		r.viol("C10.R3", key+"|store", c.rel(create.Pos()), "create does not store the record in ue.Cdr")
		return
	}
	// flatten the concatenations reaching idVal (through phis: every non-empty alternative)
	alts := concatAlternatives(idVal, 0)
	r.count("reference_constructions", len(alts))
	ls := newLocksets(c, requestEntries(c))
	sa := &sharedAnalysis{c: c, ls: ls, owners: lockOwners(c), singletonMemo: map[string]bool{}}
	nAlt := 0
	for _, comps := range alts {
		if len(comps) == 1 {
			if s, ok := constString(comps[0]); ok && s == "" {
				continue // one-time events carry no session reference
			}
		}
		nAlt++
		desc := describeConcat(comps)
		// locate counter components
		var counterIdx []int
		for i, comp := range comps {
			if isDigitsOf(comp) != nil {
				counterIdx = append(counterIdx, i)
			}
		}
		if len(counterIdx) == 0 {
			r.viol("C10.R1", key+"|counter", posOf(c, idPos), "the session reference "+desc+" contains no allocated number: two sessions of one subscriber and consumer get the same reference")
			continue
		}
		// R1 for each counter component (at least one must be atomic)
		atomicOK := false
		why := ""
		var goodIdx int
		for _, i := range counterIdx {
			ok, w := atomicAllocation(c, sa, isDigitsOf(comps[i]), 0)
			if ok {
				atomicOK = true
				goodIdx = i
				why = w
				break
			}
			why = w
		}
		r.check(atomicOK, "C10.R1", key+"|counter", posOf(c, idPos), why, "the number in the session reference "+desc+" is not allocated atomically: "+why)
		if !atomicOK {
			goodIdx = counterIdx[len(counterIdx)-1]
		}
		// R4 width of the number on its way from the counter to the digits
		if atomicOK {
			w, where := narrowestWidth(c, isDigitsOf(comps[goodIdx]), 0, map[ssa.Value]bool{})
			r.check(w >= 8, "C10.R4", key+"|counter width", posOf(c, idPos), "the number is 64 bits wide at every step from the counter to its digits", fmt.Sprintf("the allocated number passes through a %d-bit integer (%s): after 2^%d allocations it wraps and a new session can be given the reference of one that is still open", w*8, where, w*8))
		}
		// R2 injectivity
		inj, w2 := injectiveIn(comps, goodIdx)
		r.check(inj, "C10.R2", key+"|construction", posOf(c, idPos), "reference "+desc+": "+w2, "reference "+desc+" is not an injective function of the counter: "+w2)
	}
	if nAlt == 0 {
		r.viol("C10.R2", key+"|construction", posOf(c, idPos), "no session reference construction found")
	}

	// R3 who may write ue.Cdr
	upd := c.fn("internal/sbi/processor", "Processor.ChargingDataUpdate")
	rel := c.fn("internal/sbi/processor", "Processor.ChargingDataRelease")
	n := 0
	for _, f := range c.ModFuncs {
		eachInstr(f, func(_ *ssa.BasicBlock, _ int, ins ssa.Instruction) {
			var mapv, keyv ssa.Value
			kind := ""
			switch x := ins.(type) {
			case *ssa.MapUpdate:
				mapv, keyv, kind = x.Map, x.Key, "store"
			case *ssa.Call:
				if b, ok := x.Call.Value.(*ssa.Builtin); ok && b.Name() == "delete" && len(x.Call.Args) == 2 {
					mapv, keyv, kind = x.Call.Args[0], x.Call.Args[1], "delete"
				}
			case *ssa.Store:
				if fa, ok := x.Addr.(*ssa.FieldAddr); ok && typeIs(fa.X.Type(), ctxPath, "ChfUe") && fieldName(fa) == "Cdr" {
					if f.Name() == "init" {
						return
					}
					n++
					r.viol("C10.R3", fnKey(f)+"|replace", posOf(c, ins), "the whole session map is replaced outside the constructor: live references stop designating their session")
				}
				return
			}
			if mapv == nil {
				return
			}
			name, ok := ueFieldOfValue(mapv)
			if !ok || name != "Cdr" {
				return
			}
			n++
			k := fnKey(f) + "|" + kind
			switch {
			case f == create && kind == "store" && keyv == idVal:
				r.proven("C10.R3", k, posOf(c, ins), "create stores under the reference it returns")
			case (f == upd || f == rel) && keyv == ssa.Value(paramByName(f, "chargingSessionId")) && kind == "delete":
				// the reference designates the session until it is released: an update never takes it
				// away, and a release takes it away only when nothing can make the release fail afterwards
				if f == upd {
					r.viol("C10.R3", k, posOf(c, ins), "an update removes the entry of its session from ue.Cdr: the reference stops designating the session although it has not been released")
					break
				}
				after := reachableFrom(ins.Block(), nil, nil, nil)
				bad := ""
				for _, ri := range returnsOf(f) {
					if len(ri.Vals) == 0 || !(after[ri.At] || ri.At == ins.Block()) {
						continue
					}
					for _, lf := range leavesOf(ri.Vals[0]) {
						if lf.from != nil && !after[lf.from] && lf.from != ins.Block() {
							continue
						}
						if k, isC := lf.val.(*ssa.Const); !isC || k.Value != nil {
							bad = posOf(c, ri.Ret)
						}
					}
				}
				r.check(bad == "", "C10.R3", k, posOf(c, ins), "the release removes its own entry and cannot fail afterwards", "the release removes the entry of its session from ue.Cdr and can still fail afterwards (problem returned at "+bad+"): the consumer is told the release did not happen, but its reference designates nothing any more - the retried release and every further update are answered 404")
			case (f == upd || f == rel) && keyv == ssa.Value(paramByName(f, "chargingSessionId")):
				r.proven("C10.R3", k, posOf(c, ins), "update/release touch only the entry of the request's own reference")
			default:
				r.viol("C10.R3", k, posOf(c, ins), kind+" on ue.Cdr with a key that is not the session's own reference: another live session's entry can be replaced or removed")
			}
		})
	}
	r.count("cdr_map_writes", n)
	// R6: the value stored under the new reference
	if mu, ok := idPos.(*ssa.MapUpdate); ok {
		fresh, why := freshRecord(c, create, mu.Value, 0)
		r.check(fresh, "C10.R6", key+"|record registered under the new reference", posOf(c, mu), "every record that can be registered under the new reference is built in this step ("+why+")", "the record registered under the newly allocated reference can be one that exists already ("+why+"): two references then designate one record - updates and the release addressed to either act on the other session's record, and one session never gets a record of its own")
	}
	poolKeysAsReceived(c, r, "C10.R10")
	r.shareFrom(c, checkC09, map[string]string{"C09.R5": "C10.R7", "C09.R1": "C10.R11"})
	r.shareFrom(c, checkC02, map[string]string{"C02.R9": "C10.R8"})
	r.shareFrom(c, checkC12, map[string]string{"C12.R1": "C10.R9"})
	checkPoolLifetime(c, r, "C10.R5", "a create that fetched the context before the removal registers its record in the orphaned object and answers 201 with a reference that the next update or release (which look the subscriber up again and get a fresh context) cannot find - the reference designates no session")
}

// concatAlternatives flattens string concatenations into component lists;
// phis fork into alternatives.
func concatAlternatives(v ssa.Value, depth int) [][]ssa.Value {
	if depth > 8 {
		return [][]ssa.Value{{v}}
	}
	switch x := v.(type) {
	case *ssa.BinOp:
		if x.Op == token.ADD {
			if b, ok := x.Type().Underlying().(*types.Basic); ok && b.Info()&types.IsString != 0 {
				var out [][]ssa.Value
				for _, l := range concatAlternatives(x.X, depth+1) {
					for _, rr := range concatAlternatives(x.Y, depth+1) {
						out = append(out, append(append([]ssa.Value{}, l...), rr...))
					}
				}
				return out
			}
		}
	case *ssa.Phi:
		var out [][]ssa.Value
		for _, e := range x.Edges {
			out = append(out, concatAlternatives(e, depth+1)...)
		}
		return out
	case *ssa.Call:
		// fmt.Sprintf with a constant format: the literal pieces and the formatted operands, in order
		if comps, ok := sprintfComponents(x); ok {
			out := [][]ssa.Value{{}}
			for _, comp := range comps {
				var next [][]ssa.Value
				for _, alt := range concatAlternatives(comp, depth+1) {
					for _, pre := range out {
						next = append(next, append(append([]ssa.Value{}, pre...), alt...))
					}
				}
				out = next
			}
			return out
		}
	}
	return [][]ssa.Value{{v}}
}

// synthDigits stands for the decimal digits of an integer value (what %d writes).
type synthDigits struct{ of ssa.Value }

func (d *synthDigits) Name() string                  { return "digits" }
func (d *synthDigits) String() string                { return "digits(" + d.of.Name() + ")" }
func (d *synthDigits) Type() types.Type              { return types.Typ[types.String] }
func (d *synthDigits) Parent() *ssa.Function         { return d.of.Parent() }
func (d *synthDigits) Referrers() *[]ssa.Instruction { return nil }
func (d *synthDigits) Pos() token.Pos                { return d.of.Pos() }

// sprintfComponents: fmt.Sprintf(constant format, operands...) as a list of
// string components.  Verbs understood: %s %v (strings), %d (integers; flags
// and widths that cannot add characters other than digits/sign are accepted:
// "-" and "+" and "0"; a width pads with blanks or zeros and is refused), %%.
func sprintfComponents(call *ssa.Call) ([]ssa.Value, bool) {
	obj := calleeObj(&call.Call)
	if obj == nil || obj.Pkg() == nil || obj.Pkg().Path() != "fmt" || obj.Name() != "Sprintf" || len(call.Call.Args) != 2 {
		return nil, false
	}
	format, ok := constString(call.Call.Args[0])
	if !ok {
		return nil, false
	}
	args := variadicElemsOrdered(call.Call.Args[1])
	strT := types.Typ[types.String]
	lit := func(s string) ssa.Value { return ssa.NewConst(constant.MakeString(s), strT) }
	var out []ssa.Value
	cur := ""
	ai := 0
	for i := 0; i < len(format); i++ {
		if format[i] != '%' {
			cur += string(format[i])
			continue
		}
		i++
		if i >= len(format) {
			return nil, false
		}
		if format[i] == '%' {
			cur += "%"
			continue
		}
		// flags
		for i < len(format) && (format[i] == '-' || format[i] == '+' || format[i] == '#') {
			i++
		}
		if i >= len(format) || (format[i] >= '0' && format[i] <= '9') || format[i] == '.' || format[i] == '*' || format[i] == ' ' {
			return nil, false // width / precision / padding: not a plain rendering
		}
		if ai >= len(args) {
			return nil, false
		}
		arg := args[ai]
		ai++
		if mi, ok := arg.(*ssa.MakeInterface); ok {
			arg = mi.X
		}
		if cur != "" {
			out = append(out, lit(cur))
			cur = ""
		}
		switch format[i] {
		case 's', 'v':
			if b, ok := arg.Type().Underlying().(*types.Basic); ok && b.Info()&types.IsString != 0 {
				out = append(out, arg)
			} else if ok && b.Info()&types.IsInteger != 0 && format[i] == 'v' {
				out = append(out, &synthDigits{of: arg})
			} else {
				return nil, false
			}
		case 'd':
			if !isIntegerType(arg.Type()) {
				return nil, false
			}
			out = append(out, &synthDigits{of: arg})
		default:
			return nil, false
		}
	}
	if cur != "" {
		out = append(out, lit(cur))
	}
	if ai != len(args) {
		return nil, false
	}
	return out, true
}

func describeConcat(comps []ssa.Value) string {
	var parts []string
	for _, comp := range comps {
		if s, ok := constString(comp); ok {
			parts = append(parts, fmt.Sprintf("%q", s))
		} else if d := isDigitsOf(comp); d != nil {
			parts = append(parts, "digits(counter)")
		} else {
			parts = append(parts, "<"+describe(comp)+">")
		}
	}
	return strings.Join(parts, " + ")
}

// isDigitsOf: comp is strconv.Itoa/FormatInt/FormatUint(x, 10) or fmt.Sprint-free
// decimal rendering; returns x.
func isDigitsOf(comp ssa.Value) ssa.Value {
	if d, ok := comp.(*synthDigits); ok {
		return d.of
	}
	call, ok := comp.(*ssa.Call)
	if !ok {
		return nil
	}
	obj := calleeObj(&call.Call)
	if obj == nil || obj.Pkg() == nil || obj.Pkg().Path() != "strconv" {
		return nil
	}
	switch obj.Name() {
	case "Itoa":
		return call.Call.Args[0]
	case "FormatInt", "FormatUint":
		if b, ok := constInt(call.Call.Args[1]); ok && b == 10 {
			return call.Call.Args[0]
		}
	}
	return nil
}

// atomicAllocation: v is a number no two executions can obtain twice.
func atomicAllocation(c *Ctx, sa *sharedAnalysis, v ssa.Value, depth int) (bool, string) {
	if depth > 4 {
		return false, "provenance too deep"
	}
	v = stripConv(v)
	switch x := v.(type) {
	case *ssa.Call:
		obj := calleeObj(&x.Call)
		if obj != nil && obj.Pkg() != nil {
			if obj.Pkg().Path() == "sync/atomic" && strings.HasPrefix(obj.Name(), "Add") {
				return true, "atomic add"
			}
			if obj.Pkg().Path() == "github.com/free5gc/util/idgenerator" && obj.Name() == "Allocate" {
				return true, "id generator allocation"
			}
		}
		callee := x.Call.StaticCallee()
		if callee == nil || callee.Blocks == nil || !c.inModule(callee) {
			return false, "number comes from a call the rule cannot see into: " + x.String()
		}
		// every return of the callee must be an atomic allocation
		rets := returnsOf(callee)
		if len(rets) == 0 {
			return false, "callee never returns"
		}
		why := ""
		for _, ri := range rets {
			if len(ri.Vals) == 0 {
				return false, "callee returns nothing"
			}
			ok, w := atomicAllocation(c, sa, ri.Vals[0], depth+1)
			if !ok {
				return false, w
			}
			why = w
		}
		return true, shortFn(callee) + ": " + why
	case *ssa.Extract:
		return atomicAllocation(c, sa, x.Tuple, depth+1)
	case *ssa.UnOp:
		if x.Op != token.MUL {
			return false, "unrecognised expression"
		}
		fa, ok := x.X.(*ssa.FieldAddr)
		if !ok {
			// load of a result-spill local: resolve
			if rv := resolveLocalLoad(x); rv != ssa.Value(x) {
				return atomicAllocation(c, sa, rv, depth+1)
			}
			return false, "the number is read from " + describe(x.X) + ", not from a guarded counter"
		}
		owner := namedOf(fa.X.Type())
		if owner == nil {
			return false, "counter owner unknown"
		}
		fname := owner.Obj().Name() + "." + fieldName(fa)
		// the scope of the counter is the scope of the uniqueness it can give: a counter that exists
		// once per subscriber context (or per request) hands the same numbers to different owners,
		// and the other components of the reference - subscriber id and consumer name, joined without
		// a separator - do not tell two owners apart ("imsi-1" + "2smf" = "imsi-12" + "smf")
		if !sa.singleton(owner.Obj().Name()) {
			return false, "the counter " + fname + " exists once per " + owner.Obj().Name() + " object, not once per process: the numbers repeat from one " + owner.Obj().Name() + " to the next, and the rest of the reference (subscriber id and consumer name, joined without a separator) is not an injective function of the owner - two subscribers whose ids are prefixes of each other get the same reference"
		}
		held, _ := sa.ls.heldAt(x)
		elig := sa.eligible(owner.Obj().Name())
		if held&elig == 0 {
			return false, "the counter " + fname + " is read at " + posOf(c, x) + " with no lock that protects it held (held " + sa.ls.names(held) + ")"
		}
		// an increment of the same field dominates the read in the same function and critical section
		f := x.Parent()
		var inc *ssa.Store
		eachInstr(f, func(_ *ssa.BasicBlock, _ int, ins ssa.Instruction) {
			st, ok := ins.(*ssa.Store)
			if !ok {
				return
			}
			fa2, ok := st.Addr.(*ssa.FieldAddr)
			if !ok || fa2.Field != fa.Field || namedOf(fa2.X.Type()) != owner {
				return
			}
			if bo, ok := st.Val.(*ssa.BinOp); ok && bo.Op == token.ADD && instrDominates(st, x) {
				inc = st
			}
		})
		if inc == nil {
			return false, "the counter " + fname + " is read at " + posOf(c, x) + " but not incremented before the read in the same function: the value read can be read again by a concurrent request before anyone increments it"
		}
		hinc, _ := sa.ls.heldAt(inc)
		if hinc&held&elig == 0 {
			return false, "increment and read of " + fname + " are not under a common protecting lock"
		}
		// no release of the lock between the increment and the read
		released := false
		eachInstr(f, func(_ *ssa.BasicBlock, _ int, ins ssa.Instruction) {
			if op, ok := sa.ls.ops[ins]; ok && !op.deferred && (op.kind == lkUnlock || op.kind == lkRUnlock) {
				if (hinc&held&elig)&(1<<uint(sa.ls.idx[op.class])) != 0 && canReach(inc, ins) && canReach(ins, x) {
					released = true
				}
			}
		})
		if released {
			return false, "the lock is released between the increment and the read of " + fname
		}
		return true, fname + " incremented and read in one critical section under " + sa.ls.names(hinc&held&elig)
	case *ssa.BinOp:
		// allocated := counter + k, stored back and returned: the new value itself
		if x.Op != token.ADD {
			break
		}
		var ld *ssa.UnOp
		if k, ok := constInt(x.Y); ok && k > 0 {
			ld, _ = stripConv(x.X).(*ssa.UnOp)
		} else if k, ok := constInt(x.X); ok && k > 0 {
			ld, _ = stripConv(x.Y).(*ssa.UnOp)
		}
		if ld == nil || ld.Op != token.MUL {
			break
		}
		fa, ok := ld.X.(*ssa.FieldAddr)
		if !ok {
			break
		}
		owner := namedOf(fa.X.Type())
		if owner == nil {
			return false, "counter owner unknown"
		}
		fname := owner.Obj().Name() + "." + fieldName(fa)
		f := x.Parent()
		var back *ssa.Store
		eachInstr(f, func(_ *ssa.BasicBlock, _ int, ins ssa.Instruction) {
			st, ok := ins.(*ssa.Store)
			if !ok || stripConv(st.Val) != ssa.Value(x) {
				return
			}
			if fa2, ok := st.Addr.(*ssa.FieldAddr); ok && fa2.Field == fa.Field && namedOf(fa2.X.Type()) == owner && instrDominates(ld, st) {
				back = st
			}
		})
		if back == nil {
			return false, "the number " + fname + " + k is not stored back into the counter: the next request computes the same number"
		}
		held, _ := sa.ls.heldAt(ld)
		hst, _ := sa.ls.heldAt(back)
		elig := sa.eligible(owner.Obj().Name())
		if held&hst&elig == 0 {
			return false, "read and write-back of " + fname + " are not under a common protecting lock (held " + sa.ls.names(held) + " / " + sa.ls.names(hst) + ")"
		}
		released := false
		eachInstr(f, func(_ *ssa.BasicBlock, _ int, ins ssa.Instruction) {
			if op, ok := sa.ls.ops[ins]; ok && !op.deferred && (op.kind == lkUnlock || op.kind == lkRUnlock) {
				if (held&hst&elig)&(1<<uint(sa.ls.idx[op.class])) != 0 && canReach(ld, ins) && canReach(ins, back) {
					released = true
				}
			}
		})
		if released {
			return false, "the lock is released between the read and the write-back of " + fname
		}
		return true, fname + " + k computed, stored back and returned in one critical section under " + sa.ls.names(held&hst&elig)
	}
	return false, "the number " + describe(v) + " is not an allocation"
}

// injectiveIn: the concatenation determines the digits component at index ci.
func injectiveIn(comps []ssa.Value, ci int) (bool, string) {
	nonDigitEdge := func(v ssa.Value, last bool) (bool, bool) { // (isConst, edge char is a non-digit)
		s, ok := constString(v)
		if !ok {
			return false, false
		}
		if s == "" {
			return true, false
		}
		ch := s[0]
		if last {
			ch = s[len(s)-1]
		}
		return true, ch < '0' || ch > '9'
	}
	if len(comps) == 1 {
		return true, "the counter alone"
	}
	if ci == len(comps)-1 {
		isC, ok := nonDigitEdge(comps[ci-1], true)
		if isC && ok {
			return true, "digits-only counter last, preceded by a constant ending in a non-digit: the maximal trailing digit run is the counter"
		}
		return false, "the digits of the counter directly follow free text (" + describe(comps[ci-1]) + "): a text ending in digits shifts the boundary (\"SMF1\"+\"23\" = \"SMF12\"+\"3\")"
	}
	if ci == 0 {
		isC, ok := nonDigitEdge(comps[1], false)
		if isC && ok {
			return true, "digits-only counter first, followed by a constant starting with a non-digit"
		}
		return false, "free text directly follows the digits of the counter"
	}
	// in the middle: needs constant non-digit separators on both sides AND no digits-free ambiguity elsewhere: not accepted
	return false, "the counter is in the middle of the concatenation; only counter-last / counter-first shapes with a constant non-digit separator are accepted"
}

// narrowestWidth follows an integer value back to its origin (conversions,
// results of module functions, loads of struct members, arithmetic) and
// returns the size in octets of the narrowest integer type on the way.
func narrowestWidth(c *Ctx, v ssa.Value, depth int, seen map[ssa.Value]bool) (int, string) {
	own := sizeOfBasic(v.Type())
	if own <= 0 {
		own = 8
	}
	best, where := own, types.TypeString(v.Type(), nil)+" "+describe(v)
	if depth > 6 || seen[v] {
		return best, where
	}
	seen[v] = true
	merge := func(w int, wh string) {
		if w > 0 && w < best {
			best, where = w, wh
		}
	}
	switch x := v.(type) {
	case *ssa.Convert:
		merge(narrowestWidth(c, x.X, depth, seen))
	case *ssa.ChangeType:
		merge(narrowestWidth(c, x.X, depth, seen))
	case *ssa.Phi:
		for _, e := range x.Edges {
			if _, isConst := e.(*ssa.Const); !isConst {
				merge(narrowestWidth(c, e, depth, seen))
			}
		}
	case *ssa.BinOp:
		for _, o := range []ssa.Value{x.X, x.Y} {
			if _, isConst := o.(*ssa.Const); !isConst {
				merge(narrowestWidth(c, o, depth, seen))
			}
		}
	case *ssa.UnOp:
		if x.Op == token.MUL {
			if fa, ok := x.X.(*ssa.FieldAddr); ok {
				if st := derefStruct(fa.X.Type()); st != nil {
					merge(sizeOfBasic(st.Field(fa.Field).Type()), "member "+st.Field(fa.Field).Name()+" "+types.TypeString(st.Field(fa.Field).Type(), nil))
				}
			}
			if a, ok := x.X.(*ssa.Alloc); ok {
				for _, ref := range *a.Referrers() {
					if st, ok := ref.(*ssa.Store); ok && st.Addr == ssa.Value(a) {
						merge(narrowestWidth(c, st.Val, depth, seen))
					}
				}
			}
		}
	case *ssa.Call:
		if sc := x.Call.StaticCallee(); sc != nil && c.inModule(sc) && len(sc.Blocks) > 0 {
			for _, ri := range returnsOf(sc) {
				if len(ri.Vals) >= 1 {
					w, wh := narrowestWidth(c, ri.Vals[0], depth+1, seen)
					merge(w, "result of "+sc.Name()+": "+wh)
				}
			}
		}
	case *ssa.Extract:
		if call, ok := x.Tuple.(*ssa.Call); ok {
			if sc := call.Call.StaticCallee(); sc != nil && c.inModule(sc) && len(sc.Blocks) > 0 {
				for _, ri := range returnsOf(sc) {
					if x.Index < len(ri.Vals) {
						w, wh := narrowestWidth(c, ri.Vals[x.Index], depth+1, seen)
						merge(w, "result of "+sc.Name()+": "+wh)
					}
				}
			}
		}
	}
	return best, where
}

// freshRecord: every object v can denote is made by the step itself: a composite literal /
// new object of the function, a decoder's deep copy, or the result of a module function all
// of whose non-nil results are such objects.  An element of a map or list, a parameter or a
// member of a longer-lived object is not.
func freshRecord(c *Ctx, f *ssa.Function, v ssa.Value, depth int) (bool, string) {
	for i := 0; i < 4; i++ {
		v = resolveLocalLoad(v)
	}
	if ph, ok := v.(*ssa.Phi); ok && depth < 6 {
		for _, e := range ph.Edges {
			if isNilConst(e) {
				continue
			}
			if ok, why := freshRecord(c, f, e, depth+1); !ok {
				return false, why
			}
		}
		return true, "built on every path"
	}
	var callee *ssa.Function
	var callArgs []ssa.Value
	idx := 0
	switch x := v.(type) {
	case *ssa.Alloc:
		elem := x.Type().(*types.Pointer).Elem()
		if _, isPtr := elem.Underlying().(*types.Pointer); !isPtr {
			return true, "a new object of " + f.Name()
		}
		// a pointer variable: every value stored in it
		n := 0
		for _, ref := range *x.Referrers() {
			switch y := ref.(type) {
			case *ssa.Store:
				if y.Addr == ssa.Value(x) {
					n++
					if ok, why := freshRecord(c, f, y.Val, depth+1); !ok {
						return false, why
					}
				}
			case *ssa.Call:
				if obj := calleeObj(&y.Call); obj != nil && obj.Pkg() != nil && obj.Pkg().Path() == "encoding/json" && obj.Name() == "Unmarshal" {
					n++
				}
			}
		}
		if n > 0 {
			return true, "assigned new objects only"
		}
		return false, "a variable that is never assigned a new object"
	case *ssa.Call:
		callee, callArgs = x.Call.StaticCallee(), x.Call.Args
	case *ssa.Extract:
		if call, ok := x.Tuple.(*ssa.Call); ok {
			callee, idx, callArgs = call.Call.StaticCallee(), x.Index, call.Call.Args
		}
	}
	if callee != nil && c.inModule(callee) && depth < 6 {
		n := 0
		for _, ri := range returnsOf(callee) {
			if idx >= len(ri.Vals) || isNilConst(ri.Vals[idx]) {
				continue
			}
			if !returnFeasibleFor(callee, ri, callArgs) {
				continue // behind a test of a flag this call passes as a constant
			}
			n++
			if ok, why := freshRecord(c, callee, ri.Vals[idx], depth+1); !ok {
				return false, "returned by " + callee.Name() + ": " + why
			}
		}
		if n > 0 {
			return true, "returned by " + callee.Name() + ", which builds it"
		}
		return false, callee.Name() + " returns no record"
	}
	return false, describe(v) + " is not an object made in this step"
}

// returnFeasibleFor: false when the return lies behind a branch on a boolean parameter that
// this call binds to the constant of the other branch (OpenCDR(..., false): the partial-record
// exit is not taken).
func returnFeasibleFor(callee *ssa.Function, ri retInfo, args []ssa.Value) bool {
	if len(args) != len(callee.Params) {
		return true
	}
	for i, p := range callee.Params {
		k, ok := args[i].(*ssa.Const)
		if !ok || k.Value == nil || k.Value.Kind() != constant.Bool {
			continue
		}
		want := constant.BoolVal(k.Value)
		for _, b := range callee.Blocks {
			if len(b.Instrs) == 0 {
				continue
			}
			iff, ok := b.Instrs[len(b.Instrs)-1].(*ssa.If)
			if !ok || len(b.Succs) != 2 {
				continue
			}
			cond, neg := iff.Cond, false
			if u, ok := cond.(*ssa.UnOp); ok && u.Op == token.NOT {
				cond, neg = u.X, true
			}
			if cond != ssa.Value(p) {
				continue
			}
			// successor 0 is taken when the condition holds
			taken := want != neg
			dead := b.Succs[0]
			if taken {
				dead = b.Succs[1]
			}
			if b.Succs[0] != b.Succs[1] && edgeDominates(b, dead, ri.At) {
				return false
			}
		}
	}
	return true
}
