package main

import (
	"fmt"
	"go/token"
	"go/types"
	"sort"
	"strings"

	"golang.org/x/tools/go/ssa"
)

// C12.R6: once credit control has run for a request, the request is no longer
// *rejected by a check of its own content*.
//
// Update and release look the subscriber and the session up, then perform
// credit control (rating, debit / refund, reservation change) and only then
// touch the record.  A 4xx answer after that point is legitimate only as the
// report of a failed operation (encoding, file output); a rejection decided by
// comparing request members with stored state (e.g. "the charging id in the
// body is not the one of the record") must sit before the effects, otherwise
// the consumer is told the request was refused although the account was
// debited or refunded.
//
// For every 4xx return of the function that is reachable after a call that
// reaches the account / rating clients, the branch conditions that select the
// return are classified:
//   - `err != nil` with err the result of a call: look into the callee (module
//     functions, depth <= 3): each of its non-nil error returns is classified
//     the same way; an error produced by a library call is an operation failure;
//   - any other condition: a backward slice through pure data operations
//     (field selections, loads, comparisons, arithmetic, conversions, len, map
//     look-ups - no calls) that reaches a parameter carrying the request is a
//     request check.

func isRequestType(t types.Type) bool {
	for i := 0; i < 4; i++ {
		if p, ok := t.Underlying().(*types.Pointer); ok {
			t = p.Elem()
			continue
		}
		break
	}
	n, ok := t.(*types.Named)
	return ok && n.Obj().Pkg() != nil && n.Obj().Pkg().Path() == modelsPath && n.Obj().Name() == "ChfConvergedChargingChargingDataRequest"
}

// requestRoots: the parameters of f that carry the request, and their spill slots.
func requestRoots(f *ssa.Function) map[ssa.Value]bool {
	m := map[ssa.Value]bool{}
	for _, p := range f.Params {
		if isRequestType(p.Type()) {
			m[p] = true
			if a := paramAlloc(p); a != nil {
				m[a] = true
			}
		}
	}
	return m
}

// pureSliceReaches: does v depend, through pure data operations only, on one of roots?
func pureSliceReaches(v ssa.Value, roots map[ssa.Value]bool, seen map[ssa.Value]bool) bool {
	if v == nil || seen[v] {
		return false
	}
	seen[v] = true
	if roots[v] {
		return true
	}
	var ops []ssa.Value
	switch x := v.(type) {
	case *ssa.BinOp:
		ops = []ssa.Value{x.X, x.Y}
	case *ssa.UnOp:
		ops = []ssa.Value{x.X}
	case *ssa.FieldAddr:
		ops = []ssa.Value{x.X}
	case *ssa.Field:
		ops = []ssa.Value{x.X}
	case *ssa.IndexAddr:
		ops = []ssa.Value{x.X, x.Index}
	case *ssa.Index:
		ops = []ssa.Value{x.X, x.Index}
	case *ssa.Lookup:
		ops = []ssa.Value{x.X, x.Index}
	case *ssa.Extract:
		if _, isCall := x.Tuple.(*ssa.Call); !isCall {
			ops = []ssa.Value{x.Tuple}
		}
	case *ssa.Convert:
		ops = []ssa.Value{x.X}
	case *ssa.ChangeType:
		ops = []ssa.Value{x.X}
	case *ssa.Slice:
		ops = []ssa.Value{x.X}
	case *ssa.Phi:
		ops = x.Edges
	case *ssa.TypeAssert:
		ops = []ssa.Value{x.X}
	case *ssa.Call:
		if b, ok := x.Call.Value.(*ssa.Builtin); ok && (b.Name() == "len" || b.Name() == "cap") {
			ops = x.Call.Args
		}
	}
	for _, o := range ops {
		if pureSliceReaches(o, roots, seen) {
			return true
		}
	}
	return false
}

type selCond struct {
	cond ssa.Value
	at   *ssa.BasicBlock
}

// selectingConds: the branch conditions on whose outcome block b is entered
// (walking up through jump-only predecessors; a merge contributes each side).
func selectingConds(b *ssa.BasicBlock, seen map[*ssa.BasicBlock]bool) []selCond {
	if seen[b] {
		return nil
	}
	seen[b] = true
	var out []selCond
	for _, p := range b.Preds {
		if len(p.Instrs) == 0 {
			continue
		}
		switch t := p.Instrs[len(p.Instrs)-1].(type) {
		case *ssa.If:
			out = append(out, selCond{t.Cond, p})
		case *ssa.Jump:
			out = append(out, selectingConds(p, seen)...)
		}
	}
	return out
}

// classifyRejection returns "" when the condition reports a failed operation,
// otherwise a description of the request check found.
func classifyRejection(c *Ctx, f *ssa.Function, cond ssa.Value, depth int) string {
	roots := requestRoots(f)
	// err != nil / err == nil on the result of a call
	if bo, ok := cond.(*ssa.BinOp); ok && (bo.Op == token.NEQ || bo.Op == token.EQL) {
		var x ssa.Value
		if isNilConst(bo.Y) {
			x = bo.X
		} else if isNilConst(bo.X) {
			x = bo.Y
		}
		if x != nil && isErrorType(x.Type()) {
			x = resolveLocalLoad(x)
			var call *ssa.Call
			idx := 0
			switch d := x.(type) {
			case *ssa.Call:
				call = d
			case *ssa.Extract:
				call, _ = d.Tuple.(*ssa.Call)
				idx = d.Index
			case *ssa.Phi:
				// several producers: classify each
				for _, ed := range d.Edges {
					fake := &ssa.BinOp{Op: token.NEQ, X: ed, Y: bo.Y}
					_ = fake
				}
			}
			if call != nil {
				g := call.Call.StaticCallee()
				if g == nil || !c.inModule(g) || len(g.Blocks) == 0 || depth >= 3 {
					return "" // library / dynamic callee: an operation failed
				}
				return classifyErrorReturns(c, g, idx, depth+1)
			}
			if _, isPhi := x.(*ssa.Phi); isPhi {
				worst := ""
				for _, ed := range x.(*ssa.Phi).Edges {
					ed = resolveLocalLoad(ed)
					var call2 *ssa.Call
					idx2 := 0
					switch d := ed.(type) {
					case *ssa.Call:
						call2 = d
					case *ssa.Extract:
						call2, _ = d.Tuple.(*ssa.Call)
						idx2 = d.Index
					}
					if call2 != nil {
						if g := call2.Call.StaticCallee(); g != nil && c.inModule(g) && len(g.Blocks) > 0 && depth < 3 {
							if w := classifyErrorReturns(c, g, idx2, depth+1); w != "" {
								worst = w
							}
						}
					}
				}
				return worst
			}
		}
	}
	if pureSliceReaches(cond, roots, map[ssa.Value]bool{}) {
		pos := ""
		if ins, ok := cond.(ssa.Instruction); ok {
			pos = " at " + posOf(c, ins)
		}
		return "the comparison " + condText(cond) + pos + " in " + f.Name() + " tests the content of the request"
	}
	return ""
}

func isErrorType(t types.Type) bool {
	n, ok := t.(*types.Named)
	return ok && n.Obj().Pkg() == nil && n.Obj().Name() == "error"
}

// classifyErrorReturns looks at every return of g whose result #idx is a
// non-nil error and classifies the conditions that select it.
func classifyErrorReturns(c *Ctx, g *ssa.Function, idx int, depth int) string {
	for _, ri := range returnsOf(g) {
		if idx >= len(ri.Vals) || isNilConst(ri.Vals[idx]) {
			continue
		}
		for _, sc := range selectingConds(ri.At, map[*ssa.BasicBlock]bool{}) {
			if w := classifyRejection(c, g, sc.cond, depth); w != "" {
				return w
			}
		}
	}
	return ""
}

func checkNoRequestCheckAfterEffect(c *Ctx, r *Report, f *ssa.Function, rule string) {
	// functions that reach the account / rating clients
	clients := map[*ssa.Function]bool{c.fn("internal/abmf", "SendAccountDebitRequest"): true, c.fn("internal/rating", "SendServiceUsageRequest"): true}
	reaches := map[*ssa.Function]bool{}
	for cl := range clients {
		reaches[cl] = true
	}
	changed := true
	for changed {
		changed = false
		for _, g := range c.ModFuncs {
			if reaches[g] {
				continue
			}
			for _, callee := range c.callgraph().out[g] {
				if reaches[callee] {
					reaches[g] = true
					changed = true
					break
				}
			}
		}
	}
	var ccCalls []ssa.Instruction
	eachInstr(f, func(_ *ssa.BasicBlock, _ int, ins ssa.Instruction) {
		if call, ok := ins.(ssa.CallInstruction); ok {
			for _, callee := range c.calleesAt(call) {
				if reaches[callee] {
					ccCalls = append(ccCalls, ins)
					return
				}
			}
		}
	})
	key := fnKey(f)
	if len(ccCalls) == 0 {
		r.viol(rule, key+"|credit control", c.rel(f.Pos()), "no call of "+f.Name()+" reaches the account or rating client (anchor moved?)")
		return
	}
	pdIdx := -1
	res := f.Signature.Results()
	for i := 0; i < res.Len(); i++ {
		if typeIs(res.At(i).Type(), modelsPath, "ProblemDetails") {
			pdIdx = i
		}
	}
	n := 0
	for _, ri := range returnsOf(f) {
		if pdIdx < 0 || pdIdx >= len(ri.Vals) {
			continue
		}
		st, okc := problemStatus(ri.Vals[pdIdx])
		if !okc || st < 400 || st > 499 {
			continue
		}
		after := false
		for _, cc := range ccCalls {
			if canReach(cc, ri.Point()) {
				after = true
			}
		}
		if !after {
			continue
		}
		n++
		conds := selectingConds(ri.At, map[*ssa.BasicBlock]bool{})
		var descs []string
		bad := ""
		for _, sc := range conds {
			descs = append(descs, condText(sc.cond))
			if w := classifyRejection(c, f, sc.cond, 0); w != "" {
				bad = w
			}
		}
		sort.Strings(descs)
		r.check(bad == "" && len(conds) > 0, rule, fmt.Sprintf("%s|%d answer after credit control #%d", key, st, n), posOf(c, ri.Ret),
			"selected by "+strings.Join(descs, " / ")+": reports a failed operation, not a check of the request",
			"a "+fmt.Sprint(st)+" rejection is decided after credit control has run ("+bad+"): the consumer is told the request was refused although the account was debited / refunded and the reservation changed - validate before the effects")
	}
	if n == 0 {
		r.info(rule, key+"|no 4xx after credit control", c.rel(f.Pos()), "no 4xx return is reachable after credit control")
	}
}

func condText(v ssa.Value) string {
	switch x := v.(type) {
	case *ssa.BinOp:
		return condText(x.X) + " " + x.Op.String() + " " + condText(x.Y)
	case *ssa.UnOp:
		if x.Op == token.NOT {
			return "!" + condText(x.X)
		}
	case *ssa.Convert:
		return condText(x.X)
	case *ssa.Extract:
		if call, ok := x.Tuple.(*ssa.Call); ok {
			if obj := calleeObj(&call.Call); obj != nil {
				return "result of " + obj.Name()
			}
		}
	case *ssa.Call:
		if obj := calleeObj(&x.Call); obj != nil {
			return "result of " + obj.Name()
		}
	case *ssa.Const:
		if x.IsNil() {
			return "nil"
		}
	}
	return describe(v)
}

// C12.R7: the notification URI the consumer registered at session creation is
// the one a recharge notifies.  The member is per subscriber and optional in
// every request, so a write on the update / release / recharge paths replaces
// the registered URI by whatever the later request happens to carry - typically
// the empty string - and the recharge then notifies nobody.  Who-may-write: no
// function reachable from those entry points stores to ChfUe.NotifyUri.
func checkNotifyUriWriters(c *Ctx, r *Report, rule string) {
	var roots []*ssa.Function
	for _, n := range []string{"Processor.ChargingDataUpdate", "Processor.ChargingDataRelease", "Processor.NotifyRecharge"} {
		roots = append(roots, c.fn("internal/sbi/processor", n))
	}
	reach, pred := c.reach(roots)
	n := 0
	for _, f := range c.ModFuncs {
		eachInstr(f, func(_ *ssa.BasicBlock, _ int, ins ssa.Instruction) {
			st, ok := ins.(*ssa.Store)
			if !ok {
				return
			}
			fa, ok := st.Addr.(*ssa.FieldAddr)
			if !ok || !typeIs(fa.X.Type(), ctxPath, "ChfUe") || fieldName(fa) != "NotifyUri" {
				return
			}
			n++
			key := fmt.Sprintf("%s|write of ChfUe.NotifyUri #%d", fnKey(f), n)
			if reach[f] && nonEmptyGuarded(f, st) {
				r.proven(rule, key, posOf(c, st), "re-registration: the stored value is tested to be non-empty on the edge that reaches the store")
				return
			}
			if reach[f] {
				path := fnKey(f)
				for g := pred[f]; g != nil; g = pred[g] {
					path = fnKey(g) + " -> " + path
				}
				r.viol(rule, key, posOf(c, st), "the registered notification URI is overwritten on the update / release / recharge path ("+path+"): notifyUri is optional in those requests, so the URI registered at creation is replaced (usually by the empty string) and a later recharge notifies nobody")
				return
			}
			r.proven(rule, key, posOf(c, st), "written only where a session is created (not reachable from update, release or recharge)")
		})
	}
	if n == 0 {
		r.viol(rule, "writers", "", "no store to ChfUe.NotifyUri found: nothing registers the consumer's notification URI")
	}
}

// nonEmptyGuarded: the store is reached only over the true edge of `v != ""`
// (or the false edge of `v == ""`) with v the value stored.
func nonEmptyGuarded(f *ssa.Function, st *ssa.Store) bool {
	same := func(a, b ssa.Value) bool {
		if a == b {
			return true
		}
		pa, ok1 := pathOf(a)
		pb, ok2 := pathOf(b)
		return ok1 && ok2 && pa.Root == pb.Root && strings.Join(pa.Elems, ".") == strings.Join(pb.Elems, ".") && len(pa.Elems) > 0
	}
	for _, b := range f.Blocks {
		if len(b.Instrs) == 0 {
			continue
		}
		ifi, ok := b.Instrs[len(b.Instrs)-1].(*ssa.If)
		if !ok {
			continue
		}
		bo, ok := ifi.Cond.(*ssa.BinOp)
		if !ok || (bo.Op != token.NEQ && bo.Op != token.EQL) {
			continue
		}
		var v ssa.Value
		if s, ok := constString(bo.Y); ok && s == "" {
			v = bo.X
		} else if s, ok := constString(bo.X); ok && s == "" {
			v = bo.Y
		}
		if v == nil || !same(v, st.Val) {
			continue
		}
		succ := b.Succs[0]
		if bo.Op == token.EQL {
			succ = b.Succs[1]
		}
		if edgeDominates(b, succ, st.Block()) {
			return true
		}
	}
	return false
}
