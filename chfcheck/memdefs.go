package main

import (
	"go/token"
	"go/types"

	"golang.org/x/tools/go/ssa"
)

// Reaching definitions for members of local struct variables.
//
// go/ssa (the version this checker is built with) keeps struct variables in
// memory, and a per-request "state object" (acct := account{balance: q};
// acct.balance -= x in a branch; ... acct.balance read after the join) is the
// memory form of what would be a phi for a plain local.  memLeaves gives, for
// a load of such a member, the values that can reach it with the merge edge
// each arrives by - the analogue of leavesOf for phis.  It answers only when
// the variable does not escape (its address is used for member access, whole
// loads/stores and nothing else), so no call can change it behind the back of
// the analysis.

type memKeyLocal struct {
	root *ssa.Alloc
	path string
}

func localMemberOf(addr ssa.Value) (memKeyLocal, bool) {
	path := ""
	for depth := 0; depth < 8; depth++ {
		switch x := addr.(type) {
		case *ssa.FieldAddr:
			st := derefStruct(x.X.Type())
			if st == nil {
				return memKeyLocal{}, false
			}
			if path == "" {
				path = st.Field(x.Field).Name()
			} else {
				path = st.Field(x.Field).Name() + "." + path
			}
			addr = x.X
		case *ssa.Alloc:
			if path == "" {
				return memKeyLocal{}, false
			}
			if _, isStruct := derefType(x.Type()).Underlying().(*types.Struct); !isStruct {
				return memKeyLocal{}, false
			}
			return memKeyLocal{x, path}, true
		default:
			return memKeyLocal{}, false
		}
	}
	return memKeyLocal{}, false
}

var escapeMemo = map[*ssa.Alloc]bool{}

// localDoesNotEscape: every use of the variable's address is a member address
// (recursively), a load or a store *into* it.
func localDoesNotEscape(a *ssa.Alloc) bool {
	if v, ok := escapeMemo[a]; ok {
		return v
	}
	ok := true
	var visit func(addr ssa.Value)
	visit = func(addr ssa.Value) {
		refs := addr.Referrers()
		if refs == nil {
			return
		}
		for _, ref := range *refs {
			switch x := ref.(type) {
			case *ssa.FieldAddr:
				if x.X == addr {
					// the member's own address must not escape either, unless it is a pointer member being read
					visit(x)
				}
			case *ssa.UnOp:
				if x.Op != token.MUL {
					ok = false
				}
			case *ssa.Store:
				if x.Addr != addr {
					ok = false // the address itself is stored somewhere
				}
			case *ssa.DebugRef:
			default:
				ok = false
			}
		}
	}
	visit(a)
	escapeMemo[a] = ok
	return ok
}

type memDef struct {
	val      ssa.Value // nil: the zero value
	from, at *ssa.BasicBlock
	store    ssa.Instruction
}

// memLeaves: the definitions of the member read by ld that can reach it.
func memLeaves(ld *ssa.UnOp) ([]memDef, bool) {
	if ld.Op != token.MUL {
		return nil, false
	}
	key, ok := localMemberOf(ld.X)
	if !ok || !localDoesNotEscape(key.root) {
		return nil, false
	}
	w := &memWalker{key: key, memo: map[*ssa.BasicBlock][]memDef{}, busy: map[*ssa.BasicBlock]bool{}}
	defs := w.before(ld.Block(), instrIndex(ld))
	if w.fail || len(defs) == 0 {
		return nil, false
	}
	return defs, true
}

type memWalker struct {
	key  memKeyLocal
	memo map[*ssa.BasicBlock][]memDef
	busy map[*ssa.BasicBlock]bool
	fail bool
}

func (w *memWalker) before(b *ssa.BasicBlock, idx int) []memDef {
	for i := idx - 1; i >= 0; i-- {
		st, ok := b.Instrs[i].(*ssa.Store)
		if !ok {
			continue
		}
		if k, ok := localMemberOf(st.Addr); ok && k.root == w.key.root {
			if k.path == w.key.path {
				return []memDef{{val: st.Val, store: st}}
			}
			// a store to an enclosing or enclosed member: not modelled
			if len(k.path) < len(w.key.path) && w.key.path[:len(k.path)+1] == k.path+"." {
				w.fail = true
				return nil
			}
			continue
		}
		if st.Addr == ssa.Value(w.key.root) {
			// whole-struct assignment: the member of the source
			if src, ok := st.Val.(*ssa.UnOp); ok && src.Op == token.MUL {
				if sa, ok := src.X.(*ssa.Alloc); ok && localDoesNotEscape(sa) {
					sub := &memWalker{key: memKeyLocal{sa, w.key.path}, memo: map[*ssa.BasicBlock][]memDef{}, busy: map[*ssa.BasicBlock]bool{}}
					ds := sub.before(src.Block(), instrIndex(src))
					if sub.fail || len(ds) != 1 || ds[0].from != nil {
						w.fail = true
						return nil
					}
					return []memDef{{val: ds[0].val, store: st}}
				}
			}
			w.fail = true
			return nil
		}
	}
	// the declaration point: zero value
	for i := idx - 1; i >= 0; i-- {
		if b.Instrs[i] == ssa.Instruction(w.key.root) {
			return []memDef{{val: nil, store: w.key.root}}
		}
	}
	return w.atEntry(b)
}

func (w *memWalker) atEntry(b *ssa.BasicBlock) []memDef {
	if ds, ok := w.memo[b]; ok {
		return ds
	}
	if w.busy[b] {
		return nil // round a loop: contributes what the other edges contribute
	}
	w.busy[b] = true
	defer func() { w.busy[b] = false }()
	if len(b.Preds) == 0 {
		return []memDef{{val: nil}}
	}
	var all [][]memDef
	for _, p := range b.Preds {
		ds := w.before(p, len(p.Instrs))
		if w.fail {
			return nil
		}
		all = append(all, ds)
	}
	// the same single definition over every edge: no merge here
	same := true
	var first *memDef
	for _, ds := range all {
		if len(ds) == 0 {
			continue
		}
		for i := range ds {
			if first == nil {
				first = &ds[i]
			} else if ds[i].store != first.store || ds[i].from != first.from {
				same = false
			}
		}
	}
	var out []memDef
	if same && first != nil {
		out = []memDef{*first}
	} else {
		seen := map[[3]interface{}]bool{}
		for i, ds := range all {
			for _, d := range ds {
				if d.from == nil {
					d.from, d.at = b.Preds[i], b
				}
				k := [3]interface{}{d.store, d.from, d.at}
				if !seen[k] {
					seen[k] = true
					out = append(out, d)
				}
			}
		}
	}
	w.memo[b] = out
	return out
}
