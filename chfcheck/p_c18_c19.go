package main

import (
	"fmt"
	"go/constant"
	"go/token"
	"go/types"
	"sort"
	"strings"

	"golang.org/x/tools/go/ssa"
)

// C18: Diameter connections and background tasks stay bounded.
// C19: late or lost Diameter answers neither cross-talk nor block later requests.

const smPath = "github.com/fiorix/go-diameter/diam/sm"

func init() {
	register("C18", "other", checkC18)
	register("C19", "other", checkC19)
}

func checkC18(c *Ctx, r *Report) {
	r.Explanation = "Acquire/release discipline decided on go/ssa for every path: (R1) every connection obtained from sm.Client.Dial* in module code is closed on every path from the successful dial to a return (explicitly or by defer), or handed to the caller, or cached in a field behind a dial-once test; (R2) no `go` statement is reachable from a request handler in module code, so a completed request leaves no task of the module behind. go-diameter starts one watchdog/reader goroutine per dialled connection and ends it when the connection closes (trusted), so R1 bounds those too."
	r.Undecided = []string{"actual connection/goroutine counts over time (library internals trusted)", "TIME_WAIT sockets of closed connections"}
	r.Trusted = append(r.Trusted, "go-diameter ties its per-connection goroutines (reader, watchdog) to the connection's lifetime", "go-diameter ends sm.(*Client).watchdog only on the connection's CloseNotify, and conn.closeNotify installs the notifying copy routine at the next Read (read from diam/sm/client.go and diam/server.go, v3.0.2; reproduced: 15 timed-out requests left 15 watchdog goroutines)", "go-diameter sm.(*Client).dwr closes the connection after WatchdogInterval + (MaxRetransmits+1) x RetransmitInterval without a DWA (read from diam/sm/client.go)")
	r.rule("C18.R1", "every dialled Diameter connection is closed on all paths (by Close or by a helper that closes it on all of its paths), returned to a caller that does, or cached behind a dial-once guard", 1)
	r.rule("C18.R2", "no go statement reachable from a request handler in module code", 1)
	r.rule("C18.R4", "no watchdog goroutine is started for a per-request connection (go-diameter does not end it when the connection is closed before its first message after the handshake)", 2)
	r.rule("C18.R5", "the answer handlers cannot block: a handler parked on the hand-over channel is a task left behind for ever (shared with C19.R2)", 2)
	r.rule("C18.R3", "the connection watchdog cannot give up before the request's own time-out (constants of the sm.Client literals vs the client functions' time.After)", 2)

	ndial := 0
	for _, f := range c.ModFuncs {
		eachInstr(f, func(_ *ssa.BasicBlock, _ int, ins ssa.Instruction) {
			call, ok := ins.(*ssa.Call)
			if !ok {
				return
			}
			obj := calleeObj(&call.Call)
			if obj == nil || obj.Pkg() == nil || !strings.HasPrefix(obj.Name(), "Dial") {
				return
			}
			pp := obj.Pkg().Path()
			if pp != smPath && pp != diamPath {
				return
			}
			// result 0 must be a diam.Conn
			res := obj.Type().(*types.Signature).Results()
			if res.Len() < 1 || !typeIs(res.At(0).Type(), diamPath, "Conn") {
				return
			}
			ndial++
			key := fmt.Sprintf("%s|%s", fnKey(f), obj.Name())
			ok2, why := connReleased(c, f, call)
			r.check(ok2, "C18.R1", key, posOf(c, ins), why, why)
		})
	}
	r.count("dial_sites", ndial)
	c18WatchdogOutlivesRequest(c, r, "C18.R3")
	r.shareFrom(c, checkC19, map[string]string{"C19.R2": "C18.R5"})

	// R2
	entries := httpEntries(c)
	reached, pred := c.reach(entries)
	ngo := 0
	for _, f := range c.ModFuncs {
		if !reached[f] {
			continue
		}
		eachInstr(f, func(_ *ssa.BasicBlock, _ int, ins ssa.Instruction) {
			if g, ok := ins.(*ssa.Go); ok {
				ngo++
				r.viol("C18.R2", fmt.Sprintf("%s|go#%d", fnKey(f), ngo), posOf(c, g), "a goroutine is started on the request path ("+pathTo(pred, f)+"): each request may leave a task behind")
			}
		})
	}
	if ngo == 0 {
		r.proven("C18.R2", "none", "", fmt.Sprintf("no go statement in the %d functions reachable from the route handlers", len(reached)))
	}
}

// connReleased: see C18.R1.
func connReleased(c *Ctx, f *ssa.Function, dial *ssa.Call) (bool, string) {
	return connCallReleased(c, f, dial, 0)
}

// connCallReleased: the connection that is result 0 of `call` (a Dial* of
// go-diameter, or a module function that returns a connection it dialled) is
// released on every path after the call succeeded.
func connCallReleased(c *Ctx, f *ssa.Function, call *ssa.Call, depth int) (bool, string) {
	if depth > 3 {
		return false, "the connection is passed through more helper functions than the rule follows"
	}
	var conn, errv ssa.Value
	if call.Call.Signature().Results().Len() == 1 {
		conn = call
	}
	for _, ref := range *call.Referrers() {
		if ex, ok := ref.(*ssa.Extract); ok {
			if ex.Index == 0 {
				conn = ex
			} else if ex.Index == 1 {
				errv = ex
			}
		}
	}
	if conn == nil {
		return false, "the dialled connection is discarded: it can never be closed"
	}
	// success edge
	succ := call.Block()
	if errv != nil {
		if _, to := nilTestEdge(errv, 0); to != nil {
			succ = to
		}
	}
	return connValueReleased(c, f, conn, succ, call.Block(), depth)
}

// connValueReleased: conn (a value of f) is closed on every path from `succ`
// to a return - by a Close, by a helper that closes its parameter on all of
// its paths - or handed to the caller (whose call sites then carry the
// obligation), or cached behind a dial-once test.
func connValueReleased(c *Ctx, f *ssa.Function, conn ssa.Value, succ, dialBlock *ssa.BasicBlock, depth int) (bool, string) {
	var closers []ssa.Instruction
	handedOver := false
	how := ""
	partial := ""
	for _, ref := range *conn.Referrers() {
		switch x := ref.(type) {
		case ssa.CallInstruction:
			cc := x.Common()
			if _, isGo := x.(*ssa.Go); isGo {
				continue
			}
			if cc.IsInvoke() && cc.Value == conn && cc.Method.Name() == "Close" {
				closers = append(closers, x)
				continue
			}
			// handed to a module function: a release only if that function closes it on all its paths
			if g := cc.StaticCallee(); g != nil && c.inModule(g) && len(g.Blocks) > 0 {
				for i, a := range cc.Args {
					if a != conn || i >= len(g.Params) {
						continue
					}
					if ok, why := paramClosedOnAllPaths(c, g, i, depth+1); ok {
						closers = append(closers, x)
					} else if why != "" && partial == "" {
						partial = shortFn(g) + " " + why
					}
				}
			}
		case *ssa.Return:
			// the caller takes over: every call site of f must release it
			callers := 0
			for _, g := range c.ModFuncs {
				bad := ""
				eachInstr(g, func(_ *ssa.BasicBlock, _ int, ins ssa.Instruction) {
					cs, ok := ins.(*ssa.Call)
					if !ok || cs.Call.StaticCallee() != f {
						return
					}
					callers++
					if ok2, why := connCallReleased(c, g, cs, depth+1); !ok2 && bad == "" {
						bad = fmt.Sprintf("%s returns the connection to %s (%s), where %s", shortFn(f), shortFn(g), posOf(c, cs), why)
					}
				})
				if bad != "" {
					return false, bad
				}
			}
			handedOver = true
			how = fmt.Sprintf("the connection is returned to the caller (%d call sites release it)", callers)
		case *ssa.Store:
			if x.Val == conn {
				if fa, ok := x.Addr.(*ssa.FieldAddr); ok {
					// cached: the dial must be dominated by a test of that field (dial-once / reconnect)
					guarded := false
					for _, b := range f.Blocks {
						if len(b.Instrs) == 0 {
							continue
						}
						ifi, ok := b.Instrs[len(b.Instrs)-1].(*ssa.If)
						if !ok {
							continue
						}
						for d := range depSet(f, ifi.Cond) {
							if fa2, ok := d.(*ssa.FieldAddr); ok && fa2.Field == fa.Field && namedOf(fa2.X.Type()) == namedOf(fa.X.Type()) {
								if b.Dominates(dialBlock) {
									guarded = true
								}
							}
						}
					}
					if guarded {
						// a cached connection lives until somebody closes it: whoever overwrites the
						// field (with nil, with another connection) has to close what it held
						dropped := ""
						for _, g := range c.ModFuncs {
							eachInstr(g, func(_ *ssa.BasicBlock, _ int, ins ssa.Instruction) {
								st, ok := ins.(*ssa.Store)
								if !ok || st == x {
									return
								}
								fa3, ok := st.Addr.(*ssa.FieldAddr)
								if !ok || fa3.Field != fa.Field || namedOf(fa3.X.Type()) != namedOf(fa.X.Type()) {
									return
								}
								closedBefore := false
								// another dial stored into the field is judged where it is dialled
								for d := range depSet(g, st.Val) {
									if dc, ok := d.(*ssa.Call); ok {
										if obj := calleeObj(&dc.Call); obj != nil && strings.HasPrefix(obj.Name(), "Dial") {
											closedBefore = true
										}
									}
								}
								eachInstr(g, func(_ *ssa.BasicBlock, _ int, i2 ssa.Instruction) {
									cl, ok := i2.(*ssa.Call)
									if !ok || !cl.Call.IsInvoke() || cl.Call.Method.Name() != "Close" {
										return
									}
									for d := range depSet(g, cl.Call.Value) {
										if fa4, ok := d.(*ssa.FieldAddr); ok && fa4.Field == fa.Field && namedOf(fa4.X.Type()) == namedOf(fa.X.Type()) && instrDominates(cl, st) {
											closedBefore = true
										}
									}
								})
								if !closedBefore && dropped == "" {
									dropped = posOf(c, st)
								}
							})
						}
						if dropped != "" {
							return false, "the connection is cached in field " + fieldName(fa) + ", and the field is overwritten at " + dropped + " without the connection it held being closed: every request that takes that path leaves an established connection and its reader goroutine behind"
						}
						handedOver = true
						how = "the connection is cached in field " + fieldName(fa) + " behind a test of that field; every other assignment of the field closes the old connection first"
					}
				}
			}
		}
	}
	if handedOver {
		return true, how
	}
	if len(closers) == 0 {
		if partial != "" {
			return false, "the connection is handed to " + partial
		}
		return false, "the connection dialled here is never closed: every request leaves a TLS connection and go-diameter's watchdog/reader goroutines behind"
	}
	if !everyPathFromPasses(succ, closers) {
		if partial != "" {
			return false, "a path from the successful dial to a return does not close the connection (it is handed to " + partial + ")"
		}
		return false, "a path from the successful dial to a return does not close the connection"
	}
	return true, "closed on every path after the successful dial"
}

// paramClosedOnAllPaths: g closes its i-th parameter (a connection) on every
// path from its entry to a return.
func paramClosedOnAllPaths(c *Ctx, g *ssa.Function, i int, depth int) (bool, string) {
	if depth > 3 {
		return false, ""
	}
	p := g.Params[i]
	if !typeIs(p.Type(), diamPath, "Conn") {
		return false, ""
	}
	var closers []ssa.Instruction
	for _, ref := range *p.Referrers() {
		x, ok := ref.(ssa.CallInstruction)
		if !ok {
			continue
		}
		if _, isGo := x.(*ssa.Go); isGo {
			continue
		}
		cc := x.Common()
		if cc.IsInvoke() && cc.Value == ssa.Value(p) && cc.Method.Name() == "Close" {
			closers = append(closers, x)
			continue
		}
		if h := cc.StaticCallee(); h != nil && c.inModule(h) && len(h.Blocks) > 0 {
			for j, a := range cc.Args {
				if a == ssa.Value(p) && j < len(h.Params) {
					if ok, _ := paramClosedOnAllPaths(c, h, j, depth+1); ok {
						closers = append(closers, x)
					}
				}
			}
		}
	}
	if len(closers) == 0 {
		return false, "which never closes it"
	}
	if !everyPathFromPasses(g.Blocks[0], closers) {
		return false, "which closes it on some of its paths only (a return is reached without Close)"
	}
	return true, ""
}

// ---------------------------------------------------------------------------

func checkC19(c *Ctx, r *Report) {
	r.Explanation = "Two structural necessary conditions, timing itself is not decidable statically: (R1) 'the answer acted upon is the answer to the request sent' needs a correlation test - the success return of each client function must be control-dependent on a comparison that depends on both an identifier of the decoded answer and the corresponding identifier of the request; (R2) 'a late answer never prevents later requests from completing' needs a handler that cannot block for ever - the send in the answer handlers must be non-blocking (select with default / time-out) or target a channel with capacity >= 1 created per request; (R3) nothing but the requesting client function receives from the per-subscriber hand-over channel, and the channel value is handed to nothing but the answer handler's constructor - a second receiver would take the answer of the subscriber's next request."
	r.Undecided = []string{"timing: whether a given delay pattern actually produces a stale answer", "fairness of select"}
	r.rule("C19.R1", "the answer is correlated with the request before it is returned to the charging operation", 2)
	r.rule("C19.R2", "the Diameter answer handler cannot block for ever on the hand-over channel", 2)
	r.rule("C19.R4", "the connection of a request that gives up is closed on every path (an abandoned request's answer cannot be delivered later; shared with C18.R1)", 2)
	r.rule("C19.R6", "a client function cannot wait for ever: every blocking select has a time-out case, and no bare receive waits on a channel that lives longer than the call (a per-subscriber timer that already fired and was consumed never delivers again)", 4)
	r.rule("C19.R7", "the exchange with a peer runs under the subscriber's lock: consistent lockset of the per-subscriber state, lock held to the end of the operation (shared with C09.R1/R2) - otherwise two operations of one subscriber take each other's answers from the shared channel", 10)
	r.rule("C19.R8", "no goroutine is started on the request path (shared with C18.R2): an exchange that goes on in an abandoned goroutine keeps receiving from the subscriber's channel and takes the answer of the next request", 1)
	r.rule("C19.R5", "each client waits on, and empties before it sends, the very channel its own answer handler delivers into", 6)
	r.rule("C19.R9", "the answer channel, state machine and client of a subscriber are made once, by the constructor of the context: none is replaced later", 6)
	r.rule("C19.R10", "every request-reachable call of a Diameter client function is made with the subscriber's lock held", 3)
	r.rule("C19.R3", "the per-subscriber answer channel has one kind of receiver: the client function that sent the request", 2)

	for _, a := range [][3]string{
		{"internal/abmf", "SendAccountDebitRequest", "CC-Request-Number / Session-Id"},
		{"internal/rating", "SendServiceUsageRequest", "Session-Id / Service-Identifier"},
	} {
		f := c.fn(a[0], a[1])
		key := fnKey(f)
		// the request parameter (2nd) and the decoded answer (local alloc whose address is passed to Unmarshal)
		var req ssa.Value
		if len(f.Params) >= 2 {
			req = f.Params[1]
		}
		var ans *ssa.Alloc
		eachInstr(f, func(_ *ssa.BasicBlock, _ int, ins ssa.Instruction) {
			if cc, ok := callIs(ins, diamPath, "Message.Unmarshal"); ok && len(cc.Args) >= 2 {
				if al, ok := stripConv(cc.Args[1]).(*ssa.Alloc); ok {
					ans = al
				}
			}
		})
		if ans == nil || req == nil {
			r.viol("C19.R1", key, c.rel(f.Pos()), "cannot find the decoded answer / the request in the client function")
			continue
		}
		// success returns: result 0 is the answer
		for _, ri := range returnsOf(f) {
			if len(ri.Vals) == 0 || ri.Vals[0] != ssa.Value(ans) {
				continue
			}
			ok := false
			// control dependence: some If whose one edge dominates the return and whose condition depends on both
			for _, b := range f.Blocks {
				if len(b.Instrs) == 0 {
					continue
				}
				ifi, isIf := b.Instrs[len(b.Instrs)-1].(*ssa.If)
				if !isIf {
					continue
				}
				onEdge := false
				for _, s := range b.Succs {
					if edgeDominates(b, s, ri.At) {
						onEdge = true
					}
				}
				if !onEdge {
					continue
				}
				deps := depSet(f, ifi.Cond)
				usesAns, usesReq := false, false
				for d := range deps {
					if fa, ok := d.(*ssa.FieldAddr); ok {
						if base := allocBase(fa); base == ssa.Value(ans) {
							usesAns = true
						}
						if rootIsValue(fa, req) {
							usesReq = true
						}
					}
				}
				if usesAns && usesReq {
					ok = true
				}
			}
			r.check(ok, "C19.R1", key, posOf(c, ri.Ret), "the success return depends on a comparison of answer and request identifiers",
				"the decoded answer is returned without comparing any of its identifiers ("+a[2]+") with the request's: an answer that arrives after its request timed out is taken as the answer of the subscriber's next request")
		}
	}

	c19SingleConsumer(c, r, "C19.R3")
	c19ExchangeObjectsMadeOnce(c, r, "C19.R9")
	c19ExchangeUnderLock(c, r, "C19.R10")
	c19OwnChannel(c, r, "C19.R5")
	c19BoundedWaits(c, r, "C19.R6")
	r.shareFrom(c, checkC18, map[string]string{"C18.R2": "C19.R8"})
	r.shareFrom(c, checkC09, map[string]string{"C09.R1": "C19.R7", "C09.R2": "C19.R7"})

	// R4: as long as answers are not correlated (R1), what keeps the answer of a
	// timed-out request away from the subscriber's next request is that the
	// per-request connection is closed when the request gives up
	for _, a := range [][2]string{{"internal/abmf", "SendAccountDebitRequest"}, {"internal/rating", "SendServiceUsageRequest"}} {
		f := c.fn(a[0], a[1])
		nd := 0
		eachInstr(f, func(_ *ssa.BasicBlock, _ int, ins ssa.Instruction) {
			call, ok := ins.(*ssa.Call)
			if !ok {
				return
			}
			obj := calleeObj(&call.Call)
			if obj == nil || obj.Pkg() == nil || !strings.HasPrefix(obj.Name(), "Dial") || (obj.Pkg().Path() != smPath && obj.Pkg().Path() != diamPath) {
				return
			}
			nd++
			ok2, why := connReleased(c, f, call)
			if ok2 && strings.HasPrefix(why, "the connection is cached") {
				// bounded (C18), but the next request of the subscriber uses the same connection:
				// a request that gives up after it was written has to close it
				if bad := c19GiveUpCloses(c, f); bad != "" {
					ok2, why = false, "the connection is kept for the subscriber's next request and "+bad
				}
			}
			r.check(ok2, "C19.R4", fmt.Sprintf("%s|%s", fnKey(f), obj.Name()), posOf(c, ins), why, why+": the connection of a request that timed out stays open, so its late answer is still delivered into the subscriber's channel and is taken as the answer of the next request")
		})
		if nd == 0 {
			r.viol("C19.R4", fnKey(f)+"|dial", c.rel(f.Pos()), "the client function does not dial a per-request connection")
		}
	}

	for _, a := range [][2]string{{"internal/abmf", "HandleCCA"}, {"internal/rating", "HandleSUA"}} {
		outer := c.fn(a[0], a[1])
		for _, f := range returnedFuncs(outer) {
			key := fnKey(f)
			nsend := 0
			eachInstr(f, func(_ *ssa.BasicBlock, _ int, ins ssa.Instruction) {
				switch x := ins.(type) {
				case *ssa.Send:
					nsend++
					capOK := chanHasCapacityPerRequest(c, outer, x.Chan)
					r.check(capOK, "C19.R2", key, posOf(c, ins), "plain send on a buffered channel created per request",
						"plain blocking send on the shared per-subscriber channel: when the client has timed out nobody receives, the handler goroutine blocks for ever (keeping the mux read-locked) and the subscriber's next request cannot register its handler")
				case *ssa.Select:
					for _, st := range x.States {
						if st.Dir == types.SendOnly {
							nsend++
							timed := false
							for _, st2 := range x.States {
								// only a timer bounds the wait: other channels (the connection's close
								// notification, a done channel) may never deliver
								if st2.Dir == types.RecvOnly && isTimerChan(f, st2.Chan, false) {
									timed = true
								}
							}
							r.check(!x.Blocking || timed, "C19.R2", key, posOf(c, ins), "send inside a select with default / time-out", "send inside a blocking select whose other cases are not a time-out: when nobody receives (the request gave up, a surplus answer) the handler waits for ever - go-diameter's close notification, for one, is not delivered for a connection that is closed while its reader waits")
						}
					}
				}
			})
			if nsend == 0 {
				r.viol("C19.R2", key, c.rel(f.Pos()), "answer handler does not hand the answer over")
			}
		}
	}
}

// c19GiveUpCloses: every error return of the client function that lies behind the write of the
// request passes a Close of a Diameter connection.  "" when it does.
func c19GiveUpCloses(c *Ctx, f *ssa.Function) string {
	var writes []ssa.Instruction
	closerBlocks := map[*ssa.BasicBlock]bool{}
	eachInstr(f, func(b *ssa.BasicBlock, _ int, ins ssa.Instruction) {
		ci, ok := ins.(ssa.CallInstruction)
		if !ok {
			return
		}
		if _, isDefer := ins.(*ssa.Defer); isDefer {
			return
		}
		cc := ci.Common()
		if cc.IsInvoke() && cc.Method.Name() == "Close" && typeIs(cc.Value.Type(), diamPath, "Conn") {
			closerBlocks[b] = true
		}
		if _, ok := callIs(ins, diamPath, "Message.WriteTo"); ok {
			writes = append(writes, ins)
		}
		// once the answer is being decoded the exchange is over: an exit behind that point (a
		// malformed answer) leaves nothing outstanding on the connection
		if _, ok := callIs(ins, diamPath, "Message.Unmarshal"); ok {
			closerBlocks[b] = true
		}
	})
	if len(writes) == 0 {
		return "the request write was not found"
	}
	for _, w := range writes {
		reach := reachableFrom(w.Block(), nil, nil, closerBlocks)
		for _, ri := range returnsOf(f) {
			if len(ri.Vals) == 0 || isNilConst(ri.Vals[len(ri.Vals)-1]) || !reach[ri.At] || closerBlocks[ri.At] {
				continue
			}
			return "the exit at " + c.rel(ri.Point().Pos()) + " gives the request up after it was written without closing the connection"
		}
	}
	return ""
}

// isTimerChan: the channel of a timer (time.After / NewTimer(..).C / ctx.Done()); with localOnly
// a timer member must belong to a timer made in f.
func isTimerChan(f *ssa.Function, ch ssa.Value, localOnly bool) bool {
	ch = stripConv(ch)
	if call, ok := ch.(*ssa.Call); ok {
		if obj := calleeObj(&call.Call); obj != nil && obj.Pkg() != nil {
			if obj.Pkg().Path() == "time" && (obj.Name() == "After" || obj.Name() == "Tick") {
				return true
			}
			if obj.Pkg().Path() == "context" && obj.Name() == "Done" {
				return true
			}
		}
		if call.Call.IsInvoke() && call.Call.Method.Name() == "Done" {
			return true
		}
	}
	if ld, ok := ch.(*ssa.UnOp); ok && ld.Op == token.MUL {
		if fa, ok := ld.X.(*ssa.FieldAddr); ok && fieldName(fa) == "C" && typeIs(fa.X.Type(), "time", "Timer") {
			if !localOnly {
				return true
			}
			t := fa.X
			for i := 0; i < 4; i++ {
				t = resolveLocalLoad(t)
			}
			if call, ok := t.(*ssa.Call); ok {
				if obj := calleeObj(&call.Call); obj != nil && obj.Pkg() != nil && obj.Pkg().Path() == "time" && (obj.Name() == "NewTimer" || obj.Name() == "AfterFunc") {
					return true
				}
			}
		}
	}
	return false
}

// c19BoundedWaits (R6): the waits of the two client functions.
func c19BoundedWaits(c *Ctx, r *Report, rule string) {
	for _, a := range [][2]string{{"internal/abmf", "SendAccountDebitRequest"}, {"internal/rating", "SendServiceUsageRequest"}} {
		f := c.fn(a[0], a[1])
		n := 0
		eachInstr(f, func(_ *ssa.BasicBlock, _ int, ins ssa.Instruction) {
			switch x := ins.(type) {
			case *ssa.Select:
				n++
				key := fmt.Sprintf("%s|select#%d", fnKey(f), n)
				if !x.Blocking {
					r.proven(rule, key, posOf(c, ins), "non-blocking select (default case)")
					return
				}
				timed := false
				long := ""
				for _, st := range x.States {
					if st.Dir == types.RecvOnly && isTimerChan(f, st.Chan, false) {
						timed = true
						// the property is stated for the 5 s client time-out
						if call, ok := stripConv(st.Chan).(*ssa.Call); ok && len(call.Call.Args) == 1 {
							if d, ok := constInt(call.Call.Args[0]); ok && d > 5e9 {
								long = fmt.Sprintf("the wait for the answer times out after %.0f s, not after the 5 s the clients are specified with: a lost answer holds the subscriber (and its lock) that long, and an answer delayed beyond 5 s is still taken", float64(d)/1e9)
							}
						}
					}
				}
				if timed && long != "" {
					r.viol(rule, key, posOf(c, ins), long)
					return
				}
				r.check(timed, rule, key, posOf(c, ins), "blocking select with a time-out case", "a blocking select without a time-out case: when the answer is lost the request never completes and keeps the subscriber locked")
			case *ssa.UnOp:
				if x.Op != token.ARROW {
					return
				}
				n++
				key := fmt.Sprintf("%s|receive#%d", fnKey(f), n)
				r.check(isTimerChan(f, x.X, true), rule, key, posOf(c, ins), "receive from the channel of a timer made in this call",
					"a bare receive from "+describe(x.X)+", a channel that lives longer than this call: whether it ever delivers depends on earlier requests (a per-subscriber timer whose tick an earlier time-out already consumed stays empty after Stop), so this request can wait for ever with the subscriber locked")
			}
		})
		if n == 0 {
			r.viol(rule, fnKey(f)+"|waits", c.rel(f.Pos()), "the client function does not wait for its answer at all")
		}
	}
}

// c19SingleConsumer (R3): the hand-over channel of a subscriber has exactly one
// kind of receiver - the client function that sent the request and waits for
// its answer (it runs under the subscriber's lock, so one at a time).  Every
// other use of the channel value must be a send by the answer handler.  A
// second receiver (a "drain" goroutine, a helper the channel is handed to)
// competes with the next request for that request's answer.
func c19SingleConsumer(c *Ctx, r *Report, rule string) {
	ue := c.namedType("internal/context", "ChfUe")
	st := ue.Underlying().(*types.Struct)
	chanFields := map[string]bool{}
	for i := 0; i < st.NumFields(); i++ {
		if _, ok := st.Field(i).Type().Underlying().(*types.Chan); ok {
			chanFields[st.Field(i).Name()] = true
		}
	}
	clients := map[*ssa.Function]bool{c.fn("internal/abmf", "SendAccountDebitRequest"): true, c.fn("internal/rating", "SendServiceUsageRequest"): true}
	ctors := map[*ssa.Function]bool{c.fn("internal/abmf", "HandleCCA"): true, c.fn("internal/rating", "HandleSUA"): true}
	type site struct {
		f     *ssa.Function
		field string
	}
	seen := map[site][]string{}
	pos := map[site]string{}
	var order []site
	for _, f := range c.ModFuncs {
		eachInstr(f, func(_ *ssa.BasicBlock, _ int, ins ssa.Instruction) {
			ld, ok := ins.(*ssa.UnOp)
			if !ok || ld.Op != token.MUL {
				return
			}
			fa, ok := ld.X.(*ssa.FieldAddr)
			if !ok || !typeIs(fa.X.Type(), ctxPath, "ChfUe") || !chanFields[fieldName(fa)] {
				return
			}
			k := site{f, fieldName(fa)}
			if _, ok := seen[k]; !ok {
				order = append(order, k)
				seen[k] = nil
				pos[k] = posOf(c, ld)
			}
			refs := append([]ssa.Instruction{}, *ld.Referrers()...)
			aliases := map[ssa.Value]bool{ld: true}
			keptLocally := map[ssa.Instruction]bool{}
			for i := 0; i < len(refs); i++ {
				// a direction conversion (chan -> <-chan) is still the same channel
				if ct, ok := refs[i].(*ssa.ChangeType); ok {
					aliases[ct] = true
					refs = append(refs, *ct.Referrers()...)
				}
				// kept in a member of a local object that does not leave the function (the state of
				// one exchange): what is read back from that member is the same channel
				if st, ok := refs[i].(*ssa.Store); ok && aliases[st.Val] {
					if k, ok := localMemberOf(st.Addr); ok && localDoesNotEscape(k.root) {
						keptLocally[st] = true
						eachInstr(f, func(_ *ssa.BasicBlock, _ int, i2 ssa.Instruction) {
							if l2, ok := i2.(*ssa.UnOp); ok && l2.Op == token.MUL && !aliases[l2] {
								if k2, ok := localMemberOf(l2.X); ok && k2 == k {
									aliases[l2] = true
									refs = append(refs, *l2.Referrers()...)
								}
							}
						})
					}
				}
			}
			for _, ref := range refs {
				bad := ""
				if keptLocally[ref] {
					continue
				}
				switch x := ref.(type) {
				case *ssa.ChangeType:
				case *ssa.UnOp:
					if x.Op == token.ARROW && !clients[f] {
						bad = "receives from it"
					}
				case *ssa.Select:
					for _, stt := range x.States {
						if aliases[stt.Chan] && stt.Dir == types.RecvOnly && !clients[f] {
							bad = "receives from it in a select"
						}
					}
				case *ssa.Send:
					// sends are the handler's business (R2)
				case ssa.CallInstruction:
					com := x.Common()
					if b, isB := com.Value.(*ssa.Builtin); isB && (b.Name() == "len" || b.Name() == "cap") {
						break
					}
					if sc := com.StaticCallee(); sc != nil && ctors[sc] {
						break // the answer handler is built for this channel (it only sends: R2)
					}
					if _, isGo := x.(*ssa.Go); isGo {
						bad = "hands it to a goroutine (" + callName(x) + ")"
					} else {
						bad = "hands it to " + callName(x)
					}
				case *ssa.DebugRef:
				default:
					what := fmt.Sprintf("%T", ref)
					if v, isVal := ref.(ssa.Value); isVal {
						what = describe(v)
					} else if st, isSt := ref.(*ssa.Store); isSt {
						what = "stored into " + describe(st.Addr)
					}
					bad = "lets it escape (" + what + ")"
				}
				if bad != "" {
					seen[k] = append(seen[k], bad+" at "+posOf(c, ref))
				}
			}
		})
	}
	for _, k := range order {
		role := "sends to / builds the handler for"
		if clients[k.f] {
			role = "is the requester that waits on"
		}
		r.check(len(seen[k]) == 0, rule, fnKey(k.f)+"|ChfUe."+k.field, pos[k], fnKey(k.f)+" "+role+" the channel and nothing else touches it here",
			"besides the requesting client function, "+fnKey(k.f)+" "+strings.Join(seen[k], "; ")+": a second receiver on the per-subscriber answer channel takes the answer of the subscriber's next request, which then times out although its peer answered")
	}
}

func rootIsValue(fa *ssa.FieldAddr, v ssa.Value) bool {
	var x ssa.Value = fa
	for depth := 0; depth < 16; depth++ {
		switch y := x.(type) {
		case *ssa.FieldAddr:
			x = y.X
		case *ssa.UnOp:
			x = y.X
		default:
			return x == v
		}
	}
	return false
}

// chanHasCapacityPerRequest: not provable for a channel stored in subscriber
// state; accepted only for a channel made (cap >= 1) in the calling request.
func chanHasCapacityPerRequest(c *Ctx, outer *ssa.Function, ch ssa.Value) bool {
	// the handler closure captures the channel parameter of its constructor; find what callers pass
	fv, ok := ch.(*ssa.UnOp)
	var src ssa.Value = ch
	if ok {
		src = fv.X
	}
	_ = src
	for _, f := range c.ModFuncs {
		ok := false
		eachInstr(f, func(_ *ssa.BasicBlock, _ int, ins ssa.Instruction) {
			call, isCall := ins.(*ssa.Call)
			if !isCall || call.Call.StaticCallee() != outer || len(call.Call.Args) == 0 {
				return
			}
			if mk, isMk := call.Call.Args[0].(*ssa.MakeChan); isMk {
				if n, isC := constInt(mk.Size); isC && n >= 1 {
					ok = true
				}
			}
		})
		if ok {
			return true
		}
	}
	return false
}

// c18WatchdogOutlivesRequest (R3): go-diameter's per-connection watchdog
// (sm.(*Client).watchdog / dwr, read from its source) closes the connection by
// itself after WatchdogInterval + (MaxRetransmits+1) x RetransmitInterval
// without a DWA, and then keeps looping unless the close notification had been
// armed by a read.  A connection here serves one request and is closed by the
// request (defer conn.Close()) at the latest when its own time-out fires; if
// the watchdog can give up *before* that time-out, every request a busy peer
// answers late leaves a watchdog goroutine behind.  The constants are read
// from the sm.Client literals and from the time.After of the function that
// dials with that client.
func c18WatchdogOutlivesRequest(c *Ctx, r *Report, rule string) {
	// time-out of the request, per client member used for dialling
	timeoutOf := map[string]int64{}
	whereOf := map[string]string{}
	dialCall := map[string]*ssa.Call{}
	dialFn := map[string]*ssa.Function{}
	// per function (with the module functions it calls, three levels deep): does it dial, and
	// the shortest constant time-out it waits with
	type waitInfo struct {
		dials bool
		tmo   int64
	}
	memo := map[*ssa.Function]waitInfo{}
	var infoOf func(f *ssa.Function, depth int) waitInfo
	infoOf = func(f *ssa.Function, depth int) waitInfo {
		if wi, ok := memo[f]; ok {
			return wi
		}
		wi := waitInfo{tmo: -1}
		memo[f] = wi
		eachInstr(f, func(_ *ssa.BasicBlock, _ int, ins ssa.Instruction) {
			call, ok := ins.(ssa.CallInstruction)
			if !ok {
				return
			}
			cc := call.Common()
			obj := calleeObj(cc)
			if obj == nil || obj.Pkg() == nil {
				return
			}
			if obj.Pkg().Path() == smPath && strings.HasPrefix(obj.Name(), "Dial") {
				wi.dials = true
			}
			// the time-out of the wait: time.After(d), time.NewTimer(d), context.WithTimeout(ctx, d)
			var dur ssa.Value
			switch {
			case obj.Pkg().Path() == "time" && (obj.Name() == "After" || obj.Name() == "NewTimer") && len(cc.Args) == 1:
				dur = cc.Args[0]
			case obj.Pkg().Path() == "context" && obj.Name() == "WithTimeout" && len(cc.Args) == 2:
				dur = cc.Args[1]
			}
			if dur != nil {
				if k, ok := constInt(dur); ok && (wi.tmo < 0 || k < wi.tmo) {
					wi.tmo = k
				}
			}
			if g := cc.StaticCallee(); g != nil && c.inModule(g) && len(g.Blocks) > 0 && depth < 3 {
				sub := infoOf(g, depth+1)
				wi.dials = wi.dials || sub.dials
				if sub.tmo >= 0 && (wi.tmo < 0 || sub.tmo < wi.tmo) {
					wi.tmo = sub.tmo
				}
			}
		})
		memo[f] = wi
		return wi
	}
	for _, f := range c.ModFuncs {
		// the client member this function dials with: the receiver of a Dial*, or an argument
		// of a module helper that dials
		var member string
		eachInstr(f, func(_ *ssa.BasicBlock, _ int, ins ssa.Instruction) {
			call, ok := ins.(ssa.CallInstruction)
			if !ok {
				return
			}
			cc := call.Common()
			obj := calleeObj(cc)
			dialsHere := obj != nil && obj.Pkg() != nil && obj.Pkg().Path() == smPath && strings.HasPrefix(obj.Name(), "Dial")
			if !dialsHere {
				if g := cc.StaticCallee(); g == nil || !c.inModule(g) || len(g.Blocks) == 0 || !infoOf(g, 1).dials {
					return
				}
			}
			for _, a := range cc.Args {
				if !typeIs(a.Type(), smPath, "Client") {
					continue
				}
				if p, ok := pathOf(a); ok && len(p.Elems) > 0 && typeIs(p.Root.Type(), ctxPath, "ChfUe") {
					member = p.Elems[len(p.Elems)-1]
					if dc, isCall := call.(*ssa.Call); isCall && dialsHere {
						dialCall[member], dialFn[member] = dc, f
					}
				}
			}
		})
		if member == "" {
			continue
		}
		if wi := infoOf(f, 0); wi.tmo >= 0 {
			timeoutOf[member] = wi.tmo
			whereOf[member] = fnKey(f)
		}
	}
	n := 0
	for _, f := range c.ModFuncs {
		eachInstr(f, func(_ *ssa.BasicBlock, _ int, ins ssa.Instruction) {
			al, ok := ins.(*ssa.Alloc)
			if !ok || !typeIs(al.Type(), smPath, "Client") {
				return
			}
			get := func(name string) (int64, bool) {
				sts := storesToField(al, name)
				if len(sts) != 1 {
					return 0, false
				}
				return constInt(sts[0].Val)
			}
			// which member of the subscriber context the client is stored in
			member := ""
			for _, ref := range *al.Referrers() {
				if st, ok := ref.(*ssa.Store); ok && st.Val == ssa.Value(al) {
					if fa, ok := st.Addr.(*ssa.FieldAddr); ok {
						member = fieldName(fa)
					}
				}
			}
			n++
			key := fmt.Sprintf("%s|sm.Client %s", fnKey(f), member)
			enabled := false
			for _, st := range storesToField(al, "EnableWatchdog") {
				if k, ok := st.Val.(*ssa.Const); !ok || k.Value == nil || constant.BoolVal(k.Value) {
					enabled = true
				}
			}
			// R4: a watchdog on a connection that lives for one request
			if dc := dialCall[member]; dc != nil {
				perRequest := false
				if ok, why := connReleased(c, dialFn[member], dc); ok && strings.HasPrefix(why, "closed on every path") {
					perRequest = true
				}
				r.check(!(enabled && perRequest), "C18.R4", key, posOf(c, al), "no watchdog task is started for a connection that is closed at the end of the request that dialled it",
					"the client starts go-diameter's watchdog goroutine for every connection it dials (EnableWatchdog), and "+shortFn(dialFn[member])+" closes the connection at the end of the request: go-diameter ends that goroutine only through the connection's close notification, which is not delivered when the connection is closed before a message was read from it after the handshake (diam/server.go closeNotify: the notifying copy routine is installed at the next Read) - every request that times out or fails before its answer leaves one goroutine that wakes up every WatchdogInterval for ever")
			}
			if dialCall[member] == nil {
				r.check(!enabled, "C18.R4", key, posOf(c, al), "no watchdog task is started by this client", "the client enables go-diameter's watchdog and the function that dials with it could not be identified: cannot tell whether its connections outlive one request")
			}
			if !enabled {
				r.proven(rule, key, posOf(c, al), "watchdog not enabled for this client")
				return
			}
			wi, ok1 := get("WatchdogInterval")
			mr, ok2 := get("MaxRetransmits")
			ri, ok3 := get("RetransmitInterval")
			tmo, ok4 := timeoutOf[member]
			if !ok1 || !ok2 || !ok3 || !ok4 {
				r.viol(rule, key, posOf(c, al), "undecided: the watchdog constants of this client or the time-out of the function that dials with it are not constants")
				return
			}
			giveUp := wi + (mr+1)*ri
			r.check(giveUp > tmo, rule, key, posOf(c, al), fmt.Sprintf("the watchdog gives up after %.1fs, the request (%s) after %.1fs: the request closes the connection first", float64(giveUp)/1e9, whereOf[member], float64(tmo)/1e9),
				fmt.Sprintf("the watchdog gives up after WatchdogInterval + (MaxRetransmits+1) x RetransmitInterval = %.1fs, before the request's own time-out of %.1fs (%s): for a peer that answers late the watchdog closes the connection itself and its goroutine is never ended - one task left behind per such request", float64(giveUp)/1e9, float64(tmo)/1e9, whereOf[member]))
		})
	}
	if n == 0 {
		r.viol(rule, "clients", "", "no sm.Client literal found")
	}
}

// c19OwnChannel: rating and account-balance legs each have a per-subscriber
// channel of the same type.  The answer handler of a leg is built for one of
// them (HandleSUA(ue.RatingChan), HandleCCA(ue.AcctChan)); the client of that
// leg must receive from that channel only, and - as long as answers are not
// correlated (R1) - empty it with a non-blocking receive before the request is
// written, so that an answer parked after an earlier time-out is not taken as
// the answer of this request.
func c19OwnChannel(c *Ctx, r *Report, rule string) {
	pairs := []struct{ pkg, client, ctor string }{
		{"internal/abmf", "SendAccountDebitRequest", "HandleCCA"},
		{"internal/rating", "SendServiceUsageRequest", "HandleSUA"},
	}
	ueField := func(v ssa.Value) (string, bool) {
		// the member itself, or what a local exchange object read back holds
		for i := 0; i < 4; i++ {
			v = stripConv(v)
			ld, ok := v.(*ssa.UnOp)
			if !ok || ld.Op != token.MUL {
				return "", false
			}
			if fa, ok := ld.X.(*ssa.FieldAddr); ok && typeIs(fa.X.Type(), ctxPath, "ChfUe") {
				return fieldName(fa), true
			}
			nv := resolveMem(v)
			if nv == v {
				return "", false
			}
			v = nv
		}
		return "", false
	}
	for _, p := range pairs {
		client, ctor := c.fn(p.pkg, p.client), c.fn(p.pkg, p.ctor)
		key := fnKey(client)
		// the channel the handler delivers into
		handler := map[string]string{}
		for _, f := range c.ModFuncs {
			eachInstr(f, func(_ *ssa.BasicBlock, _ int, ins ssa.Instruction) {
				ci, ok := ins.(ssa.CallInstruction)
				if !ok || ci.Common().StaticCallee() != ctor || len(ci.Common().Args) == 0 {
					return
				}
				if fld, ok := ueField(ci.Common().Args[0]); ok {
					handler[fld] = posOf(c, ins)
				} else {
					handler["?"+describe(ci.Common().Args[0])] = posOf(c, ins)
				}
			})
		}
		if len(handler) != 1 {
			var names []string
			for k := range handler {
				names = append(names, k)
			}
			sort.Strings(names)
			r.viol(rule, key+"|handler channel", c.rel(client.Pos()), fmt.Sprintf("the answer handler %s is built for %d channels (%s): cannot tell which one the client must wait on", p.ctor, len(handler), strings.Join(names, ", ")))
			continue
		}
		var hf string
		for k := range handler {
			hf = k
		}
		if strings.HasPrefix(hf, "?") {
			r.viol(rule, key+"|handler channel", c.rel(client.Pos()), "the answer handler is built for "+hf[1:]+", not a channel member of the subscriber")
			continue
		}
		r.proven(rule, key+"|handler channel", handler[hf], p.ctor+" delivers into ChfUe."+hf)
		// receives of the client
		var write ssa.Instruction
		type recv struct {
			ins      ssa.Instruction
			field    string
			nonblock bool
		}
		var recvs []recv
		eachInstr(client, func(_ *ssa.BasicBlock, _ int, ins ssa.Instruction) {
			switch x := ins.(type) {
			case *ssa.UnOp:
				if x.Op == token.ARROW {
					if fld, ok := ueField(x.X); ok {
						recvs = append(recvs, recv{ins, fld, false})
					}
				}
			case *ssa.Select:
				for _, stt := range x.States {
					if stt.Dir != types.RecvOnly {
						continue
					}
					if fld, ok := ueField(stt.Chan); ok {
						recvs = append(recvs, recv{ins, fld, !x.Blocking})
					}
				}
			case *ssa.Call:
				if _, ok := callIs(ins, diamPath, "Message.WriteTo"); ok && write == nil {
					write = ins
				}
			}
		})
		wrong := ""
		nOwn := 0
		for _, rc := range recvs {
			if rc.field != hf {
				wrong += fmt.Sprintf("receives from ChfUe.%s at %s; ", rc.field, posOf(c, rc.ins))
			} else {
				nOwn++
			}
		}
		r.check(wrong == "" && nOwn > 0, rule, key+"|receives", c.rel(client.Pos()), fmt.Sprintf("all %d receives of the client are from ChfUe.%s", nOwn, hf),
			fmt.Sprintf("%s %sbut its answer handler delivers into ChfUe.%s: the other leg's channel is touched (its pending answer is lost or taken as this leg's answer) and this leg's own channel is not", shortFn(client), wrong, hf))
		// the flush before the request is written
		if write == nil {
			r.viol(rule, key+"|flush", c.rel(client.Pos()), "cannot find the call that writes the request (Message.WriteTo)")
			continue
		}
		flushed := false
		for _, rc := range recvs {
			if rc.field == hf && rc.nonblock && instrDominates(rc.ins, write) {
				flushed = true
			}
		}
		correlated := r.statusOf("C19.R1", key) == stProven
		switch {
		case flushed:
			r.proven(rule, key+"|flush", posOf(c, write), "a non-blocking receive from ChfUe."+hf+" dominates the write of the request: an answer parked after an earlier time-out is discarded")
		case correlated:
			r.proven(rule, key+"|flush", posOf(c, write), "no flush, but answers are correlated with the request (C19.R1)")
		default:
			r.viol(rule, key+"|flush", posOf(c, write), "the request is written without first emptying ChfUe."+hf+" (no non-blocking receive from it dominates the write) and answers are not correlated (C19.R1): an answer that the handler parked in the channel after an earlier request timed out is taken as the answer of this request")
		}
	}
}
