package main

import (
	"fmt"
	"go/constant"
	"go/token"
	"go/types"
	"sort"
	"strings"

	"golang.org/x/tools/go/ssa"
)

// C01: credit is conserved.   C06: grants never exceed what the money buys.

func init() {
	register("C01", "other", checkC01)
	register("C06", "other", checkC06)
}

// chfModel: the accounting function of the CHF (sessionChargingReservation).
type chfModel struct {
	c      *Ctx
	f      *ssa.Function
	ca     *cellAnalysis
	fe     *formEval
	disc   *ssa.Lookup   // RatingType look-up the mode switch branches on
	discs  []*ssa.Lookup // every read of the mode that is compared with a mode constant
	modeIn map[*ssa.BasicBlock]enumSet
	rsv    int64
	dbt    int64
}

func buildChfModel(c *Ctx) *chfModel {
	f := c.fn("internal/sbi/processor", "sessionChargingReservation")
	m := &chfModel{c: c, f: f}
	m.ca = newCellAnalysis(f)
	m.fe = cellFormEval(f, m.ca)
	m.rsv = constOf(c, "ccs_diameter/datatype", "REQ_SUBTYPE_RESERVE")
	m.dbt = constOf(c, "ccs_diameter/datatype", "REQ_SUBTYPE_DEBIT")
	// the discriminant: a RatingType look-up compared with both mode constants
	eachInstr(f, func(_ *ssa.BasicBlock, _ int, ins ssa.Instruction) {
		lk, ok := ins.(*ssa.Lookup)
		if !ok {
			return
		}
		if ck, ok := ueCellOf(lk.X, lk.Index); !ok || ck.field != "RatingType" {
			return
		}
		seen := map[int64]bool{}
		for _, ref := range *lk.Referrers() {
			if bo, ok := ref.(*ssa.BinOp); ok && bo.Op == token.EQL {
				if k, ok := constInt(bo.Y); ok {
					seen[k] = true
				}
				if k, ok := constInt(bo.X); ok {
					seen[k] = true
				}
			}
		}
		if seen[m.rsv] && seen[m.dbt] && m.disc == nil {
			m.disc = lk
		}
		if seen[m.rsv] || seen[m.dbt] {
			m.discs = append(m.discs, lk)
		}
	})
	if m.disc == nil && len(m.discs) > 0 {
		// the mode is read again for each test (if ... {} if ... {} instead of a switch):
		// the first read that dominates the others stands for the dispatch
		for _, d := range m.discs {
			domAll := true
			for _, e := range m.discs {
				if e != d && !instrDominates(d, e) {
					domAll = false
				}
			}
			if domAll {
				m.disc = d
			}
		}
	}
	if m.disc == nil {
		broken("anchor: sessionChargingReservation has no switch on the rating type of the rating group")
	}
	m.modeIn = enumFlow(f, func(v ssa.Value) bool {
		for _, d := range m.discs {
			if v == ssa.Value(d) {
				return true
			}
		}
		return v == ssa.Value(m.disc)
	})
	return m
}

// checkModeExclusive: the reserve step and the debit step of one rating group
// exclude each other within a request.  When the mode is read more than once,
// no assignment of the mode may lie between two reads: the reserve step itself
// switches the group to debit mode when the account runs dry, and a second read
// would send the same request through the debit step as well (the usage is
// priced and debited twice, the reservation is zeroed).
func (m *chfModel) checkModeExclusive(c *Ctx, r *Report, rule string) {
	key := fnKey(m.f)
	if len(m.discs) <= 1 {
		r.proven(rule, key+"|mode read once", posOf(c, m.disc), "the rating mode of the group is read once per request and dispatched on that value")
		return
	}
	bad := ""
	eachInstr(m.f, func(_ *ssa.BasicBlock, _ int, ins ssa.Instruction) {
		mu, ok := ins.(*ssa.MapUpdate)
		if !ok {
			return
		}
		if n, ok := ueFieldOfValue(mu.Map); !ok || n != "RatingType" {
			return
		}
		for _, a := range m.discs {
			for _, b := range m.discs {
				if a == b || bad != "" {
					continue
				}
				// only a read that dispatches to the *other* step matters: reading the mode
				// again to see whether the group is still in the mode of the current step is fine
				ca, cb := m.comparedWith(a), m.comparedWith(b)
				if !(ca[m.rsv] && cb[m.dbt]) {
					continue
				}
				// a ... write ... b within one iteration: b must not be reached through the loop head only
				if canReachWithin(a, mu, b) {
					bad = fmt.Sprintf("the mode read at %s is read again at %s after it may have been switched at %s", posOf(c, a), posOf(c, b), posOf(c, mu))
				}
			}
		}
	})
	r.check(bad == "", rule, key+"|mode re-read", posOf(c, m.disc), "the rating mode is read several times, with no assignment of the mode between two reads",
		bad+": a request whose reservation step meets an exhausted account (the group is switched to debit mode) also runs the debit step - the reported usage is priced and debited a second time and the reservation is cleared: credit disappears")
}

func (m *chfModel) comparedWith(lk *ssa.Lookup) map[int64]bool {
	out := map[int64]bool{}
	for _, ref := range *lk.Referrers() {
		if bo, ok := ref.(*ssa.BinOp); ok && bo.Op == token.EQL {
			if k, ok := constInt(bo.Y); ok {
				out[k] = true
			}
			if k, ok := constInt(bo.X); ok {
				out[k] = true
			}
		}
	}
	return out
}

// canReachWithin: a path a -> mid -> b exists within one iteration of the
// innermost loop that contains a (the loop head is not passed).
func canReachWithin(a, mid, b ssa.Instruction) bool {
	// innermost loop head dominating a
	var head *ssa.BasicBlock
	for _, h := range a.Parent().Blocks {
		isHead := false
		for _, p := range h.Preds {
			if h.Dominates(p) {
				isHead = true
			}
		}
		if isHead && h.Dominates(a.Block()) && (head == nil || head.Dominates(h)) {
			head = h
		}
	}
	reach := func(from, to ssa.Instruction) bool {
		if from.Block() == to.Block() {
			return instrIndex(from) < instrIndex(to)
		}
		avoid := map[*ssa.BasicBlock]bool{}
		if head != nil && head != from.Block() {
			avoid[head] = true
		}
		if a.Block() != from.Block() && a.Block() != to.Block() {
			avoid[a.Block()] = true
		}
		seen := map[*ssa.BasicBlock]bool{}
		stack := append([]*ssa.BasicBlock{}, from.Block().Succs...)
		for len(stack) > 0 {
			x := stack[len(stack)-1]
			stack = stack[:len(stack)-1]
			if seen[x] || avoid[x] {
				continue
			}
			seen[x] = true
			if x == to.Block() {
				return true
			}
			if x == a.Block() {
				continue // do not go round the loop
			}
			stack = append(stack, x.Succs...)
		}
		return false
	}
	return reach(a, mid) && reach(mid, b)
}

func (m *chfModel) modeOf(b *ssa.BasicBlock) enumSet {
	if !m.disc.Block().Dominates(b) || m.disc.Block() == b {
		return enumSet{vals: map[int64]bool{}, others: true}
	}
	return m.modeIn[b]
}

func (m *chfModel) only(b *ssa.BasicBlock, mode int64) bool {
	s := m.modeOf(b)
	return !s.others && len(s.vals) == 1 && s.vals[mode]
}

// atom classification --------------------------------------------------------

func (m *chfModel) atomDependsOn(key string, typeName, field string) bool {
	v := m.fe.atoms[key]
	if v == nil {
		return false
	}
	for d := range depSet(m.f, v) {
		if fa, ok := d.(*ssa.FieldAddr); ok && fieldName(fa) == field && typeIs(fa.X.Type(), modelsPath, typeName) {
			return true
		}
	}
	return false
}

func (m *chfModel) isUsedVolume(key string) bool {
	return strings.HasPrefix(key, "phi:") && m.atomDependsOn(key, "ChfConvergedChargingUsedUnitContainer", "TotalVolume") && !m.atomDependsOn(key, "RequestedUnit", "TotalVolume")
}
func (m *chfModel) isRequestedVolume(key string) bool {
	return m.atomDependsOn(key, "RequestedUnit", "TotalVolume") && !m.atomDependsOn(key, "ChfConvergedChargingUsedUnitContainer", "TotalVolume")
}
func isUnitCostAtom(key string) bool { return strings.HasPrefix(key, "call:getUnitCost@") }
func isGrantedAtom(key string) bool {
	return strings.HasPrefix(key, "mem:(call:SendAccountDebitRequest@") && strings.HasSuffix(key, ".MultipleServicesCreditControl.GrantedServiceUnit.CCTotalOctets")
}
func isPriceAtom(key string) bool {
	return strings.HasPrefix(key, "mem:(call:SendServiceUsageRequest@") && strings.HasSuffix(key, ".ServiceRating.Price")
}
func isAllowedAtom(key string) bool {
	return strings.HasPrefix(key, "mem:(call:SendServiceUsageRequest@") && strings.HasSuffix(key, ".ServiceRating.AllowedUnits")
}

// classify a polynomial as a sum of named money terms; returns a signature like
// "+cell0 -cost*used +granted" or "" if some monomial is not recognised.
func (m *chfModel) signature(p poly) string {
	var parts []string
	for mono, cf := range p {
		if cf != 1 && cf != -1 {
			return ""
		}
		sign := "+"
		if cf < 0 {
			sign = "-"
		}
		atoms := strings.Split(mono, monoSep)
		name := ""
		switch {
		case mono == "":
			return ""
		case len(atoms) == 1 && atoms[0] == "cell0:ReservedQuota":
			name = "reserved"
		case len(atoms) == 1 && isGrantedAtom(atoms[0]):
			name = "granted"
		case len(atoms) == 1 && isPriceAtom(atoms[0]):
			name = "price"
		case len(atoms) == 2:
			var cost, vol string
			for _, a := range atoms {
				switch {
				case isUnitCostAtom(a):
					cost = a
				case m.isUsedVolume(a):
					vol = "used"
				case m.isRequestedVolume(a):
					vol = "requested"
				}
			}
			if cost == "" || vol == "" {
				return ""
			}
			name = "cost*" + vol
		default:
			return ""
		}
		parts = append(parts, sign+name)
	}
	sortStrings(parts)
	return strings.Join(parts, " ")
}

func sortStrings(s []string) {
	for i := 1; i < len(s); i++ {
		for j := i; j > 0 && s[j] < s[j-1]; j-- {
			s[j], s[j-1] = s[j-1], s[j]
		}
	}
}

// ccrAt: the request object passed to a SendAccountDebitRequest call and its
// member assignments.
func (m *chfModel) reqObjectOf(call *ssa.Call) (ssa.Value, []flatStore) {
	if len(call.Call.Args) < 2 {
		return nil, nil
	}
	obj := call.Call.Args[1]
	return obj, flattenStores(m.f, obj)
}

func checkC01(c *Ctx, r *Report) {
	r.Explanation = "The identity over a history follows by induction from per-request transfer equations of the CHF and of the account server, plus atomicity (C09) and message fidelity (C17). This check decides the equations symbolically on go/ssa (polynomial forms over an abstract heap of the subscriber's map cells, one loop iteration, integer conversions as identities) - not the induction over concrete histories: (R1) reserve step: the only writes of the reservation cell are R0 - cost x used and (R0 - cost x used) + granted, the granted amount being the answer to a DIRECT_DEBITING/UPDATE request for exactly -(R0 - cost x used) + cost x requested; (R2) debit step: with p the rated price of the used volume, the CHF refunds R - p on the edge p < R and debits p - R (TERMINATION) otherwise, both amounts non-negative on their edge, and clears the reservation only after the request succeeded; (R3) the account server applies exactly these amounts (rules of C07); (R4) dimension typing is implied by the recognised monomials (money = cost x volume); (R5) the accounting cells are written only by the listed writers; (R6) store before acknowledge in the account server."
	r.Undecided = []string{"the identity over whole histories (induction not run)", "overflow / truncation of uint32 products and of Unsigned32(requestedQuota)", "failure paths (peer unreachable: error edges are outside the quantifier)", "recharge (credit added outside the CHF)"}
	r.Assumptions = append(r.Assumptions, "no integer overflow (products fit the Unsigned32 AVPs)", "rating and account servers reachable: the `err != nil { continue }` edges are not part of the equations", "one rating group per loop iteration; cells of other rating groups are untouched because every access uses the iteration's key")
	r.rule("C01.R1", "reserve step: reservation cell written only as R0 - cost x used and + granted; the reservation request asks for -(R0 - cost x used) + cost x requested with DIRECT_DEBITING/UPDATE", 3)
	r.rule("C01.R2", "debit step: refund R - p on p < R, debit p - R otherwise (TERMINATION); reservation cleared only after success", 4)
	r.rule("C01.R3", "account server applies exactly the stated amounts (shared with C07.R1/R2)", 6)
	r.rule("C01.R5", "accounting cells of the subscriber are written only by the listed writers; the balance only by the CCR handler", 4)
	r.rule("C01.R8", "every rating group is rated and debited under its own identifier and with numbers of full width: neither server narrows a look-up key taken from the request or a number parsed from the database (shared with C07.R7/C08.R6)", 4)
	r.rule("C01.R9", "the clients wait the specified 5 s for an answer: the account server moves the money before it answers, so an answer that arrives within 5 s must still be taken (a shorter wait abandons a debit that has happened - the reservation is never booked)", 2)
	r.rule("C01.R10", "a rating group is charged from its first report on and keeps its mode afterwards: FindRatingGroup tests membership in the subscriber's list of groups, element by element", 1)
	r.rule("C01.R11", "a subscriber's credit-control steps do not interleave: every exchange with the rating function and the account server is made with the subscriber's lock held (shared with C19.R10) - a step that reads the reservation, waits for a peer and writes it back unlocked wipes what another session of the subscriber booked meanwhile", 3)
	r.rule("C01.R13", "the answer to a subscriber's debit reaches that subscriber: answer channel, state machine and client are made per subscriber context and stay wired together (shared with C19.R9) - an answer delivered to another subscriber's channel leaves the account debited and the reservation not booked", 6)
	r.rule("C01.R14", "a request that is refused moves no credit: the unknown-subscriber / unknown-session edges return before credit control runs (shared with C12.R3)", 4)
	r.rule("C01.R12", "every SUPI format the CHF admits has a Subscription-Id type of its own in the credit-control requests (two formats with one type share an account and a tariff)", 1)
	r.rule("C01.R7", "the reserve step and the debit step of a rating group exclude each other within one request (the mode is not re-read after it may have been switched)", 1)
	r.rule("C01.R6", "account server stores the balance before it answers (shared with C07.R5)", 1)

	r.shareFrom(c, checkC19, map[string]string{"C19.R10": "C01.R11", "C19.R9": "C01.R13"})
	c01AdmittedSubscribersDistinct(c, r, "C01.R12")
	r.shareFrom(c, checkC12, map[string]string{"C12.R3": "C01.R14"})
	m := buildChfModel(c)
	m.checkModeExclusive(c, r, "C01.R7")
	f, fe := m.f, m.fe
	key := fnKey(f)
	DD := constOf(c, "ccs_diameter/datatype", "DIRECT_DEBITING")
	RF := constOf(c, "ccs_diameter/datatype", "REFUND_ACCOUNT")
	UPD := constOf(c, "ccs_diameter/datatype", "UPDATE_REQUEST")
	TERM := constOf(c, "ccs_diameter/datatype", "TERMINATION_REQUEST")

	// every key used for the accounting cells must be the iteration's rating group
	keys := map[ssa.Value]bool{}
	for _, u := range m.ca.updates {
		if ck, _ := ueCellOf(u.Map, u.Key); ck.field == "ReservedQuota" || ck.field == "UnitCost" {
			keys[u.Key] = true
		}
	}
	r.check(len(keys) == 1, "C01.R1", key+"|one-key", c.rel(f.Pos()), "all reservation/unit-cost cell accesses of an iteration use the same rating-group value", "the reservation / unit-cost cells are accessed under different keys in one iteration: the equations of one rating group would mix with another's")

	// ---- R1 / R2: every write of the reservation cell
	nres, ndeb := 0, 0
	for _, u := range m.ca.updates {
		ck, _ := ueCellOf(u.Map, u.Key)
		if ck.field != "ReservedQuota" {
			continue
		}
		form := fe.eval(u.Value)
		sig := m.signature(form)
		switch {
		case m.only(u.Block(), m.rsv):
			nres++
			k := fmt.Sprintf("%s|reserve-mode write #%d", key, nres)
			switch sig {
			case "+reserved -cost*used":
				r.proven("C01.R1", k, posOf(c, u), "R := R0 - cost x used")
			case "+granted +reserved -cost*used":
				// the granted atom must come from a call that dominates this write, made with the right request
				ok, why := m.checkReserveRequest(form, u, DD, UPD)
				r.check(ok, "C01.R1", k, posOf(c, u), "R := R0 - cost x used + granted, granted answering DIRECT_DEBITING/UPDATE for -(R0 - cost x used) + cost x requested", why)
			default:
				r.viol("C01.R1", k, posOf(c, u), "in reserve mode the reservation is written as "+form.String()+", which is neither R0 - cost x used nor that + granted: credit is created or destroyed (e.g. used quota subtracted twice, missing unit cost)")
			}
		case m.only(u.Block(), m.dbt):
			ndeb++
			k := fmt.Sprintf("%s|debit-mode write #%d", key, ndeb)
			k0, isC := form.isConst()
			ok := isC && k0 == 0
			why := "in debit mode the reservation must be cleared (0) after the final refund/debit, found " + form.String()
			if ok {
				// dominated by the success edge of a debit-mode account request
				ok = false
				why = "the reservation is cleared although the refund/debit request may have failed or was not sent"
				eachInstr(f, func(_ *ssa.BasicBlock, _ int, ins ssa.Instruction) {
					call, isCall := ins.(*ssa.Call)
					if !isCall || !isFunc(calleeObj(&call.Call), modPath+"/internal/abmf", "SendAccountDebitRequest") || !m.only(call.Block(), m.dbt) {
						return
					}
					if onSuccessEdge(call, u.Block()) {
						ok = true
					}
				})
			}
			r.check(ok, "C01.R2", k, posOf(c, u), "R := 0 after the successful final refund/debit", why)
		default:
			r.viol("C01.R1", fmt.Sprintf("%s|write outside the modes", key), posOf(c, u), "the reservation cell is written outside the reserve/debit branches of the rating-type switch: "+form.String())
		}
	}
	if nres < 2 {
		r.viol("C01.R1", key+"|reserve writes", c.rel(f.Pos()), fmt.Sprintf("expected the two reserve-mode writes of the reservation (usage, grant), found %d", nres))
	}

	// ---- R2: the debit-mode account requests
	var debitCalls []*ssa.Call
	eachInstr(f, func(_ *ssa.BasicBlock, _ int, ins ssa.Instruction) {
		if call, ok := ins.(*ssa.Call); ok && isFunc(calleeObj(&call.Call), modPath+"/internal/abmf", "SendAccountDebitRequest") && m.only(call.Block(), m.dbt) {
			debitCalls = append(debitCalls, call)
		}
	})
	if len(debitCalls) == 0 {
		r.viol("C01.R2", key+"|final request", c.rel(f.Pos()), "debit mode sends no refund/debit request to the account server")
	}
	for ci, call := range debitCalls {
		_, stores := m.reqObjectOf(call)
		// group the assignments of RequestedAction in debit-mode blocks
		var actionStores []ssa.Instruction
		nalt := 0
		for _, s := range stores {
			if s.path != "RequestedAction" || !m.only(s.at.Block(), m.dbt) {
				continue
			}
			actionStores = append(actionStores, s.at)
			nalt++
			act, _ := constInt(s.val)
			blk := s.at.Block()
			inBlock := func(path string) (flatStore, bool) {
				for _, t := range stores {
					if t.path == path && t.at.Block() == blk {
						return t, true
					}
				}
				return flatStore{}, false
			}
			k := fmt.Sprintf("%s|final request #%d alternative action=%d", key, ci+1, act)
			R := atomPoly("cell0:ReservedQuota")
			switch act {
			case RF:
				amt, ok := inBlock("MultipleServicesCreditControl.RequestedServiceUnit.CCTotalOctets")
				if !ok {
					r.viol("C01.R2", k, posOf(c, s.at), "REFUND_ACCOUNT without a Requested-Service-Unit amount")
					continue
				}
				av, ablk := correlatedPhi(amt.val, blk)
				sig := m.signature(fe.eval(av))
				p := m.priceOf(fe.eval(av))
				rel := relOnEdge(fe, p, R, nil, ablk)
				okAmt := sig == "+reserved -price"
				r.check(okAmt && rel["<"], "C01.R2", k, posOf(c, amt.at), "refund = R - price on the edge price < R",
					fmt.Sprintf("refund amount is %s (class %q) on an edge where price<R is %v: the unused reservation is not refunded exactly", fe.eval(amt.val), sig, rel["<"]))
			case DD:
				typ, okT := inBlock("CcRequestType")
				tv, _ := constInt(typ.val)
				amt, ok := inBlock("MultipleServicesCreditControl.UsedServiceUnit.CCTotalOctets")
				if !ok || !okT || tv != TERM {
					r.viol("C01.R2", k, posOf(c, s.at), "final DIRECT_DEBITING must be a TERMINATION_REQUEST carrying a Used-Service-Unit amount")
					continue
				}
				av, ablk := correlatedPhi(amt.val, blk)
				sig := m.signature(fe.eval(av))
				p := m.priceOf(fe.eval(av))
				rel := relOnEdge(fe, p, R, nil, ablk)
				r.check(sig == "+price -reserved" && rel[">="], "C01.R2", k, posOf(c, amt.at), "debit = price - R on the edge price >= R",
					fmt.Sprintf("debit amount is %s (class %q) on an edge where price>=R is %v: the excess usage is not debited exactly (branches swapped?)", fe.eval(amt.val), sig, rel[">="]))
			default:
				r.viol("C01.R2", k, posOf(c, s.at), fmt.Sprintf("unexpected Requested-Action %d in debit mode", act))
			}
		}
		r.check(nalt >= 2 && mustPassBefore(f, actionStores, call), "C01.R2", fmt.Sprintf("%s|final request #%d covered", key, ci+1), posOf(c, call), "every path to the request sets one of the checked alternatives", "a path reaches the final account request without setting one of the checked (action, amount) alternatives")
	}
	// the price is the rating of the used volume in debit sub-type
	m.checkDebitRating(r, key)

	// ---- R3 / R6: account server
	abmfRules(c, r, "C01.R3", "C01.R3", "", "", "C01.R6", "")
	for _, a := range [][2]string{{"internal/abmf", "SendAccountDebitRequest"}, {"internal/rating", "SendServiceUsageRequest"}} {
		cf := c.fn(a[0], a[1])
		n := 0
		eachInstr(cf, func(_ *ssa.BasicBlock, _ int, ins ssa.Instruction) {
			sel, ok := ins.(*ssa.Select)
			if !ok || !sel.Blocking {
				return
			}
			for _, st := range sel.States {
				chv := stripConv(st.Chan)
				// time.After(d), or the channel of a timer made with time.NewTimer(d)
				if ld, isLd := chv.(*ssa.UnOp); isLd && ld.Op == token.MUL {
					if fa, isFA := ld.X.(*ssa.FieldAddr); isFA && fieldName(fa) == "C" {
						t := fa.X
						for i := 0; i < 4; i++ {
							t = resolveLocalLoad(t)
						}
						chv = t
					}
				}
				call, ok := chv.(*ssa.Call)
				if !ok || len(call.Call.Args) != 1 {
					continue
				}
				if obj := calleeObj(&call.Call); obj == nil || obj.Pkg() == nil || obj.Pkg().Path() != "time" || (obj.Name() != "After" && obj.Name() != "NewTimer") {
					continue
				}
				n++
				d, isConst := constInt(call.Call.Args[0])
				r.check(isConst && d >= 5e9, "C01.R9", fnKey(cf)+"|time-out of the wait", posOf(c, ins), "the wait for the answer lasts the specified 5 s", fmt.Sprintf("the wait for the answer ends after %.3f s instead of the specified 5 s: a server that answers later than that - but well within 5 s - has already debited the account, and the CHF, taking the request for failed, never books the reservation: the money is gone", float64(d)/1e9))
			}
		})
		if n == 0 {
			r.proven("C01.R9", fnKey(cf)+"|time-out of the wait", c.rel(cf.Pos()), "the wait is not a select on a time.After / time.NewTimer constant: nothing to compare with the 5 s here (C19.R6 decides whether the wait is bounded)")
		}
	}
	checkFindRatingGroup(c, r, "C01.R10")
	abmfWidthRules(c, r, "C01.R8")
	rfWidthRules(c, r, "C01.R8")

	// ---- R5 who may write
	checkCellWriters(c, r, "C01.R5")
}

// priceOf extracts the price atom of a polynomial as a polynomial.
func (m *chfModel) priceOf(p poly) poly {
	for mono := range p {
		if isPriceAtom(mono) {
			return atomPoly(mono)
		}
	}
	return poly{"<no price>": 1}
}

// onSuccessEdge: block b is reached only through the edge on which the call's
// error result is nil.
func onSuccessEdge(call *ssa.Call, b *ssa.BasicBlock) bool {
	from, to := successEdge2(call)
	if to == nil {
		return false
	}
	return edgeDominates(from, to, b)
}

func successEdge2(call *ssa.Call) (*ssa.BasicBlock, *ssa.BasicBlock) {
	for _, ref := range *call.Referrers() {
		ex, ok := ref.(*ssa.Extract)
		if !ok {
			continue
		}
		if from, to := nilTestEdge(ex, 0); to != nil {
			return from, to
		}
	}
	return nil, nil
}

// nilTestEdge: the edge taken when v == nil, where v is tested directly or -
// when v is merged with other values into a result variable (`return f()` of an
// inlined helper) - through the merge: on the merge's nil edge every value that
// flowed into it was nil.
func nilTestEdge(v ssa.Value, depth int) (*ssa.BasicBlock, *ssa.BasicBlock) {
	if depth > 3 || v.Referrers() == nil {
		return nil, nil
	}
	for _, r2 := range *v.Referrers() {
		bo, ok := r2.(*ssa.BinOp)
		if !ok || (bo.Op != token.NEQ && bo.Op != token.EQL) || !(isNilConst(bo.X) || isNilConst(bo.Y)) {
			continue
		}
		for _, r3 := range *bo.Referrers() {
			if ifi, ok := r3.(*ssa.If); ok {
				if bo.Op == token.NEQ {
					return ifi.Block(), ifi.Block().Succs[1]
				}
				return ifi.Block(), ifi.Block().Succs[0]
			}
		}
	}
	for _, r2 := range *v.Referrers() {
		if ph, ok := r2.(*ssa.Phi); ok {
			if from, to := nilTestEdge(ph, depth+1); to != nil {
				return from, to
			}
		}
	}
	return nil, nil
}

// successEdgeOf: the block entered when the call's error result is nil.
func successEdgeOf(call *ssa.Call) *ssa.BasicBlock {
	_, to := successEdge2(call)
	return to
}

// checkReserveRequest: the granted atom in `form` belongs to a dominating
// account request with action/type and the stated amount.
func (m *chfModel) checkReserveRequest(form poly, u *ssa.MapUpdate, DD, UPD int64) (bool, string) {
	fe := m.fe
	var g string
	for mono := range form {
		if isGrantedAtom(mono) {
			g = mono
		}
	}
	gv := fe.atoms[g]
	ld, ok := gv.(*ssa.UnOp)
	if !ok {
		return false, "cannot locate the granted units of the answer"
	}
	p, ok := pathOf(ld)
	if !ok {
		return false, "cannot locate the granted units of the answer"
	}
	ex, ok := p.Root.(*ssa.Extract)
	if !ok {
		return false, "granted units do not come from an account-server answer"
	}
	call, ok := ex.Tuple.(*ssa.Call)
	if !ok {
		return false, "granted units do not come from an account-server answer"
	}
	if !onSuccessEdge(call, u.Block()) {
		return false, "the granted units are added although the reservation request may have failed"
	}
	_, stores := m.reqObjectOf(call)
	act, ok1 := lastStoreBefore(stores, "RequestedAction", call)
	typ, ok2 := lastStoreBefore(stores, "CcRequestType", call)
	amt, ok3 := lastStoreBefore(stores, "MultipleServicesCreditControl.RequestedServiceUnit.CCTotalOctets", call)
	if !ok1 || !ok2 || !ok3 {
		return false, "the reservation request does not set action, type and requested amount on the path to the call"
	}
	if a, _ := constInt(act.val); a != DD {
		return false, "the reservation request is not DIRECT_DEBITING"
	}
	if t, _ := constInt(typ.val); t != UPD {
		return false, "the reservation request is not an UPDATE_REQUEST"
	}
	sig := m.signature(fe.eval(amt.val))
	if sig != "+cost*requested +cost*used -reserved" {
		return false, "the amount asked from the account is " + fe.eval(amt.val).String() + " (class \"" + sig + "\"), not -(R0 - cost x used) + cost x requested: the reservation does not cover the deficit plus the new request"
	}
	return true, ""
}

// checkDebitRating: in debit mode the rating request carries the used volume
// and the DEBIT sub-type.
func (m *chfModel) checkDebitRating(r *Report, key string) {
	c, f, fe := m.c, m.f, m.fe
	n := 0
	eachInstr(f, func(_ *ssa.BasicBlock, _ int, ins ssa.Instruction) {
		call, ok := ins.(*ssa.Call)
		if !ok || !isFunc(calleeObj(&call.Call), modPath+"/internal/rating", "SendServiceUsageRequest") || !m.only(call.Block(), m.dbt) {
			return
		}
		n++
		_, stores := m.reqObjectOf(call)
		cu, ok1 := lastStoreBefore(stores, "ServiceRating.ConsumedUnits", call)
		st, ok2 := lastStoreBefore(stores, "ServiceRating.RequestSubType", call)
		good := ok1 && ok2
		why := "the debit-mode rating request does not set ConsumedUnits / RequestSubType"
		if good {
			form := fe.eval(cu.val)
			used := false
			for mono, cf := range form {
				if cf == 1 && len(form) == 1 && m.isUsedVolume(mono) {
					used = true
				}
			}
			sv, _ := constInt(st.val)
			if !used || sv != m.dbt {
				good = false
				why = "the price used at final debit is not the rating of exactly the used volume in DEBIT sub-type (ConsumedUnits = " + form.String() + ")"
			}
		}
		r.check(good, "C01.R2", fmt.Sprintf("%s|debit rating request #%d", key, n), posOf(c, call), "price = rating of the used volume (DEBIT sub-type)", why)
	})
	if n == 0 {
		r.viol("C01.R2", key+"|debit rating request", c.rel(f.Pos()), "debit mode does not rate the used volume")
	}
}

// checkCellWriters: who may write the accounting cells.
func checkCellWriters(c *Ctx, r *Report, rule string) {
	allowed := map[string]map[string]bool{
		"ReservedQuota":  {"internal/sbi/processor.sessionChargingReservation": true},
		"UnitCost":       {"internal/sbi/processor.sessionChargingReservation": true},
		"AcctRequestNum": {"internal/sbi/processor.sessionChargingReservation": true},
		"RatingType":     {"internal/sbi/processor.sessionChargingReservation": true, "(*internal/sbi/processor.Processor).NotifyRecharge": true},
	}
	found := map[string]int{}
	for _, f := range c.ModFuncs {
		root := rootOf(f)
		if root.Name() == "init" && root.Signature.Recv() != nil {
			continue // constructor
		}
		eachInstr(f, func(_ *ssa.BasicBlock, _ int, ins ssa.Instruction) {
			var field string
			switch x := ins.(type) {
			case *ssa.MapUpdate:
				n, ok := ueFieldOfValue(x.Map)
				if !ok {
					return
				}
				field = n
			case *ssa.Store:
				fa, ok := x.Addr.(*ssa.FieldAddr)
				if !ok || !typeIs(fa.X.Type(), ctxPath, "ChfUe") {
					return
				}
				field = fieldName(fa)
			case *ssa.Call:
				if b, ok := x.Call.Value.(*ssa.Builtin); ok && b.Name() == "delete" {
					n, ok := ueFieldOfValue(x.Call.Args[0])
					if !ok {
						return
					}
					field = n
				} else {
					return
				}
			default:
				return
			}
			al, tracked := allowed[field]
			if !tracked {
				return
			}
			found[field]++
			k := fmt.Sprintf("%s written in %s", field, shortFn(root))
			r.check(al[shortFn(root)], rule, k, posOf(c, ins), "listed writer", "the accounting cell "+field+" is written outside its listed writers: the transfer equations checked by R1/R2 no longer describe every change of the cell")
		})
	}
	checkPoolLifetime(c, r, rule, "the reservation it holds (ChfUe.ReservedQuota) is forgotten although the account server has already subtracted it - that credit is neither used nor refunded")
	// the balance document is written only by the CCR handler
	for _, f := range c.ModFuncs {
		eachInstr(f, func(_ *ssa.BasicBlock, _ int, ins ssa.Instruction) {
			call, ok := ins.(ssa.CallInstruction)
			if !ok {
				return
			}
			obj := calleeObj(call.Common())
			if obj == nil || obj.Pkg() == nil || obj.Pkg().Path() != mongoPath {
				return
			}
			n := obj.Name()
			if !(strings.HasPrefix(n, "RestfulAPIPut") || strings.HasPrefix(n, "RestfulAPIPost") || strings.HasPrefix(n, "RestfulAPIDelete") || strings.HasPrefix(n, "RestfulAPIMerge") || strings.HasPrefix(n, "RestfulAPIJSONPatch")) {
				return
			}
			root := rootOf(f)
			k := "database write in " + shortFn(root)
			isHandler := shortFn(root) == "pkg/abmf.handleCCR"
			for _, h := range returnedFuncs(c.fn("pkg/abmf", "handleCCR")) {
				if rootOf(h) == root {
					isHandler = true
					k = "database write in the CCR handler " + shortFn(root)
				}
			}
			r.check(isHandler, rule, k, posOf(c, ins), "the CCR handler", "the charging data collection is written outside the credit-control handler")
		})
	}
}

// checkPoolLifetime: the subscriber context - the only place the held
// reservation and the open session references are recorded - is never removed
// from the pool or replaced by a fresh one while the process serves requests.
func checkPoolLifetime(c *Ctx, r *Report, rule, consequence string) {
	reqReach, _ := c.reach(requestEntries(c))
	n := 0
	for _, f := range c.ModFuncs {
		eachInstr(f, func(_ *ssa.BasicBlock, _ int, ins ssa.Instruction) {
			call, ok := ins.(ssa.CallInstruction)
			if !ok {
				return
			}
			com := call.Common()
			obj := calleeObj(com)
			if obj == nil || obj.Pkg() == nil || obj.Pkg().Path() != "sync" || len(com.Args) == 0 {
				return
			}
			fa, ok := com.Args[0].(*ssa.FieldAddr)
			if !ok || !typeIs(fa.X.Type(), ctxPath, "CHFContext") || fieldName(fa) != "UePool" {
				return
			}
			switch obj.Name() {
			case "Delete", "LoadAndDelete", "CompareAndDelete", "Clear", "Swap", "CompareAndSwap", "Store":
			default:
				return
			}
			root := rootOf(f)
			n++
			k := fmt.Sprintf("subscriber pool %s in %s", obj.Name(), shortFn(root))
			r.check(!reqReach[f], rule, k, posOf(c, ins), "not reachable from a request entry point", "the subscriber context is removed from (or replaced in) the pool on the request path by "+obj.Name()+": "+consequence)
		})
	}
	if n == 0 {
		r.proven(rule, "subscriber pool|no removal", "", "no function of the module removes or replaces an entry of CHFContext.UePool")
	}
}

// ---------------------------------------------------------------------------

func checkC06(c *Ctx, r *Report) {
	r.Explanation = "Necessary conditions of 'no overdraft' decided symbolically on go/ssa: (R1) the Monetary-Quota the CHF sends for rating in reserve mode - from which AllowedUnits and hence the grant are computed - must depend on money actually held for the rating group (the reservation after the account server's grant), not only on the requested volume; (R2) the granted volume is min(AllowedUnits, requested volume) in reserve mode and the constant 0 in debit mode; (R3) the response's final-unit indication is set on, and only on, the edge where the account server's answer carried Final-Unit-Indication/TERMINATE; (R4) the account server never grants more than the balance (C07.R1)."
	r.Undecided = []string{"the balance trajectory over histories", "grants while an unexhausted reservation is smaller than the requested quota (covered by R1 only structurally)"}
	r.rule("C06.R1", "the monetary quota sent for rating depends on the money held (reservation / granted units), not only on the request", 1)
	r.rule("C06.R2", "granted volume = min(AllowedUnits, requested) in reserve mode, 0 in debit mode", 2)
	r.rule("C06.R3", "final-unit indication set exactly when the account server signalled TERMINATE", 1)
	r.rule("C06.R4", "account server grants min(request, balance) (shared with C07.R1)", 4)
	r.rule("C06.R7", "the money a grant is measured against is that of the request's own subscriber and rating group, in full width (shared with C07.R7/C08.R6)", 4)
	r.rule("C06.R8", "the CHF turns money into units with the unit cost the rating function applied (shared with C08.R3): a smaller decoded cost grants more units than the reserved money buys", 2)
	r.rule("C06.R9", "a rating group keeps the debit mode (and with it the final-unit state) it was put in: FindRatingGroup finds every group of the subscriber's list (shared with C01.R10)", 1)
	r.rule("C06.R10", "every response a create or an update returns was produced by the credit control of that request (no replayed grants), and a release succeeds only after the credit control of the usage it reports", 3)
	r.rule("C06.R11", "the final settlement clears the reservation it has settled, also when price and reservation are equal (shared with C01.R2): a consumed reservation left standing is refunded and granted from again", 4)
	r.rule("C06.R6", "the reservation, unit-cost and mode cells are changed only by the accounting transitions the other rules describe, and the context that holds them is not dropped on the request path (shared with C01.R5)", 4)
	r.rule("C06.R5", "the rating function converts reserved money into units by floor division: AllowedUnits = quota div unit cost, Price = units x unit cost (shared with C08.R2)", 2)

	m := buildChfModel(c)
	f, fe := m.f, m.fe
	key := fnKey(f)

	// ---- R1
	n := 0
	eachInstr(f, func(_ *ssa.BasicBlock, _ int, ins ssa.Instruction) {
		call, ok := ins.(*ssa.Call)
		if !ok || !isFunc(calleeObj(&call.Call), modPath+"/internal/rating", "SendServiceUsageRequest") || !m.only(call.Block(), m.rsv) {
			return
		}
		_, stores := m.reqObjectOf(call)
		mq, ok := lastStoreBefore(stores, "ServiceRating.MonetaryQuota", call)
		if !ok {
			return
		}
		n++
		form := fe.eval(mq.val)
		// the reservation held when the quota is computed: the cell value compared / assigned in its definitions
		var R poly
		for d := range depSet(f, mq.val) {
			if lk, ok := d.(*ssa.Lookup); ok {
				if ck, ok := ueCellOf(lk.X, lk.Index); ok && ck.field == "ReservedQuota" {
					R = fe.eval(lk)
				}
			}
		}
		bad := ""
		if R == nil {
			bad = "the Monetary-Quota sent for rating is " + form.String() + ": it depends only on the requested volume and the unit cost, not on the money reserved - with balance 50, request 100, cost 1 the account server grants 50 (final unit) and the CHF still grants 100 units"
		} else {
			for _, lf := range leavesOf(stripConv(mq.val)) {
				lform := fe.eval(lf.val)
				k0, isC := lform.isConst()
				switch {
				case c06BoundedByHeld(fe, lf.val, R, 0):
				case isC && k0 == 0:
				case polyEqual(lform, R):
				case relOnEdge(fe, lform, R, lf.from, lf.at)["<="]:
				default:
					bad = "on one path the Monetary-Quota is " + lform.String() + " although it may exceed the reservation held (" + R.String() + "): more units are allowed than the reserved money buys"
				}
			}
		}
		r.check(bad == "", "C06.R1", key+"|monetary-quota", posOf(c, mq.at), "every definition of the monetary quota is 0, the reservation held, or a value tested <= the reservation", bad)
	})
	if n == 0 {
		r.viol("C06.R1", key+"|monetary-quota", c.rel(f.Pos()), "no reserve-mode rating request with a Monetary-Quota found")
	}

	// ---- R2: GrantedUnit.TotalVolume
	ng := 0
	eachInstr(f, func(_ *ssa.BasicBlock, _ int, ins ssa.Instruction) {
		st, ok := ins.(*ssa.Store)
		if !ok {
			return
		}
		fa, ok := st.Addr.(*ssa.FieldAddr)
		if !ok || !typeIs(fa.X.Type(), modelsPath, "GrantedUnit") || fieldName(fa) != "TotalVolume" {
			return
		}
		ng++
		form := fe.eval(st.Val)
		switch {
		case m.only(st.Block(), m.rsv):
			okf := false
			for mono, cf := range form {
				if cf == 1 && len(form) == 1 && strings.HasPrefix(mono, "min(") {
					inner := strings.TrimSuffix(strings.TrimPrefix(mono, "min("), ")")
					parts := strings.SplitN(inner, ",", 2)
					if len(parts) == 2 {
						a, b := parts[0], parts[1]
						if (isAllowedAtom(a) && m.isRequestedVolume(b)) || (isAllowedAtom(b) && m.isRequestedVolume(a)) {
							okf = true
						}
					}
				}
			}
			r.check(okf, "C06.R2", key+"|granted reserve", posOf(c, st), "granted = min(AllowedUnits, requested volume)", "the granted volume is "+form.String()+", not min(AllowedUnits of the rating answer, requested volume)")
		case m.only(st.Block(), m.dbt):
			k0, isC := form.isConst()
			r.check(isC && k0 == 0, "C06.R2", key+"|granted debit", posOf(c, st), "debit mode grants 0", "debit mode grants "+form.String()+" units although nothing is reserved any more")
		default:
			r.viol("C06.R2", key+"|granted elsewhere", posOf(c, st), "a grant is made outside the reserve/debit branches")
		}
	})
	if ng < 2 {
		r.viol("C06.R2", key+"|grants", c.rel(f.Pos()), "expected a grant in reserve mode and a zero grant in debit mode")
	}

	// ---- R3 final unit indication
	_ = constOf(c, "ccs_diameter/datatype", "TERMINATE") // the anchor constant must exist
	var fuiLocal *ssa.Alloc
	eachInstr(f, func(_ *ssa.BasicBlock, _ int, ins ssa.Instruction) {
		if a, ok := ins.(*ssa.Alloc); ok && typeIs(a.Type(), modelsPath, "FinalUnitIndication") && a.Comment == "finalUnitIndication" {
			fuiLocal = a
		}
	})
	if fuiLocal == nil {
		// any alloc of that type whose address is stored in the unit information
		eachInstr(f, func(_ *ssa.BasicBlock, _ int, ins ssa.Instruction) {
			if st, ok := ins.(*ssa.Store); ok {
				if fa, ok := st.Addr.(*ssa.FieldAddr); ok && fieldName(fa) == "FinalUnitIndication" && typeIs(fa.X.Type(), modelsPath, "MultipleUnitInformation") {
					if a, ok := st.Val.(*ssa.Alloc); ok {
						fuiLocal = a
					}
				}
			}
		})
	}
	if fuiLocal == nil {
		r.viol("C06.R3", key+"|final-unit", c.rel(f.Pos()), "the response carries no final-unit indication member")
		return
	}
	nset := 0
	okAll := true
	why := ""
	for _, ref := range *fuiLocal.Referrers() {
		var st *ssa.Store
		switch x := ref.(type) {
		case *ssa.Store:
			if x.Addr == ssa.Value(fuiLocal) {
				st = x
			}
		case *ssa.FieldAddr:
			for _, r2 := range *x.Referrers() {
				if s2, ok := r2.(*ssa.Store); ok && s2.Addr == ssa.Value(x) {
					st = s2
				}
			}
		}
		if st == nil {
			continue
		}
		// zero-value initialisation at the top of the iteration is fine
		if cst, ok := st.Val.(*ssa.Const); ok && cst.Value == nil {
			continue
		}
		nset++
		// must be dominated by: answer.FinalUnitIndication != nil and FinalUnitAction == TERMINATE
		nonNil, isTerm := false, false
		for _, b := range f.Blocks {
			if len(b.Instrs) == 0 {
				continue
			}
			ifi, ok := b.Instrs[len(b.Instrs)-1].(*ssa.If)
			if !ok {
				continue
			}
			bo, ok := ifi.Cond.(*ssa.BinOp)
			if !ok {
				continue
			}
			x := bo.X
			if p, ok := pathOf(x); ok {
				ps := strings.Join(p.Elems, ".")
				_, fromCCA := p.Root.(*ssa.Extract)
				if fromCCA && strings.HasSuffix(ps, "MultipleServicesCreditControl.FinalUnitIndication") && bo.Op == token.NEQ && isNilConst(bo.Y) && edgeDominates(b, b.Succs[0], st.Block()) {
					nonNil = true
				}
				if fromCCA && strings.HasSuffix(ps, "FinalUnitIndication.FinalUnitAction") && bo.Op == token.EQL {
					// TERMINATE today; any action the CHF names explicitly is a signalled action (which
					// actions the account server can send, and that each is named here, is the next clause)
					if _, ok := constInt(bo.Y); ok && edgeDominates(b, b.Succs[0], st.Block()) {
						isTerm = true
					}
				}
			}
		}
		if !(nonNil && isTerm) {
			okAll = false
			why = "the final-unit indication of the response is set at " + posOf(c, st) + " without the account server having signalled Final-Unit-Indication/TERMINATE"
		}
	}
	if nset == 0 {
		okAll = false
		why = "the final-unit indication of the account server is never propagated to the response"
	}
	// the response holds the *address* of the indication: every rating group needs its own object
	for _, ref := range *fuiLocal.Referrers() {
		st, ok := ref.(*ssa.Store)
		if !ok || st.Val != ssa.Value(fuiLocal) {
			continue
		}
		avoid := map[*ssa.BasicBlock]bool{fuiLocal.Block(): true}
		if st.Block() != fuiLocal.Block() {
			for _, sc := range st.Block().Succs {
				if sc == st.Block() || reachableFrom(sc, nil, nil, avoid)[st.Block()] {
					okAll = false
					why = "the address of one indication object (declared at " + posOf(c, fuiLocal) + ", outside the loop over the rating groups) is put into the unit information of every rating group at " + posOf(c, st) + ": the indication written for one rating group is overwritten - or reset - by the iterations that follow, and the response loses the final-unit indication of a group that ran short"
				}
			}
		}
	}
	r.check(okAll, "C06.R3", key+"|final-unit", c.rel(f.Pos()), "set only on the edge FinalUnitIndication != nil && FinalUnitAction == TERMINATE of the account answer", why)
	// the two ends agree on the actions: every Final-Unit-Action the account server of this
	// repository can put into its answer is one the CHF turns into an indication of the response
	{
		handled := map[int64]bool{}
		for _, b := range f.Blocks {
			if len(b.Instrs) == 0 {
				continue
			}
			ifi, ok := b.Instrs[len(b.Instrs)-1].(*ssa.If)
			if !ok {
				continue
			}
			bo, ok := ifi.Cond.(*ssa.BinOp)
			if !ok || bo.Op != token.EQL {
				continue
			}
			p, ok := pathOf(bo.X)
			if !ok || !strings.HasSuffix(strings.Join(p.Elems, "."), "FinalUnitIndication.FinalUnitAction") {
				continue
			}
			k, ok := constInt(bo.Y)
			if !ok {
				continue
			}
			for _, ref := range *fuiLocal.Referrers() {
				var blk *ssa.BasicBlock
				switch x := ref.(type) {
				case *ssa.Store:
					if x.Addr == ssa.Value(fuiLocal) {
						blk = x.Block()
					}
				case *ssa.FieldAddr:
					for _, r2 := range *x.Referrers() {
						if s2, ok := r2.(*ssa.Store); ok && s2.Addr == ssa.Value(x) {
							blk = s2.Block()
						}
					}
				}
				if blk != nil && edgeDominates(b, b.Succs[0], blk) {
					handled[k] = true
				}
			}
		}
		nSent := 0
		for _, g := range c.ModFuncs {
			rg := rootOf(g)
			if rg.Pkg == nil || !strings.HasSuffix(rg.Pkg.Pkg.Path(), "/pkg/abmf") {
				continue
			}
			eachInstr(g, func(_ *ssa.BasicBlock, _ int, ins ssa.Instruction) {
				st, ok := ins.(*ssa.Store)
				if !ok {
					return
				}
				fa, ok := st.Addr.(*ssa.FieldAddr)
				if !ok || fieldName(fa) != "FinalUnitAction" {
					return
				}
				for _, lf := range leavesOf(st.Val) {
					nSent++
					k, isC := constInt(lf.val)
					sk := fmt.Sprintf("%s|final-unit action sent #%d", fnKey(rg), nSent)
					if !isC {
						r.viol("C06.R3", sk, posOf(c, st), "the account server puts a Final-Unit-Action into its answer that is not a constant ("+describe(lf.val)+"): cannot be matched against the actions the CHF translates")
						continue
					}
					r.check(handled[k], "C06.R3", sk, posOf(c, st), fmt.Sprintf("action %d is translated by the CHF into the indication of the response", k),
						fmt.Sprintf("the account server can answer with Final-Unit-Action %d, which the CHF does not translate (it handles %v): the units granted are the last ones the money buys, and the response carries no final-unit indication", k, keysOfInt64(handled)))
				}
			})
		}
	}

	// ---- R4
	abmfRules(c, r, "C06.R4", "C06.R4", "", "", "", "")
	r.shareFrom(c, checkC08, map[string]string{"C08.R3": "C06.R8"})
	c06GrantsComeFromCreditControl(c, r, "C06.R10")
	r.shareFrom(c, checkC01, map[string]string{"C01.R2": "C06.R11"})

	// ---- R5: the CHF trusts the rating function to turn money into units
	rfRules(c, r, "", "C06.R5", "", "", "C06.R5")
	checkFindRatingGroup(c, r, "C06.R9")
	rfWidthRules(c, r, "C06.R7")
	abmfWidthRules(c, r, "C06.R7")
	checkCellWriters(c, r, "C06.R6")
}

// c06BoundedByHeld: v is, for every value of its operands, 0 or at most the
// reservation held R - decided on the shape of builtin min / max expressions:
// max(R, 0) is R when money is held and 0 otherwise; min(x, y) of unsigned
// operands is at most y, so it inherits the property from either operand.
func c06BoundedByHeld(fe *formEval, v ssa.Value, R poly, depth int) bool {
	return c06Bounded(fe, v, R, depth, false)
}

// nonNeg: v is about to be converted from a signed to an unsigned type, so a
// negative reservation must not get through as it stands.
func c06Bounded(fe *formEval, v ssa.Value, R poly, depth int, nonNeg bool) bool {
	if depth > 6 {
		return false
	}
	switch x := v.(type) {
	case *ssa.Convert:
		signed := func(t types.Type) bool {
			b, ok := t.Underlying().(*types.Basic)
			return ok && b.Info()&types.IsInteger != 0 && b.Info()&types.IsUnsigned == 0
		}
		return c06Bounded(fe, x.X, R, depth+1, nonNeg || (signed(x.X.Type()) && !signed(x.Type())))
	case *ssa.ChangeType:
		return c06Bounded(fe, x.X, R, depth+1, nonNeg)
	case *ssa.Const:
		k, ok := constInt(x)
		return ok && k == 0
	case *ssa.Phi:
		// a variable assigned in branches: every incoming value qualifies; a bare
		// conversion of the reservation qualifies on an edge where it is known positive
		for i, e := range x.Edges {
			pred := x.Block().Preds[i]
			if c06Bounded(fe, e, R, depth+1, nonNeg) {
				continue
			}
			rel := relOnEdge(fe, R, poly{}, pred, x.Block())
			if rel[">"] || rel[">="] {
				if polyEqual(fe.eval(stripConv(e)), R) {
					continue
				}
			}
			return false
		}
		return len(x.Edges) > 0
	case *ssa.Call:
		if len(x.Call.Args) != 2 {
			return false
		}
		a0, a1 := x.Call.Args[0], x.Call.Args[1]
		name := ""
		if b, ok := x.Call.Value.(*ssa.Builtin); ok {
			name = b.Name()
		} else if sc := x.Call.StaticCallee(); sc != nil && isMinFunction(sc) {
			name = "min" // the module's own generic min
		}
		switch name {
		case "max":
			// max(R, 0) / max(0, R)
			isZero := func(v ssa.Value) bool { k, ok := constInt(v); return ok && k == 0 }
			isR := func(v ssa.Value) bool { return polyEqual(fe.eval(v), R) }
			return (isR(a0) && isZero(a1)) || (isZero(a0) && isR(a1))
		case "min":
			bt, ok := x.Type().Underlying().(*types.Basic)
			if !ok || bt.Info()&types.IsUnsigned == 0 {
				return false
			}
			return c06Bounded(fe, a0, R, depth+1, nonNeg) || c06Bounded(fe, a1, R, depth+1, nonNeg)
		}
	default:
		return !nonNeg && polyEqual(fe.eval(v), R)
	}
	return false
}

func keysOfInt64(m map[int64]bool) []int64 {
	var out []int64
	for k := range m {
		out = append(out, k)
	}
	sort.Slice(out, func(i, j int) bool { return out[i] < out[j] })
	return out
}

// correlatedPhi: a helper that returns (flag, amount) leaves, once inlined, two merge nodes in
// one block - the flag and the amount - and the caller branches on the flag.  On an edge of that
// branch only the predecessors of the merge block that supplied this value of the flag are
// possible; when they all supply the same amount, that is the amount on the edge, and the
// relations that held where it was computed hold for it.  Returns v and blk unchanged when the
// pattern does not apply.
func correlatedPhi(v ssa.Value, blk *ssa.BasicBlock) (ssa.Value, *ssa.BasicBlock) {
	v0 := v
	for {
		if cv, ok := v.(*ssa.Convert); ok {
			v = cv.X
			continue
		}
		break
	}
	ph, ok := v.(*ssa.Phi)
	if !ok {
		return v0, blk
	}
	B := ph.Block()
	f := B.Parent()
	for _, d := range f.Blocks {
		if len(d.Instrs) == 0 || len(d.Succs) != 2 || d.Succs[0] == d.Succs[1] {
			continue
		}
		ifi, ok := d.Instrs[len(d.Instrs)-1].(*ssa.If)
		if !ok {
			continue
		}
		cp, ok := ifi.Cond.(*ssa.Phi)
		if !ok || cp.Block() != B {
			continue
		}
		for side := 0; side < 2; side++ {
			if !edgeDominates(d, d.Succs[side], blk) {
				continue
			}
			var val ssa.Value
			var from *ssa.BasicBlock
			okAll := true
			for i, e := range cp.Edges {
				k, isC := e.(*ssa.Const)
				if !isC || k.Value == nil || k.Value.Kind() != constant.Bool {
					okAll = false
					break
				}
				if constant.BoolVal(k.Value) != (side == 0) {
					continue
				}
				if val != nil && val != ph.Edges[i] {
					okAll = false
					break
				}
				val, from = ph.Edges[i], B.Preds[i]
			}
			if okAll && val != nil {
				return val, from
			}
		}
	}
	return v0, blk
}
