// chfcheck: repository-specific static analyser for free5gc/chf.
//
// Every verdict is computed from the type-checked source of the repository
// under -repo (default /repo): go/types information, go/ssa form, the call
// graph, struct tags and constant values.  Nothing is executed.
package main

import (
	"encoding/json"
	"flag"
	"fmt"
	"go/token"
	"go/types"
	"os"
	"path/filepath"
	"reflect"
	"sort"
	"strings"
	"time"

	"golang.org/x/tools/go/packages"
	"golang.org/x/tools/go/ssa"
	"golang.org/x/tools/go/ssa/ssautil"
)

const modPath = "github.com/free5gc/chf"

// ---------------------------------------------------------------------------
// statuses

const (
	stProven   = "PROVEN"
	stReviewed = "REVIEWED"
	stKnown    = "KNOWN-FINDING"
	stViol     = "VIOLATION"
	stInfo     = "INFO"
)

// Ob is one obligation: a (rule, construct) pair with its verdict.
type Ob struct {
	Rule   string `json:"rule"`
	Key    string `json:"key"`
	Pos    string `json:"pos,omitempty"`
	Status string `json:"status"`
	Detail string `json:"detail,omitempty"`
}

// Report collects the obligations of one property.
type Report struct {
	Prop        string
	Obs         []Ob
	Counters    map[string]int
	Assumptions []string
	Trusted     []string
	Explanation string
	Undecided   []string
	Exhaustive  bool
	blocked     map[string]string
	// minimum number of obligations per rule (vacuity guard)
	Min map[string]int
	// rule descriptions
	Rules    map[string]string
	Controls map[string]any
	seen     map[string]bool
}

func newReport(prop string) *Report {
	return &Report{Prop: prop, Counters: map[string]int{}, Min: map[string]int{}, Rules: map[string]string{}, seen: map[string]bool{}}
}

func (r *Report) rule(id, desc string, min int) {
	r.Rules[id] = desc
	r.Min[id] = min
}

// blockedBy records that the listed rules were not evaluated because the
// prerequisite they rely on is itself reported as a violation in this run; the
// vacuity guard then does not add a second, derived report for them.
func (r *Report) blockedBy(why string, rules ...string) {
	if r.blocked == nil {
		r.blocked = map[string]string{}
	}
	for _, id := range rules {
		if id != "" {
			r.blocked[id] = why
		}
	}
}

func (r *Report) add(rule, key, pos, status, detail string) {
	if rule == "" {
		return
	}
	full := rule + "|" + key
	if r.seen[full+"|"+status] {
		return
	}
	r.seen[full+"|"+status] = true
	r.Obs = append(r.Obs, Ob{Rule: rule, Key: full, Pos: pos, Status: status, Detail: detail})
}

func (r *Report) proven(rule, key, pos, detail string) { r.add(rule, key, pos, stProven, detail) }
func (r *Report) viol(rule, key, pos, detail string)   { r.add(rule, key, pos, stViol, detail) }
func (r *Report) info(rule, key, pos, detail string)   { r.add(rule, key, pos, stInfo, detail) }
func (r *Report) count(name string, n int)             { r.Counters[name] += n }

var sharing = map[uintptr]bool{}

// shareFrom runs another property's rules and takes over the obligations of the rules
// named in mapping (their id -> the id they carry here): a clause that two properties
// depend on is decided once and reported under both.
func (r *Report) shareFrom(c *Ctx, check func(*Ctx, *Report), mapping map[string]string) {
	// properties may depend on each other's clauses in both directions (C02 <-> C10): a check
	// that is already running further up is not entered again - its own rules do not need the
	// clauses it would import from the one that is asking
	id := reflect.ValueOf(check).Pointer()
	if sharing[id] {
		return
	}
	sharing[id] = true
	defer func() { sharing[id] = false }()
	sub := newReport("shared")
	check(c, sub)
	for _, ob := range sub.Obs {
		if id, ok := mapping[ob.Rule]; ok {
			r.add(id, strings.TrimPrefix(ob.Key, ob.Rule+"|"), ob.Pos, ob.Status, ob.Detail)
		}
	}
}

// check adds a PROVEN or VIOLATION obligation depending on ok.
func (r *Report) check(ok bool, rule, key, pos, okDetail, badDetail string) bool {
	if ok {
		r.proven(rule, key, pos, okDetail)
	} else {
		r.viol(rule, key, pos, badDetail)
	}
	return ok
}

// ---------------------------------------------------------------------------
// context

type Ctx struct {
	RepoDir string
	Tier    string
	Fset    *token.FileSet
	All     []*packages.Package
	Mod     []*packages.Package
	ByPath  map[string]*packages.Package
	Prog    *ssa.Program
	SSA     map[string]*ssa.Package
	// all functions with bodies that belong to the module (incl. closures, instances)
	ModFuncs   []*ssa.Function
	Notes      []string // what the normalisation pre-pass did
	Normalised bool
	cg         *cgraph
	loadS      float64
}

type checkerBroken struct{ msg string }

func broken(format string, a ...any) {
	panic(checkerBroken{fmt.Sprintf(format, a...)})
}

func (c *Ctx) rel(p token.Pos) string {
	if !p.IsValid() {
		return ""
	}
	pos := c.Fset.Position(p)
	f := pos.Filename
	if rel, err := filepath.Rel(c.RepoDir, f); err == nil && !strings.HasPrefix(rel, "..") {
		f = rel
	}
	return fmt.Sprintf("%s:%d", f, pos.Line)
}

func load(repo string, tests bool) *Ctx {
	t0 := time.Now()
	c := &Ctx{RepoDir: repo, Fset: token.NewFileSet(), ByPath: map[string]*packages.Package{}, SSA: map[string]*ssa.Package{}}
	env := []string{}
	for _, e := range os.Environ() {
		if strings.HasPrefix(e, "GOFLAGS=") || strings.HasPrefix(e, "GOWORK=") || strings.HasPrefix(e, "GOPROXY=") || strings.HasPrefix(e, "GOSUMDB=") || strings.HasPrefix(e, "GOTOOLCHAIN=") {
			continue
		}
		env = append(env, e)
	}
	env = append(env, "GOFLAGS=-mod=mod", "GOWORK=off", "GOPROXY=off", "GOSUMDB=off", "GOTOOLCHAIN=local")
	cfg := &packages.Config{
		Mode:  packages.LoadAllSyntax,
		Dir:   repo,
		Fset:  c.Fset,
		Env:   env,
		Tests: tests,
	}
	pkgs, err := packages.Load(cfg, "./...")
	if err != nil {
		broken("load: %v", err)
	}
	if len(pkgs) == 0 {
		broken("load: zero packages under %s", repo)
	}
	// normalisation: inline helpers the rules do not know (see inline.go)
	if os.Getenv("CHFCHECK_NOINLINE") == "" {
		known := baselineFuncs()
		var overlay map[string][]byte
		curPkgs, curFset := pkgs, c.Fset
		for pass := 0; pass < 6; pass++ {
			var mod []*packages.Package
			okTypes := true
			packages.Visit(curPkgs, nil, func(p *packages.Package) {
				if strings.HasPrefix(p.PkgPath, modPath) {
					mod = append(mod, p)
					if len(p.Errors) > 0 || p.TypesInfo == nil {
						okTypes = false
					}
				}
			})
			if !okTypes {
				break
			}
			sort.Slice(mod, func(i, j int) bool { return mod[i].ID < mod[j].ID })
			next := normalise(mod, curFset, known, overlay, func(m string) { c.Notes = append(c.Notes, m) })
			if next == nil {
				break
			}
			fs := token.NewFileSet()
			cfg2 := &packages.Config{Mode: packages.LoadAllSyntax, Dir: repo, Fset: fs, Env: env, Tests: tests, Overlay: next}
			p2, err2 := packages.Load(cfg2, "./...")
			bad := err2 != nil || len(p2) == 0
			if !bad {
				packages.Visit(p2, nil, func(p *packages.Package) {
					if strings.HasPrefix(p.PkgPath, modPath) && len(p.Errors) > 0 {
						bad = true
						c.Notes = append(c.Notes, fmt.Sprintf("normalised program does not type-check (%v): analysing the program as written", p.Errors[0]))
					}
				})
			}
			if bad {
				if d := os.Getenv("CHFCHECK_DUMP_OVERLAY"); d != "" {
					for name, b := range next {
						_ = os.WriteFile(filepath.Join(d, strings.ReplaceAll(strings.TrimPrefix(name, repo+"/"), "/", "__")+".failed"), b, 0o644)
					}
				}
				break
			}
			overlay, curPkgs, curFset = next, p2, fs
		}
		if d := os.Getenv("CHFCHECK_DUMP_OVERLAY"); d != "" {
			for name, b := range overlay {
				_ = os.WriteFile(filepath.Join(d, strings.ReplaceAll(strings.TrimPrefix(name, repo+"/"), "/", "__")), b, 0o644)
			}
		}
		if overlay != nil {
			pkgs, c.Fset = curPkgs, curFset
			c.Normalised = true
		}
	}
	packages.Visit(pkgs, nil, func(p *packages.Package) {
		c.All = append(c.All, p)
		if _, ok := c.ByPath[p.PkgPath]; !ok || p.ID == p.PkgPath {
			c.ByPath[p.PkgPath] = p
		}
	})
	for _, p := range pkgs {
		if len(p.Errors) > 0 {
			broken("package %s has errors: %v", p.PkgPath, p.Errors[0])
		}
		if p.Types == nil || p.TypesInfo == nil {
			broken("package %s not type-checked", p.PkgPath)
		}
		if strings.HasPrefix(p.PkgPath, modPath) {
			c.Mod = append(c.Mod, p)
		}
	}
	if len(c.Mod) < 15 {
		broken("only %d module packages loaded (expected >= 15)", len(c.Mod))
	}
	sort.Slice(c.Mod, func(i, j int) bool { return c.Mod[i].ID < c.Mod[j].ID })
	prog, _ := ssautil.AllPackages(pkgs, ssa.InstantiateGenerics)
	c.Prog = prog
	for _, p := range c.Mod {
		sp := prog.Package(p.Types)
		if sp == nil {
			broken("no SSA package for %s", p.PkgPath)
		}
		sp.Build()
		if _, ok := c.SSA[p.PkgPath]; !ok || p.ID == p.PkgPath {
			c.SSA[p.PkgPath] = sp
		}
	}
	// Collect module functions (members, methods, anonymous functions, generic instances).
	seen := map[*ssa.Function]bool{}
	var addFn func(f *ssa.Function)
	addFn = func(f *ssa.Function) {
		if f == nil || seen[f] {
			return
		}
		seen[f] = true
		if f.Blocks != nil {
			c.ModFuncs = append(c.ModFuncs, f)
		}
		for _, a := range f.AnonFuncs {
			addFn(a)
		}
	}
	for _, p := range c.Mod {
		sp := prog.Package(p.Types)
		for _, m := range sp.Members {
			switch m := m.(type) {
			case *ssa.Function:
				addFn(m)
			case *ssa.Type:
				for _, t := range []types.Type{m.Type(), types.NewPointer(m.Type())} {
					ms := prog.MethodSets.MethodSet(t)
					for i := 0; i < ms.Len(); i++ {
						fn := prog.MethodValue(ms.At(i))
						if fn != nil && fn.Pkg == sp {
							addFn(fn)
						}
					}
				}
			}
		}
	}
	// generic instances called from module code
	for i := 0; i < len(c.ModFuncs); i++ {
		f := c.ModFuncs[i]
		for _, b := range f.Blocks {
			for _, ins := range b.Instrs {
				if call, ok := ins.(ssa.CallInstruction); ok {
					if callee := call.Common().StaticCallee(); callee != nil && callee.Origin() != nil && callee.Blocks != nil {
						if callee.Origin().Pkg != nil && strings.HasPrefix(callee.Origin().Pkg.Pkg.Path(), modPath) {
							addFn(callee)
						}
					}
				}
			}
		}
	}
	sort.Slice(c.ModFuncs, func(i, j int) bool { return c.ModFuncs[i].String() < c.ModFuncs[j].String() })
	c.loadS = time.Since(t0).Seconds()
	return c
}

// pkg returns the type-checked package with the given module-relative path.
func (c *Ctx) pkg(rel string) *packages.Package {
	path := modPath
	if rel != "" {
		path += "/" + rel
	}
	p := c.ByPath[path]
	if p == nil {
		broken("anchor: package %s not found", path)
	}
	return p
}

func (c *Ctx) ext(path string) *packages.Package {
	p := c.ByPath[path]
	if p == nil {
		broken("anchor: package %s not found", path)
	}
	return p
}

// fn resolves a function or method: fn("internal/sbi/processor", "Processor.ChargingDataUpdate")
// or fn("internal/abmf", "SendAccountDebitRequest").
func (c *Ctx) fn(rel, name string) *ssa.Function {
	f := c.fnOpt(rel, name)
	if f == nil {
		broken("anchor: function %s.%s not found", rel, name)
	}
	return f
}

func (c *Ctx) fnOpt(rel, name string) *ssa.Function {
	p := c.ByPath[modPath+"/"+rel]
	if p == nil {
		return nil
	}
	sp := c.Prog.Package(p.Types)
	if i := strings.Index(name, "."); i >= 0 {
		tn, mn := name[:i], name[i+1:]
		obj := p.Types.Scope().Lookup(tn)
		if obj == nil {
			return nil
		}
		for _, t := range []types.Type{obj.Type(), types.NewPointer(obj.Type())} {
			sel := c.Prog.MethodSets.MethodSet(t).Lookup(p.Types, mn)
			if sel != nil {
				if f := c.Prog.MethodValue(sel); f != nil && f.Blocks != nil {
					// prefer the declared method, not a wrapper
					if f.Synthetic == "" {
						return f
					}
				}
			}
		}
		// second pass accepting wrappers' targets
		for _, t := range []types.Type{types.NewPointer(obj.Type()), obj.Type()} {
			sel := c.Prog.MethodSets.MethodSet(t).Lookup(p.Types, mn)
			if sel != nil {
				if fo, ok := sel.Obj().(*types.Func); ok {
					if f := c.Prog.FuncValue(fo); f != nil {
						return f
					}
				}
			}
		}
		return nil
	}
	return sp.Func(name)
}

// namedType resolves a named type of a module package.
func (c *Ctx) namedType(rel, name string) *types.Named {
	p := c.pkg(rel)
	obj := p.Types.Scope().Lookup(name)
	if obj == nil {
		broken("anchor: type %s.%s not found", rel, name)
	}
	n, ok := obj.Type().(*types.Named)
	if !ok {
		broken("anchor: %s.%s is not a named type", rel, name)
	}
	return n
}

func (c *Ctx) extObj(path, name string) types.Object {
	p := c.ext(path)
	obj := p.Types.Scope().Lookup(name)
	if obj == nil {
		broken("anchor: %s.%s not found", path, name)
	}
	return obj
}

// field returns the *types.Var of a struct field of a named type.
func fieldOf(n *types.Named, name string) *types.Var {
	st, ok := n.Underlying().(*types.Struct)
	if !ok {
		broken("anchor: %s is not a struct", n)
	}
	for i := 0; i < st.NumFields(); i++ {
		if st.Field(i).Name() == name {
			return st.Field(i)
		}
	}
	broken("anchor: field %s.%s not found", n, name)
	return nil
}

// ---------------------------------------------------------------------------
// known findings / reviewed

type knownFinding struct {
	Property string `json:"property"`
	Key      string `json:"key"`
	What     string `json:"what"`
}
type fixedEntry struct {
	Property string `json:"property"`
	Commit   string `json:"commit"`
	What     string `json:"what"`
}
type knownFile struct {
	Findings []knownFinding `json:"findings"`
	Fixed    []fixedEntry   `json:"fixed"`
}
type reviewedEntry struct {
	Key       string `json:"key"`
	Signature string `json:"signature"`
	Reason    string `json:"reason"`
}

func verifDir() string {
	if d := os.Getenv("CHFCHECK_VERIF"); d != "" {
		return d
	}
	exe, err := os.Executable()
	if err == nil {
		d := filepath.Dir(filepath.Dir(exe))
		if _, err := os.Stat(filepath.Join(d, "properties.jsonl")); err == nil {
			return d
		}
	}
	return "/verif"
}

func loadKnown() knownFile {
	var k knownFile
	b, err := os.ReadFile(filepath.Join(verifDir(), "known_findings.json"))
	if err != nil {
		return k
	}
	if err := json.Unmarshal(b, &k); err != nil {
		broken("known_findings.json: %v", err)
	}
	return k
}

func loadReviewed() map[string]reviewedEntry {
	m := map[string]reviewedEntry{}
	b, err := os.ReadFile(filepath.Join(verifDir(), "reviewed.json"))
	if err != nil {
		return m
	}
	var l []reviewedEntry
	if err := json.Unmarshal(b, &l); err != nil {
		broken("reviewed.json: %v", err)
	}
	for _, e := range l {
		m[e.Key] = e
	}
	return m
}

// ---------------------------------------------------------------------------
// property registry

type propDef struct {
	ID    string
	Level string
	Run   func(c *Ctx, r *Report)
}

var registry = map[string]*propDef{}

func register(id, level string, run func(c *Ctx, r *Report)) {
	registry[id] = &propDef{ID: id, Level: level, Run: run}
}

// ---------------------------------------------------------------------------
// main

type evidence struct {
	PropertyID  string         `json:"property_id"`
	Tier        string         `json:"tier"`
	Seed        int            `json:"seed"`
	Level       string         `json:"level"`
	Coverage    map[string]any `json:"coverage"`
	Assumptions []string       `json:"assumptions"`
	WallS       float64        `json:"wall_s"`
	Violations  int            `json:"violations"`
}

func main() {
	prop := flag.String("property", "", "property id (C01..C20) or 'all'")
	tier := flag.String("tier", "quick", "quick|thorough")
	repo := flag.String("repo", "/repo", "repository root to analyse")
	evdir := flag.String("evidence-dir", "", "where to write evidence (default <verif>/evidence; 'none' to skip)")
	explain := flag.String("explain", "", "replay file: re-run the property of that file and print every obligation")
	verbose := flag.Bool("v", false, "print every obligation")
	listRules := flag.Bool("rules", false, "print one line per obligation 'STATUS rule|key' (used by the control runner)")
	inventory := flag.Bool("inventory", false, "print the inventory of module functions (baseline_funcs.txt) and exit")
	flag.Parse()
	if *inventory {
		os.Setenv("CHFCHECK_NOINLINE", "1")
		abs, _ := filepath.Abs(*repo)
		writeInventory(load(abs, false))
		return
	}
	if *explain != "" {
		b, err := os.ReadFile(*explain)
		if err != nil {
			fmt.Fprintln(os.Stderr, err)
			os.Exit(2)
		}
		var rp struct {
			Property string `json:"property"`
		}
		_ = json.Unmarshal(b, &rp)
		if rp.Property != "" {
			*prop = rp.Property
		}
		*verbose = true
	}
	if t := os.Getenv("VERIF_TIER"); t != "" && *tier == "" {
		*tier = t
	}
	if *prop == "" {
		fmt.Fprintln(os.Stderr, "usage: chfcheck -property Cnn [-tier quick|thorough] [-repo dir]")
		os.Exit(2)
	}
	var ids []string
	if *prop == "all" {
		for id := range registry {
			ids = append(ids, id)
		}
		sort.Strings(ids)
	} else {
		for _, id := range strings.Split(*prop, ",") {
			if registry[id] == nil {
				fmt.Fprintf(os.Stderr, "unknown property %s\n", id)
				os.Exit(2)
			}
			ids = append(ids, id)
		}
	}
	abs, err := filepath.Abs(*repo)
	if err != nil {
		fmt.Fprintln(os.Stderr, err)
		os.Exit(2)
	}
	code := 0
	var c *Ctx
	func() {
		defer func() {
			if p := recover(); p != nil {
				if cb, ok := p.(checkerBroken); ok {
					fmt.Printf("CHECKER-BROKEN: %s\n", cb.msg)
					code = 2
					return
				}
				panic(p)
			}
		}()
		c = load(abs, false)
		c.Tier = *tier
		for _, n := range c.Notes {
			fmt.Println("note: " + n)
		}
	}()
	if code != 0 {
		os.Exit(code)
	}
	known := loadKnown()
	reviewed := loadReviewed()
	for _, id := range ids {
		rc := runProperty(c, registry[id], known, reviewed, *tier, *evdir, *verbose, *listRules)
		if rc > code {
			code = rc
		}
	}
	os.Exit(code)
}

func runProperty(c *Ctx, pd *propDef, known knownFile, reviewed map[string]reviewedEntry, tier, evdir string, verbose, listRules bool) (code int) {
	t0 := time.Now()
	r := newReport(pd.ID)
	func() {
		defer func() {
			if p := recover(); p != nil {
				if cb, ok := p.(checkerBroken); ok {
					fmt.Printf("CHECKER-BROKEN: property=%s %s\n", pd.ID, cb.msg)
					code = 2
					return
				}
				panic(p)
			}
		}()
		pd.Run(c, r)
	}()
	if code != 0 {
		return code
	}
	// vacuity guard
	perRule := map[string]map[string]int{}
	for _, o := range r.Obs {
		if perRule[o.Rule] == nil {
			perRule[o.Rule] = map[string]int{}
		}
		perRule[o.Rule][o.Status]++
		perRule[o.Rule]["total"]++
	}
	anyViol := false
	for _, o := range r.Obs {
		if o.Status == stViol {
			anyViol = true
		}
	}
	for rule, min := range r.Min {
		if perRule[rule] == nil {
			perRule[rule] = map[string]int{}
		}
		n := perRule[rule]["total"] - perRule[rule][stInfo]
		if _, b := r.blocked[rule]; b && anyViol {
			continue
		}
		// A rule that matches nothing would pass vacuously: that fails the check.  Rules that
		// enumerate a table (schema types, struct tags, dictionary entries: minimum >= 20) must
		// also keep the reviewed count; for the others the number of constructs depends on how
		// the code is cut (merged loops, shared helpers), so a smaller non-zero count is
		// recorded in the evidence but is not a failure.
		if n == 0 && min > 0 || (min >= 20 && n < min) {
			r.viol(rule, "vacuity", "", fmt.Sprintf("rule matched %d constructs, the reviewed minimum is %d: the code the rule is anchored in has changed shape and the rule would pass vacuously", n, min))
			perRule[rule][stViol]++
			perRule[rule]["total"]++
		} else if n < min {
			r.info(rule, "instances", "", fmt.Sprintf("rule matched %d constructs, %d on the reviewed tree (the code is cut differently; every construct found was decided)", n, min))
		}
	}
	// apply known findings and reviewed entries
	kn := map[string]knownFinding{}
	for _, k := range known.Findings {
		if k.Property == pd.ID {
			kn[k.Key] = k
		}
	}
	usedKnown := map[string]bool{}
	nViol, nProven, nReviewed, nKnown := 0, 0, 0, 0
	for i := range r.Obs {
		o := &r.Obs[i]
		if o.Status == stViol {
			if k, ok := kn[o.Key]; ok {
				o.Status = stKnown
				usedKnown[o.Key] = true
				if o.Detail == "" {
					o.Detail = k.What
				}
			} else if rv, ok := reviewed[o.Key]; ok && strings.Contains(o.Detail, "sig="+rv.Signature) {
				o.Status = stReviewed
				o.Detail += " | reviewed: " + rv.Reason
			}
		}
		switch o.Status {
		case stViol:
			nViol++
		case stProven:
			nProven++
		case stReviewed:
			nReviewed++
		case stKnown:
			nKnown++
		}
	}
	sort.SliceStable(r.Obs, func(i, j int) bool {
		if r.Obs[i].Rule != r.Obs[j].Rule {
			return r.Obs[i].Rule < r.Obs[j].Rule
		}
		return r.Obs[i].Key < r.Obs[j].Key
	})
	wall := time.Since(t0).Seconds() + c.loadS
	// output
	for _, o := range r.Obs {
		switch {
		case listRules:
			fmt.Printf("OB %s %s\n", o.Status, o.Key)
		case o.Status == stKnown:
			fmt.Printf("KNOWN-FINDING: property=%s %s %s (%s)\n", pd.ID, o.Key, o.Detail, o.Pos)
		case o.Status == stViol:
			fmt.Printf("  violation %s at %s: %s\n", o.Key, o.Pos, o.Detail)
		case verbose:
			fmt.Printf("  %-13s %s at %s: %s\n", o.Status, o.Key, o.Pos, o.Detail)
		}
	}
	if listRules {
		for _, o := range r.Obs {
			if o.Status == stKnown {
				fmt.Printf("KNOWN-FINDING: property=%s %s %s (%s)\n", pd.ID, o.Key, o.Detail, o.Pos)
			}
		}
	}
	for k := range kn {
		if !usedKnown[k] {
			fmt.Printf("note: known finding %s no longer reported by the rule (repaired or construct renamed)\n", k)
		}
	}
	obligations := nViol + nProven + nReviewed + nKnown
	fmt.Printf("property=%s tier=%s obligations=%d proven=%d reviewed=%d known=%d violations=%d wall=%.1fs\n",
		pd.ID, tier, obligations, nProven, nReviewed, nKnown, nViol, wall)

	vd := verifDir()
	if evdir == "" {
		evdir = filepath.Join(vd, "evidence")
	}
	controlsBroken := false
	if tier == "thorough" && !listRules && nViol > 0 {
		// the controls are variants *of a tree on which the property holds*: on a tree that
		// already violates it they say nothing (every silent control would "alarm")
		r.Controls = map[string]any{"total": 0, "note": "controls not evaluated: the analysed tree itself violates the property; they are variants of a tree on which it holds"}
		fmt.Printf("controls: not evaluated (the analysed tree violates the property)\n")
	} else if tier == "thorough" && !listRules {
		rs, ok := runControls(c, pd.ID)
		r.Controls = summariseControls(rs)
		for _, cr := range rs {
			if cr.Outcome == "MISSED" || cr.Outcome == "FALSE-ALARM" || cr.Outcome == "error" {
				fmt.Printf("CONTROL %s %s/%s expect=%s %s\n", cr.Outcome, pd.ID, cr.Name, cr.Expect, cr.Detail)
			} else if verbose {
				fmt.Printf("control %s %s/%s %s\n", cr.Outcome, pd.ID, cr.Name, cr.Detail)
			}
		}
		cnt := r.Controls["by_outcome"].(map[string]int)
		fmt.Printf("controls: total=%d fired=%d silent-as-expected=%d skipped=%d missed=%d false-alarm=%d error=%d\n", len(rs), cnt["fired"], cnt["silent-as-expected"], cnt["skipped"], cnt["MISSED"], cnt["FALSE-ALARM"], cnt["error"])
		controlsBroken = !ok
		wall = time.Since(t0).Seconds() + c.loadS
	}
	if evdir != "none" {
		writeEvidence(c, pd, r, perRule, tier, evdir, wall, obligations, nProven, nReviewed, nKnown, nViol)
	}
	if controlsBroken && nViol == 0 {
		fmt.Printf("CHECKER-BROKEN: property=%s a positive/negative control did not behave as recorded\n", pd.ID)
		return 2
	}
	if nViol > 0 {
		replay := filepath.Join(evdir, "replay", pd.ID+".json")
		if evdir != "none" {
			_ = os.MkdirAll(filepath.Dir(replay), 0o755)
			var vs []Ob
			for _, o := range r.Obs {
				if o.Status == stViol {
					vs = append(vs, o)
				}
			}
			b, _ := json.MarshalIndent(map[string]any{"property": pd.ID, "repo": c.RepoDir, "violations": vs,
				"how": "bin/chfcheck -property " + pd.ID + " -v re-runs every rule of the property on the current tree and prints each obligation"}, "", " ")
			_ = os.WriteFile(replay, b, 0o644)
		}
		fmt.Printf("VIOLATION property=%s replay=%s\n", pd.ID, replay)
		return 1
	}
	return 0
}

func writeEvidence(c *Ctx, pd *propDef, r *Report, perRule map[string]map[string]int, tier, evdir string, wall float64,
	obligations, nProven, nReviewed, nKnown, nViol int,
) {
	_ = os.MkdirAll(evdir, 0o755)
	var samples []any
	perRuleSample := map[string]int{}
	for _, o := range r.Obs {
		if o.Status == stInfo {
			continue
		}
		if perRuleSample[o.Rule] >= 4 {
			continue
		}
		perRuleSample[o.Rule]++
		samples = append(samples, o)
	}
	rules := map[string]any{}
	var ruleIDs []string
	for id := range r.Rules {
		ruleIDs = append(ruleIDs, id)
	}
	sort.Strings(ruleIDs)
	for _, id := range ruleIDs {
		m := perRule[id]
		if m == nil {
			m = map[string]int{}
		}
		rules[id] = map[string]any{
			"what":         r.Rules[id],
			"instances":    m["total"] - m[stInfo],
			"proven":       m[stProven],
			"reviewed":     m[stReviewed],
			"known":        m[stKnown],
			"violations":   m[stViol],
			"min_expected": r.Min[id],
		}
	}
	seed := 0
	fmt.Sscan(os.Getenv("VERIF_SEED"), &seed)
	seenKeys := map[string]bool{}
	for _, o := range r.Obs {
		if o.Status != stInfo {
			seenKeys[o.Key] = true
		}
	}
	expl := r.Explanation
	if len(r.Undecided) > 0 {
		expl += " NOT decided by this check: " + strings.Join(r.Undecided, "; ") + "."
	}
	cov := map[string]any{
		"explanation":         expl,
		"obligations":         obligations,
		"discharged":          nProven + nReviewed + nKnown,
		"proven":              nProven,
		"reviewed":            nReviewed,
		"known_findings":      nKnown,
		"evaluations":         obligations,
		"distinct_nontrivial": len(seenKeys),
		"rule":                "one case = one (rule, construct) obligation found in the resolved program; distinct = distinct rule|function|construct keys; every obligation needs an argument (a dominating guard, a held lock, a table row, a range) so all are non-trivial",
		"samples":             samples,
		"rules":               rules,
		"counters":            r.Counters,
		"exhaustive":          r.Exhaustive,
		"checker_cmd":         "bin/chfcheck -property " + pd.ID + " -tier " + tier,
		"trusted_base":        append([]string{"go/types, go/ssa and dominator construction of golang.org/x/tools v0.29.0", "this checker (/verif/chfcheck)"}, r.Trusted...),
		"packages_loaded":     len(c.Mod),
		"functions_in_module": len(c.ModFuncs),
		"repo":                c.RepoDir,
	}
	if r.Controls != nil {
		cov["controls"] = r.Controls
	}
	ev := evidence{PropertyID: pd.ID, Tier: tier, Seed: seed, Level: pd.Level, Coverage: cov, Assumptions: r.Assumptions, WallS: wall, Violations: nViol}
	if ev.Assumptions == nil {
		ev.Assumptions = []string{}
	}
	b, _ := json.MarshalIndent(ev, "", " ")
	if err := os.WriteFile(filepath.Join(evdir, pd.ID+".json"), b, 0o644); err != nil {
		broken("write evidence: %v", err)
	}
}

// statusOf: the status recorded so far for rule|key ("" if none); a violation
// wins over a proof.
func (r *Report) statusOf(rule, key string) string {
	st := ""
	for _, o := range r.Obs {
		if o.Key == rule+"|"+key {
			if o.Status == stViol {
				return stViol
			}
			st = o.Status
		}
	}
	return st
}
