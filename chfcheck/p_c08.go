package main

import (
	"fmt"
	"go/token"
	"go/types"
	"regexp"
	"strings"

	"golang.org/x/tools/go/ssa"
)

// C08: rating server prices exactly and agrees with the CHF on the unit cost.

func init() { register("C08", "other", checkC08) }

type rfModel struct {
	c       *Ctx
	f       *ssa.Function
	fe      *formEval
	req     *ssa.Alloc
	ans     *ssa.Alloc
	getOne  *ssa.Call
	writeTo *ssa.Call
	tariff  *ssa.Call // buildTaffif(...)
	subIn   map[*ssa.BasicBlock]enumSet
}

func buildRfModel(c *Ctx) *rfModel {
	outer := c.fn("pkg/rf", "handleSUR")
	hs := returnedFuncs(outer)
	if len(hs) != 1 {
		broken("anchor: handleSUR is expected to return one handler function, found %d", len(hs))
	}
	f := hs[0]
	m := &rfModel{c: c, f: f, fe: newFormEval(f)}
	build := c.fn("pkg/rf", "buildTaffif")
	eachInstr(f, func(_ *ssa.BasicBlock, _ int, ins ssa.Instruction) {
		call, ok := ins.(*ssa.Call)
		if !ok {
			return
		}
		obj := calleeObj(&call.Call)
		switch {
		case isFunc(obj, diamPath, "Message.Unmarshal"):
			if a, ok := stripConv(call.Call.Args[1]).(*ssa.Alloc); ok && m.req == nil {
				m.req = a
			}
		case isFunc(obj, mongoPath, "RestfulAPIGetOne"):
			m.getOne = call
		case isFunc(obj, diamPath, "Message.Marshal"):
			if a, ok := stripConv(call.Call.Args[1]).(*ssa.Alloc); ok {
				m.ans = a
			}
		case isFunc(obj, diamPath, "Message.WriteTo"):
			m.writeTo = call
		case call.Call.StaticCallee() == build:
			m.tariff = call
		}
	})
	if m.req == nil || m.ans == nil || m.getOne == nil || m.writeTo == nil || m.tariff == nil {
		broken("anchor: handleSUR closure does not have the expected Unmarshal/GetOne/buildTaffif/Marshal/WriteTo calls")
	}
	m.subIn = enumFlow(f, m.isSubType)
	return m
}

func (m *rfModel) isSubType(v ssa.Value) bool {
	ld, ok := v.(*ssa.UnOp)
	if !ok || ld.Op != token.MUL {
		return false
	}
	fa, ok := ld.X.(*ssa.FieldAddr)
	if !ok || fieldName(fa) != "RequestSubType" {
		return false
	}
	p, ok := pathOf(fa.X)
	return ok && p.Root == ssa.Value(m.req)
}

var unitCostSuffix = regexp.MustCompile(`mem:\S*?UnitCost\.(ValueDigits|Exponent)`)

// normaliseUC renames the unit-cost atoms so that the server's and the
// client's forms can be compared: everything up to "UnitCost." is dropped.
func normaliseUC(s string) string {
	return unitCostSuffix.ReplaceAllString(s, "UnitCost.$1")
}

func checkC08(c *Ctx, r *Report) {
	r.Explanation = "The SUR handler of the rating server is analysed symbolically on go/ssa: (R1) every integer division has a divisor that is non-zero on a dominating edge and every type assertion on a database value is the two-result form, so no stored tariff makes the handler panic; (R2) each value stored into Price / AllowedUnits of the answer has the polynomial form the statement gives for the Request-Sub-Type values possible on its path (debit: consumed x unit cost; reserve: quota div unit cost, and price = allowed x unit cost, which is <= quota by the floor-division lemma for a positive divisor); (R3) the unit cost the server applies and the unit cost the CHF computes from the answer (getUnitCost) are the same polynomial ValueDigits x Pow10(Exponent) over the tariff placed in the answer (cross-check of the two sibling implementations); (R4) on the account-found edge every path reaches the answer's WriteTo."
	r.Undecided = []string{"decimal fractions: buildTaffif stores a positive exponent for \"0.5\" - server and CHF agree on the resulting (wrong) value, which is what R3 decides", "32-bit overflow of the products", "float rounding of math.Pow10 for exponents beyond 9"}
	r.Assumptions = append(r.Assumptions, "integer conversions do not overflow", "floor division lemma: for d > 0, (q div d) * d <= q")
	r.rule("C08.R1", "no stored tariff value can crash the handler: divisors proven non-zero, database type assertions checked", 2)
	r.rule("C08.R2", "Price and AllowedUnits have the statement's form for every Request-Sub-Type possible on the path", 4)
	r.rule("C08.R6", "stored tariffs are parsed in the full width of the member they are put in, and the tariff is looked up under the request's rating group exactly (no narrowing of parsed numbers or of look-up keys)", 2)
	r.rule("C08.R7", "quota, price, units and tariff mean on the wire what the server computes with: member types match the dictionary's AVP types exactly (an integer AVP declared as a float type loses large values), tags and constants agree with the dictionary (shared with C17.R1/R2/R8/R9)", 100)
	r.rule("C08.R3", "server and CHF compute the same unit cost polynomial from the tariff sent in the answer", 2)
	r.rule("C08.R4", "every path for a found account answers", 1)
	r.rule("C08.R8", "the tariff look-up key \"imsi-\"+data is built only for Subscription-Id-Type END_USER_IMSI", 1)
	r.rule("C08.R5", "the handler keeps no state between requests (no captured or package-level variable written)", 1)

	rfRules(c, r, "C08.R1", "C08.R2", "C08.R3", "C08.R4", "C08.R5")
	rfWidthRules(c, r, "C08.R6")
	subscriberKeyBehindTypeTest(c, r, "C08.R8", c.fn("pkg/rf", "handleSUR"))
	r.shareFrom(c, checkC17, map[string]string{"C17.R1": "C08.R7", "C17.R2": "C08.R7", "C17.R8": "C08.R7", "C17.R9": "C08.R7"})
}

// rfRules: the rules of the rating server's SUR handler, under the caller's rule names
// (an empty name drops that rule's obligations).
func rfRules(c *Ctx, r *Report, R1, R2, R3, R4, R5 string) {
	if !handlerStateless(c, r, R5, "pkg/rf", "handleSUR") {
		r.blockedBy("the handler keeps state between requests", R1, R2, R3, R4)
		return // the model below assumes per-invocation variables
	}
	m := buildRfModel(c)
	f, fe := m.f, m.fe
	key := fnKey(f)

	// ---- R1
	ndiv := 0
	eachInstr(f, func(_ *ssa.BasicBlock, _ int, ins ssa.Instruction) {
		switch x := ins.(type) {
		case *ssa.BinOp:
			if (x.Op == token.QUO || x.Op == token.REM) && isIntegerType(x.Type()) {
				ndiv++
				k := fmt.Sprintf("%s|division#%d", key, ndiv)
				if kv, ok := constInt(x.Y); ok && kv != 0 {
					r.proven(R1, k, posOf(c, x), "constant non-zero divisor")
					return
				}
				rel := relOnEdge(fe, fe.eval(x.Y), poly{}, nil, x.Block())
				r.check(rel["!="] || rel[">"], R1, k, posOf(c, x), "divisor tested non-zero on a dominating edge",
					"integer division by "+fe.eval(x.Y).String()+" with no dominating non-zero test: a stored unit cost of \"0\" (or malformed text, parsed as 0) panics the rating server")
			}
		case *ssa.TypeAssert:
			if _, isIface := x.X.Type().Underlying().(*types.Interface); !isIface {
				return
			}
			// only assertions on values read from the database document
			fromDB := false
			for d := range depSet(f, x.X) {
				if d == ssa.Value(m.getOne) {
					fromDB = true
				}
			}
			if !fromDB {
				return
			}
			ndiv++
			k := fmt.Sprintf("%s|assertion#%d", key, ndiv)
			r.check(x.CommaOk, R1, k, posOf(c, x), "two-result type assertion on the stored value", "single-result type assertion on a value read from the database: a document whose member is not a "+x.AssertedType.String()+" panics the server")
		}
	})

	// ---- unit cost form (server)
	// the value every Price multiplication and the division use: find it as the divisor / the factor
	var ucForm poly
	mq := ""
	eachInstr(f, func(_ *ssa.BasicBlock, _ int, ins ssa.Instruction) {
		if bo, ok := ins.(*ssa.BinOp); ok && bo.Op == token.QUO && isIntegerType(bo.Type()) {
			ucForm = fe.eval(bo.Y)
			mq = fe.eval(bo.X).String()
		}
	})
	if ucForm == nil {
		r.viol(R2, key+"|unit-cost", c.rel(f.Pos()), "no division quota / unit cost found in the reserve branch")
		return
	}
	reqAtom := func(p poly, suffix string) bool {
		if len(p) != 1 {
			return false
		}
		for k, cf := range p {
			return cf == 1 && strings.HasPrefix(k, "mem:local:"+m.req.Comment+".") && strings.HasSuffix(k, suffix)
		}
		return false
	}
	debit := constOf(c, "ccs_diameter/datatype", "REQ_SUBTYPE_DEBIT")
	reserve := constOf(c, "ccs_diameter/datatype", "REQ_SUBTYPE_RESERVE")

	// ---- R2
	nst := 0
	eachInstr(f, func(_ *ssa.BasicBlock, _ int, ins ssa.Instruction) {
		st, ok := ins.(*ssa.Store)
		if !ok {
			return
		}
		fa, ok := st.Addr.(*ssa.FieldAddr)
		if !ok || !typeIs(fa.X.Type(), cdtPath, "ServiceRating") {
			return
		}
		fld := fieldName(fa)
		if fld != "Price" && fld != "AllowedUnits" {
			return
		}
		if p, ok := pathOf(fa.X); !ok || p.Root != ssa.Value(m.ans) {
			return
		}
		nst++
		alts := fe.evalAlts(st.Val)
		for _, alt := range alts {
			form := alt.form
			set := m.subIn[st.Block()]
			if len(alt.edges) > 0 {
				// the value was assigned on a branch and stored after the join: the
				// sub-types possible on that branch
				if _, ok := m.subIn[alt.edges[0][0]]; ok {
					set = enumOnEdge(m.subIn, m.isSubType, alt.edges[0][0], alt.edges[0][1])
					// nested merges refine further
					for _, e := range alt.edges[1:] {
						inner := enumOnEdge(m.subIn, m.isSubType, e[0], e[1])
						meet := enumSet{vals: map[int64]bool{}, others: set.others && inner.others}
						for v := range set.vals {
							if inner.vals[v] {
								meet.vals[v] = true
							}
						}
						set = meet
					}
				}
			}
			zeroEdge := func() bool {
				if len(alt.edges) == 0 && alt.from == nil {
					return zeroCostEdge(fe, ucForm, st.Block())
				}
				if alt.from != nil && relOnEdge(fe, ucForm, poly{}, alt.from, alt.at)["=="] {
					return true
				}
				for _, e := range alt.edges {
					if relOnEdge(fe, ucForm, poly{}, e[0], e[1])["=="] {
						return true
					}
				}
				return false
			}
			for _, sv := range enumValues(set) {
				k := fmt.Sprintf("%s|%s subtype=%s", key, fld, enumName(sv))
				bad := ""
				switch {
				case sv == debit && fld == "Price":
					// consumed * unitCost
					okf := false
					for mono, cf := range form {
						if cf == 1 && len(form) == 1 {
							parts := strings.Split(mono, monoSep)
							// the monomial must be consumedUnits atom times the unit-cost monomials
							rest := poly{}
							for _, pa := range parts {
								if strings.HasPrefix(pa, "mem:local:"+m.req.Comment+".") && strings.HasSuffix(pa, ".ConsumedUnits") {
									continue
								}
								if len(rest) == 0 {
									rest = atomPoly(pa)
								} else {
									rest = polyMul(rest, atomPoly(pa))
								}
							}
							if polyEqual(rest, ucForm) && len(parts) == len(strings.Split(firstMono(ucForm), monoSep))+1 {
								okf = true
							}
						}
					}
					if !okf {
						bad = "debit mode: price must be consumed units x unit cost, found " + form.String()
					}
				case sv == debit && fld == "AllowedUnits":
					if k0, ok := form.isConst(); !ok || k0 != 0 {
						bad = "debit mode grants no units, found " + form.String()
					}
				case sv == reserve && fld == "AllowedUnits":
					quot := atomPoly("(" + mq + " / " + ucForm.String() + ")")
					k0, isC := form.isConst()
					if !(polyEqual(form, quot) || (isC && k0 == 0 && zeroEdge())) {
						bad = "reserve mode: allowed units must be monetary quota div unit cost, found " + form.String()
					}
					if polyEqual(form, quot) && !reqAtomString(mq, m.req.Comment, ".MonetaryQuota") {
						bad = "reserve mode: the dividend is not the request's Monetary-Quota: " + mq
					}
				case sv == reserve && fld == "Price":
					quot := atomPoly("(" + mq + " / " + ucForm.String() + ")")
					want := polyMul(quot, ucForm)
					k0, isC := form.isConst()
					if !(polyEqual(form, want) || (isC && k0 == 0 && zeroEdge())) {
						bad = "reserve mode: price must be allowed units x unit cost (0 only when the unit cost is 0), found " + form.String()
					}
				default:
					if k0, ok := form.isConst(); !ok || k0 != 0 {
						bad = "unknown sub-type must be priced 0, found " + form.String()
					}
				}
				r.check(bad == "", R2, k, posOf(c, st), fld+" = "+form.String(), bad)
			}
		}
		_ = reqAtom
	})
	r.count("price_and_units_stores", nst)

	// ---- R3 sibling agreement
	getUC := c.fn("internal/sbi/processor", "getUnitCost")
	fe2 := newFormEval(getUC)
	var clientForms []string
	for _, ri := range returnsOf(getUC) {
		if len(ri.Vals) != 1 {
			continue
		}
		p := fe2.eval(ri.Vals[0])
		if k0, ok := p.isConst(); ok && k0 == 1 {
			// fall-back "unit cost 1" where there is no answer to decode - but not as a
			// replacement for a value decoded from the tariff: the server applied that value
			for _, b := range getUC.Blocks {
				if len(b.Instrs) == 0 || len(b.Succs) != 2 {
					continue
				}
				iff, isIf := b.Instrs[len(b.Instrs)-1].(*ssa.If)
				if !isIf {
					continue
				}
				bo, isBo := iff.Cond.(*ssa.BinOp)
				if !isBo {
					continue
				}
				for _, op := range []ssa.Value{bo.X, bo.Y} {
					of := fe2.eval(op).String()
					if !strings.Contains(of, "ValueDigits") && !strings.Contains(of, "Exponent") {
						continue
					}
					for _, sc := range b.Succs {
						if b.Succs[0] != b.Succs[1] && edgeDominates(b, sc, ri.At) {
							clientForms = append(clientForms, "1 when "+normaliseUC(of)+" "+bo.Op.String()+" "+describe(otherOperand(bo, op))+" decides so (at "+c.rel(bo.Pos())+")")
						}
					}
				}
			}
			continue
		}
		clientForms = append(clientForms, normaliseUC(p.String()))
	}
	serverForm := normaliseUC(ucForm.String())
	okAgree := len(clientForms) > 0
	for _, cf := range clientForms {
		if cf != serverForm {
			okAgree = false
		}
	}
	r.check(okAgree, R3, "unit-cost-forms", c.rel(getUC.Pos()), "server and CHF both compute "+serverForm,
		"the server applies unit cost "+serverForm+" but the CHF decodes "+strings.Join(clientForms, " / ")+" from the same tariff")
	// the tariff in the answer is the one the unit cost was computed from
	tariffOK := false
	for _, st := range storesToFieldDeep(f, m.ans, "MonetaryTariff") {
		if st.Val == ssa.Value(m.tariff) {
			tariffOK = true
		}
	}
	ucFromTariff := false
	for _, v := range fe.atoms {
		if ld, ok := v.(*ssa.UnOp); ok {
			if p, ok := pathOf(ld); ok && p.Root == ssa.Value(m.tariff) {
				ucFromTariff = true
			}
		}
	}
	r.check(tariffOK && ucFromTariff, R3, "tariff-in-answer", posOf(c, m.tariff), "the tariff the unit cost is computed from is the one placed in the answer", "the unit cost applied by the server is not computed from the tariff object sent in the answer")

	// ---- R4 answers
	var res0 ssa.Value
	for _, ref := range *m.getOne.Referrers() {
		if ex, ok := ref.(*ssa.Extract); ok && ex.Index == 0 {
			res0 = ex
		}
	}
	answered := false
	why := "no branch on the account look-up found"
	if res0 != nil {
		for _, ref := range *res0.Referrers() {
			bo, isBo := ref.(*ssa.BinOp)
			if !isBo || (bo.Op != token.EQL && bo.Op != token.NEQ) {
				continue
			}
			for _, r2 := range *bo.Referrers() {
				ifi, isIf := r2.(*ssa.If)
				if !isIf {
					continue
				}
				found := ifi.Block().Succs[1]
				if bo.Op == token.NEQ {
					found = ifi.Block().Succs[0]
				}
				if everyPathFromPasses(found, []ssa.Instruction{m.writeTo}) {
					answered = true
				} else {
					why = "a path for a found account returns without writing the answer: the CHF waits for its 5 s time-out"
				}
			}
		}
	}
	r.check(answered, R4, key+"|answers", posOf(c, m.writeTo), "every path of the account-found edge reaches WriteTo", why)
}

func firstMono(p poly) string {
	for k := range p {
		return k
	}
	return ""
}

func reqAtomString(s, reqName, suffix string) bool {
	return strings.HasPrefix(s, "mem:local:"+reqName+".") && strings.HasSuffix(s, suffix)
}

// zeroCostEdge: the block is dominated by an edge on which the unit cost is zero.
func zeroCostEdge(fe *formEval, uc poly, b *ssa.BasicBlock) bool {
	rel := relOnEdge(fe, uc, poly{}, nil, b)
	return rel["=="]
}

// storesToFieldDeep: stores into member `name` of any struct reachable from alloc.
func storesToFieldDeep(f *ssa.Function, alloc *ssa.Alloc, name string) []*ssa.Store {
	var out []*ssa.Store
	eachInstr(f, func(_ *ssa.BasicBlock, _ int, ins ssa.Instruction) {
		st, ok := ins.(*ssa.Store)
		if !ok {
			return
		}
		fa, ok := st.Addr.(*ssa.FieldAddr)
		if !ok || fieldName(fa) != name {
			return
		}
		if p, ok := pathOf(fa.X); ok && p.Root == ssa.Value(alloc) {
			out = append(out, st)
			return
		}
		// member of a literal that is itself stored into the answer
		if a, ok := fa.X.(*ssa.Alloc); ok {
			for _, ref := range *a.Referrers() {
				if st2, ok := ref.(*ssa.Store); ok && st2.Val == ssa.Value(a) {
					if p, ok := pathOfAddr(st2.Addr); ok && p.Root == ssa.Value(alloc) {
						out = append(out, st)
					}
				}
			}
		}
	})
	return out
}

func otherOperand(bo *ssa.BinOp, op ssa.Value) ssa.Value {
	if bo.X == op {
		return bo.Y
	}
	return bo.X
}
