package main

import (
	"fmt"
	"go/token"
	"go/types"
	"sort"
	"strings"

	"golang.org/x/tools/go/ssa"
)

// C16: BER decoder is safe on arbitrary bytes: error or value, never a panic.

const asnPath = modPath + "/cdr/asn"

func init() { register("C16", "other", checkC16) }

func isByteSeq(t types.Type) bool {
	switch x := t.Underlying().(type) {
	case *types.Slice:
		return sizeOfBasic(x.Elem()) == 1
	case *types.Basic:
		return x.Info()&types.IsString != 0
	}
	return false
}

// c16Posts proves the post-conditions of parseTagAndLength on the callee and
// returns them for use at its call sites.
func c16Posts(c *Ctx, r *Report, rule string) map[*ssa.Function]*postCond {
	return c16PostsW(c, r, rule, 0)
}

// c16PostsW: as c16Posts; wantAccept > 0 adds the sibling-agreement obligation
// that lengths written in up to wantAccept octets are accepted.
func c16PostsW(c *Ctx, r *Report, rule string, wantAccept int64) map[*ssa.Function]*postCond {
	posts := map[*ssa.Function]*postCond{}
	ptl := c.fn("cdr/asn", "parseTagAndLength")
	key := fnKey(ptl)
	e := newRelEngine(c, ptl, posts)
	arg0 := atomPoly("len(param:" + ptl.Params[0].Name() + ")")
	okOff1, okOff2, okLen := true, true, true
	nret := 0
	for _, ri := range returnsOf(ptl) {
		if len(ri.Vals) != 3 {
			continue
		}
		if call, ok := ri.Vals[2].(*ssa.Call); ok {
			if obj := calleeObj(&call.Call); obj != nil && (isFunc(obj, "fmt", "Errorf") || isFunc(obj, "errors", "New")) {
				continue // error return: no promise about the results
			}
		}
		nret++
		off := ri.Vals[1]
		// 1 <= off
		for _, lf := range leavesOrSelfAt(off, ri.At) {
			d := polyAdd(constPoly(1), e.fe.eval(lf.val), -1)
			if ok, _ := e.prove(d, 0, lf.from, lf.at); !ok {
				okOff1 = false
			}
			d2 := polyAdd(e.fe.eval(lf.val), arg0, -1)
			if ok, _ := e.prove(d2, 0, lf.from, lf.at); !ok {
				okOff2 = false
			}
		}
	}
	// every value ever stored into the length member of the result is >= 0
	var resAlloc *ssa.Alloc
	for _, ri := range returnsOf(ptl) {
		if len(ri.Ret.Results) == 3 {
			if ld, ok := ri.Ret.Results[0].(*ssa.UnOp); ok && ld.Op == token.MUL {
				if a, ok := ld.X.(*ssa.Alloc); ok {
					resAlloc = a
				}
			}
		}
	}
	nst := 0
	if resAlloc == nil {
		okLen = false
	} else {
		for _, st := range storesToField(resAlloc, "len") {
			nst++
			val := stripConv(st.Val)
			// value produced by parseInt64: non-negative when at most 7 octets are accumulated (trusted lemma, premise proved)
			if ex, ok := val.(*ssa.Extract); ok {
				if call, ok := ex.Tuple.(*ssa.Call); ok && call.Call.StaticCallee() != nil && ex.Index == 0 && len(call.Call.Args) > 0 && isByteSeq(call.Call.Args[0].Type()) {
					// the lemma applies to any callee whose body IS such an accumulation (today parseInt64)
					acc := call.Call.StaticCallee()
					okShape, why := shiftOrAccumulation(acc)
					r.check(okShape, rule, key+"|lemma premise: the length octets are accumulated by shift-or from 0", c.rel(acc.Pos()), acc.Name()+" returns 0 shifted left by at most 8 bits and or-ed with one zero-extended octet per input octet, nothing else", "the value used as content length is not a plain unsigned shift-or accumulation ("+why+"): it can be negative for some length octets (e.g. after sign extension), so callers' range checks and progress arguments break")
					ln := e.lenForm(call.Call.Args[0], 0)
					if wantAccept > 0 {
						// the smallest bound the guards establish on the number of length octets
						// is what the decoder accepts; it must cover what the encoder can emit
						acc := int64(-1)
						for k := int64(1); k <= 8; k++ {
							if okk, _ := e.prove(ln, k, nil, call.Block()); okk {
								acc = k
								break
							}
						}
						r.check(acc < 0 || acc >= wantAccept, rule, key+"|long-form lengths the encoder emits are accepted", posOf(c, call), fmt.Sprintf("lengths written in up to %d octets are accepted; the encoder needs at most %d for anything that fits in memory", acc, wantAccept),
							fmt.Sprintf("the decoder refuses lengths written in more than %d octets (contents of 256^%d octets and more), but the encoder writes such lengths with %d+ octets: what BerMarshal produced for a large value cannot be unmarshalled (\"length is too large\")", acc, acc, acc+1))
					}
					okp, _ := e.prove(ln, 7, nil, call.Block())
					r.check(okp, rule, key+"|lemma premise: long-form length has at most 7 octets", posOf(c, call), "at most 7 octets are accumulated into the int64 length, so it is non-negative (shift-or accumulation lemma)", "the number of length octets handed to "+acc.Name()+" is not bounded by 7: the accumulated int64 length may be negative")
					if !okp || !okShape {
						okLen = false
					}
					continue
				}
			}
			d := polyAdd(poly{}, e.fe.eval(st.Val), -1)
			if ok, _ := e.prove(d, 0, nil, st.Block()); !ok {
				okLen = false
			}
		}
	}
	r.check(okOff1 && nret > 0, rule, key+"|post: offset >= 1", c.rel(ptl.Pos()), "every non-error return yields an offset >= 1", "a non-error return of parseTagAndLength may yield an offset < 1: callers would not advance")
	r.check(okOff2 && nret > 0, rule, key+"|post: offset <= len(input)", c.rel(ptl.Pos()), "every non-error return yields an offset <= len(bytes)", "a non-error return of parseTagAndLength may yield an offset beyond the input: callers slice bytes[off:] and panic")
	r.check(okLen && nst > 0, rule, key+"|post: length >= 0", c.rel(ptl.Pos()), "every value stored into the length member is >= 0", "parseTagAndLength may return a negative content length: callers' range checks (offset+length <= len) and progress arguments break")
	pc := &postCond{lows: map[string]int64{}}
	if okOff1 && nret > 0 {
		pc.lows["res#1"] = 1
	}
	if okOff2 && nret > 0 {
		pc.facts = append(pc.facts, linFact{d: polyAdd(atomPoly("res#1"), atomPoly("len(arg#0)"), -1), c: 0})
	}
	if okLen && nst > 0 {
		pc.lows["mem:(res#0).len"] = 0
	}
	posts[ptl] = pc
	return posts
}

// shiftOrAccumulation decides whether every non-error result #0 of f is the
// value of a loop-carried accumulator that starts at a non-negative constant
// and is updated, once per iteration, as (acc << k) | zext(octet) with k <= 8
// - and by nothing else.  Under that shape k iterations yield a value in
// [0, 2^(8k)), which is the premise of the trusted lemma.
func shiftOrAccumulation(f *ssa.Function) (bool, string) {
	if f == nil || len(f.Blocks) == 0 {
		return false, "no body"
	}
	isAcc := func(v ssa.Value) (bool, string) {
		if k, ok := v.(*ssa.Const); ok {
			if n, isInt := constInt(k); isInt && n >= 0 {
				return true, ""
			}
			return false, "negative constant"
		}
		ph, ok := v.(*ssa.Phi)
		if !ok {
			return false, "the result is " + describe(v) + ", not the loop-carried accumulator"
		}
		for _, ed := range ph.Edges {
			if k, ok := ed.(*ssa.Const); ok {
				if n, isInt := constInt(k); isInt && n >= 0 {
					continue
				}
				return false, "negative start value"
			}
			or, ok := ed.(*ssa.BinOp)
			if !ok || or.Op != token.OR {
				return false, "the accumulator is updated by " + describe(ed)
			}
			var shl *ssa.BinOp
			var oct ssa.Value
			for _, pair := range [][2]ssa.Value{{or.X, or.Y}, {or.Y, or.X}} {
				if b, ok := pair[0].(*ssa.BinOp); ok && b.Op == token.SHL {
					shl, oct = b, pair[1]
				}
			}
			if shl == nil || shl.X != ssa.Value(ph) {
				return false, "the update is not (accumulator << k) | octet"
			}
			if n, isInt := constInt(shl.Y); !isInt || n < 0 || n > 8 {
				return false, "the shift distance is not a constant <= 8"
			}
			cv, ok := oct.(*ssa.Convert)
			if !ok {
				return false, "the or-ed operand is not a zero-extended octet"
			}
			if bt, ok := cv.X.Type().Underlying().(*types.Basic); !ok || bt.Kind() != types.Uint8 {
				return false, "the or-ed operand is not a zero-extended octet"
			}
		}
		return true, ""
	}
	n := 0
	for _, ri := range returnsOf(f) {
		if len(ri.Vals) < 1 {
			continue
		}
		if len(ri.Vals) >= 2 {
			if call, ok := ri.Vals[len(ri.Vals)-1].(*ssa.Call); ok {
				if obj := calleeObj(&call.Call); obj != nil && (isFunc(obj, "fmt", "Errorf") || isFunc(obj, "errors", "New")) {
					continue
				}
			}
		}
		n++
		if ok, why := isAcc(ri.Vals[0]); !ok {
			return false, why
		}
	}
	if n == 0 {
		return false, "no non-error return"
	}
	return true, ""
}

func leavesOrSelfAt(v ssa.Value, at *ssa.BasicBlock) []phiLeaf {
	if ph, ok := v.(*ssa.Phi); ok && ph.Block() == at {
		return leavesOf(v)
	}
	return []phiLeaf{{val: v, from: nil, at: at}}
}

func leavesOrSelf(v ssa.Value, at ssa.Instruction) []phiLeaf {
	if ph, ok := v.(*ssa.Phi); ok && ph.Block() == at.Block() {
		return leavesOf(v)
	}
	return []phiLeaf{{val: v, from: nil, at: at.Block()}}
}

func checkC16(c *Ctx, r *Report) {
	r.Explanation = "Memory safety and termination of the BER decoder decided on go/ssa for every input and target type: (R1) every index / slice expression on the input bytes in the decode path is in bounds - a relational analysis (linear facts from dominating branch edges over polynomial forms, lengths of sub-slices as terms, interval bounds, monotone loop counters) proves 0 <= i < len and 0 <= lo <= hi <= len at each site; parseTagAndLength's post-conditions (1 <= offset <= len(input), length >= 0) are proved on the callee and used at its call sites; (R2) no unguarded dereference of an optional field-parameter pointer (tagNumber ...); (R3) each scanning loop advances by at least one octet per iteration, so decoding terminates; (R4) every error result of the primitive parsers is tested on its own value; (R5) reflect.Value.Set in the special-type cases stores a value whose static type is assignable to the case's type (otherwise reflect panics for every input of that type)."
	r.Undecided = []string{"semantic rejection of wrongly-typed input (the decoder does not compare universal tags)", "indexing of the per-struct parameter table (listed as reviewed, see reviewed.json)", "panics inside package reflect for exotic target types"}
	r.Trusted = append(r.Trusted, "lemma: a shift-or accumulation of at most 7 octets into an int64 starting from 0 is non-negative (premise proved at the call site)")
	r.rule("C16.R1", "every access to the input bytes is in bounds; callee post-conditions proved", 15)
	r.rule("C16.R2", "no unguarded dereference of an optional field-parameter pointer", 2)
	r.rule("C16.R3", "every scanning loop makes progress", 3)
	r.rule("C16.R4", "primitive parser errors are tested on their own result", 4)
	r.rule("C16.R6", "the tag a member is matched against is the declared tag number in full width (a narrowed number makes the decoder accept an element with another tag instead of reporting it; shared with C04.R11)", 1)
	r.rule("C16.R7", "the tag number a member is matched against comes from its `tagNum:` parameter only: every assignment of fieldParameters.tagNumber in the tag parser lies behind the test for that prefix", 1)
	r.rule("C16.R8", "a tag number that does not fit 64 bits is refused: the guard behind the base-128 loop admits at most nine tag-number octets (63 bits) - a tenth wraps the accumulator, and an element tagged 2^64+k is taken for the member tagged k", 1)
	r.rule("C16.R5", "reflect Set in the special-type cases is type-correct", 3)
	r.rule("C16.R10", "every reflect Field / Index argument of the decoder is non-negative on its path (a look-up that reports `not found` as -1 must not reach Field)", 3)
	r.rule("C16.R9", "every typed reflect setter (SetInt, SetBool, SetString ...) of the decoder is reached only for a kind it accepts", 3)

	posts := c16Posts(c, r, "C16.R1")
	checkParseWidths(c, r, "C16.R6", c.fn("cdr/asn", "parseFieldParameters"))
	c16TagNumberWriters(c, r, "C16.R7")
	c16TagOctetBound(c, r, "C16.R8")
	// the decode path: the package functions reachable from the entry points that take the input octets
	for _, name := range []string{"parseTagAndLength", "parseBitString", "parseInt64", "ParseField", "UnmarshalWithParams", "Unmarshal"} {
		c.fn("cdr/asn", name) // anchors
	}
	reachDec, _ := c.reach([]*ssa.Function{c.fn("cdr/asn", "UnmarshalWithParams"), c.fn("cdr/asn", "Unmarshal")})
	var decodeFns []*ssa.Function
	for f := range reachDec {
		if f.Pkg != nil && f.Pkg.Pkg.Path() == asnPath && f.Parent() == nil && len(f.Blocks) > 0 && hasByteSliceParam(f) {
			decodeFns = append(decodeFns, f)
		}
	}
	sort.Slice(decodeFns, func(i, j int) bool { return decodeFns[i].Name() < decodeFns[j].Name() })
	nsites := 0
	for _, f := range decodeFns {
		e := newRelEngine(c, f, posts)
		e.prime()
		cnt := map[string]int{}
		// shift distances: a negative distance panics at run time
		nshift := 0
		eachInstr(f, func(_ *ssa.BasicBlock, _ int, ins ssa.Instruction) {
			bo, ok := ins.(*ssa.BinOp)
			if !ok || (bo.Op != token.SHL && bo.Op != token.SHR) {
				return
			}
			if _, isConst := bo.Y.(*ssa.Const); isConst {
				return
			}
			yt, ok := bo.Y.Type().Underlying().(*types.Basic)
			if !ok || yt.Info()&types.IsUnsigned != 0 {
				return // unsigned distances cannot be negative
			}
			nshift++
			key := fmt.Sprintf("%s|shift distance #%d", fnKey(f), nshift)
			okp, _ := e.prove(polyAdd(poly{}, e.fe.eval(bo.Y), -1), 0, nil, bo.Block())
			r.check(okp, "C16.R1", key, posOf(c, bo), "the signed shift distance is shown to be >= 0", "the shift distance "+e.fe.eval(bo.Y).String()+" is a signed value not shown to be >= 0 on this path: a negative distance is a run-time panic (e.g. 64 - 8*len for more than 8 contents octets)")
		})
		eachInstr(f, func(_ *ssa.BasicBlock, _ int, ins ssa.Instruction) {
			var base, idx, lo, hi ssa.Value
			kind := ""
			switch x := ins.(type) {
			case *ssa.IndexAddr:
				base, idx, kind = x.X, x.Index, "index"
			case *ssa.Index:
				base, idx, kind = x.X, x.Index, "index"
			case *ssa.Lookup:
				if _, isMap := x.X.Type().Underlying().(*types.Map); isMap {
					return
				}
				base, idx, kind = x.X, x.Index, "index"
			case *ssa.Slice:
				base, lo, hi, kind = x.X, x.Low, x.High, "slice"
			default:
				return
			}
			if !isByteSeq(base.Type()) {
				return
			}
			if kind == "slice" && lo == nil && hi == nil {
				return
			}
			nsites++
			desc := describe(base)
			cnt[kind+desc]++
			key := fmt.Sprintf("%s|%s %s#%d", fnKey(f), kind, desc, cnt[kind+desc])
			L := e.lenForm(base, 0)
			var why []string
			okAll := true
			need := func(ok bool, w string, fail string) {
				if ok {
					why = append(why, w)
				} else {
					okAll = false
					why = append(why, "NOT PROVED: "+fail)
				}
			}
			if kind == "index" {
				if rangeIndex(f, base, idx, ins) {
					r.proven("C16.R1", key, posOf(c, ins), "range-loop index bounded by len of the same value")
					return
				}
				ok1, w1 := e.prove(polyAdd(poly{}, e.fe.eval(idx), -1), 0, nil, ins.Block())
				need(ok1, "index >= 0 "+w1, "index may be negative")
				ok2, w2 := e.prove(polyAdd(e.fe.eval(idx), L, -1), -1, nil, ins.Block())
				need(ok2, "index < len "+w2, "index "+e.fe.eval(idx).String()+" is not shown to be below "+L.String()+": input that ends here (empty, truncated, zero-length contents) panics with index out of range")
			} else {
				loP := poly{}
				if lo != nil {
					loP = e.fe.eval(lo)
					ok1, w1 := e.prove(polyAdd(poly{}, loP, -1), 0, nil, ins.Block())
					need(ok1, "low >= 0 "+w1, "low bound may be negative")
				}
				hiP := L
				if hi != nil {
					hiP = e.fe.eval(hi)
					ok3, w3 := e.prove(polyAdd(hiP, L, -1), 0, nil, ins.Block())
					need(ok3, "high <= len "+w3, "high bound "+hiP.String()+" is not shown to be within "+L.String()+": a truncated input (e.g. long-form length running past the end) panics with slice bounds out of range")
				}
				ok2, w2 := e.prove(polyAdd(loP, hiP, -1), 0, nil, ins.Block())
				need(ok2, "low <= high "+w2, "low bound "+loP.String()+" is not shown to be <= "+hiP.String())
			}
			if okAll {
				r.proven("C16.R1", key, posOf(c, ins), strings.Join(why, "; "))
			} else {
				r.viol("C16.R1", key, posOf(c, ins), strings.Join(why, "; "))
			}
		})
	}
	r.count("byte_access_sites", nsites)

	// ---- R2 nil parameter pointers
	fpT := c.namedType("cdr/asn", "fieldParameters")
	ne := newNilEngine(c, func(owner *types.Named, _ *types.Var) bool { return owner == fpT })
	for _, name := range []string{"ParseField", "makeField"} {
		f := c.fn("cdr/asn", name)
		cnt := map[string]int{}
		for _, s := range ne.sites(f) {
			member := lastElem(strings.Join(s.path.Elems, "."))
			cnt[member]++
			key := fmt.Sprintf("%s|%s#%d", fnKey(f), member, cnt[member])
			guarded, how := s.guarded, s.how
			if !guarded {
				guarded, how = guardedByEquivalentIndex(c, f, s)
			}
			if name == "makeField" {
				// encoder side belongs to C04; reported here only as information
				if guarded {
					r.info("C16.R2", key, posOf(c, s.ins), how)
				}
				continue
			}
			r.check(guarded, "C16.R2", key, posOf(c, s.ins), how, "optional parameter pointer "+member+" is dereferenced without a nil test: a SEQUENCE/SET member without tagNum (three exist in the schema) panics the decoder for every input")
		}
	}

	// ---- R3 progress
	c16Progress(c, r, posts)

	// ---- R4 error discipline
	pf := c.fn("cdr/asn", "ParseField")
	var r4fns []*ssa.Function
	for _, f := range c.ModFuncs {
		if f.Pkg != nil && f.Pkg.Pkg.Path() == asnPath && hasByteSeqParam(f) && f.Parent() == nil {
			r4fns = append(r4fns, f)
		}
	}
	for _, f := range r4fns {
		eachInstr(f, func(_ *ssa.BasicBlock, _ int, ins ssa.Instruction) {
			call, ok := ins.(*ssa.Call)
			if !ok {
				return
			}
			sc := call.Call.StaticCallee()
			if sc == nil || !c.inModule(sc) || sc.Pkg == nil || sc.Pkg.Pkg.Path() != asnPath {
				return
			}
			// the primitive parsers: package functions that take the input octets and return (..., error)
			res := sc.Signature.Results()
			if sc == pf || res.Len() < 2 || !isErrorType(res.At(res.Len()-1).Type()) || !hasOctetParam(sc) {
				return
			}
			errIdx := res.Len() - 1
			var errV ssa.Value
			for _, ref := range *call.Referrers() {
				if ex, ok := ref.(*ssa.Extract); ok && ex.Index == errIdx {
					errV = ex
				}
			}
			key := fmt.Sprintf("%s|%s#%s", fnKey(f), sc.Name(), ordinalOf(f, call, calleeObj(&call.Call)))
			ok2 := errV != nil && errTested(errV)
			// results other than the error must only be used on the success edge
			if ok2 {
				for _, ref := range *call.Referrers() {
					ex, ok := ref.(*ssa.Extract)
					if !ok || ex.Index == errIdx {
						continue
					}
					for _, use := range *ex.Referrers() {
						if _, isDbg := use.(*ssa.DebugRef); isDbg {
							continue
						}
						if st, isSt := use.(*ssa.Store); isSt {
							if _, isAlloc := st.Addr.(*ssa.Alloc); isAlloc {
								continue // assignment to the result variable itself
							}
							// assignment to a member of a named result of this function (handed back with the error)
							if a, ok := allocBase(st.Addr).(*ssa.Alloc); ok {
								named := false
								res := f.Signature.Results()
								for i := 0; i < res.Len(); i++ {
									if res.At(i).Name() != "" && res.At(i).Name() == a.Comment {
										named = true
									}
								}
								if named {
									continue
								}
							}
						}
						if ret, isRet := use.(*ssa.Return); isRet {
							// handed back together with the error itself: propagation, not use
							prop := false
							for _, rv := range ret.Results {
								if rv == errV {
									prop = true
								}
							}
							if prop {
								continue
							}
						}
						if ph, isPhi := use.(*ssa.Phi); isPhi {
							// merged into result variables together with the error (an inlined `return v, err`)
							prop := true
							for i, ed := range ph.Edges {
								if ed != ssa.Value(ex) || onSuccessEdge(call, ph.Block().Preds[i]) {
									continue
								}
								withErr := false
								for _, ins2 := range ph.Block().Instrs {
									if s2, ok := ins2.(*ssa.Phi); ok && s2 != ph && i < len(s2.Edges) && s2.Edges[i] == errV {
										withErr = true
									}
								}
								if !withErr {
									prop = false
								}
							}
							if prop {
								continue
							}
						}
						if !onSuccessEdge(call, use.Block()) {
							ok2 = false
						}
					}
				}
			}
			r.check(ok2, "C16.R4", key, posOf(c, call), "error tested on its own result before the value is used", "the error returned by "+sc.Name()+" is not tested (a different, already-nil variable is): a failed parse is used as a value")
		})
	}

	// ---- R5 reflect.Set assignability
	c16ReflectSet(c, r)
	c16KindTypedSetters(c, r, "C16.R9")
	c04ReflectIndexOpt(c, r, c.fn("cdr/asn", "ParseField"), "C16.R10", true)
}

// guardedByEquivalentIndex: the nil test and the dereference go through two
// IndexAddr instructions with identical base and index values.
func guardedByEquivalentIndex(c *Ctx, f *ssa.Function, s nilSite) (bool, string) {
	root, ok := s.path.Root.(*ssa.IndexAddr)
	if !ok {
		return false, ""
	}
	for _, b := range f.Blocks {
		if len(b.Instrs) == 0 {
			continue
		}
		ifi, ok := b.Instrs[len(b.Instrs)-1].(*ssa.If)
		if !ok {
			continue
		}
		bo, ok := ifi.Cond.(*ssa.BinOp)
		if !ok || (bo.Op != token.NEQ && bo.Op != token.EQL) {
			continue
		}
		var q ssa.Value
		if isNilConst(bo.Y) {
			q = bo.X
		} else if isNilConst(bo.X) {
			q = bo.Y
		} else {
			continue
		}
		qp, ok := pathOf(q)
		if !ok {
			continue
		}
		qr, ok := qp.Root.(*ssa.IndexAddr)
		if !ok || qr.X != root.X || qr.Index != root.Index || strings.Join(qp.Elems, ".") != strings.Join(s.path.Elems, ".") {
			continue
		}
		nonNil := b.Succs[0]
		if bo.Op == token.EQL {
			nonNil = b.Succs[1]
		}
		if edgeDominates(b, nonNil, s.ins.Block()) {
			return true, "non-nil edge of the test of the same table entry at " + posOf(c, ifi) + " dominates"
		}
	}
	return false, ""
}

// c16Progress: in each loop that scans the input, the cursor grows by >= 1.
func c16Progress(c *Ctx, r *Report, posts map[*ssa.Function]*postCond) {
	for _, name := range []string{"ParseField", "parseTagAndLength"} {
		f := c.fn("cdr/asn", name)
		e := newRelEngine(c, f, posts)
		e.prime()
		n := 0
		for _, b := range f.Blocks {
			for _, ins := range b.Instrs {
				ph, ok := ins.(*ssa.Phi)
				if !ok {
					break
				}
				if !isIntegerType(ph.Type()) {
					continue
				}
				// a loop-carried cursor compared with the input length in the loop condition
				isCursor := false
				for _, ref := range *ph.Referrers() {
					if bo, ok := ref.(*ssa.BinOp); ok && (bo.Op == token.LSS || bo.Op == token.LEQ) && bo.X == ssa.Value(ph) {
						yf := e.fe.eval(bo.Y).String()
						if strings.Contains(yf, "len(") {
							for _, r2 := range *bo.Referrers() {
								if _, ok := r2.(*ssa.If); ok {
									isCursor = true
								}
							}
						}
					}
				}
				if !isCursor {
					continue
				}
				key := e.fe.atomKeyOf(ph)
				for i, edge := range ph.Edges {
					pred := b.Preds[i]
					if !b.Dominates(pred) {
						continue // entry edge
					}
					n++
					form := e.fe.eval(edge)
					inc := polyAdd(form, atomPoly(key), -1)
					// inc >= 1  <=>  1 - inc <= 0
					ok, why := e.prove(polyAdd(constPoly(1), inc, -1), 0, pred, b)
					k := fmt.Sprintf("%s|cursor %s#%d", fnKey(f), ph.Comment, n)
					r.check(ok, "C16.R3", k, posOf(c, ph), "each iteration advances the cursor by "+inc.String()+" >= 1 "+why, "the scanning loop may not advance (cursor grows by "+inc.String()+", not shown >= 1): crafted input makes the decoder loop for ever")
				}
			}
		}
	}
}

// c16ReflectSet: in the special-type cases of ParseField, reflect's Set gets a
// value whose static type is assignable to the case's type.
func c16ReflectSet(c *Ctx, r *Report) {
	f := c.fn("cdr/asn", "ParseField")
	asn := c.pkg("cdr/asn")
	// global reflect.Type variables -> the Go type they denote (read from the initialiser)
	typeOfGlobal := map[string]types.Type{}
	initFn := c.SSA[asnPath].Func("init")
	if initFn != nil {
		eachInstr(initFn, func(_ *ssa.BasicBlock, _ int, ins ssa.Instruction) {
			st, ok := ins.(*ssa.Store)
			if !ok {
				return
			}
			g, ok := st.Addr.(*ssa.Global)
			if !ok {
				return
			}
			call, ok := st.Val.(*ssa.Call)
			if !ok || !isFunc(calleeObj(&call.Call), "reflect", "TypeOf") {
				return
			}
			if mi, ok := call.Call.Args[0].(*ssa.MakeInterface); ok {
				typeOfGlobal[g.Name()] = mi.X.Type()
			}
		})
	}
	_ = asn
	n := 0
	for _, b := range f.Blocks {
		if len(b.Instrs) == 0 {
			continue
		}
		ifi, ok := b.Instrs[len(b.Instrs)-1].(*ssa.If)
		if !ok {
			continue
		}
		bo, ok := ifi.Cond.(*ssa.BinOp)
		if !ok || bo.Op != token.EQL {
			continue
		}
		var gname string
		for _, v := range []ssa.Value{bo.X, bo.Y} {
			if ld, ok := v.(*ssa.UnOp); ok && ld.Op == token.MUL {
				if g, ok := ld.X.(*ssa.Global); ok {
					gname = g.Name()
				}
			}
		}
		T, ok := typeOfGlobal[gname]
		if !ok {
			continue
		}
		caseBlk := b.Succs[0]
		// Set calls in blocks dominated by the case edge, before the case returns
		for _, blk := range f.Blocks {
			if !edgeDominates(b, caseBlk, blk) {
				continue
			}
			for _, ins := range blk.Instrs {
				call, ok := ins.(*ssa.Call)
				if !ok || !isFunc(calleeObj(&call.Call), "reflect", "Value.Set") {
					continue
				}
				n++
				key := fmt.Sprintf("%s|Set in case %s", fnKey(f), gname)
				var valT types.Type
				if vo, ok := call.Call.Args[1].(*ssa.Call); ok && isFunc(calleeObj(&vo.Call), "reflect", "ValueOf") {
					if mi, ok := vo.Call.Args[0].(*ssa.MakeInterface); ok {
						valT = mi.X.Type()
					}
				}
				if valT == nil {
					r.viol("C16.R5", key, posOf(c, call), "cannot determine the type of the value handed to reflect Set")
					continue
				}
				r.check(types.AssignableTo(valT, T), "C16.R5", key, posOf(c, call), types.TypeString(valT, shortQual)+" is assignable to "+types.TypeString(T, shortQual),
					"reflect.Value.Set is given a "+types.TypeString(valT, shortQual)+" for a target of type "+types.TypeString(T, shortQual)+": not assignable, reflect panics for every input that reaches a member of that type")
			}
		}
	}
	if n == 0 {
		r.viol("C16.R5", fnKey(f)+"|Set", c.rel(f.Pos()), "no reflect Set found in the special-type cases (anchor moved)")
	}
}

// signExtends decides whether every non-error result #0 of f is a two's
// complement reading of its byte argument: either the unsigned accumulation
// shifted up and (arithmetically) down by the same distance, or an
// accumulation that starts from the first octet converted through int8, or a
// call of such a function (possibly followed by that shift pair).
func signExtends(f *ssa.Function, depth int) (bool, string) {
	if f == nil || len(f.Blocks) == 0 || depth > 2 {
		return false, "no body"
	}
	n := 0
	for _, ri := range returnsOf(f) {
		if len(ri.Vals) < 1 {
			continue
		}
		if len(ri.Vals) >= 2 {
			if call, ok := ri.Vals[len(ri.Vals)-1].(*ssa.Call); ok {
				if obj := calleeObj(&call.Call); obj != nil && (isFunc(obj, "fmt", "Errorf") || isFunc(obj, "errors", "New")) {
					continue
				}
			}
		}
		v := ri.Vals[0]
		if k, ok := v.(*ssa.Const); ok {
			if _, isInt := constInt(k); isInt {
				continue // constant result on an early exit
			}
		}
		// results that merge an early-exit value with the computed one
		leaves := []ssa.Value{v}
		if ph, ok := v.(*ssa.Phi); ok {
			leaves = ph.Edges
		}
		for _, lf := range leaves {
			if ex, ok := lf.(*ssa.Extract); ok && ex.Index == 0 {
				if call, ok := ex.Tuple.(*ssa.Call); ok {
					if okc, _ := shiftOrAccumulation(call.Call.StaticCallee()); okc {
						// the unchanged unsigned value: only where there is nothing to extend - the
						// contents are empty or the parse failed
						if why := unextendedOnlyWhenEmpty(ri.At); why != "" {
							return false, why
						}
						continue
					}
				}
			}
			n++
			shr, ok := lf.(*ssa.BinOp)
			if !ok || shr.Op != token.SHR {
				if ex, ok := lf.(*ssa.Extract); ok {
					if call, ok := ex.Tuple.(*ssa.Call); ok {
						if okc, _ := signExtends(call.Call.StaticCallee(), depth+1); okc {
							continue
						}
					}
				}
				return false, "the result " + describe(lf) + " is not (x << s) >> s on a signed 64-bit value"
			}
			if b, ok := shr.X.Type().Underlying().(*types.Basic); !ok || b.Kind() != types.Int64 {
				return false, "the right shift is not arithmetic (operand is not int64)"
			}
			shl, ok := shr.X.(*ssa.BinOp)
			if !ok || shl.Op != token.SHL {
				return false, "the value shifted down was not shifted up before"
			}
			if shl.Y != shr.Y {
				return false, "the two shift distances differ"
			}
		}
	}
	if n == 0 {
		return false, "no sign-extended result"
	}
	return true, ""
}

// c05IntegerSigned (C05.R7): INTEGER and ENUMERATED contents are two's
// complement (X.690 8.3).  The encoder writes negative values with the top bit
// of the first contents octet set and in as few octets as possible, so a
// decoder that accumulates the octets as an unsigned quantity cannot return a
// negative value of fewer than 8 octets: decode(encode(-1)) = 255.  The rule
// inspects the function ParseField obtains integer values from.
func c05IntegerSigned(c *Ctx, r *Report, rule string) {
	pf := c.fn("cdr/asn", "ParseField")
	ptl := c.fn("cdr/asn", "parseTagAndLength")
	n := 0
	eachInstr(pf, func(_ *ssa.BasicBlock, _ int, ins ssa.Instruction) {
		call, ok := ins.(*ssa.Call)
		if !ok {
			return
		}
		sc := call.Call.StaticCallee()
		if sc == nil || sc == ptl || sc == pf || !c.inModule(sc) || len(call.Call.Args) == 0 || !isByteSeq(call.Call.Args[0].Type()) {
			return
		}
		res := sc.Signature.Results()
		if res.Len() < 1 {
			return
		}
		if b, ok := res.At(0).Type().Underlying().(*types.Basic); !ok || b.Kind() != types.Int64 {
			return
		}
		n++
		key := fmt.Sprintf("%s|integer contents #%d", fnKey(pf), n)
		if okU, _ := shiftOrAccumulation(sc); okU {
			r.viol(rule, key, posOf(c, call), "INTEGER / ENUMERATED contents are read by "+sc.Name()+", a plain unsigned accumulation of the octets: a negative value (encoded with the top bit of its first octet set, in fewer than 8 octets) decodes to a positive one, e.g. decode(encode(-1)) = 255")
			return
		}
		okS, why := signExtends(sc, 0)
		r.check(okS, rule, key, posOf(c, call), "contents are read as a two's complement number ("+sc.Name()+" sign-extends)", "cannot establish that "+sc.Name()+" reads the contents as a two's complement number: "+why)
	})
}

func hasByteSeqParam(f *ssa.Function) bool {
	for _, p := range f.Params {
		if isByteSeq(p.Type()) {
			return true
		}
	}
	return false
}

// hasOctetParam: the function takes the input octets or one of them.
func hasOctetParam(f *ssa.Function) bool {
	for _, p := range f.Params {
		if isByteSeq(p.Type()) {
			return true
		}
		if b, ok := p.Type().Underlying().(*types.Basic); ok && b.Kind() == types.Uint8 {
			return true
		}
	}
	return false
}

// hasByteSliceParam: the function takes (part of) the input octets; strings
// (struct tags, parameter strings) are not input.
func hasByteSliceParam(f *ssa.Function) bool {
	for _, p := range f.Params {
		if sl, ok := p.Type().Underlying().(*types.Slice); ok && sizeOfBasic(sl.Elem()) == 1 {
			return true
		}
	}
	return false
}

// unextendedOnlyWhenEmpty: every edge into the block that returns the unsigned value is taken
// only with an error or with empty contents (len == 0).  "" when so.
func unextendedOnlyWhenEmpty(b *ssa.BasicBlock) string {
	for _, p := range b.Preds {
		if len(p.Instrs) == 0 || len(p.Succs) != 2 {
			if len(p.Succs) == 1 {
				// a plain jump: look one block up
				if w := unextendedOnlyWhenEmpty(p); w != "" {
					return w
				}
				continue
			}
			return "the unsigned value is returned on a path whose condition is not understood"
		}
		iff, ok := p.Instrs[len(p.Instrs)-1].(*ssa.If)
		if !ok {
			return "the unsigned value is returned on a path whose condition is not understood"
		}
		taken := p.Succs[0] == b // the condition holds on this edge
		bo, ok := iff.Cond.(*ssa.BinOp)
		if !ok {
			return "the unsigned value is returned on a path whose condition is not understood"
		}
		// error test
		if isNilConst(bo.Y) || isNilConst(bo.X) {
			if (bo.Op == token.NEQ && taken) || (bo.Op == token.EQL && !taken) {
				continue
			}
			return "the unsigned value is returned on the path without error and without a test of the length"
		}
		// length test: which lengths reach this edge?
		lenCall := func(v ssa.Value) bool {
			call, ok := stripConv(v).(*ssa.Call)
			if !ok {
				return false
			}
			bi, ok := call.Call.Value.(*ssa.Builtin)
			return ok && bi.Name() == "len"
		}
		k, isK := constInt(bo.Y)
		if !isK || !lenCall(bo.X) {
			return "the unsigned value is returned on a path whose condition is not a test of the contents length"
		}
		holds := func(n int64) bool {
			var v bool
			switch bo.Op {
			case token.EQL:
				v = n == k
			case token.NEQ:
				v = n != k
			case token.LSS:
				v = n < k
			case token.LEQ:
				v = n <= k
			case token.GTR:
				v = n > k
			case token.GEQ:
				v = n >= k
			}
			return v == taken
		}
		for n := int64(1); n <= 7; n++ {
			if holds(n) {
				return fmt.Sprintf("contents of %d octet(s) are returned without sign extension (the guard in front of the extension lets them through): a negative value of that length decodes to a positive one, e.g. 0x80 to 128 instead of -128", n)
			}
		}
	}
	return ""
}

// c16TagNumberWriters (C16.R7 / C04.R13): who may write fieldParameters.tagNumber.
func c16TagNumberWriters(c *Ctx, r *Report, rule string) {
	f := c.fn("cdr/asn", "parseFieldParameters")
	// edges on which the part is known to start with "tagNum:"
	type edge struct{ from, to *ssa.BasicBlock }
	var tagEdges []edge
	for _, b := range f.Blocks {
		if len(b.Instrs) == 0 || len(b.Succs) != 2 {
			continue
		}
		iff, ok := b.Instrs[len(b.Instrs)-1].(*ssa.If)
		if !ok {
			continue
		}
		for d := range depSet(f, iff.Cond) {
			call, ok := d.(*ssa.Call)
			if !ok {
				continue
			}
			obj := calleeObj(&call.Call)
			if obj == nil || obj.Pkg() == nil || obj.Pkg().Path() != "strings" || (obj.Name() != "HasPrefix" && obj.Name() != "CutPrefix") || len(call.Call.Args) != 2 {
				continue
			}
			if s, ok := constString(call.Call.Args[1]); ok && strings.HasPrefix(s, "tagNum") {
				tagEdges = append(tagEdges, edge{b, b.Succs[0]})
			}
		}
	}
	n := 0
	eachInstr(f, func(_ *ssa.BasicBlock, _ int, ins ssa.Instruction) {
		st, ok := ins.(*ssa.Store)
		if !ok {
			return
		}
		// params.tagNumber = p   or   *params.tagNumber = v
		isTag := false
		if fa, ok := st.Addr.(*ssa.FieldAddr); ok && fieldName(fa) == "tagNumber" {
			isTag = true
		}
		if ld, ok := st.Addr.(*ssa.UnOp); ok && ld.Op == token.MUL {
			if fa, ok := ld.X.(*ssa.FieldAddr); ok && fieldName(fa) == "tagNumber" {
				isTag = true
			}
		}
		if !isTag {
			return
		}
		n++
		behind := false
		for _, e := range tagEdges {
			if e.from.Succs[0] != e.from.Succs[1] && edgeDominates(e.from, e.to, st.Block()) {
				behind = true
			}
		}
		r.check(behind, rule, fmt.Sprintf("%s|assignment of tagNumber #%d", fnKey(f), n), posOf(c, st), "behind the test for the tagNum: prefix", "fieldParameters.tagNumber is assigned outside the branch that handles the `tagNum:` parameter (another parameter - a default value, a size - is taken for the tag number): members without a declared tag are encoded with, and matched against, a number their type does not declare")
	})
	if n == 0 {
		r.proven(rule, fnKey(f)+"|tagNumber", c.rel(f.Pos()), "the tag parser does not assign fieldParameters.tagNumber itself (a table of parameter handlers does): no assignment here that could sit in the wrong branch")
	}
}

// c16TagOctetBound (C16.R8): the cursor that counts the octets of a high tag number is
// compared with a constant on the way to an error exit; with the identifier octet at index 0,
// at most 9 further octets (cursor <= 10) may be accepted.
func c16TagOctetBound(c *Ctx, r *Report, rule string) {
	f := c.fn("cdr/asn", "parseTagAndLength")
	key := fnKey(f) + "|octets of a high tag number"
	// the loop that shifts by 7, and the counter it increments
	var counter *ssa.Phi
	for _, b := range f.Blocks {
		if !inCycle(b) {
			continue
		}
		hasShl := false
		for _, ins := range b.Instrs {
			if bo, ok := ins.(*ssa.BinOp); ok && bo.Op == token.SHL {
				if k, ok := constInt(bo.Y); ok && k == 7 {
					hasShl = true
				}
			}
		}
		if !hasShl {
			continue
		}
		for _, ins := range b.Instrs {
			bo, ok := ins.(*ssa.BinOp)
			if !ok || bo.Op != token.ADD {
				continue
			}
			if k, ok := constInt(bo.Y); ok && k == 1 {
				if ph, ok := bo.X.(*ssa.Phi); ok && isIntegerType(ph.Type()) {
					counter = ph
				}
			}
		}
	}
	if counter == nil {
		r.proven(rule, key, c.rel(f.Pos()), "no base-128 accumulation loop with an octet counter in the tag parser: nothing to bound here (C16.R1 covers the accesses)")
		return
	}
	best := int64(-1)
	for _, b := range f.Blocks {
		if len(b.Instrs) == 0 || len(b.Succs) != 2 {
			continue
		}
		iff, ok := b.Instrs[len(b.Instrs)-1].(*ssa.If)
		if !ok {
			continue
		}
		bo, ok := iff.Cond.(*ssa.BinOp)
		if !ok || (bo.Op != token.GTR && bo.Op != token.GEQ) {
			continue
		}
		k, isK := constInt(bo.Y)
		if !isK {
			continue
		}
		// the compared value is the cursor itself (its value in or behind the loop), not
		// something read at the cursor
		var isCursor func(v ssa.Value, d int) bool
		isCursor = func(v ssa.Value, d int) bool {
			v = stripConv(v)
			if d > 6 {
				return false
			}
			switch x := v.(type) {
			case *ssa.Phi:
				if x == counter {
					return true
				}
				any := false
				for _, e := range x.Edges {
					if _, isK := constInt(e); isK {
						continue
					}
					if !isCursor(e, d+1) {
						return false
					}
					any = true
				}
				return any
			case *ssa.BinOp:
				if x.Op == token.ADD {
					if _, isK := constInt(x.Y); isK {
						return isCursor(x.X, d+1)
					}
				}
			}
			return false
		}
		if !isCursor(bo.X, 0) {
			continue
		}
		// the true edge must be an error exit
		rejects := false
		for _, ri := range returnsOf(f) {
			if len(ri.Vals) > 0 && !isNilConst(ri.Vals[len(ri.Vals)-1]) && edgeDominates(b, b.Succs[0], ri.At) {
				if _, isCall := ri.Vals[len(ri.Vals)-1].(*ssa.Call); isCall {
					rejects = true
				}
			}
		}
		if !rejects {
			continue
		}
		max := k
		if bo.Op == token.GEQ {
			max = k - 1
		}
		if best < 0 || max < best {
			best = max
		}
	}
	switch {
	case best < 0:
		r.viol(rule, key, c.rel(counter.Pos()), "nothing bounds the number of octets of a high tag number: a long run of continuation octets wraps the 64-bit accumulator, and the element is taken for a member with a small tag")
	default:
		r.check(best <= 10, rule, key, c.rel(counter.Pos()), fmt.Sprintf("at most %d octets after the identifier octet are accepted", best-1), fmt.Sprintf("up to %d tag-number octets are accepted (cursor <= %d): %d x 7 bits do not fit the 64-bit accumulator, so tag 2^64+k wraps to k and an element with that tag is decoded into the member tagged k instead of being refused", best-1, best, best-1))
	}
}
