package main

import (
	"go/token"
	"go/types"

	"golang.org/x/tools/go/ssa"
)

// Read-only package-level tables.
//
// tableFieldValues: v is member `f` of an element of a package-level map,
// slice or array that is initialised by a composite literal and never written
// afterwards - reached through a look-up, an index or a range, and possibly
// through a local copy of the element (struct values live in memory).  The
// result is the set of constant integer values the member has in the literal
// (0 for elements that do not set it).

func tableFieldValues(c *Ctx, v ssa.Value) ([]int64, bool) {
	v = stripConv(v)
	// the member: a Field of a struct value, or a load of a FieldAddr
	var elem ssa.Value
	field := -1
	switch x := v.(type) {
	case *ssa.Field:
		elem, field = x.X, x.Field
	case *ssa.UnOp:
		if x.Op != token.MUL {
			return nil, false
		}
		fa, ok := x.X.(*ssa.FieldAddr)
		if !ok {
			return nil, false
		}
		field = fa.Field
		// the struct the address belongs to: a local copy, or an element address
		switch a := fa.X.(type) {
		case *ssa.Alloc:
			// exactly one store of a whole element into the local
			var src ssa.Value
			n := 0
			for _, ref := range *a.Referrers() {
				if st, ok := ref.(*ssa.Store); ok && st.Addr == ssa.Value(a) {
					n++
					src = st.Val
				}
			}
			if n != 1 {
				return nil, false
			}
			elem = src
		case *ssa.IndexAddr:
			elem = a // address of an element
		default:
			return nil, false
		}
	default:
		return nil, false
	}
	g := tableOfElement(elem, 0)
	if g == nil {
		return nil, false
	}
	return tableLiteralField(c, g, field)
}

// tableOfElement: the package-level variable an element value / address was taken from.
func tableOfElement(e ssa.Value, depth int) *ssa.Global {
	if depth > 6 || e == nil {
		return nil
	}
	switch x := e.(type) {
	case *ssa.Extract: // v, ok := table[key]
		return tableOfElement(x.Tuple, depth+1)
	case *ssa.Lookup:
		return globalOfLoad(x.X)
	case *ssa.UnOp: // *(&table[i])
		if x.Op == token.MUL {
			return tableOfElement(x.X, depth+1)
		}
	case *ssa.IndexAddr:
		return globalOfLoad(x.X)
	case *ssa.Index:
		return globalOfLoad(x.X)
	case *ssa.Phi:
		var g *ssa.Global
		for _, ed := range x.Edges {
			g2 := tableOfElement(ed, depth+1)
			if g2 == nil || (g != nil && g2 != g) {
				return nil
			}
			g = g2
		}
		return g
	}
	return nil
}

func globalOfLoad(v ssa.Value) *ssa.Global {
	switch x := v.(type) {
	case *ssa.UnOp:
		if x.Op == token.MUL {
			if g, ok := x.X.(*ssa.Global); ok {
				return g
			}
		}
	case *ssa.Global: // arrays are indexed through their address
		return x
	}
	return nil
}

// tableLiteralField collects the constant values of member `field` over the
// elements of the composite literal that initialises g; fails if g is written
// anywhere else in the module.
func tableLiteralField(c *Ctx, g *ssa.Global, field int) ([]int64, bool) {
	if g.Pkg == nil {
		return nil, false
	}
	init := g.Pkg.Func("init")
	if init == nil {
		return nil, false
	}
	// no writer outside init, and no store through a load of g (map update / element store)
	for _, f := range c.ModFuncs {
		if f == init {
			continue
		}
		bad := false
		eachInstr(f, func(_ *ssa.BasicBlock, _ int, ins ssa.Instruction) {
			switch x := ins.(type) {
			case *ssa.Store:
				if x.Addr == ssa.Value(g) {
					bad = true
				}
				if ia, ok := x.Addr.(*ssa.IndexAddr); ok && globalOfLoad(ia.X) == g {
					bad = true
				}
			case *ssa.MapUpdate:
				if globalOfLoad(x.Map) == g {
					bad = true
				}
			}
		})
		if bad {
			return nil, false
		}
	}
	// the literal: what init stores into g
	var lit ssa.Value
	nst := 0
	eachInstr(init, func(_ *ssa.BasicBlock, _ int, ins ssa.Instruction) {
		if st, ok := ins.(*ssa.Store); ok && st.Addr == ssa.Value(g) {
			nst++
			lit = st.Val
		}
	})
	var elems []ssa.Value
	switch {
	case nst == 1:
		switch x := lit.(type) {
		case *ssa.MakeMap:
			for _, ref := range *x.Referrers() {
				if mu, ok := ref.(*ssa.MapUpdate); ok && mu.Map == ssa.Value(x) {
					elems = append(elems, mu.Value)
				}
			}
		case *ssa.Slice:
			if a, ok := x.X.(*ssa.Alloc); ok {
				elems = arrayLiteralElems(a)
			}
		default:
			return nil, false
		}
	case nst == 0:
		// an array variable is filled in place: stores through &g[i]
		eachInstr(init, func(_ *ssa.BasicBlock, _ int, ins ssa.Instruction) {
			if ia, ok := ins.(*ssa.IndexAddr); ok && ia.X == ssa.Value(g) {
				elems = append(elems, ia)
			}
		})
	default:
		return nil, false
	}
	if len(elems) == 0 {
		return nil, false
	}
	seen := map[int64]bool{}
	var out []int64
	for _, e := range elems {
		k, ok := literalFieldConst(e, field)
		if !ok {
			return nil, false
		}
		if !seen[k] {
			seen[k] = true
			out = append(out, k)
		}
	}
	return out, true
}

// arrayLiteralElems: the element addresses of the backing array of a slice literal.
func arrayLiteralElems(a *ssa.Alloc) []ssa.Value {
	var out []ssa.Value
	for _, ref := range *a.Referrers() {
		if ia, ok := ref.(*ssa.IndexAddr); ok && ia.X == ssa.Value(a) {
			out = append(out, ia)
		}
	}
	return out
}

// literalFieldConst: the constant stored into member `field` of a literal
// element given as a struct value (load of a complit local) or as the address
// the element is built at; 0 when the literal does not set the member.
func literalFieldConst(e ssa.Value, field int) (int64, bool) {
	var addr ssa.Value
	switch x := e.(type) {
	case *ssa.UnOp:
		if x.Op != token.MUL {
			return 0, false
		}
		addr = x.X
	case *ssa.IndexAddr, *ssa.Alloc:
		addr = x
	default:
		return 0, false
	}
	refs := addr.Referrers()
	if refs == nil {
		return 0, false
	}
	if _, isStruct := derefType(addr.Type()).Underlying().(*types.Struct); !isStruct {
		return 0, false
	}
	val, found := int64(0), false
	for _, ref := range *refs {
		switch y := ref.(type) {
		case *ssa.FieldAddr:
			if y.X != addr || y.Field != field {
				continue
			}
			for _, r2 := range *y.Referrers() {
				if st, ok := r2.(*ssa.Store); ok && st.Addr == ssa.Value(y) {
					k, ok := constInt(st.Val)
					if !ok || found {
						return 0, false
					}
					val, found = k, true
				}
			}
		case *ssa.Store:
			// a whole-struct store into the element: follow the source literal
			if y.Addr == addr {
				return literalFieldConst(y.Val, field)
			}
		}
	}
	return val, true
}

func derefType(t types.Type) types.Type {
	if p, ok := t.Underlying().(*types.Pointer); ok {
		return p.Elem()
	}
	return t
}
