package main

import (
	"fmt"
	"go/constant"
	"go/token"
	"go/types"
	"sort"
	"strings"

	"golang.org/x/tools/go/callgraph"
	"golang.org/x/tools/go/callgraph/cha"
	"golang.org/x/tools/go/ssa"
)

// ---------------------------------------------------------------------------
// call graph (CHA, restricted to callers inside the module)

type cgraph struct {
	g     *callgraph.Graph
	out   map[*ssa.Function][]*ssa.Function
	sites map[*ssa.Function]map[ssa.CallInstruction][]*ssa.Function
}

func (c *Ctx) callgraph() *cgraph {
	if c.cg != nil {
		return c.cg
	}
	g := cha.CallGraph(c.Prog)
	cg := &cgraph{g: g, out: map[*ssa.Function][]*ssa.Function{}, sites: map[*ssa.Function]map[ssa.CallInstruction][]*ssa.Function{}}
	for fn, n := range g.Nodes {
		if fn == nil || !c.inModule(fn) {
			continue
		}
		seen := map[*ssa.Function]bool{}
		for _, e := range n.Out {
			callee := e.Callee.Func
			if callee == nil {
				continue
			}
			// resolve bound-method and thunk wrappers to their targets as well
			if !seen[callee] {
				seen[callee] = true
				cg.out[fn] = append(cg.out[fn], callee)
			}
			if e.Site != nil {
				if cg.sites[fn] == nil {
					cg.sites[fn] = map[ssa.CallInstruction][]*ssa.Function{}
				}
				cg.sites[fn][e.Site] = append(cg.sites[fn][e.Site], callee)
			}
		}
	}
	c.cg = cg
	return cg
}

func (c *Ctx) inModule(f *ssa.Function) bool {
	if f == nil {
		return false
	}
	for f.Parent() != nil {
		f = f.Parent()
	}
	if f.Pkg != nil {
		return strings.HasPrefix(f.Pkg.Pkg.Path(), modPath)
	}
	if o := f.Origin(); o != nil && o.Pkg != nil {
		return strings.HasPrefix(o.Pkg.Pkg.Path(), modPath)
	}
	if obj := f.Object(); obj != nil && obj.Pkg() != nil {
		return strings.HasPrefix(obj.Pkg().Path(), modPath)
	}
	return false
}

// calleesAt returns the possible callees of one call instruction.
func (c *Ctx) calleesAt(call ssa.CallInstruction) []*ssa.Function {
	if sc := call.Common().StaticCallee(); sc != nil {
		return []*ssa.Function{sc}
	}
	cg := c.callgraph()
	return cg.sites[call.Parent()][call]
}

// reach computes the set of functions reachable from roots through the call
// graph and, for each, one predecessor (for path reporting).
func (c *Ctx) reach(roots []*ssa.Function) (map[*ssa.Function]bool, map[*ssa.Function]*ssa.Function) {
	cg := c.callgraph()
	seen := map[*ssa.Function]bool{}
	pred := map[*ssa.Function]*ssa.Function{}
	var q []*ssa.Function
	for _, r := range roots {
		if r != nil && !seen[r] {
			seen[r] = true
			q = append(q, r)
		}
	}
	for len(q) > 0 {
		f := q[0]
		q = q[1:]
		outs := append([]*ssa.Function{}, cg.out[f]...)
		// anonymous functions created in f are considered reachable from f
		// (they are either called or handed to something that calls them)
		outs = append(outs, f.AnonFuncs...)
		for _, o := range outs {
			if !seen[o] {
				seen[o] = true
				pred[o] = f
				q = append(q, o)
			}
		}
	}
	return seen, pred
}

func pathTo(pred map[*ssa.Function]*ssa.Function, f *ssa.Function) string {
	var parts []string
	for f != nil {
		parts = append([]string{shortFn(f)}, parts...)
		f = pred[f]
		if len(parts) > 12 {
			break
		}
	}
	return strings.Join(parts, " -> ")
}

func shortFn(f *ssa.Function) string {
	s := f.String()
	s = strings.ReplaceAll(s, modPath+"/", "")
	return s
}

// fnKey is the stable key of a function used in obligation keys.
func fnKey(f *ssa.Function) string { return shortFn(f) }

// ---------------------------------------------------------------------------
// call helpers

// calleeObj returns the *types.Func a call resolves to statically: the static
// callee's object, or the interface method for invoke-mode calls.
func calleeObj(call *ssa.CallCommon) *types.Func {
	if call.IsInvoke() {
		return call.Method
	}
	if sc := call.StaticCallee(); sc != nil {
		if o, ok := sc.Object().(*types.Func); ok {
			return o
		}
		if org := sc.Origin(); org != nil {
			if o, ok := org.Object().(*types.Func); ok {
				return o
			}
		}
	}
	return nil
}

// isFunc reports whether obj is the function/method pkgpath.[Type.]name.
func isFunc(obj *types.Func, pkgpath, name string) bool {
	if obj == nil || obj.Pkg() == nil || obj.Pkg().Path() != pkgpath {
		return false
	}
	return funcLocalName(obj) == name
}

// funcLocalName returns "Name" for functions and "Type.Name" for methods.
func funcLocalName(obj *types.Func) string {
	sig := obj.Type().(*types.Signature)
	if recv := sig.Recv(); recv != nil {
		t := recv.Type()
		if p, ok := t.(*types.Pointer); ok {
			t = p.Elem()
		}
		if n, ok := t.(*types.Named); ok {
			return n.Obj().Name() + "." + obj.Name()
		}
		if _, ok := t.Underlying().(*types.Interface); ok {
			return "?." + obj.Name()
		}
	}
	return obj.Name()
}

func callIs(ins ssa.Instruction, pkgpath, name string) (*ssa.CallCommon, bool) {
	ci, ok := ins.(ssa.CallInstruction)
	if !ok {
		return nil, false
	}
	cc := ci.Common()
	if isFunc(calleeObj(cc), pkgpath, name) {
		return cc, true
	}
	return nil, false
}

// eachInstr visits every instruction of f.
func eachInstr(f *ssa.Function, visit func(b *ssa.BasicBlock, i int, ins ssa.Instruction)) {
	for _, b := range f.Blocks {
		for i, ins := range b.Instrs {
			visit(b, i, ins)
		}
	}
}

// withAnon returns f and all functions nested in it.
func withAnon(f *ssa.Function) []*ssa.Function {
	out := []*ssa.Function{f}
	for _, a := range f.AnonFuncs {
		out = append(out, withAnon(a)...)
	}
	return out
}

func constInt(v ssa.Value) (int64, bool) {
	if c, ok := v.(*ssa.Const); ok && c.Value != nil && c.Value.Kind() == constant.Int {
		if i, ok := constant.Int64Val(c.Value); ok {
			return i, true
		}
		if u, ok := constant.Uint64Val(c.Value); ok {
			return int64(u), true
		}
	}
	return 0, false
}

func constString(v ssa.Value) (string, bool) {
	if c, ok := v.(*ssa.Const); ok && c.Value != nil && c.Value.Kind() == constant.String {
		return constant.StringVal(c.Value), true
	}
	return "", false
}

// stripConv removes value-preserving wrappers (ChangeType, Convert, MakeInterface).
func stripConv(v ssa.Value) ssa.Value {
	for {
		switch x := v.(type) {
		case *ssa.ChangeType:
			v = x.X
		case *ssa.Convert:
			v = x.X
		case *ssa.MakeInterface:
			v = x.X
		case *ssa.ChangeInterface:
			v = x.X
		default:
			return v
		}
	}
}

// ---------------------------------------------------------------------------
// CFG helpers

// reachableAvoiding computes the blocks reachable from the entry block of f
// without traversing the edge from->to (both may be nil) and without entering
// the blocks in `avoid`.
func reachableFrom(start *ssa.BasicBlock, avoidEdgeFrom, avoidEdgeTo *ssa.BasicBlock, avoid map[*ssa.BasicBlock]bool) map[*ssa.BasicBlock]bool {
	seen := map[*ssa.BasicBlock]bool{}
	if avoid[start] {
		return seen
	}
	stack := []*ssa.BasicBlock{start}
	seen[start] = true
	for len(stack) > 0 {
		b := stack[len(stack)-1]
		stack = stack[:len(stack)-1]
		for _, s := range b.Succs {
			if b == avoidEdgeFrom && s == avoidEdgeTo {
				continue
			}
			if avoid[s] || seen[s] {
				continue
			}
			seen[s] = true
			stack = append(stack, s)
		}
	}
	return seen
}

// edgeDominates reports whether every path from the entry to blk passes the
// CFG edge from->to.
func edgeDominates(from, to, blk *ssa.BasicBlock) bool {
	f := from.Parent()
	r := reachableFrom(f.Blocks[0], from, to, nil)
	return !r[blk]
}

// instrIndex returns the index of ins in its block.
func instrIndex(ins ssa.Instruction) int {
	for i, x := range ins.Block().Instrs {
		if x == ins {
			return i
		}
	}
	return -1
}

// instrDominates: a is executed before b on every path reaching b.
func instrDominates(a, b ssa.Instruction) bool {
	if a.Block() == b.Block() {
		return instrIndex(a) < instrIndex(b)
	}
	return a.Block().Dominates(b.Block())
}

// canReach reports whether there is a CFG path from instruction a to instruction b
// (a strictly before b).
func canReach(a, b ssa.Instruction) bool {
	if a.Block() == b.Block() && instrIndex(a) < instrIndex(b) {
		return true
	}
	r := map[*ssa.BasicBlock]bool{}
	var stack []*ssa.BasicBlock
	for _, s := range a.Block().Succs {
		if !r[s] {
			r[s] = true
			stack = append(stack, s)
		}
	}
	for len(stack) > 0 {
		x := stack[len(stack)-1]
		stack = stack[:len(stack)-1]
		for _, s := range x.Succs {
			if !r[s] {
				r[s] = true
				stack = append(stack, s)
			}
		}
	}
	return r[b.Block()]
}

// exits returns the blocks of f that end in Return or Panic.
func exitBlocks(f *ssa.Function) (rets, panics []*ssa.BasicBlock) {
	for _, b := range f.Blocks {
		if len(b.Instrs) == 0 {
			continue
		}
		switch b.Instrs[len(b.Instrs)-1].(type) {
		case *ssa.Return:
			rets = append(rets, b)
		case *ssa.Panic:
			panics = append(panics, b)
		}
	}
	return
}

// mustPassBefore reports whether every path from the entry of f to `target`
// passes through one of the instructions in `through` first.
func mustPassBefore(f *ssa.Function, through []ssa.Instruction, target ssa.Instruction) bool {
	for _, t := range through {
		if t.Block() == target.Block() && instrIndex(t) < instrIndex(target) {
			return true
		}
	}
	avoid := map[*ssa.BasicBlock]bool{}
	for _, t := range through {
		if t.Block() != target.Block() {
			avoid[t.Block()] = true
		}
	}
	// If entry block itself contains a through-instruction it is avoided.
	r := reachableFrom(f.Blocks[0], nil, nil, avoid)
	return !r[target.Block()]
}

// ---------------------------------------------------------------------------
// value provenance helpers

// fieldPath describes v as root.f1.f2... if v is a chain of field accesses /
// loads starting from a parameter, free variable, global or call result.
type accessPath struct {
	Root  ssa.Value
	Elems []string
}

func (a accessPath) String() string {
	root := "?"
	switch r := a.Root.(type) {
	case *ssa.Parameter:
		root = r.Name()
	case *ssa.FreeVar:
		root = r.Name()
	case *ssa.Global:
		root = r.Name()
	case *ssa.Alloc:
		root = "local:" + r.Comment
	case nil:
	default:
		root = r.Name()
	}
	if len(a.Elems) == 0 {
		return root
	}
	return root + "." + strings.Join(a.Elems, ".")
}

// pathOf computes the access path of a value (for a loaded value: the path of
// the location it was loaded from).  ok is false when the value is not a pure
// chain of field selections.
func pathOf(v ssa.Value) (accessPath, bool) {
	var elems []string
	for depth := 0; depth < 32; depth++ {
		switch x := v.(type) {
		case *ssa.UnOp:
			if x.Op != token.MUL {
				return accessPath{}, false
			}
			v = x.X
		case *ssa.FieldAddr:
			st := derefStruct(x.X.Type())
			if st == nil {
				return accessPath{}, false
			}
			elems = append([]string{st.Field(x.Field).Name()}, elems...)
			v = x.X
		case *ssa.Field:
			st, _ := x.X.Type().Underlying().(*types.Struct)
			if st == nil {
				return accessPath{}, false
			}
			elems = append([]string{st.Field(x.Field).Name()}, elems...)
			v = x.X
		case *ssa.ChangeType:
			v = x.X
		case *ssa.Parameter, *ssa.FreeVar, *ssa.Global, *ssa.Alloc:
			return accessPath{Root: x, Elems: elems}, true
		case *ssa.Call, *ssa.Extract, *ssa.Phi, *ssa.Lookup, *ssa.IndexAddr, *ssa.Index, *ssa.TypeAssert, *ssa.Next, *ssa.MakeInterface:
			return accessPath{Root: x, Elems: elems}, true
		default:
			return accessPath{}, false
		}
	}
	return accessPath{}, false
}

func derefStruct(t types.Type) *types.Struct {
	if p, ok := t.Underlying().(*types.Pointer); ok {
		t = p.Elem()
	}
	st, _ := t.Underlying().(*types.Struct)
	return st
}

func namedOf(t types.Type) *types.Named {
	for {
		switch x := t.(type) {
		case *types.Pointer:
			t = x.Elem()
		case *types.Named:
			return x
		case *types.Alias:
			t = types.Unalias(x)
		default:
			return nil
		}
	}
}

func typeIs(t types.Type, pkgpath, name string) bool {
	n := namedOf(t)
	return n != nil && n.Obj().Pkg() != nil && n.Obj().Pkg().Path() == pkgpath && n.Obj().Name() == name
}

// fieldAddrOf: is v the address of field `name` of named struct type (pkg,typ)?
func isFieldAddr(v ssa.Value, pkgpath, typ, name string) (*ssa.FieldAddr, bool) {
	fa, ok := v.(*ssa.FieldAddr)
	if !ok {
		return nil, false
	}
	if !typeIs(fa.X.Type(), pkgpath, typ) {
		return nil, false
	}
	st := derefStruct(fa.X.Type())
	if st == nil || st.Field(fa.Field).Name() != name {
		return nil, false
	}
	return fa, true
}

func fieldName(fa *ssa.FieldAddr) string {
	st := derefStruct(fa.X.Type())
	if st == nil {
		return "?"
	}
	return st.Field(fa.Field).Name()
}

// ---------------------------------------------------------------------------
// dependence (backward slice on data dependences, through local memory)

// depSet computes the set of SSA values v transitively depends on (data
// dependence only).  Loads from local Allocs are followed to all stores into
// that Alloc (flow-insensitive within the function, which over-approximates).
func depSet(f *ssa.Function, v ssa.Value) map[ssa.Value]bool {
	stores := map[ssa.Value][]ssa.Value{} // alloc -> stored values
	eachInstr(f, func(_ *ssa.BasicBlock, _ int, ins ssa.Instruction) {
		if st, ok := ins.(*ssa.Store); ok {
			base := allocBase(st.Addr)
			if base != nil {
				stores[base] = append(stores[base], st.Val)
			}
		}
	})
	seen := map[ssa.Value]bool{}
	var visit func(v ssa.Value)
	visit = func(v ssa.Value) {
		if v == nil || seen[v] {
			return
		}
		seen[v] = true
		if ins, ok := v.(ssa.Instruction); ok {
			for _, op := range ins.Operands(nil) {
				if *op != nil {
					visit(*op)
				}
			}
		}
		if u, ok := v.(*ssa.UnOp); ok && u.Op == token.MUL {
			if base := allocBase(u.X); base != nil {
				for _, sv := range stores[base] {
					visit(sv)
				}
			}
		}
		if a, ok := v.(*ssa.Alloc); ok {
			for _, sv := range stores[a] {
				visit(sv)
			}
		}
	}
	visit(v)
	return seen
}

// allocBase returns the local Alloc an address is derived from (through
// FieldAddr/IndexAddr), or nil.
func allocBase(addr ssa.Value) ssa.Value {
	for depth := 0; depth < 32; depth++ {
		switch x := addr.(type) {
		case *ssa.Alloc:
			return x
		case *ssa.FieldAddr:
			addr = x.X
		case *ssa.IndexAddr:
			addr = x.X
		default:
			return nil
		}
	}
	return nil
}

func sortedKeys[M ~map[string]V, V any](m M) []string {
	var ks []string
	for k := range m {
		ks = append(ks, k)
	}
	sort.Strings(ks)
	return ks
}

func posOf(c *Ctx, ins ssa.Instruction) string {
	if ins == nil {
		return ""
	}
	p := ins.Pos()
	if !p.IsValid() {
		// fall back to any operand position or the function position
		if v, ok := ins.(ssa.Value); ok {
			for _, r := range *v.Referrers() {
				if r.Pos().IsValid() {
					p = r.Pos()
					break
				}
			}
		}
		if !p.IsValid() {
			p = ins.Parent().Pos()
		}
	}
	return c.rel(p)
}

func describe(v ssa.Value) string {
	if v == nil {
		return "<nil>"
	}
	switch x := v.(type) {
	case *ssa.Call:
		if obj := calleeObj(&x.Call); obj != nil {
			return "result of " + obj.Name()
		}
		if b, ok := x.Call.Value.(*ssa.Builtin); ok {
			return "result of " + b.Name()
		}
		return "call result"
	case *ssa.Extract:
		return fmt.Sprintf("result #%d of %s", x.Index, strings.TrimPrefix(describe(x.Tuple), "result of "))
	case *ssa.Const:
		return x.String()
	case *ssa.Slice:
		return "slice of " + describe(x.X)
	case *ssa.ChangeType:
		return describe(x.X)
	case *ssa.Convert:
		return describe(x.X)
	case *ssa.MakeInterface:
		return describe(x.X)
	}
	if p, ok := pathOf(v); ok {
		if _, isInstr := p.Root.(ssa.Instruction); isInstr {
			if _, isAlloc := p.Root.(*ssa.Alloc); !isAlloc {
				root := describeRoot(p.Root)
				if len(p.Elems) == 0 {
					return root
				}
				return root + "." + strings.Join(p.Elems, ".")
			}
		}
		return p.String()
	}
	return fmt.Sprintf("%T", v)
}

func describeRoot(v ssa.Value) string {
	switch x := v.(type) {
	case *ssa.Call, *ssa.Extract:
		return "(" + describe(x) + ")"
	case *ssa.Phi:
		return "phi " + x.Comment
	case *ssa.Lookup:
		return "(" + describe(x.X) + "[...])"
	case *ssa.IndexAddr:
		return "(" + describe(x.X) + "[...])"
	case *ssa.Index:
		return "(" + describe(x.X) + "[...])"
	case *ssa.Next:
		return "range element"
	case *ssa.TypeAssert:
		return "(" + describe(x.X) + ").(type)"
	}
	return fmt.Sprintf("%T", v)
}

// ---------------------------------------------------------------------------
// returns (with defer-spilled results resolved)

type retInfo struct {
	Ret  *ssa.Return
	Vals []ssa.Value
	// At is the block the returned values come from: the block of the Return, or -
	// when the Return sits in a merge block whose results are phis (one `return`
	// statement fed by several assignments, as after inlining) - the predecessor
	// that supplies this combination of values.
	At *ssa.BasicBlock
}

// Point is the instruction at which this return leaves: the Return itself, or
// the terminator of the predecessor that supplies the values.
func (ri retInfo) Point() ssa.Instruction {
	if ri.At != nil && ri.At != ri.Ret.Block() && len(ri.At.Instrs) > 0 {
		return ri.At.Instrs[len(ri.At.Instrs)-1]
	}
	return ri.Ret
}

// returnsOf lists the reachable Return instructions of f with their result
// values; a result that is a load of a result-spill local (functions with
// defers) is resolved to the value stored last in the same block, and a Return
// whose results are phis of its own (otherwise empty) block is expanded into one
// entry per incoming edge.
func returnsOf(f *ssa.Function) []retInfo {
	var out []retInfo
	for _, b := range f.Blocks {
		if len(b.Instrs) == 0 {
			continue
		}
		ret, ok := b.Instrs[len(b.Instrs)-1].(*ssa.Return)
		if !ok {
			continue
		}
		if b != f.Blocks[0] && len(b.Preds) == 0 {
			continue // recover block
		}
		var vals []ssa.Value
		for _, v := range ret.Results {
			vals = append(vals, resolveLocalLoad(v))
		}
		expandReturn(ret, b, vals, 0, &out)
	}
	return out
}

// onlyPhisBefore: every instruction of b before its terminator is a phi (or a debug reference).
func onlyPhisBefore(b *ssa.BasicBlock) bool {
	for _, ins := range b.Instrs[:len(b.Instrs)-1] {
		switch x := ins.(type) {
		case *ssa.Phi, *ssa.DebugRef, *ssa.RunDefers:
		case *ssa.Store:
			// spilling results before deferred calls run
			if _, ok := x.Addr.(*ssa.Alloc); !ok {
				return false
			}
		case *ssa.UnOp:
			if _, ok := x.X.(*ssa.Alloc); !ok || x.Op != token.MUL {
				return false
			}
		default:
			return false
		}
	}
	return true
}

func expandReturn(ret *ssa.Return, b *ssa.BasicBlock, vals []ssa.Value, depth int, out *[]retInfo) {
	hasPhi := false
	for _, v := range vals {
		if ph, ok := v.(*ssa.Phi); ok && ph.Block() == b {
			hasPhi = true
		}
	}
	if !hasPhi || !onlyPhisBefore(b) || depth > 4 || len(b.Preds) == 0 {
		*out = append(*out, retInfo{Ret: ret, Vals: vals, At: b})
		return
	}
	for i, p := range b.Preds {
		nv := make([]ssa.Value, len(vals))
		for j, v := range vals {
			nv[j] = v
			if ph, ok := v.(*ssa.Phi); ok && ph.Block() == b {
				nv[j] = ph.Edges[i]
			}
		}
		// continue through jump-only merge blocks
		if _, isJump := p.Instrs[len(p.Instrs)-1].(*ssa.Jump); isJump && onlyPhisBefore(p) {
			expandReturn(ret, p, nv, depth+1, out)
		} else {
			*out = append(*out, retInfo{Ret: ret, Vals: nv, At: p})
		}
	}
}

// resolveLocalLoad: if v is a load of a local Alloc and a store to that Alloc
// precedes it in the same block, return the stored value.
func resolveLocalLoad(v ssa.Value) ssa.Value {
	ld, ok := v.(*ssa.UnOp)
	if !ok || ld.Op != token.MUL {
		return v
	}
	a, ok := ld.X.(*ssa.Alloc)
	if !ok {
		return v
	}
	b := ld.Block()
	idx := instrIndex(ld)
	for i := idx - 1; i >= 0; i-- {
		if st, ok := b.Instrs[i].(*ssa.Store); ok && st.Addr == ssa.Value(a) {
			return st.Val
		}
	}
	return v
}

func isNilConst(v ssa.Value) bool {
	c, ok := v.(*ssa.Const)
	return ok && c.IsNil()
}

// structLitField returns the values stored into field `name` of a struct
// allocated by `alloc` (composite literal or local), in any block.
func storesToField(alloc ssa.Value, name string) []*ssa.Store {
	var out []*ssa.Store
	refs := alloc.Referrers()
	if refs == nil {
		return nil
	}
	for _, ref := range *refs {
		fa, ok := ref.(*ssa.FieldAddr)
		if !ok || fieldName(fa) != name {
			continue
		}
		for _, r2 := range *fa.Referrers() {
			if st, ok := r2.(*ssa.Store); ok && st.Addr == ssa.Value(fa) {
				out = append(out, st)
			}
		}
	}
	return out
}

// problemStatus: v is a *models.ProblemDetails built by a composite literal in
// this function; returns the constant Status stored into it.
func problemStatus(v ssa.Value) (int64, bool) {
	v = resolveLocalLoad(v)
	// a merged result (e.g. of an inlined helper): the status of its non-nil definitions, if they agree
	if ph, ok := v.(*ssa.Phi); ok {
		var st int64
		n := 0
		for _, e := range ph.Edges {
			if isNilConst(e) || e == ssa.Value(ph) {
				continue
			}
			s1, ok := problemStatus(e)
			if !ok || (n > 0 && s1 != st) {
				return 0, false
			}
			st = s1
			n++
		}
		return st, n > 0
	}
	a, ok := v.(*ssa.Alloc)
	if !ok {
		return 0, false
	}
	if !typeIs(a.Type(), "github.com/free5gc/openapi/models", "ProblemDetails") {
		return 0, false
	}
	sts := storesToField(a, "Status")
	if len(sts) != 1 {
		return 0, false
	}
	return constInt(sts[0].Val)
}

// paramAlloc: the local Alloc a struct parameter is spilled into (go/ssa
// keeps address-taken parameters in memory), or nil.
func paramAlloc(p *ssa.Parameter) *ssa.Alloc {
	refs := p.Referrers()
	if refs == nil {
		return nil
	}
	for _, ref := range *refs {
		if st, ok := ref.(*ssa.Store); ok && st.Val == ssa.Value(p) {
			if a, ok := st.Addr.(*ssa.Alloc); ok {
				return a
			}
		}
	}
	return nil
}

// paramByName returns the parameter of f with the given name.
func paramByName(f *ssa.Function, name string) *ssa.Parameter {
	for _, p := range f.Params {
		if p.Name() == name {
			return p
		}
	}
	return nil
}

// isParamFieldLoad: v == param.<field> (through the spill Alloc or a Field instr).
func isParamFieldLoad(v ssa.Value, p *ssa.Parameter, field string) bool {
	v = stripConv(v)
	switch x := v.(type) {
	case *ssa.UnOp:
		if x.Op != token.MUL {
			return false
		}
		fa, ok := x.X.(*ssa.FieldAddr)
		if !ok || fieldName(fa) != field {
			return false
		}
		if a, ok := fa.X.(*ssa.Alloc); ok && a == paramAlloc(p) {
			return true
		}
		return fa.X == ssa.Value(p)
	case *ssa.Field:
		st, _ := x.X.Type().Underlying().(*types.Struct)
		if st == nil || st.Field(x.Field).Name() != field {
			return false
		}
		if x.X == ssa.Value(p) {
			return true
		}
		// load of the whole spilled struct
		if ld, ok := x.X.(*ssa.UnOp); ok && ld.Op == token.MUL {
			if a, ok := ld.X.(*ssa.Alloc); ok && a == paramAlloc(p) {
				return true
			}
		}
	}
	return false
}

// inCycle reports whether block b lies on a CFG cycle.
func inCycle(b *ssa.BasicBlock) bool {
	seen := map[*ssa.BasicBlock]bool{}
	stack := append([]*ssa.BasicBlock{}, b.Succs...)
	for len(stack) > 0 {
		x := stack[len(stack)-1]
		stack = stack[:len(stack)-1]
		if x == b {
			return true
		}
		if seen[x] {
			continue
		}
		seen[x] = true
		stack = append(stack, x.Succs...)
	}
	return false
}

// returnedFuncs: the function(s) a handler constructor returns as its first
// result - a function literal (closure), a named function, or a method value
// (resolved through the bound-method wrapper to the method itself).
func returnedFuncs(outer *ssa.Function) []*ssa.Function {
	var out []*ssa.Function
	add := func(f *ssa.Function) {
		for _, g := range out {
			if g == f {
				return
			}
		}
		out = append(out, f)
	}
	var resolve func(v ssa.Value, depth int)
	resolve = func(v ssa.Value, depth int) {
		if depth > 6 || v == nil {
			return
		}
		switch x := v.(type) {
		case *ssa.MakeClosure:
			fn, _ := x.Fn.(*ssa.Function)
			if fn == nil {
				return
			}
			if fn.Synthetic != "" && len(fn.Blocks) > 0 {
				// bound method wrapper: the method it calls
				for _, b := range fn.Blocks {
					for _, ins := range b.Instrs {
						if call, ok := ins.(*ssa.Call); ok {
							if sc := call.Call.StaticCallee(); sc != nil {
								add(sc)
								return
							}
						}
					}
				}
				return
			}
			add(fn)
		case *ssa.Function:
			add(x)
		case *ssa.ChangeType:
			resolve(x.X, depth+1)
		case *ssa.MakeInterface:
			resolve(x.X, depth+1)
		case *ssa.Phi:
			for _, e := range x.Edges {
				resolve(e, depth+1)
			}
		}
	}
	for _, ri := range returnsOf(outer) {
		if len(ri.Vals) > 0 {
			resolve(ri.Vals[0], 0)
		}
	}
	return out
}
