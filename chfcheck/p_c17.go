package main

import (
	"encoding/xml"
	"fmt"
	"go/ast"
	"go/constant"
	"go/token"
	"go/types"
	"reflect"
	"sort"
	"strconv"
	"strings"

	"golang.org/x/tools/go/ssa"
)

// C17: Diameter messages carry every field intact; dictionaries cover the structs.

const (
	diamPath     = "github.com/fiorix/go-diameter/diam"
	diamDictPath = "github.com/fiorix/go-diameter/diam/dict"
	diamDTPath   = "github.com/fiorix/go-diameter/diam/datatype"
)

func init() { register("C17", "other", checkC17) }

// mirror of go-diameter's dictionary XML schema (diam/dict/parser.go, skel.go)
type dFile struct {
	App []*dApp `xml:"application"`
}
type dApp struct {
	ID      uint32      `xml:"id,attr"`
	Name    string      `xml:"name,attr"`
	Command []*dCommand `xml:"command"`
	AVP     []*dAVP     `xml:"avp"`
}
type dCommand struct {
	Code  uint32 `xml:"code,attr"`
	Name  string `xml:"name,attr"`
	Short string `xml:"short,attr"`
}
type dAVP struct {
	Name     string `xml:"name,attr"`
	Code     uint32 `xml:"code,attr"`
	Must     string `xml:"must,attr"`
	VendorID uint32 `xml:"vendor-id,attr"`
	Data     dData  `xml:"data"`
	src      string
}
type dData struct {
	TypeName string   `xml:"type,attr"`
	Enum     []*dEnum `xml:"item"`
	Rule     []*dRule `xml:"rule"`
}
type dEnum struct {
	Code int32  `xml:"code,attr"`
	Name string `xml:"name,attr"`
}
type dRule struct {
	AVP string `xml:"avp,attr"`
}

type dictSet struct {
	byName map[uint32]map[string]*dAVP    // app -> name -> avp (last load wins, as in go-diameter)
	byCode map[uint32]map[[2]uint32]*dAVP // app -> (code,vendor) -> avp
	cmds   map[[2]uint32]*dCommand        // (app, code)
	dupCmd []string
	// all definitions per app, in load order (to find conflicting redefinitions)
	all map[uint32][]*dAVP
}

func newDictSet() *dictSet {
	return &dictSet{byName: map[uint32]map[string]*dAVP{}, byCode: map[uint32]map[[2]uint32]*dAVP{}, cmds: map[[2]uint32]*dCommand{}, all: map[uint32][]*dAVP{}}
}

func (d *dictSet) load(src, xmlText string) error {
	var f dFile
	if err := xml.Unmarshal([]byte(xmlText), &f); err != nil {
		return err
	}
	for _, app := range f.App {
		for _, cmd := range app.Command {
			k := [2]uint32{app.ID, cmd.Code}
			if _, ok := d.cmds[k]; ok {
				d.dupCmd = append(d.dupCmd, fmt.Sprintf("%s: command %d of application %d already defined (go-diameter's Load fails and drops the rest of the file)", src, cmd.Code, app.ID))
			}
			d.cmds[k] = cmd
		}
		if d.byName[app.ID] == nil {
			d.byName[app.ID] = map[string]*dAVP{}
			d.byCode[app.ID] = map[[2]uint32]*dAVP{}
		}
		for _, a := range app.AVP {
			a.src = src
			d.byName[app.ID][a.Name] = a
			d.byCode[app.ID][[2]uint32{a.Code, a.VendorID}] = a
			d.all[app.ID] = append(d.all[app.ID], a)
		}
	}
	return nil
}

// find mirrors Parser.FindAVP(appid, name): the application, then application 0.
func (d *dictSet) find(app uint32, name string) *dAVP {
	if a := d.byName[app][name]; a != nil {
		return a
	}
	return d.byName[0][name]
}

func checkC17(c *Ctx, r *Report) {
	r.Explanation = "Table agreement, exhaustive over every struct tag of ccs_diameter/datatype: each avp:\"Name\" is resolved with go-diameter's own look-up rule (application 16777218 = RateDictionary merged with AbmfDictionary, then application 0 of go-diameter's base dictionary); the Go field type must be accepted by go-diameter's marshal rule for the dictionary data type and have the same underlying representation as that datatype (no truncation over the AVP's range); AVP codes are unique per (application, code, vendor); command codes and handler names match the dictionaries; both dictionaries are loaded before the SBI server runs; each Marshal/Unmarshal error is tested on its own result. The XML is read from the type-checked constant values (dict.RateDictionary, dict.AbmfDictionary) and from the string literals of go-diameter's default.go - reading a constant is not running the program."
	r.Undecided = []string{"go-diameter's wire serialisation of each datatype (trusted)", "values actually placed in the fields by the callers"}
	r.Trusted = append(r.Trusted, "go-diameter v3.0.2: Marshal/Unmarshal/FindAVP/Load semantics as read in diam/reflect.go, diam/dict/util.go, diam/dict/parser.go", "encoding/xml")
	r.Exhaustive = true
	r.rule("C17.R0", "dictionaries parse, every data type name is one go-diameter knows, no command is defined twice (Load would fail)", 3)
	r.rule("C17.R1", "every avp struct tag in ccs_diameter/datatype resolves by go-diameter's look-up rule", 100)
	r.rule("C17.R2", "Go field type is accepted by Marshal for the dictionary type and has the identical underlying representation (no truncation)", 100)
	r.rule("C17.R3", "no two AVP names share (code, vendor) in the merged application; a name redefined across dictionaries keeps code and type; names resolved from the base dictionary are not shadowed by code", 50)
	r.rule("C17.R4", "request command codes and mux handler names are defined by the dictionaries; both dictionaries are loaded on the way to the SBI server start", 8)
	r.rule("C17.R5", "the error of every diam Marshal/Unmarshal call is tested on its own result before the message is used", 8)
	r.rule("C17.R7", "every message is decoded into a struct that is empty: a new local object per decode (go-diameter only sets the members whose AVPs are present, so optional groups of an earlier message would stay)", 4)
	r.rule("C17.R8", "the named constants of an Enumerated AVP's Go type carry the codes the dictionary gives the items of the same name (the peer - and the switch statements on both sides - mean the dictionary's value)", 4)
	r.rule("C17.R9", "no numeric member is dropped from the message when it holds 0: go-diameter's omitempty (explicit, or implied by a tag that carries other keys) only on members whose empty value means absent", 0)
	r.rule("C17.R10", "what goes on the wire is what Marshal made of the struct: no code of the module edits the AVP list of a message or of a grouped AVP", 1)
	r.rule("C17.R11", "a decoded message is handed on as decoded: the receiving function assigns no member of the struct Unmarshal filled", 4)
	r.rule("C17.R6", "AVP code constants of ccs_diameter/code that name a dictionary AVP carry that AVP's code", 20)

	dictPkg := c.pkg("ccs_diameter/dict")
	ds := newDictSet()

	// go-diameter base dictionaries: string-literal initialisers of package-level vars in diam/dict
	gd := c.ext(diamDictPath)
	nbase := 0
	for _, f := range gd.Syntax {
		for _, decl := range f.Decls {
			g, ok := decl.(*ast.GenDecl)
			if !ok || g.Tok != token.VAR {
				continue
			}
			for _, spec := range g.Specs {
				vs := spec.(*ast.ValueSpec)
				for i, n := range vs.Names {
					if !strings.HasSuffix(n.Name, "XML") || i >= len(vs.Values) {
						continue
					}
					tv, ok := gd.TypesInfo.Types[vs.Values[i]]
					if !ok || tv.Value == nil || tv.Value.Kind() != constant.String {
						continue
					}
					if err := ds.load("go-diameter/"+n.Name, constant.StringVal(tv.Value)); err != nil {
						broken("go-diameter dictionary %s does not parse: %v", n.Name, err)
					}
					nbase++
				}
			}
		}
	}
	if nbase < 2 || len(ds.byName[0]) < 20 {
		broken("go-diameter base dictionary not found (%d literals, %d base AVPs)", nbase, len(ds.byName[0]))
	}
	r.count("base_dictionaries", nbase)

	// known datatype names: keys of datatype.Available (composite literal)
	avail := map[string]bool{}
	dtp := c.ext(diamDTPath)
	for _, f := range dtp.Syntax {
		ast.Inspect(f, func(n ast.Node) bool {
			vs, ok := n.(*ast.ValueSpec)
			if !ok || len(vs.Names) != 1 || vs.Names[0].Name != "Available" || len(vs.Values) != 1 {
				return true
			}
			if cl, ok := vs.Values[0].(*ast.CompositeLit); ok {
				for _, e := range cl.Elts {
					if kv, ok := e.(*ast.KeyValueExpr); ok {
						if bl, ok := kv.Key.(*ast.BasicLit); ok {
							if s, err := strconv.Unquote(bl.Value); err == nil {
								avail[s] = true
							}
						}
					}
				}
			}
			return false
		})
	}
	if len(avail) < 10 {
		broken("datatype.Available not found")
	}

	// the repository's dictionaries: every exported string constant of ccs_diameter/dict
	var ownDicts []string
	for _, name := range dictPkg.Types.Scope().Names() {
		cst, ok := dictPkg.Types.Scope().Lookup(name).(*types.Const)
		if !ok || cst.Val().Kind() != constant.String {
			continue
		}
		txt := constant.StringVal(cst.Val())
		if !strings.Contains(txt, "<diameter>") {
			continue
		}
		ownDicts = append(ownDicts, name)
		before := len(ds.dupCmd)
		err := ds.load("dict."+name, txt)
		r.check(err == nil && len(ds.dupCmd) == before, "C17.R0", "dict."+name, c.rel(cst.Pos()), "parses; no duplicate command", fmt.Sprintf("dictionary does not load: %v %v", err, ds.dupCmd))
	}
	if len(ownDicts) < 2 {
		r.viol("C17.R0", "dictionaries", "", "fewer than two dictionary constants found in ccs_diameter/dict")
	}
	const reApp = 16777218
	// data type names
	for app, avps := range ds.all {
		if app != reApp {
			continue
		}
		bad := []string{}
		for _, a := range avps {
			if !avail[a.Data.TypeName] {
				bad = append(bad, a.Name+":"+a.Data.TypeName)
			}
		}
		r.check(len(bad) == 0, "C17.R0", "datatypes|app "+fmt.Sprint(app), "", fmt.Sprintf("%d AVP definitions use known data types", len(avps)), "unknown data types (Load fails): "+strings.Join(bad, ", "))
	}
	r.count("avp_definitions_app16777218", len(ds.all[reApp]))

	// Re_interface constant must be the application of the dictionaries
	codePkg := c.pkg("ccs_diameter/code")
	reConst, _ := codePkg.Types.Scope().Lookup("Re_interface").(*types.Const)
	appID := uint32(reApp)
	if reConst != nil {
		if v, ok := constant.Uint64Val(reConst.Val()); ok {
			appID = uint32(v)
		}
	}
	r.check(ds.byName[appID] != nil, "C17.R4", "application|Re_interface", "", fmt.Sprintf("application %d is defined by the loaded dictionaries", appID), fmt.Sprintf("application %d used in NewRequest is not defined by any dictionary", appID))

	// ---- R1/R2: walk every struct of ccs_diameter/datatype
	dtPkg := c.pkg("ccs_diameter/datatype")
	ntags := 0
	usedNames := map[string]*dAVP{}
	enumDone := map[string]bool{}
	for _, name := range dtPkg.Types.Scope().Names() {
		tn, ok := dtPkg.Types.Scope().Lookup(name).(*types.TypeName)
		if !ok {
			continue
		}
		st, ok := tn.Type().Underlying().(*types.Struct)
		if !ok {
			continue
		}
		// a member that is named like the AVP another member of the struct carries: swapped tags
		{
			normN := func(s string) string {
				return strings.ToLower(strings.NewReplacer("-", "", "_", "").Replace(s))
			}
			carriedBy := map[string]string{}
			own := map[string]string{}
			for i := 0; i < st.NumFields(); i++ {
				if an := parseAvpTagName(reflect.StructTag(st.Tag(i))); an != "" {
					carriedBy[normN(an)] = st.Field(i).Name()
					own[st.Field(i).Name()] = an
				}
			}
			for i := 0; i < st.NumFields(); i++ {
				f := st.Field(i)
				an := own[f.Name()]
				if an == "" || normN(an) == normN(f.Name()) {
					continue
				}
				if other, ok := carriedBy[normN(f.Name())]; ok && other != f.Name() {
					r.viol("C17.R1", name+"."+f.Name()+"|tag of a sibling", c.rel(f.Pos()), "member "+f.Name()+" carries avp:\""+an+"\" while the AVP it is named after is carried by its sibling "+other+": what the module puts into "+f.Name()+" travels under the other AVP (both peers of this module agree with each other, a peer that follows the dictionary reads the amounts crossed over)")
				}
			}
		}
		seenAvp := map[string]string{} // AVP name -> member that carries it, within this struct
		for i := 0; i < st.NumFields(); i++ {
			f := st.Field(i)
			tag := reflect.StructTag(st.Tag(i))
			avpName := parseAvpTagName(tag)
			key := name + "." + f.Name()
			if avpName != "" {
				if other, dup := seenAvp[avpName]; dup {
					r.viol("C17.R1", key+"|duplicate "+avpName, c.rel(f.Pos()), "members "+other+" and "+f.Name()+" of "+name+" both carry avp:\""+avpName+"\": the receiver fills both from the one AVP and the sender emits it twice, so what was put into "+f.Name()+" is not what arrives in it (a copied tag that was not renamed)")
				}
				seenAvp[avpName] = f.Name()
			}
			if avpName == "" {
				// go-diameter skips a member without an AVP name silently, in both directions
				raw := st.Tag(i)
				switch {
				case strings.Contains(strings.ToLower(raw), "avp"):
					r.viol("C17.R1", key+"|tag syntax", c.rel(f.Pos()), fmt.Sprintf("the struct tag %q mentions avp but is not of the form avp:\"Name\" that reflect.StructTag and go-diameter's parseAvpTag resolve (a blank after the colon, a missing quote, ...): Marshal leaves the member out and Unmarshal never fills it, without an error - what was sent in it is not received", raw))
				case f.Embedded() && c17HasAvpMembers(f.Type()):
					r.viol("C17.R1", key+"|embedded", c.rel(f.Pos()), "the struct embeds "+types.TypeString(f.Type(), func(p *types.Package) string { return p.Name() })+" without an avp tag: go-diameter does not flatten embedded structs, so the AVP members of the embedded type are left out by Marshal and never filled by Unmarshal, without an error - what was sent in them is not received")
				case f.Exported() && c17FieldAssigned(c, tn, i):
					r.viol("C17.R1", key+"|no tag", c.rel(f.Pos()), "the member is assigned by the module but has no avp tag: Marshal leaves it out and Unmarshal never fills it, without an error - what was sent in it is not received")
				case f.Exported():
					r.info("C17.R1", key, c.rel(f.Pos()), "field without avp tag is never sent (and never assigned by the module)")
				}
				continue
			}
			ntags++
			a := ds.find(appID, avpName)
			if !r.check(a != nil, "C17.R1", key+"|"+avpName, c.rel(f.Pos()),
				"resolves", "avp:\""+avpName+"\" is defined neither in application "+fmt.Sprint(appID)+" nor in the base dictionary: Marshal fails for the whole message") {
				continue
			}
			usedNames[avpName] = a
			if _, omit := parseAvpTagFull(tag); omit {
				if b, isBasic := f.Type().Underlying().(*types.Basic); isBasic && b.Info()&(types.IsInteger|types.IsBoolean|types.IsFloat) != 0 {
					r.viol("C17.R9", key+"|"+avpName+" omitted when zero", c.rel(f.Pos()), fmt.Sprintf("go-diameter treats the tag %q as omitempty (explicitly, or because the tag carries more than the avp key: its parseAvpTag then falls back to a look-up that reports omitempty): the AVP is left out whenever the member holds 0 - a value that was put into it and is not received as an AVP (request number 0, type 0, an amount of 0)", st.Tag(i)))
				} else {
					r.proven("C17.R9", key+"|"+avpName+" omitted when zero", c.rel(f.Pos()), "omitempty on a member whose empty value carries no information (pointer, group, string, list)")
				}
			}
			c17EnumConstants(c, r, dtPkg.Types, f.Type(), a, enumDone)
			ok2, why := c17TypeCompat(c, f.Type(), a, ds, appID, 0)
			r.check(ok2, "C17.R2", key+"|"+avpName, c.rel(f.Pos()), "field type "+types.TypeString(f.Type(), shortQual)+" matches "+a.Data.TypeName, why)
		}
	}
	r.count("avp_struct_tags", ntags)

	// ---- R3 unique codes
	byCode := map[[2]uint32]map[string]*dAVP{}
	byNameAll := map[string][]*dAVP{}
	for _, a := range ds.all[appID] {
		k := [2]uint32{a.Code, a.VendorID}
		if byCode[k] == nil {
			byCode[k] = map[string]*dAVP{}
		}
		byCode[k][a.Name] = a
		byNameAll[a.Name] = append(byNameAll[a.Name], a)
	}
	var codes [][2]uint32
	for k := range byCode {
		codes = append(codes, k)
	}
	sort.Slice(codes, func(i, j int) bool {
		return codes[i][0] < codes[j][0] || (codes[i][0] == codes[j][0] && codes[i][1] < codes[j][1])
	})
	for _, k := range codes {
		names := sortedKeys(byCode[k])
		key := fmt.Sprintf("code %d vendor %d", k[0], k[1])
		r.check(len(names) == 1, "C17.R3", key, "", names[0], "AVP names "+strings.Join(names, ", ")+" share one code: the receiver decodes by code and hands one AVP's data to the other's field")
	}
	for _, name := range sortedKeys(byNameAll) {
		defs := byNameAll[name]
		if len(defs) < 2 {
			continue
		}
		same := true
		for _, d := range defs[1:] {
			if d.Code != defs[0].Code || d.Data.TypeName != defs[0].Data.TypeName || d.VendorID != defs[0].VendorID {
				same = false
			}
		}
		r.check(same, "C17.R3", "redefinition|"+name, "", "redefined identically", "AVP "+name+" is defined with different code/type/vendor in the two dictionaries; which one wins depends on load order")
	}
	// names resolved from the base dictionary must not be shadowed by code in the application
	for _, name := range sortedKeys(usedNames) {
		a := usedNames[name]
		if ds.byName[appID][name] != nil {
			continue
		}
		if sh := ds.byCode[appID][[2]uint32{a.Code, a.VendorID}]; sh != nil && sh.Name != name {
			r.viol("C17.R3", "shadow|"+name, "", fmt.Sprintf("base AVP %s (code %d) is shadowed in application %d by %s: the receiver decodes code %d as %s", name, a.Code, appID, sh.Name, a.Code, sh.Name))
		} else {
			r.proven("C17.R3", "shadow|"+name, "", "base AVP not shadowed by code")
		}
	}

	c17Commands(c, r, ds, appID)
	c17ErrDiscipline(c, r)
	c17FreshDecodeTarget(c, r)
	c17DeliveredAsDecoded(c, r, "C17.R11")
	// R10: who may write diam.Message.AVP / GroupedAVP.AVP
	{
		n := 0
		for _, f := range c.ModFuncs {
			eachInstr(f, func(_ *ssa.BasicBlock, _ int, ins ssa.Instruction) {
				st, ok := ins.(*ssa.Store)
				if !ok {
					return
				}
				fa, ok := st.Addr.(*ssa.FieldAddr)
				if !ok || fieldName(fa) != "AVP" {
					return
				}
				nt := namedOf(fa.X.Type())
				if nt == nil || nt.Obj().Pkg() == nil || nt.Obj().Pkg().Path() != diamPath || (nt.Obj().Name() != "Message" && nt.Obj().Name() != "GroupedAVP") {
					return
				}
				n++
				r.viol("C17.R10", fnKey(rootOf(f))+"|edits the AVP list", posOf(c, ins), "the AVP list of a "+nt.Obj().Name()+" is assigned by "+shortFn(rootOf(f))+" after Marshal built it: AVPs the struct carried (a zero amount, an empty group) are taken out - or others put in - behind the back of the struct mapping, so the receiver does not get every member that was sent")
			})
		}
		if n == 0 {
			r.proven("C17.R10", "message AVPs|no writer", "", "no function of the module assigns Message.AVP / GroupedAVP.AVP: what goes on the wire is what Marshal made of the struct")
		}
	}
	c17Codes(c, r, ds, appID)
}

func shortQual(p *types.Package) string { return p.Name() }

// parseAvpTagName mirrors diam.parseAvpTag (name part only).
func parseAvpTagName(tag reflect.StructTag) string {
	if tag == "" {
		return ""
	}
	name := string(tag)
	if strings.HasPrefix(name, "avp:\"") {
		name = name[5 : len(name)-1]
		name = strings.TrimSuffix(name, ",omitempty")
		if strings.IndexByte(name, '"') == -1 {
			return name
		}
	}
	name = tag.Get("avp")
	if idx := strings.Index(name, ","); idx != -1 {
		return name[:idx]
	}
	return name
}

// parseAvpTagFull mirrors go-diameter's parseAvpTag (diam/reflect.go, v3.0.2) including its
// second result: a tag that is exactly avp:"Name" is not omitempty, avp:"Name,omitempty" is,
// and a tag that carries anything else besides the avp key (json:"..", a second key) falls
// through to the reflect.StructTag look-up, which reports omitempty = true unless the value
// contains a comma.
func parseAvpTagFull(tag reflect.StructTag) (string, bool) {
	if tag == "" {
		return "", false
	}
	name := string(tag)
	if strings.HasPrefix(name, "avp:\"") {
		name = name[5 : len(name)-1]
		omitEmpty := false
		if strings.HasSuffix(name, ",omitempty") {
			name = name[0 : len(name)-10]
			omitEmpty = true
		}
		if strings.IndexByte(name, '"') == -1 {
			return name, omitEmpty
		}
	}
	name = tag.Get("avp")
	if idx := strings.Index(name, ","); idx != -1 {
		return name[:idx], false
	}
	return name, true
}

// c17TypeCompat mirrors diam.marshal's case analysis on the static type.
func c17TypeCompat(c *Ctx, t types.Type, a *dAVP, ds *dictSet, app uint32, depth int) (bool, string) {
	if depth > 6 {
		return true, ""
	}
	dt := c.ext(diamDTPath)
	u := t.Underlying()
	switch x := u.(type) {
	case *types.Pointer:
		return c17TypeCompat(c, x.Elem(), a, ds, app, depth+1)
	case *types.Slice:
		if b, ok := x.Elem().Underlying().(*types.Basic); ok && b.Kind() == types.Uint8 {
			break // byte slice: basic type path
		}
		if typeIs(x.Elem(), diamPath, "AVP") {
			return true, ""
		}
		return c17TypeCompat(c, x.Elem(), a, ds, app, depth+1)
	}
	if a.Data.TypeName == "Grouped" {
		switch x := u.(type) {
		case *types.Struct:
			if typeIs(t, diamPath, "AVP") {
				return true, ""
			}
			_ = x
			return true, "" // members are checked where the struct type is declared (every struct of the package is walked)
		case *types.Slice:
			// datatype.Grouped
			want := dt.Types.Scope().Lookup("Grouped")
			if want != nil && types.Identical(u, want.Type().Underlying()) {
				return true, ""
			}
		}
		return false, "dictionary type Grouped needs a struct, pointer to struct or datatype.Grouped, field is " + types.TypeString(t, shortQual)
	}
	if _, isStruct := u.(*types.Struct); isStruct && a.Data.TypeName != "Time" {
		return false, "struct field for non-grouped AVP type " + a.Data.TypeName
	}
	wantObj := dt.Types.Scope().Lookup(a.Data.TypeName)
	if wantObj == nil {
		return false, "go-diameter has no datatype." + a.Data.TypeName
	}
	want := wantObj.Type()
	if !types.AssignableTo(t, want) && !types.ConvertibleTo(t, want) {
		return false, "Marshal rejects " + types.TypeString(t, shortQual) + " for " + a.Data.TypeName + " (neither assignable nor convertible)"
	}
	if !types.Identical(u, want.Underlying()) {
		return false, "field type " + types.TypeString(t, shortQual) + " (underlying " + u.String() + ") does not have the representation of datatype." + a.Data.TypeName + " (" + want.Underlying().String() + "): values outside the narrower range are truncated or reinterpreted by Convert"
	}
	return true, ""
}

// c17Commands: NewRequest codes, Handle names, dictionary loading.
func c17Commands(c *Ctx, r *Report, ds *dictSet, appID uint32) {
	short := map[string]bool{}
	for k, cmd := range ds.cmds {
		if k[0] == appID {
			short[cmd.Short+"R"] = true
			short[cmd.Short+"A"] = true
		}
	}
	short["ALL"] = true
	for _, f := range c.ModFuncs {
		eachInstr(f, func(_ *ssa.BasicBlock, _ int, ins ssa.Instruction) {
			ci, ok := ins.(ssa.CallInstruction)
			if !ok {
				return
			}
			cc := ci.Common()
			obj := calleeObj(cc)
			if obj == nil || obj.Pkg() == nil {
				return
			}
			switch {
			case isFunc(obj, diamPath, "NewRequest"):
				code, ok1 := constInt(cc.Args[0])
				app, ok2 := constInt(cc.Args[1])
				key := fnKey(f) + "|NewRequest"
				if !ok1 || !ok2 {
					r.viol("C17.R4", key, posOf(c, ins), "command code / application are not constants")
					return
				}
				_, def := ds.cmds[[2]uint32{uint32(app), uint32(code)}]
				r.check(def && uint32(app) == appID, "C17.R4", key, posOf(c, ins), fmt.Sprintf("command %d of application %d is defined", code, app),
					fmt.Sprintf("command %d of application %d is not defined by the loaded dictionaries", code, app))
			case obj.Pkg().Path() == diamPath+"/sm" && (obj.Name() == "Handle" || obj.Name() == "HandleFunc"):
				args := cc.Args
				if !cc.IsInvoke() {
					args = args[1:]
				}
				if len(args) == 0 {
					return
				}
				name, ok := constString(args[0])
				key := fnKey(f) + "|Handle"
				if !ok {
					r.viol("C17.R4", key, posOf(c, ins), "handler name is not a constant")
					return
				}
				r.check(short[name], "C17.R4", key+"|"+name, posOf(c, ins), "handler name is the short name of a defined command", "no command with short name "+name+" in application "+fmt.Sprint(appID)+": the handler is never called")
			}
		})
	}
	// Both dictionaries loaded on the way to sbiServer.Run in (*ChfApp).Start
	start := c.fn("pkg/service", "ChfApp.Start")
	var runCall ssa.Instruction
	loadersDominating := map[string]bool{}
	var openCalls []ssa.CallInstruction
	eachInstr(start, func(_ *ssa.BasicBlock, _ int, ins ssa.Instruction) {
		ci, ok := ins.(ssa.CallInstruction)
		if !ok {
			return
		}
		obj := calleeObj(ci.Common())
		if isFunc(obj, modPath+"/internal/sbi", "Server.Run") {
			runCall = ins
		}
		if _, isCall := ins.(*ssa.Call); isCall && obj != nil && obj.Name() == "OpenServer" {
			openCalls = append(openCalls, ci)
		}
	})
	if runCall == nil {
		r.viol("C17.R4", "load|Start", c.rel(start.Pos()), "(*ChfApp).Start does not run the SBI server")
		return
	}
	for _, oc := range openCalls {
		if !instrDominates(oc, runCall) {
			continue
		}
		callee := oc.Common().StaticCallee()
		if callee == nil {
			continue
		}
		// which dictionary constants does the callee hand to dict.Default.Load?
		for _, fn := range withAnon(callee) {
			eachInstr(fn, func(_ *ssa.BasicBlock, _ int, ins ssa.Instruction) {
				if cc, ok := callIs(ins, diamDictPath, "Parser.Load"); ok {
					for d := range depSet(fn, cc.Args[1]) {
						if cst, ok := d.(*ssa.Const); ok && cst.Value != nil && cst.Value.Kind() == constant.String {
							txt := constant.StringVal(cst.Value)
							for _, name := range c.pkg("ccs_diameter/dict").Types.Scope().Names() {
								if k, ok := c.pkg("ccs_diameter/dict").Types.Scope().Lookup(name).(*types.Const); ok && k.Val().Kind() == constant.String && constant.StringVal(k.Val()) == txt {
									loadersDominating[name] = true
								}
							}
						}
					}
				}
			})
		}
	}
	for _, name := range c.pkg("ccs_diameter/dict").Types.Scope().Names() {
		k, ok := c.pkg("ccs_diameter/dict").Types.Scope().Lookup(name).(*types.Const)
		if !ok || k.Val().Kind() != constant.String || !strings.Contains(constant.StringVal(k.Val()), "<diameter>") {
			continue
		}
		r.check(loadersDominating[name], "C17.R4", "load|"+name, c.rel(start.Pos()), "loaded by an OpenServer call that dominates the SBI server start", "dictionary "+name+" is not loaded into dict.Default before the SBI server starts: every message naming one of its AVPs fails to marshal")
	}
}

// c17ErrDiscipline: every Marshal/Unmarshal error tested on its own value.
func c17ErrDiscipline(c *Ctx, r *Report) {
	for _, f := range c.ModFuncs {
		eachInstr(f, func(_ *ssa.BasicBlock, _ int, ins ssa.Instruction) {
			call, ok := ins.(*ssa.Call)
			if !ok {
				return
			}
			obj := calleeObj(&call.Call)
			if !isFunc(obj, diamPath, "Message.Marshal") && !isFunc(obj, diamPath, "Message.Unmarshal") {
				return
			}
			key := fnKey(f) + "|" + obj.Name() + "#" + ordinalOf(f, call, obj)
			tested := errTested(call)
			r.check(tested, "C17.R5", key, posOf(c, ins), "error compared with nil in a branch condition",
				"the error returned by "+obj.Name()+" is never compared with nil (a different variable is tested): a failed decode/encode is used as if it had succeeded")
		})
	}
}

// c17FreshDecodeTarget (C17.R7): Unmarshal(&x) fills only the members whose AVPs are in the
// message.  The struct handed to it must therefore be empty: a local object of the function
// that no earlier Unmarshal on the same path has filled - when the call sits in a loop the
// object has to be made inside that loop.
func c17FreshDecodeTarget(c *Ctx, r *Report) {
	freshDecodeTargets(c, r, "C17.R7", func(f *ssa.Function, call *ssa.Call) int {
		if isFunc(calleeObj(&call.Call), diamPath, "Message.Unmarshal") {
			return len(call.Call.Args) - 1
		}
		return -1
	}, "the message", "members whose AVPs are absent keep whatever the object held before", "an optional group (Final-Unit-Indication, Cost-Information ...) of the earlier message is delivered as part of this one")
}

// freshDecodeTargets: the shared form of the rule - decoders that only set the members present
// in the input (go-diameter Unmarshal, encoding/json) need an empty target.
func freshDecodeTargets(c *Ctx, r *Report, rule string, targetArg func(f *ssa.Function, call *ssa.Call) int, what, whyStale, consequence string) int {
	total := 0
	for _, f := range c.ModFuncs {
		var calls []*ssa.Call
		eachInstr(f, func(_ *ssa.BasicBlock, _ int, ins ssa.Instruction) {
			if call, ok := ins.(*ssa.Call); ok && calleeObj(&call.Call) != nil && targetArg(f, call) >= 0 {
				calls = append(calls, call)
			}
		})
		for _, call := range calls {
			total++
			obj := calleeObj(&call.Call)
			key := fnKey(f) + "|" + obj.Name() + "#" + ordinalOf(f, call, obj) + " target"
			args := call.Call.Args
			var target ssa.Value
			if i := targetArg(f, call); i < len(args) {
				target = args[i]
			}
			for {
				if mi, ok := target.(*ssa.MakeInterface); ok {
					target = mi.X
					continue
				}
				if ct, ok := target.(*ssa.ChangeType); ok {
					target = ct.X
					continue
				}
				break
			}
			// a member of a local object (the request/answer kept in a per-call state struct) is as
			// fresh as that object
			for {
				fa, isFA := target.(*ssa.FieldAddr)
				if !isFA {
					break
				}
				target = fa.X
			}
			al, ok := target.(*ssa.Alloc)
			if !ok {
				r.viol(rule, key, posOf(c, call), what+" is decoded into "+describe(target)+", not into a local object made for this decode: "+whyStale)
				continue
			}
			bad := ""
			// in a loop: can the call be reached again without passing the allocation?
			avoid := map[*ssa.BasicBlock]bool{al.Block(): true}
			resetBefore := false // x = T{} in front of the call, in its block
			for _, ref := range *al.Referrers() {
				if st, ok := ref.(*ssa.Store); ok && st.Addr == ssa.Value(al) {
					if k, ok := st.Val.(*ssa.Const); ok && k.Value == nil {
						if st.Block() == call.Block() {
							if instrIndex(st) < instrIndex(call) {
								resetBefore = true
							}
						} else {
							avoid[st.Block()] = true
						}
					}
				}
			}
			if !resetBefore && (al.Block() != call.Block() || instrIndex(al) > instrIndex(call)) {
				for _, s := range call.Block().Succs {
					if s == call.Block() || reachableFrom(s, nil, nil, avoid)[call.Block()] {
						bad = "the call is in a loop and the object is made outside it: from the second round on the struct still holds the members of the message decoded before"
					}
				}
			}
			// an earlier decode into the same object on a path to this one
			for _, other := range calls {
				if other == call || len(other.Call.Args) == 0 {
					continue
				}
				ot := other.Call.Args[targetArg(f, other)]
				if mi, ok := ot.(*ssa.MakeInterface); ok {
					ot = mi.X
				}
				if ot != ssa.Value(al) {
					continue
				}
				if other.Block() == call.Block() && instrIndex(other) < instrIndex(call) || other.Block() != call.Block() && reachableFrom(other.Block(), nil, nil, avoid)[call.Block()] {
					bad = "the same object was filled by the Unmarshal at " + posOf(c, other) + " on a path to this one"
				}
			}
			r.check(bad == "", rule, key, posOf(c, call), "decoded into a new local object", what+" is not decoded into an empty struct: "+bad+" - "+consequence)
		}
	}
	return total
}

// errTested: the value (or a copy through a phi/store to a local) is an
// operand of ==/!= nil feeding an If.
func errTested(v ssa.Value) bool {
	seen := map[ssa.Value]bool{}
	var visit func(v ssa.Value) bool
	visit = func(v ssa.Value) bool {
		if seen[v] {
			return false
		}
		seen[v] = true
		refs := v.Referrers()
		if refs == nil {
			return false
		}
		for _, ref := range *refs {
			switch x := ref.(type) {
			case *ssa.BinOp:
				if x.Op == token.NEQ || x.Op == token.EQL {
					for _, r2 := range *x.Referrers() {
						if _, ok := r2.(*ssa.If); ok {
							return true
						}
					}
				}
			case *ssa.Phi:
				if visit(x) {
					return true
				}
			case *ssa.Extract:
				if visit(x) {
					return true
				}
			case *ssa.Store:
				// stored into a local: follow the loads of that local
				if a, ok := x.Addr.(*ssa.Alloc); ok && x.Val == v {
					for _, r3 := range *a.Referrers() {
						if ld, ok := r3.(*ssa.UnOp); ok && ld.Op == token.MUL {
							if visit(ld) {
								return true
							}
						}
					}
				}
			}
		}
		return false
	}
	return visit(v)
}

// ordinalOf numbers the calls of obj inside f in source order (stable key).
func ordinalOf(f *ssa.Function, call *ssa.Call, obj *types.Func) string {
	n := 0
	res := 0
	eachInstr(f, func(_ *ssa.BasicBlock, _ int, ins ssa.Instruction) {
		if c2, ok := ins.(*ssa.Call); ok && calleeObj(&c2.Call) == obj {
			n++
			if c2 == call {
				res = n
			}
		}
	})
	return strconv.Itoa(res)
}

// c17Codes: constants in ccs_diameter/code vs dictionary codes.
func c17Codes(c *Ctx, r *Report, ds *dictSet, appID uint32) {
	norm := func(s string) string {
		return strings.ToLower(strings.NewReplacer("-", "", "_", "").Replace(s))
	}
	dictByNorm := map[string]*dAVP{}
	for _, a := range ds.all[appID] {
		dictByNorm[norm(a.Name)] = a
	}
	p := c.pkg("ccs_diameter/code")
	for _, name := range p.Types.Scope().Names() {
		k, ok := p.Types.Scope().Lookup(name).(*types.Const)
		if !ok || k.Val().Kind() != constant.Int {
			continue
		}
		a := dictByNorm[norm(name)]
		if a == nil {
			continue
		}
		v, _ := constant.Int64Val(k.Val())
		// several dictionary AVPs may share the normalised name only if codes agree (checked by R3)
		r.check(uint32(v) == a.Code, "C17.R6", name, c.rel(k.Pos()), fmt.Sprintf("= %d = dictionary code of %s", v, a.Name),
			fmt.Sprintf("constant %s = %d but the dictionary gives %s code %d", name, v, a.Name, a.Code))
	}
}

// c17FieldAssigned: some function of the module stores into member i of the
// named struct type (composite literals are stores in SSA form).
func c17FieldAssigned(c *Ctx, tn *types.TypeName, i int) bool {
	found := false
	for _, f := range c.ModFuncs {
		eachInstr(f, func(_ *ssa.BasicBlock, _ int, ins ssa.Instruction) {
			st, ok := ins.(*ssa.Store)
			if !ok {
				return
			}
			fa, ok := st.Addr.(*ssa.FieldAddr)
			if !ok || fa.Field != i {
				return
			}
			t := fa.X.Type()
			if p, ok := t.Underlying().(*types.Pointer); ok {
				t = p.Elem()
			}
			if n, ok := t.(*types.Named); ok && n.Obj() == tn {
				found = true
			}
		})
	}
	return found
}

// c17HasAvpMembers: t (or the struct it points to) has members with avp tags.
func c17HasAvpMembers(t types.Type) bool {
	if p, ok := t.Underlying().(*types.Pointer); ok {
		t = p.Elem()
	}
	st, ok := t.Underlying().(*types.Struct)
	if !ok {
		return false
	}
	for i := 0; i < st.NumFields(); i++ {
		if parseAvpTagName(reflect.StructTag(st.Tag(i))) != "" {
			return true
		}
	}
	return false
}

// c17EnumConstants (C17.R8): constants of the member's named integer type vs the <item>s of the
// Enumerated AVP it carries, matched by name (case and separators ignored).
func c17EnumConstants(c *Ctx, r *Report, pkg *types.Package, t types.Type, a *dAVP, done map[string]bool) {
	if len(a.Data.Enum) == 0 {
		return
	}
	nt, ok := t.(*types.Named)
	if !ok || nt.Obj().Pkg() != pkg {
		return
	}
	if b, ok := nt.Underlying().(*types.Basic); !ok || b.Info()&types.IsInteger == 0 {
		return
	}
	if done[nt.Obj().Name()+"|"+a.Name] {
		return
	}
	done[nt.Obj().Name()+"|"+a.Name] = true
	norm := func(s string) string {
		return strings.ToLower(strings.NewReplacer("_", "", "-", "", " ", "").Replace(s))
	}
	items := map[string]*dEnum{}
	for _, it := range a.Data.Enum {
		items[norm(it.Name)] = it
	}
	for _, name := range pkg.Scope().Names() {
		k, ok := pkg.Scope().Lookup(name).(*types.Const)
		if !ok || !types.Identical(k.Type(), nt) {
			continue
		}
		v, exact := constant.Int64Val(k.Val())
		if !exact {
			continue
		}
		it := items[norm(name)]
		if it == nil {
			// a prefixed constant (REQ_SUBTYPE_RESERVE for item RESERVE ...): the longest item name that ends it
			for in, cand := range items {
				if strings.HasSuffix(norm(name), in) && (it == nil || len(in) > len(norm(it.Name))) {
					it = cand
				}
			}
		}
		key := nt.Obj().Name() + "." + name + "|" + a.Name
		if it == nil {
			r.info("C17.R8", key, c.rel(k.Pos()), "no item of "+a.Name+" is named like this constant")
			continue
		}
		r.check(int64(it.Code) == v, "C17.R8", key, c.rel(k.Pos()), fmt.Sprintf("= %d, item %s of %s", v, it.Name, a.Name),
			fmt.Sprintf("constant %s is %d but the dictionary gives item %s of %s the code %d: a peer that follows the dictionary (and every comparison with this constant) means another value - e.g. an initial request is no longer taken for one", name, v, it.Name, a.Name, it.Code))
	}
}
