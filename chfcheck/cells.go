package main

import (
	"fmt"
	"go/token"
	"sort"
	"strings"

	"golang.org/x/tools/go/ssa"
)

// Abstract heap for the map cells of the subscriber context (ue.F[key]).
// Reaching definitions are computed per function on the CFG with back edges
// cut, i.e. for ONE iteration of the per-rating-group loop: the value a cell
// has when an iteration starts is the symbol cell0:F.  Calls do not kill cells
// (C01.R5 establishes that nothing outside the listed writers touches them).

type cellKey struct {
	field string
	key   ssa.Value
}

type cellState map[cellKey]map[*ssa.MapUpdate]bool // nil *MapUpdate = value at iteration entry

type cellAnalysis struct {
	f       *ssa.Function
	in      map[*ssa.BasicBlock]cellState
	isBack  map[[2]*ssa.BasicBlock]bool
	updates []*ssa.MapUpdate
}

func cloneCellState(s cellState) cellState {
	r := cellState{}
	for k, v := range s {
		m := map[*ssa.MapUpdate]bool{}
		for d := range v {
			m[d] = true
		}
		r[k] = m
	}
	return r
}

// ueCellOf: the instruction accesses ue.F[key] (Lookup or MapUpdate).
func ueCellOf(m ssa.Value, key ssa.Value) (cellKey, bool) {
	name, ok := ueFieldOfValue(m)
	if !ok {
		return cellKey{}, false
	}
	return cellKey{name, key}, true
}

func newCellAnalysis(f *ssa.Function) *cellAnalysis {
	ca := &cellAnalysis{f: f, in: map[*ssa.BasicBlock]cellState{}, isBack: map[[2]*ssa.BasicBlock]bool{}}
	for _, b := range f.Blocks {
		for _, s := range b.Succs {
			if s.Dominates(b) {
				ca.isBack[[2]*ssa.BasicBlock{b, s}] = true
			}
		}
	}
	// all cells touched
	cells := map[cellKey]bool{}
	eachInstr(f, func(_ *ssa.BasicBlock, _ int, ins ssa.Instruction) {
		switch x := ins.(type) {
		case *ssa.MapUpdate:
			if ck, ok := ueCellOf(x.Map, x.Key); ok {
				cells[ck] = true
				ca.updates = append(ca.updates, x)
			}
		case *ssa.Lookup:
			if ck, ok := ueCellOf(x.X, x.Index); ok {
				cells[ck] = true
			}
		}
	})
	entry := cellState{}
	for ck := range cells {
		entry[ck] = map[*ssa.MapUpdate]bool{nil: true}
	}
	// loop heads re-symbolise: a block that is the target of a back edge starts with entry values
	loopHead := map[*ssa.BasicBlock]bool{}
	for e := range ca.isBack {
		loopHead[e[1]] = true
	}
	if len(f.Blocks) == 0 {
		return ca
	}
	ca.in[f.Blocks[0]] = cloneCellState(entry)
	work := []*ssa.BasicBlock{f.Blocks[0]}
	for len(work) > 0 {
		b := work[0]
		work = work[1:]
		st := cloneCellState(ca.in[b])
		for _, ins := range b.Instrs {
			if mu, ok := ins.(*ssa.MapUpdate); ok {
				if ck, ok := ueCellOf(mu.Map, mu.Key); ok {
					st[ck] = map[*ssa.MapUpdate]bool{mu: true}
				}
			}
		}
		for _, s := range b.Succs {
			if ca.isBack[[2]*ssa.BasicBlock{b, s}] {
				continue
			}
			var out cellState
			if loopHead[s] {
				out = cloneCellState(entry)
			} else {
				out = st
			}
			cur, seen := ca.in[s]
			if !seen {
				ca.in[s] = cloneCellState(out)
				work = append(work, s)
				continue
			}
			changed := false
			for ck, defs := range out {
				if cur[ck] == nil {
					cur[ck] = map[*ssa.MapUpdate]bool{}
				}
				for d := range defs {
					if !cur[ck][d] {
						cur[ck][d] = true
						changed = true
					}
				}
			}
			if changed {
				work = append(work, s)
			}
		}
	}
	return ca
}

// defsAt returns the definitions of the cell that reach instruction `at`.
func (ca *cellAnalysis) defsAt(ck cellKey, at ssa.Instruction) []*ssa.MapUpdate {
	b := at.Block()
	st := ca.in[b]
	cur := map[*ssa.MapUpdate]bool{}
	for d := range st[ck] {
		cur[d] = true
	}
	for _, ins := range b.Instrs {
		if ins == at {
			break
		}
		if mu, ok := ins.(*ssa.MapUpdate); ok {
			if k2, ok := ueCellOf(mu.Map, mu.Key); ok && k2 == ck {
				cur = map[*ssa.MapUpdate]bool{mu: true}
			}
		}
	}
	var out []*ssa.MapUpdate
	for d := range cur {
		out = append(out, d)
	}
	sort.Slice(out, func(i, j int) bool {
		if out[i] == nil {
			return true
		}
		if out[j] == nil {
			return false
		}
		return out[i].Pos() < out[j].Pos()
	})
	return out
}

// cellFormEval returns a form evaluator in which look-ups of subscriber cells
// are replaced by the value of their unique reaching definition, by the entry
// symbol cell0:F, or by an opaque merge symbol.
func cellFormEval(f *ssa.Function, ca *cellAnalysis) *formEval {
	fe := newFormEval(f)
	fe.override = func(v ssa.Value) (poly, bool) {
		lk, ok := v.(*ssa.Lookup)
		if !ok || lk.CommaOk {
			return nil, false
		}
		ck, ok := ueCellOf(lk.X, lk.Index)
		if !ok {
			return nil, false
		}
		defs := ca.defsAt(ck, lk)
		if len(defs) == 1 {
			if defs[0] == nil {
				return atomPoly("cell0:" + ck.field), true
			}
			return fe.eval(defs[0].Value), true
		}
		var names []string
		for _, d := range defs {
			if d == nil {
				names = append(names, "cell0")
			} else {
				names = append(names, fe.eval(d.Value).String())
			}
		}
		return atomPoly(fmt.Sprintf("cellmerge:%s{%s}", ck.field, strings.Join(names, " | "))), true
	}
	return fe
}

// ---------------------------------------------------------------------------
// flattened member assignments of a struct object (composite literals nested)

type flatStore struct {
	path string
	val  ssa.Value
	at   *ssa.Store // the store into the root object's member
}

// flattenStores lists the member assignments root.<path> = val made through
// FieldAddr stores on root, expanding values that are composite literals
// (Alloc with field stores) into their members.
func flattenStores(f *ssa.Function, root ssa.Value) []flatStore {
	var out []flatStore
	var expand func(prefix string, val ssa.Value, at *ssa.Store, depth int)
	expand = func(prefix string, val ssa.Value, at *ssa.Store, depth int) {
		out = append(out, flatStore{prefix, val, at})
		a, ok := val.(*ssa.Alloc)
		if !ok || depth > 4 {
			return
		}
		for _, ref := range *a.Referrers() {
			fa, ok := ref.(*ssa.FieldAddr)
			if !ok {
				continue
			}
			for _, r2 := range *fa.Referrers() {
				if st, ok := r2.(*ssa.Store); ok && st.Addr == ssa.Value(fa) {
					expand(prefix+"."+fieldName(fa), st.Val, at, depth+1)
				}
			}
		}
	}
	if root.Referrers() == nil {
		return nil
	}
	var direct func(base ssa.Value, prefix string, depth int)
	direct = func(base ssa.Value, prefix string, depth int) {
		if depth > 4 || base.Referrers() == nil {
			return
		}
		for _, ref := range *base.Referrers() {
			fa, ok := ref.(*ssa.FieldAddr)
			if !ok || fa.X != base {
				continue
			}
			name := fieldName(fa)
			if prefix != "" {
				name = prefix + "." + name
			}
			for _, r2 := range *fa.Referrers() {
				if st, ok := r2.(*ssa.Store); ok && st.Addr == ssa.Value(fa) {
					expand(name, st.Val, st, 0)
				}
			}
			// member that is itself a struct value: its fields are assigned through a nested FieldAddr
			direct(fa, name, depth+1)
		}
	}
	direct(root, "", 0)
	return out
}

// lastStoreBefore: among the flattened stores with the given path, the one
// that dominates `at` most closely (no other store of the same path between).
func lastStoreBefore(stores []flatStore, path string, at ssa.Instruction) (flatStore, bool) {
	var best *flatStore
	for i := range stores {
		s := &stores[i]
		if s.path != path || !instrDominates(s.at, at) {
			continue
		}
		if best == nil || instrDominates(best.at, s.at) {
			best = s
		}
	}
	if best == nil {
		return flatStore{}, false
	}
	return *best, true
}

func isLoadOf(v ssa.Value) (*ssa.UnOp, bool) {
	ld, ok := v.(*ssa.UnOp)
	return ld, ok && ld.Op == token.MUL
}
