package main

import (
	"go/token"
	"go/types"
	"strings"

	"golang.org/x/tools/go/ssa"
)

// E6: nil-guard engine.  A nilable source is a load of a pointer-typed field
// selected by a predicate on (owner struct type, field).  Every dereference of
// such a value must be dominated by the non-nil edge of a test of the same
// access path (or, one call level up, the argument it came from must be).

type nilSite struct {
	f       *ssa.Function
	ins     ssa.Instruction // the dereferencing instruction
	ptr     ssa.Value       // the nilable pointer
	path    accessPath
	guarded bool
	how     string
}

type nilEngine struct {
	c         *Ctx
	isSource  func(owner *types.Named, field *types.Var) bool
	callersOf map[*ssa.Function][]ssa.CallInstruction
}

func newNilEngine(c *Ctx, isSource func(owner *types.Named, field *types.Var) bool) *nilEngine {
	ne := &nilEngine{c: c, isSource: isSource, callersOf: map[*ssa.Function][]ssa.CallInstruction{}}
	for _, f := range c.ModFuncs {
		eachInstr(f, func(_ *ssa.BasicBlock, _ int, ins ssa.Instruction) {
			if ci, ok := ins.(ssa.CallInstruction); ok {
				if sc := ci.Common().StaticCallee(); sc != nil {
					ne.callersOf[sc] = append(ne.callersOf[sc], ci)
				}
			}
		})
	}
	return ne
}

// nilableLoad: v is a load of a source field; returns the field address.
func (ne *nilEngine) nilableLoad(v ssa.Value) (*ssa.FieldAddr, bool) {
	ld, ok := v.(*ssa.UnOp)
	if !ok || ld.Op != token.MUL {
		return nil, false
	}
	fa, ok := ld.X.(*ssa.FieldAddr)
	if !ok {
		return nil, false
	}
	owner := namedOf(fa.X.Type())
	st := derefStruct(fa.X.Type())
	if owner == nil || st == nil {
		return nil, false
	}
	fld := st.Field(fa.Field)
	switch fld.Type().Underlying().(type) {
	case *types.Pointer:
	default:
		return nil, false
	}
	if !ne.isSource(owner, fld) {
		return nil, false
	}
	return fa, true
}

// derefOperand returns the pointer an instruction dereferences (nil if none).
func derefOperand(ins ssa.Instruction) ssa.Value {
	switch x := ins.(type) {
	case *ssa.FieldAddr:
		return x.X
	case *ssa.UnOp:
		if x.Op == token.MUL {
			return x.X
		}
	case *ssa.Store:
		return x.Addr
	case *ssa.IndexAddr:
		if _, ok := x.X.Type().Underlying().(*types.Pointer); ok {
			return x.X
		}
	}
	return nil
}

// sites lists every dereference of a nilable source value in f.
func (ne *nilEngine) sites(f *ssa.Function) []nilSite {
	var out []nilSite
	eachInstr(f, func(_ *ssa.BasicBlock, _ int, ins ssa.Instruction) {
		p := derefOperand(ins)
		if p == nil {
			return
		}
		if _, ok := ne.nilableLoad(p); !ok {
			return
		}
		path, okp := pathOf(p)
		s := nilSite{f: f, ins: ins, ptr: p, path: path}
		if !okp {
			s.path = accessPath{}
		}
		s.guarded, s.how = ne.guardedIn(f, p, path, okp, ins)
		if !s.guarded && okp {
			// one or more call levels up
			if a, ok := path.Root.(*ssa.Alloc); ok {
				for i, prm := range f.Params {
					if paramAlloc(prm) == a {
						if ok2, how := ne.guardedByCallers(f, i, path.Elems, 0); ok2 {
							s.guarded, s.how = true, how
						}
					}
				}
			}
		}
		out = append(out, s)
	})
	return out
}

// guardedIn: a test `q != nil` with q the same value or the same access path
// whose non-nil edge dominates `at`.
func (ne *nilEngine) guardedIn(f *ssa.Function, p ssa.Value, path accessPath, havePath bool, at ssa.Instruction) (bool, string) {
	for _, b := range f.Blocks {
		if len(b.Instrs) == 0 {
			continue
		}
		ifi, ok := b.Instrs[len(b.Instrs)-1].(*ssa.If)
		if !ok {
			continue
		}
		bo, ok := ifi.Cond.(*ssa.BinOp)
		if !ok || (bo.Op != token.NEQ && bo.Op != token.EQL) {
			continue
		}
		var q ssa.Value
		if isNilConst(bo.Y) {
			q = bo.X
		} else if isNilConst(bo.X) {
			q = bo.Y
		} else {
			continue
		}
		same := q == p
		if !same && havePath {
			if qp, ok := pathOf(q); ok && qp.Root == path.Root && strings.Join(qp.Elems, ".") == strings.Join(path.Elems, ".") && len(path.Elems) > 0 {
				same = true
			}
		}
		if !same {
			continue
		}
		nonNil := b.Succs[0]
		if bo.Op == token.EQL {
			nonNil = b.Succs[1]
		}
		if edgeDominates(b, nonNil, at.Block()) {
			return true, "non-nil edge of the test at " + posOf(ne.c, ifi) + " dominates"
		}
	}
	return false, ""
}

// guardedByCallers: every static call site of f passes, as argument idx, a
// struct whose member `elems` is tested non-nil on an edge dominating the call.
func (ne *nilEngine) guardedByCallers(f *ssa.Function, idx int, elems []string, depth int) (bool, string) {
	if depth > 3 {
		return false, ""
	}
	callers := ne.callersOf[f]
	if len(callers) == 0 {
		return false, ""
	}
	for _, cs := range callers {
		cc := cs.Common()
		if idx >= len(cc.Args) {
			return false, ""
		}
		arg := cc.Args[idx]
		ap, ok := pathOf(arg)
		if !ok {
			return false, ""
		}
		full := accessPath{Root: ap.Root, Elems: append(append([]string{}, ap.Elems...), elems...)}
		g := cs.Parent()
		if ok2, _ := ne.guardedIn(g, nil, full, true, cs); ok2 {
			continue
		}
		// propagate further up when the caller's root is its own parameter
		up := false
		if a, ok := ap.Root.(*ssa.Alloc); ok {
			for i, prm := range g.Params {
				if paramAlloc(prm) == a {
					if ok3, _ := ne.guardedByCallers(g, i, full.Elems, depth+1); ok3 {
						up = true
					}
				}
			}
		}
		if !up {
			return false, ""
		}
	}
	return true, "every caller tests the member non-nil before the call"
}

// requestModelTypes: named struct types reachable from the request type inside
// its package.
func requestModelTypes(root *types.Named) map[*types.Named]bool {
	out := map[*types.Named]bool{}
	var visit func(t types.Type)
	visit = func(t types.Type) {
		switch x := t.(type) {
		case *types.Pointer:
			visit(x.Elem())
		case *types.Slice:
			visit(x.Elem())
		case *types.Array:
			visit(x.Elem())
		case *types.Map:
			visit(x.Elem())
		case *types.Named:
			if out[x] {
				return
			}
			st, ok := x.Underlying().(*types.Struct)
			if !ok {
				return
			}
			if x.Obj().Pkg() == nil || x.Obj().Pkg() != root.Obj().Pkg() {
				return
			}
			out[x] = true
			for i := 0; i < st.NumFields(); i++ {
				visit(st.Field(i).Type())
			}
		}
	}
	visit(root)
	return out
}
