package main

import (
	"fmt"
	"go/constant"
	"go/token"
	"go/types"
	"sort"
	"strings"

	"golang.org/x/tools/go/ssa"
)

// encodersWriteWhatGiven: the layout rules decide where each member of the
// header lands in the file; they describe the file only if the members written
// are the members of the object the encoder was given.  A value-receiver
// encoder that assigns to a member of its receiver (a default for a value it
// takes for "unset", a list cut down to a maximum, a counter it corrects) or
// that replaces the receiver by another object writes something else than the
// caller stated: for some well-formed structure the reader does not recover
// the field that was written (C15), the structure read back differs (C14), and
// the counters computed by the caller no longer describe the file (C03).
// Decided: no member of the receiver is assigned, no member is read from another
// object of the receiver's type.  Not decided: whether a modification is the
// identity on every value inside the field's width (it is reported).
func encodersWriteWhatGiven(c *Ctx, r *Report, rule string, fns ...*ssa.Function) {
	for _, f := range fns {
		if f == nil || len(f.Params) == 0 || len(f.Blocks) == 0 {
			continue
		}
		recv := f.Params[0]
		rt := derefType(recv.Type())
		var spills []*ssa.Alloc
		copyInit := map[*ssa.Store]bool{}
		for _, ref := range *recv.Referrers() {
			if st, ok := ref.(*ssa.Store); ok && st.Val == ssa.Value(recv) {
				if a, ok := st.Addr.(*ssa.Alloc); ok {
					spills = append(spills, a)
				}
			}
		}
		// copies of the receiver (a by-value helper inlined by the normalisation, a local of the same
		// type initialised from the receiver) stand for the receiver as well
		isSpillV := func(v ssa.Value) bool {
			for _, a := range spills {
				if v == ssa.Value(a) {
					return true
				}
			}
			return false
		}
		for changed := true; changed; {
			changed = false
			eachInstr(f, func(_ *ssa.BasicBlock, _ int, ins ssa.Instruction) {
				a, ok := ins.(*ssa.Alloc)
				if !ok || isSpillV(a) || !types.Identical(derefType(a.Type()), rt) {
					return
				}
				var direct []*ssa.Store
				for _, ref := range *a.Referrers() {
					if st, ok := ref.(*ssa.Store); ok && st.Addr == ssa.Value(a) {
						direct = append(direct, st)
					}
				}
				if len(direct) != 1 {
					return
				}
				if ld, ok := direct[0].Val.(*ssa.UnOp); ok && ld.Op == token.MUL && isSpillV(ld.X) {
					spills = append(spills, a)
					copyInit[direct[0]] = true
					changed = true
				}
			})
		}
		type mod struct {
			path string
			ins  ssa.Instruction
		}
		var mods []mod
		seen := map[ssa.Value]bool{}
		var walk func(v ssa.Value, path string, isAddr bool)
		walk = func(v ssa.Value, path string, isAddr bool) {
			if seen[v] || v.Referrers() == nil {
				return
			}
			seen[v] = true
			for _, ref := range *v.Referrers() {
				switch y := ref.(type) {
				case *ssa.FieldAddr:
					if y.X == v {
						walk(y, path+"."+fieldName(y), true)
					}
				case *ssa.Field:
					if y.X == v {
						st, _ := derefType(v.Type()).Underlying().(*types.Struct)
						name := "?"
						if st != nil && y.Field < st.NumFields() {
							name = st.Field(y.Field).Name()
						}
						walk(y, path+"."+name, false)
					}
				case *ssa.IndexAddr:
					if y.X == v {
						walk(y, path+"[i]", true)
					}
				case *ssa.Store:
					if isAddr && y.Addr == v && y.Val != ssa.Value(recv) && !copyInit[y] {
						mods = append(mods, mod{strings.TrimPrefix(path, "."), y})
					}
				case *ssa.UnOp:
					if isAddr && y.Op == token.MUL && y.X == v {
						switch y.Type().Underlying().(type) {
						case *types.Slice, *types.Pointer:
							walk(y, path, false) // shared storage behind the member
						}
					}
				case *ssa.Slice:
					if y.X == v {
						walk(y, path, false)
					}
				case *ssa.Call:
					// the address of the receiver (or of a member) handed to a function of this module
					if isAddr {
						if callee := y.Call.StaticCallee(); callee != nil && c.inModule(callee) {
							for _, a := range y.Call.Args {
								if a == v {
									mods = append(mods, mod{strings.TrimPrefix(path, ".") + " (address passed to " + shortFn(callee) + ")", y})
								}
							}
						}
					}
				}
			}
		}
		for _, a := range spills {
			walk(a, "", true)
		}
		walk(recv, "", false)
		// members read from another object of the receiver's type
		var foreign []mod
		nReads := 0
		isSpill := func(v ssa.Value) bool {
			for _, a := range spills {
				if v == ssa.Value(a) {
					return true
				}
			}
			return false
		}
		eachInstr(f, func(_ *ssa.BasicBlock, _ int, ins ssa.Instruction) {
			var base ssa.Value
			var name string
			switch y := ins.(type) {
			case *ssa.Field:
				base = y.X
				if st, ok := derefType(y.X.Type()).Underlying().(*types.Struct); ok && y.Field < st.NumFields() {
					name = st.Field(y.Field).Name()
				}
			case *ssa.FieldAddr:
				base = y.X
				name = fieldName(y)
			default:
				return
			}
			if !types.Identical(derefType(base.Type()), rt) {
				return
			}
			nReads++
			if base == ssa.Value(recv) || isSpill(base) {
				return
			}
			if ld, ok := base.(*ssa.UnOp); ok && ld.Op == token.MUL && isSpill(ld.X) {
				return
			}
			foreign = append(foreign, mod{name + " of " + describe(base), ins})
		})
		key := fnKey(f)
		if len(mods) == 0 && len(foreign) == 0 {
			r.proven(rule, key+"|receiver unmodified", c.rel(f.Pos()), fmt.Sprintf("%d member reads, all of the receiver; no member of the receiver is assigned", nReads))
			continue
		}
		names := map[string]ssa.Instruction{}
		for _, m := range mods {
			if _, ok := names[m.path]; !ok {
				names[m.path] = m.ins
			}
		}
		var order []string
		for k := range names {
			order = append(order, k)
		}
		sort.Strings(order)
		for _, k := range order {
			r.viol(rule, key+"|assigns "+k, posOf(c, names[k]), "the encoder assigns to member "+k+" of the object it was given before writing it: what is written is no longer what the caller stated - a value the encoder takes for unset (or a list / counter it corrects on its own) is a legal value of the field, and the reader gets something else back")
		}
		fn := map[string]ssa.Instruction{}
		for _, m := range foreign {
			if _, ok := fn[m.path]; !ok {
				fn[m.path] = m.ins
			}
		}
		order = order[:0]
		for k := range fn {
			order = append(order, k)
		}
		sort.Strings(order)
		for _, k := range order {
			r.viol(rule, key+"|reads "+k, posOf(c, fn[k]), "the encoder writes member "+k+" instead of the member of the object it was given")
		}
	}
}

// c04HeaderResult (C04.R16): appendTagAndLen appends to the slice it is given and returns the
// result, like append.  The octets of the header are the returned slice; the buffer passed in
// holds them only while they fit its capacity - beyond it append moves to a new array and the
// buffer passed in stays as it was.  A caller that keeps only the length of the result and reads
// the octets back from its own fixed buffer is right only if that buffer can hold the longest
// header there is: 1 + 10 identifier octets (64-bit tag number in base 128) + 1 + 8 length octets.
func c04HeaderResult(c *Ctx, r *Report, rule string) {
	const maxHeader = 20
	f := c.fn("cdr/asn", "appendTagAndLen")
	n := 0
	for _, g := range c.ModFuncs {
		eachInstr(g, func(_ *ssa.BasicBlock, _ int, ins ssa.Instruction) {
			call, ok := ins.(*ssa.Call)
			if !ok || call.Call.StaticCallee() != f || len(call.Call.Args) == 0 {
				return
			}
			n++
			key := fmt.Sprintf("%s|header #%d", fnKey(rootOf(g)), n)
			content := false
			if call.Referrers() != nil {
				for _, ref := range *call.Referrers() {
					switch y := ref.(type) {
					case *ssa.DebugRef:
					case *ssa.Call:
						if b, ok := y.Call.Value.(*ssa.Builtin); ok && (b.Name() == "len" || b.Name() == "cap") {
							continue
						}
						content = true
					default:
						content = true
					}
				}
			}
			if content {
				r.proven(rule, key, posOf(c, call), "the returned slice is what is kept / encoded")
				return
			}
			capN := int64(-1)
			if sl, ok := stripConv(call.Call.Args[0]).(*ssa.Slice); ok {
				if p, ok := sl.X.Type().Underlying().(*types.Pointer); ok {
					if arr, ok := p.Elem().Underlying().(*types.Array); ok {
						capN = arr.Len()
					}
				}
			}
			r.check(capN >= maxHeader, rule, key, posOf(c, call), fmt.Sprintf("only the length of the result is kept, the buffer passed in holds %d octets >= the longest header (%d)", capN, maxHeader),
				fmt.Sprintf("only the length of the slice appendTagAndLen returns is kept and the octets are read back from the buffer passed in, which holds %d octets: a header of more than that (a tag number >= 2^21 with a content of 64 KiB or more, ...; the longest is %d octets) is appended to a new array, the buffer passed in does not hold it and slicing it to the kept length panics / yields other octets", capN, maxHeader))
		})
	}
	if n == 0 {
		r.viol(rule, "call sites", c.rel(f.Pos()), "no call of appendTagAndLen found (anchor moved)")
	}
}

// structMemberSources: where can member `member` of the struct value v come from - the
// parameters / calls / constants that are its (flow-insensitive) writers when v is a local.
func structMemberSources(v ssa.Value, member string, seen map[ssa.Value]bool) []ssa.Value {
	if seen[v] {
		return nil
	}
	seen[v] = true
	switch x := v.(type) {
	case *ssa.Phi:
		var out []ssa.Value
		for _, e := range x.Edges {
			out = append(out, structMemberSources(e, member, seen)...)
		}
		return out
	case *ssa.UnOp:
		if x.Op != token.MUL {
			return []ssa.Value{v}
		}
		a, ok := x.X.(*ssa.Alloc)
		if !ok {
			return []ssa.Value{v}
		}
		if seen[a] {
			return nil
		}
		seen[a] = true
		var out []ssa.Value
		for _, ref := range *a.Referrers() {
			switch y := ref.(type) {
			case *ssa.Store:
				if y.Addr == ssa.Value(a) {
					out = append(out, structMemberSources(y.Val, member, seen)...)
				}
			case *ssa.FieldAddr:
				if y.X != ssa.Value(a) || fieldName(y) != member {
					continue
				}
				for _, r2 := range *y.Referrers() {
					if st, ok := r2.(*ssa.Store); ok && st.Addr == ssa.Value(y) {
						out = append(out, memberValueSources(st.Val, member, seen)...)
					}
				}
			}
		}
		return out
	case *ssa.Call:
		// a helper of this module that builds the parameters: the sources of what it returns,
		// its own parameters mapped back to the arguments of this call
		callee := x.Call.StaticCallee()
		if callee == nil || len(callee.Blocks) == 0 || callee.Pkg == nil || !strings.HasPrefix(callee.Pkg.Pkg.Path(), modPath) || x.Call.IsInvoke() {
			return []ssa.Value{v}
		}
		var out []ssa.Value
		for _, b := range callee.Blocks {
			ret, ok := b.Instrs[len(b.Instrs)-1].(*ssa.Return)
			if !ok || len(ret.Results) == 0 {
				continue
			}
			for _, s := range structMemberSources(ret.Results[0], member, seen) {
				mapped := false
				for i, cp := range callee.Params {
					if s == ssa.Value(cp) && i < len(x.Call.Args) {
						out = append(out, structMemberSources(x.Call.Args[i], member, seen)...)
						mapped = true
					}
				}
				if !mapped {
					out = append(out, s)
				}
			}
		}
		return out
	}
	return []ssa.Value{v}
}

// memberValueSources: a value assigned to member `member`: the same member of another object
// (followed), or the value itself.
func memberValueSources(v ssa.Value, member string, seen map[ssa.Value]bool) []ssa.Value {
	switch x := v.(type) {
	case *ssa.Field:
		if st, ok := derefType(x.X.Type()).Underlying().(*types.Struct); ok && x.Field < st.NumFields() && st.Field(x.Field).Name() == member {
			return structMemberSources(x.X, member, seen)
		}
	case *ssa.UnOp:
		if fa, ok := x.X.(*ssa.FieldAddr); ok && x.Op == token.MUL && fieldName(fa) == member {
			if a, ok := fa.X.(*ssa.Alloc); ok {
				// a member of a local: its writers
				ld := &ssa.UnOp{Op: token.MUL, X: a}
				return structMemberSources(ld, member, seen)
			}
		}
	case *ssa.Phi:
		var out []ssa.Value
		for _, e := range x.Edges {
			out = append(out, memberValueSources(e, member, seen)...)
		}
		return out
	}
	return []ssa.Value{v}
}

// c04TagParamsPassThrough (C04.R17): a member whose type is a wrapper (struct{Value T} /
// struct{List []T}) or a pointer has no tag of its own: the element written for it carries the
// tag number and the IMPLICIT / EXPLICIT choice declared at the member.  makeField descends
// into the wrapper with a recursive call; the parameters it passes on must carry the caller's
// tagNumber and explicitTag - parameters rebuilt on the way (merged with those of the inner
// member, say) that take either from somewhere else encode `[n] EXPLICIT T` as IMPLICIT or under
// another number.
func c04TagParamsPassThrough(c *Ctx, r *Report, rule string) {
	f := c.fn("cdr/asn", "makeField")
	if len(f.Params) < 2 {
		r.viol(rule, fnKey(f)+"|shape", c.rel(f.Pos()), "makeField no longer takes (value, parameters)")
		return
	}
	p := f.Params[1]
	n := 0
	eachInstr(f, func(_ *ssa.BasicBlock, _ int, ins ssa.Instruction) {
		call, ok := ins.(*ssa.Call)
		if !ok || call.Call.StaticCallee() != f || len(call.Call.Args) < 2 {
			return
		}
		// descent into the same element: v.Elem() or val.Field(0)
		arg0, ok := call.Call.Args[0].(*ssa.Call)
		if !ok {
			return
		}
		obj := calleeObj(&arg0.Call)
		if obj == nil || obj.Pkg() == nil || obj.Pkg().Path() != "reflect" {
			return
		}
		what := ""
		switch obj.Name() {
		case "Elem":
			what = "pointer / interface"
		case "Field":
			if k, ok := constInt(arg0.Call.Args[len(arg0.Call.Args)-1]); ok && k == 0 {
				what = "wrapper member 0"
			}
		}
		if what == "" {
			return
		}
		n++
		for _, member := range []string{"tagNumber", "explicitTag"} {
			srcs := structMemberSources(call.Call.Args[1], member, map[ssa.Value]bool{})
			// the caller's declaration must be among the sources (parameters that may *also* take a
			// tag from the inner member are an extension, not a loss)
			bad, reaches := "nothing (never assigned: the zero value)", false
			for _, s := range srcs {
				if s == ssa.Value(p) {
					reaches = true
				} else {
					bad = describe(s)
				}
			}
			if reaches {
				bad = ""
			}
			r.check(bad == "", rule, fmt.Sprintf("%s|descent #%d (%s)|%s", fnKey(f), n, what, member), posOf(c, call),
				"the parameters passed on carry the caller's "+member,
				"descending into the "+what+" of a member, makeField passes on parameters whose "+member+" comes only from "+bad+", never from the member's own declaration: `[n] EXPLICIT` / the declared tag number of a member of a wrapper type is lost (the element is written IMPLICIT or under another number)")
		}
	})
	if n == 0 {
		r.proven(rule, fnKey(f)+"|descents", c.rel(f.Pos()), "no recursive descent into the same element (pointer / wrapper) in makeField: nothing to pass on")
	}
}

// c04BitStringOctets (C04.R18 / C05.R15): a BIT STRING of n bits has ceil(n/8) contents octets
// after the initial octet (X.690 8.6.2); the decoder derives the bit length from the number of
// contents octets and the unused-bit count, so one octet more reads back 8 bits longer.  Len
// must announce 1 + len(Bytes) (the caller's octets as they are) or 1 + ceil(BitLength/8)
// written as (BitLength+7)/8 or (BitLength+7)>>3.
func c04BitStringOctets(c *Ctx, r *Report, rule string) {
	f := c.fn("cdr/asn", "bitStringEncoder.Len")
	key := fnKey(f) + "|contents octets"
	isMember := func(v ssa.Value, name string) bool {
		v = stripConv(v)
		switch x := v.(type) {
		case *ssa.Field:
			if st, ok := derefType(x.X.Type()).Underlying().(*types.Struct); ok && x.Field < st.NumFields() {
				return st.Field(x.Field).Name() == name
			}
		case *ssa.UnOp:
			if fa, ok := x.X.(*ssa.FieldAddr); ok && x.Op == token.MUL {
				return fieldName(fa) == name
			}
		}
		return false
	}
	var octets func(v ssa.Value) (string, bool)
	octets = func(v ssa.Value) (string, bool) {
		v = stripConv(v)
		switch x := v.(type) {
		case *ssa.Call:
			if b, ok := x.Call.Value.(*ssa.Builtin); ok && b.Name() == "len" && len(x.Call.Args) == 1 && isMember(x.Call.Args[0], "Bytes") {
				return "len(Bytes)", true
			}
		case *ssa.BinOp:
			k, isK := constInt(x.Y)
			if (x.Op == token.QUO && isK && k == 8) || (x.Op == token.SHR && isK && k == 3) {
				if in, ok := stripConv(x.X).(*ssa.BinOp); ok && in.Op == token.ADD {
					a, b := in.X, in.Y
					if _, isC := constInt(a); isC {
						a, b = b, a
					}
					if kb, ok := constInt(b); ok && kb == 7 && isMember(a, "BitLength") {
						return "ceil(BitLength/8)", true
					}
				}
			}
		}
		return describe(v), false
	}
	n := 0
	for _, ri := range returnsOf(f) {
		if len(ri.Vals) != 1 {
			continue
		}
		for _, lf := range leavesOf(ri.Vals[0]) {
			n++
			v := stripConv(lf.val)
			what, ok := "", false
			if bo, isB := v.(*ssa.BinOp); isB && bo.Op == token.ADD {
				a, b := bo.X, bo.Y
				if _, isC := constInt(a); isC {
					a, b = b, a
				}
				if k, isC := constInt(b); isC && k == 1 {
					what, ok = octets(a)
				} else {
					what = describe(v)
				}
			} else {
				what = describe(v)
			}
			r.check(ok, rule, fmt.Sprintf("%s #%d", key, n), c.rel(f.Pos()), "Len = 1 + "+what,
				"the BIT STRING encoder announces "+what+" octets, neither 1 + len(Bytes) nor 1 + ceil(BitLength/8) in a form this rule knows: a bit length that is a multiple of 8 (0, 8, 16 ...) must not get an octet beyond BitLength/8 - the decoder takes every contents octet for 8 bits of the string")
		}
	}
	if n == 0 {
		r.viol(rule, key, c.rel(f.Pos()), "bitStringEncoder.Len returns nothing this rule can read")
	}
}

// poolKeysAsReceived (C10.R10): a session reference is looked up in the context of its
// subscriber, and update / release find that context by the identifier of their own request.
// The context must therefore sit in the pool under the identifier the create received: every
// access of CHFContext.UePool (Load, LoadOrStore, Store) takes as key the string parameter of
// the function it is in, unchanged, or the Supi member that was assigned from it.  A create that
// files the context under a cleaned-up identifier answers with a reference that no later request
// - which presents the identifier as it was sent - can reach.
func poolKeysAsReceived(c *Ctx, r *Report, rule string) {
	n := 0
	for _, f := range c.ModFuncs {
		eachInstr(f, func(_ *ssa.BasicBlock, _ int, ins ssa.Instruction) {
			call, ok := ins.(*ssa.Call)
			if !ok {
				return
			}
			obj := calleeObj(&call.Call)
			if obj == nil || obj.Pkg() == nil || obj.Pkg().Path() != "sync" || len(call.Call.Args) < 2 {
				return
			}
			switch obj.Name() {
			case "Load", "LoadOrStore", "Store", "LoadAndDelete", "Delete", "Swap", "CompareAndSwap":
			default:
				return
			}
			fa, ok := call.Call.Args[0].(*ssa.FieldAddr)
			if !ok || fieldName(fa) != "UePool" || !typeIs(fa.X.Type(), ctxPath, "CHFContext") {
				return
			}
			n++
			root := rootOf(f)
			key := call.Call.Args[1]
			if mi, ok := key.(*ssa.MakeInterface); ok {
				key = mi.X
			}
			key = stripConv(key)
			k := fmt.Sprintf("%s|%s key", fnKey(root), obj.Name())
			var strParams []ssa.Value
			for _, p := range f.Params {
				if b, ok := p.Type().Underlying().(*types.Basic); ok && b.Info()&types.IsString != 0 {
					strParams = append(strParams, p)
				}
			}
			isParam := func(v ssa.Value) bool {
				for _, p := range strParams {
					if v == p {
						return true
					}
				}
				return false
			}
			okKey := isParam(key)
			what := describe(key)
			if !okKey {
				// ue.Supi, assigned from the parameter in the same function
				if ld, isLd := key.(*ssa.UnOp); isLd && ld.Op == token.MUL {
					if kfa, isFa := ld.X.(*ssa.FieldAddr); isFa && fieldName(kfa) == "Supi" {
						okKey = true
						found := false
						eachInstr(f, func(_ *ssa.BasicBlock, _ int, i2 ssa.Instruction) {
							if st, ok := i2.(*ssa.Store); ok {
								if sfa, ok := st.Addr.(*ssa.FieldAddr); ok && fieldName(sfa) == "Supi" && sfa.X == kfa.X {
									found = true
									if !isParam(stripConv(st.Val)) {
										okKey = false
										what = "Supi member assigned from " + describe(st.Val)
									}
								}
							}
						})
						if !found {
							okKey = false
						}
					}
				}
			}
			r.check(okKey, rule, k, posOf(c, call), "the key is the identifier the function received", "the subscriber pool is accessed under "+what+", not under the identifier the function received: a context filed under a derived (trimmed, re-cased, shortened) identifier is not found by the update and release of the same subscriber, which look it up by the identifier as sent - the create answers 201 with a reference that designates nothing")
		})
	}
	if n == 0 {
		r.viol(rule, "subscriber pool|accesses", "", "no access of CHFContext.UePool found (anchor moved)")
	}
}

// c16KindTypedSetters (C16.R9): reflect's typed setters panic when the Value is of another
// kind (SetInt on a struct, SetBool on an int ...).  In the decoder every such call must sit
// in a branch that is entered only for a compatible kind - the case of a switch on Kind(),
// or an if on Kind() == k - or be the selector store of a CHOICE (member 0 of a struct whose
// first member is named Present, an int by the schema rule C04.R2).  A setter reached for
// whatever kind a schema member happens to have panics for some target type.
func c16KindTypedSetters(c *Ctx, r *Report, rule string) {
	compatible := map[string]map[int64]bool{
		"SetBool":   {1: true},
		"SetInt":    {2: true, 3: true, 4: true, 5: true, 6: true},
		"SetUint":   {7: true, 8: true, 9: true, 10: true, 11: true, 12: true},
		"SetFloat":  {13: true, 14: true},
		"SetString": {24: true},
		"SetBytes":  {23: true},
	}
	kindCase := func(b *ssa.BasicBlock) (map[int64]bool, bool) {
		if len(b.Preds) == 0 {
			return nil, false
		}
		ks := map[int64]bool{}
		for _, p := range b.Preds {
			if len(p.Instrs) == 0 || len(p.Succs) != 2 || p.Succs[0] != b || p.Succs[1] == b {
				return nil, false
			}
			ifi, ok := p.Instrs[len(p.Instrs)-1].(*ssa.If)
			if !ok {
				return nil, false
			}
			bo, ok := ifi.Cond.(*ssa.BinOp)
			if !ok || bo.Op != token.EQL {
				return nil, false
			}
			x, y := bo.X, bo.Y
			if _, isC := x.(*ssa.Const); isC {
				x, y = y, x
			}
			k, isC := constInt(y)
			call, isCall := stripConv(x).(*ssa.Call)
			if !isC || !isCall {
				return nil, false
			}
			if obj := calleeObj(&call.Call); obj == nil || obj.Name() != "Kind" || obj.Pkg() == nil || obj.Pkg().Path() != "reflect" {
				return nil, false
			}
			ks[k] = true
		}
		return ks, true
	}
	n := 0
	for _, f := range c.ModFuncs {
		root := rootOf(f)
		if root.Pkg == nil || root.Pkg.Pkg.Path() != asnPath {
			continue
		}
		eachInstr(f, func(_ *ssa.BasicBlock, _ int, ins ssa.Instruction) {
			call, ok := ins.(*ssa.Call)
			if !ok {
				return
			}
			obj := calleeObj(&call.Call)
			if obj == nil || obj.Pkg() == nil || obj.Pkg().Path() != "reflect" || compatible[obj.Name()] == nil {
				return
			}
			if sig, ok := obj.Type().(*types.Signature); !ok || sig.Recv() == nil {
				return
			}
			n++
			key := fmt.Sprintf("%s|%s #%s", fnKey(root), obj.Name(), ordinalOf(f, call, obj))
			want := compatible[obj.Name()]
			guard := ""
			for b := call.Block(); b != nil; b = b.Idom() {
				ks, ok := kindCase(b)
				if !ok {
					continue
				}
				all := len(ks) > 0
				for k := range ks {
					if !want[k] {
						all = false
					}
				}
				if all {
					guard = fmt.Sprintf("kinds %v", keysOfInt64(ks))
					break
				}
			}
			if guard == "" && obj.Name() == "SetInt" && len(call.Call.Args) > 0 {
				// CHOICE selector: X.Field(0).SetInt(..) where member 0 is named Present
				if fc, ok := call.Call.Args[0].(*ssa.Call); ok && isFunc(calleeObj(&fc.Call), "reflect", "Value.Field") {
					if k, ok := constInt(fc.Call.Args[len(fc.Call.Args)-1]); ok && k == 0 {
						for b := call.Block(); b != nil; b = b.Idom() {
							for _, p := range b.Preds {
								if len(p.Instrs) == 0 || len(p.Succs) != 2 || p.Succs[0] != b {
									continue
								}
								if ifi, ok := p.Instrs[len(p.Instrs)-1].(*ssa.If); ok {
									if bo, ok := ifi.Cond.(*ssa.BinOp); ok && bo.Op == token.EQL {
										for _, v := range []ssa.Value{bo.X, bo.Y} {
											if s, ok := constString(v); ok && s == "Present" && b.Dominates(call.Block()) {
												guard = "selector of a CHOICE (member 0 named Present)"
											}
										}
									}
								}
							}
						}
					}
				}
			}
			r.check(guard != "", rule, key, posOf(c, call), "reached only for "+guard,
				"reflect "+obj.Name()+" is reached without a test that the value is of a kind it accepts: for a schema member of another kind (a wrapper struct, a string ...) reflect panics - the decoder crashes on input that selects that member instead of returning a value or an error")
		})
	}
	if n == 0 {
		r.viol(rule, "typed setters", "", "no typed reflect setter found in the decoder (anchor moved)")
	}
}

type storeVia struct {
	path string
	ins  ssa.Instruction
}

// storesThrough lists the stores into the object v designates (v: its address when isAddr,
// else a value that holds pointers / slices into it), following member addresses, indexing and
// loaded pointer members; calls that hand such an address to a function of the module are
// followed one level into the callee's parameter.
func storesThrough(c *Ctx, v ssa.Value, isAddr bool, depth int) []storeVia {
	var out []storeVia
	seen := map[ssa.Value]bool{}
	var walk func(v ssa.Value, path string, isAddr bool)
	walk = func(v ssa.Value, path string, isAddr bool) {
		if seen[v] || v.Referrers() == nil {
			return
		}
		seen[v] = true
		for _, ref := range *v.Referrers() {
			switch y := ref.(type) {
			case *ssa.FieldAddr:
				if y.X == v {
					walk(y, path+"."+fieldName(y), true)
				}
			case *ssa.IndexAddr:
				if y.X == v {
					walk(y, path+"[i]", true)
				}
			case *ssa.Store:
				if isAddr && y.Addr == v {
					out = append(out, storeVia{strings.TrimPrefix(path, "."), y})
				}
			case *ssa.UnOp:
				if isAddr && y.Op == token.MUL && y.X == v {
					switch y.Type().Underlying().(type) {
					case *types.Slice, *types.Pointer:
						walk(y, path, true)
					}
				}
			case *ssa.Phi:
				walk(y, path, isAddr)
			case *ssa.Call:
				if !isAddr || depth <= 0 {
					continue
				}
				callee := y.Call.StaticCallee()
				if callee == nil || !c.inModule(callee) || len(callee.Blocks) == 0 {
					continue
				}
				for i, a := range y.Call.Args {
					if a == v && i < len(callee.Params) {
						for _, s := range storesThrough(c, callee.Params[i], true, depth-1) {
							out = append(out, storeVia{strings.TrimPrefix(path+"."+s.path, ".") + " (in " + shortFn(callee) + ")", y})
						}
					}
				}
			}
		}
	}
	walk(v, "", isAddr)
	return out
}

// c17DeliveredAsDecoded (C17.R11): what the peer sent is what the rest of the CHF works with.
// Between the Unmarshal of a message and the point where the decoded struct is handed on, the
// receiving function assigns no member of it: a default filled in for a member it takes for
// "left out" replaces a value that was sent (digits 0 / exponent 0 is a tariff, not an absence).
func c17DeliveredAsDecoded(c *Ctx, r *Report, rule string) {
	n := 0
	for _, f := range c.ModFuncs {
		eachInstr(f, func(_ *ssa.BasicBlock, _ int, ins ssa.Instruction) {
			call, ok := ins.(*ssa.Call)
			if !ok || !isFunc(calleeObj(&call.Call), diamPath, "Message.Unmarshal") || len(call.Call.Args) == 0 {
				return
			}
			target := call.Call.Args[len(call.Call.Args)-1]
			if mi, ok := target.(*ssa.MakeInterface); ok {
				target = mi.X
			}
			n++
			key := fmt.Sprintf("%s|Unmarshal #%s delivered as decoded", fnKey(rootOf(f)), ordinalOf(f, call, calleeObj(&call.Call)))
			after := reachableFrom(call.Block(), nil, nil, nil)
			var bad []string
			for _, s := range storesThrough(c, target, true, 1) {
				b := s.ins.Block()
				if b.Parent() != f {
					continue
				}
				if (b == call.Block() && instrIndex(s.ins) > instrIndex(call)) || (b != call.Block() && after[b]) {
					bad = append(bad, s.path+" at "+posOf(c, s.ins))
				}
			}
			sort.Strings(bad)
			r.check(len(bad) == 0, rule, key, posOf(c, call), "no member of the decoded struct is assigned after the decode",
				"after the decode the receiving function assigns members of the decoded message ("+strings.Join(bad, "; ")+"): what the peer sent is replaced - a value that was sent and equals what the code takes for `left out` (a Unit-Cost of digits 0, exponent 0; an absent optional group made present) is not received as sent")
		})
	}
	if n == 0 {
		r.viol(rule, "decodes", "", "no diam Unmarshal found (anchor moved)")
	}
}

// c19ExchangeObjectsMadeOnce (C19.R9): a subscriber's answer channel, Diameter state machine
// and client are wired to each other when the context is made (the client's Handler is the
// state machine, the answer handler registered on the state machine delivers into the channel).
// They keep working together only while all three stay what the constructor made them: a
// function that replaces one of them (a "reset" after a time-out) leaves the others wired to
// the old object - the client keeps dispatching to the old state machine, whose handler fills
// the old channel, and every later request of the subscriber waits on a channel nobody fills.
func c19ExchangeObjectsMadeOnce(c *Ctx, r *Report, rule string) {
	isExchange := func(t types.Type) bool {
		switch u := t.Underlying().(type) {
		case *types.Chan:
			return true
		case *types.Pointer:
			if n, ok := u.Elem().(*types.Named); ok && n.Obj().Pkg() != nil && strings.HasSuffix(n.Obj().Pkg().Path(), "go-diameter/diam/sm") {
				return true
			}
		}
		return false
	}
	n := 0
	for _, f := range c.ModFuncs {
		eachInstr(f, func(_ *ssa.BasicBlock, _ int, ins ssa.Instruction) {
			st, ok := ins.(*ssa.Store)
			if !ok {
				return
			}
			fa, ok := st.Addr.(*ssa.FieldAddr)
			if !ok || !typeIs(fa.X.Type(), ctxPath, "ChfUe") {
				return
			}
			ft := derefStruct(fa.X.Type()).Field(fa.Field)
			if !isExchange(ft.Type()) {
				return
			}
			n++
			root := rootOf(f)
			key := fmt.Sprintf("%s|assigns ChfUe.%s", fnKey(root), ft.Name())
			isCtor := root.Name() == "init" && root.Signature.Recv() != nil && typeIs(root.Signature.Recv().Type(), ctxPath, "ChfUe")
			if !isCtor {
				// a constructor by another name: the context it writes is one it has just made
				if a, ok := fa.X.(*ssa.Alloc); ok {
					isCtor = a.Parent() == f
				}
			}
			how := "assigned while the context is being made"
			if isCtor {
				// ... and made for this context: a channel / state machine / client that several
				// subscribers share delivers one subscriber's answers to whoever registered last
				fresh := false
				switch v := stripConv(st.Val).(type) {
				case *ssa.MakeChan:
					fresh = true
				case *ssa.Alloc:
					fresh = v.Parent() == f
				case *ssa.Call:
					if obj := calleeObj(&v.Call); obj != nil && obj.Pkg() != nil && strings.HasSuffix(obj.Pkg().Path(), "go-diameter/diam/sm") && obj.Name() == "New" {
						fresh = true
					}
				}
				if !fresh {
					r.viol(rule, key, posOf(c, st), "ChfUe."+ft.Name()+" is assigned "+describe(st.Val)+", not an object made for this subscriber (make(chan ..), sm.New(..), &sm.Client{..}): a channel or state machine that subscribers share carries one answer handler - the one registered last - so while two subscribers have requests outstanding the answer for one is delivered to the other, who acts on it, and the first times out")
					return
				}
			}
			if !isCtor {
				switch ft.Type().Underlying().(type) {
				case *types.Chan:
					// a new channel alone is harmless: the answer handler is registered with the
					// channel member read at the start of every request (C19.R5 decides that)
					isCtor, how = true, "a fresh answer channel; the handler registration of every request reads the member (C19.R5)"
				default:
					// a new state machine is fine when the same function makes the client dispatch to it
					if strings.HasSuffix(types.TypeString(ft.Type(), nil), "sm.StateMachine") {
						eachInstr(f, func(_ *ssa.BasicBlock, _ int, i2 ssa.Instruction) {
							s2, ok := i2.(*ssa.Store)
							if !ok {
								return
							}
							fa2, ok := s2.Addr.(*ssa.FieldAddr)
							if !ok || fieldName(fa2) != "Handler" {
								return
							}
							v := s2.Val
							if mi, ok := v.(*ssa.MakeInterface); ok {
								v = mi.X
							}
							if v == st.Val {
								isCtor, how = true, "the state machine is replaced together with the Handler of the client"
							}
							if ld, ok := v.(*ssa.UnOp); ok && ld.Op == token.MUL {
								if fa3, ok := ld.X.(*ssa.FieldAddr); ok && fa3.Field == fa.Field && instrDominates(st, s2) {
									isCtor, how = true, "the state machine is replaced together with the Handler of the client"
								}
							}
						})
					}
				}
			}
			r.check(isCtor, rule, key, posOf(c, st), how, "ChfUe."+ft.Name()+" is replaced outside the constructor: the channel, the state machine and the client of a subscriber are wired to each other when the context is made (client.Handler = state machine, registered answer handler -> channel); replacing one leaves the others on the old object, and the requests that follow wait on a channel that is never filled (or a late answer of the old exchange is taken by the new one)")
		})
	}
	if n == 0 {
		r.viol(rule, "exchange objects", "", "no assignment of a channel / state machine / client member of ChfUe found (anchor moved)")
	}
}

// c19ExchangeUnderLock (C19.R10): the answer channel of a subscriber is shared by all the
// operations of that subscriber; what keeps an operation from taking the answer meant for
// another is that only one of them talks to the peer at a time - every call of a client
// function (SendServiceUsageRequest, SendAccountDebitRequest) that a request can reach is
// made with the subscriber's lock held.
func c19ExchangeUnderLock(c *Ctx, r *Report, rule string) {
	sa := newSharedAnalysis(c)
	clients := map[*ssa.Function]bool{
		c.fn("internal/rating", "SendServiceUsageRequest"): true,
		c.fn("internal/abmf", "SendAccountDebitRequest"):   true,
	}
	elig := sa.eligible("ChfUe")
	n := 0
	for _, f := range c.ModFuncs {
		if !sa.ls.reached[f] {
			continue
		}
		eachInstr(f, func(_ *ssa.BasicBlock, _ int, ins ssa.Instruction) {
			call, ok := ins.(*ssa.Call)
			if !ok || !clients[call.Call.StaticCallee()] {
				return
			}
			n++
			held, _ := sa.ls.heldAt(call)
			key := fmt.Sprintf("%s|%s #%s under the subscriber's lock", fnKey(rootOf(f)), call.Call.StaticCallee().Name(), ordinalOf(f, call, calleeObj(&call.Call)))
			r.check(held&elig != 0, rule, key, posOf(c, call), "called with "+sa.ls.names(held&elig)+" held on every path from a request entry",
				"the exchange with the peer is started without the subscriber's lock on some path from a request entry (held: "+sa.ls.names(held)+"): two operations of one subscriber then wait on the same answer channel, and each can take the answer to the other's request - a rating answer for another rating group, a grant that was not asked for")
		})
	}
	if n == 0 {
		r.viol(rule, "client calls", "", "no request-reachable call of the Diameter client functions found (anchor moved)")
	}
}

// c06GrantsComeFromCreditControl (C06.R10): a response to a create or an update carries grants;
// a grant is covered by money only when the credit control of *this* request produced it.  Every
// return of ChargingDataCreate / ChargingDataUpdate that hands back a response (non-nil) lies
// behind the call that runs sessionChargingReservation for the request - a response replayed
// from an earlier request hands out units again that were reserved (and perhaps used up) once.
func c06GrantsComeFromCreditControl(c *Ctx, r *Report, rule string) {
	scr := c.fn("internal/sbi/processor", "sessionChargingReservation")
	reaches := map[*ssa.Function]bool{scr: true}
	for changed := true; changed; {
		changed = false
		for _, f := range c.ModFuncs {
			if reaches[f] {
				continue
			}
			eachInstr(f, func(_ *ssa.BasicBlock, _ int, ins ssa.Instruction) {
				if call, ok := ins.(*ssa.Call); ok && reaches[call.Call.StaticCallee()] && !reaches[f] {
					reaches[f] = true
					changed = true
				}
			})
		}
	}
	// a release reports the last usage of the session: it is settled against the reservation by
	// the same credit control - a release that succeeds without it leaves used units unpaid, and the
	// next session of the subscriber starts on a reservation that was consumed already
	{
		f := c.fn("internal/sbi/processor", "Processor.ChargingDataRelease")
		key := fnKey(f) + "|a successful release has run the credit control of its usage"
		cc := map[*ssa.BasicBlock]bool{}
		eachInstr(f, func(b *ssa.BasicBlock, _ int, ins ssa.Instruction) {
			if call, ok := ins.(*ssa.Call); ok && reaches[call.Call.StaticCallee()] {
				cc[b] = true
			}
		})
		free := reachableFrom(f.Blocks[0], nil, nil, cc)
		bad := ""
		for _, ri := range returnsOf(f) {
			if len(ri.Vals) == 0 {
				continue
			}
			// `if problem != nil { return problem }`: the value returned here is not nil, whatever
			// its merge node lists
			if nilTestDominates(f, ri.Vals[0], ri.Ret.Block()) {
				continue
			}
			for _, lf := range leavesOf(ri.Vals[0]) {
				if k, isC := lf.val.(*ssa.Const); !isC || k.Value != nil {
					continue
				}
				exit := ri.At
				if lf.from != nil {
					exit = lf.from
				}
				if free[exit] || len(cc) == 0 {
					bad = posOf(c, ri.Ret)
				}
			}
		}
		r.check(bad == "", rule, key, c.rel(f.Pos()), "every success return lies behind the credit control of the request", "the release can succeed (return at "+bad+") without having run sessionChargingReservation for the usage it reports: the units used since the last update are never deducted from the reservation, which the subscriber's next session then spends again - units are granted that no money covers")
	}
	for _, name := range []string{"Processor.ChargingDataCreate", "Processor.ChargingDataUpdate"} {
		f := c.fn("internal/sbi/processor", name)
		key := fnKey(f) + "|responses come from this request's credit control"
		cc := map[*ssa.BasicBlock]bool{}
		eachInstr(f, func(b *ssa.BasicBlock, _ int, ins ssa.Instruction) {
			if call, ok := ins.(*ssa.Call); ok && reaches[call.Call.StaticCallee()] {
				cc[b] = true
			}
		})
		if len(cc) == 0 {
			if name == "Processor.ChargingDataCreate" {
				// the create of this tree runs no credit control: its response carries no grants -
				// unless it hands back a response object that comes from elsewhere
				foreign := ""
				for _, ri := range returnsOf(f) {
					if len(ri.Vals) == 0 {
						continue
					}
					for _, lf := range leavesOf(ri.Vals[0]) {
						if k, isC := lf.val.(*ssa.Const); isC && k.Value == nil {
							continue
						}
						if a, ok := lf.val.(*ssa.Alloc); !ok || a.Parent() != f {
							foreign = posOf(c, ri.Ret) + " (" + describe(lf.val) + ")"
						}
					}
				}
				r.check(foreign == "", rule, key, c.rel(f.Pos()), "create runs no credit control and returns only a response object it made itself (no grants)", "create returns a response that it did not make for this request at "+foreign+": grants of another request are handed out again")
				continue
			}
			r.viol(rule, key, c.rel(f.Pos()), "no call that reaches sessionChargingReservation in "+name)
			continue
		}
		free := reachableFrom(f.Blocks[0], nil, nil, cc)
		bad := ""
		n := 0
		for _, ri := range returnsOf(f) {
			if len(ri.Vals) == 0 {
				continue
			}
			for _, lf := range leavesOf(ri.Vals[0]) {
				if k, isC := lf.val.(*ssa.Const); isC && k.Value == nil {
					continue
				}
				n++
				exit := ri.At
				if lf.from != nil {
					exit = lf.from
				}
				if free[exit] {
					bad = posOf(c, ri.Ret) + " (" + describe(lf.val) + ")"
				}
			}
		}
		r.check(bad == "" && n > 0, rule, key, c.rel(f.Pos()), fmt.Sprintf("%d response returns, all behind the credit control of the request", n),
			"a response is returned at "+bad+" on a path that does not run the credit control for this request: its grants were produced for another request - units are handed out again without a new reservation, and the account can be driven below zero when they are used")
	}
}

// stringTableElems: the constant elements of a package-level []string initialised by a literal
// and assigned nowhere else.
func stringTableElems(c *Ctx, g *ssa.Global) ([]string, bool) {
	if g == nil || g.Pkg == nil {
		return nil, false
	}
	init := g.Pkg.Func("init")
	if init == nil {
		return nil, false
	}
	for _, f := range c.ModFuncs {
		if f == init {
			continue
		}
		bad := false
		eachInstr(f, func(_ *ssa.BasicBlock, _ int, ins ssa.Instruction) {
			if st, ok := ins.(*ssa.Store); ok {
				if st.Addr == ssa.Value(g) {
					bad = true
				}
				if ia, ok := st.Addr.(*ssa.IndexAddr); ok && globalOfLoad(ia.X) == g {
					bad = true
				}
			}
		})
		if bad {
			return nil, false
		}
	}
	var out []string
	ok := false
	eachInstr(init, func(_ *ssa.BasicBlock, _ int, ins ssa.Instruction) {
		st, isSt := ins.(*ssa.Store)
		if !isSt || st.Addr != ssa.Value(g) {
			return
		}
		sl, isSl := st.Val.(*ssa.Slice)
		if !isSl {
			return
		}
		a, isA := sl.X.(*ssa.Alloc)
		if !isA {
			return
		}
		ok = true
		for _, e := range arrayLiteralElems(a) {
			for _, ref := range *e.Referrers() {
				if es, isS := ref.(*ssa.Store); isS && es.Addr == e {
					if s, isC := constString(es.Val); isC {
						out = append(out, s)
					} else {
						ok = false
					}
				}
			}
		}
	})
	return out, ok
}

// c01AdmittedSubscribersDistinct (C01.R12): credit control addresses the account and the
// tariff of a subscriber by the Subscription-Id built from the SUPI (type + the SUPI without its
// prefix).  Two SUPI formats that are given the same Subscription-Id type are the same subscriber
// to the rating function and the account server.  This is harmless while NewCHFUe admits only one
// of them; every format it admits must have a Subscription-Id type of its own.
func c01AdmittedSubscribersDistinct(c *Ctx, r *Report, rule string) {
	newUe := c.fn("internal/context", "CHFContext.NewCHFUe")
	key := fnKey(newUe) + "|admitted SUPI formats have their own Subscription-Id type"
	admitted, undecided := admittedSupiFormats(c)
	if undecided != "" {
		r.viol(rule, key, c.rel(newUe.Pos()), "cannot enumerate the SUPI formats NewCHFUe admits ("+undecided+")")
		return
	}
	// the Subscription-Id type per SUPI type in the credit-control step
	scr := c.fn("internal/sbi/processor", "sessionChargingReservation")
	typeOf := map[string]int64{}
	eachInstr(scr, func(_ *ssa.BasicBlock, _ int, ins ssa.Instruction) {
		st, ok := ins.(*ssa.Store)
		if !ok {
			return
		}
		fa, ok := st.Addr.(*ssa.FieldAddr)
		if !ok || fieldName(fa) != "SubscriptionIdType" {
			return
		}
		k, ok := constInt(st.Val)
		if !ok {
			return
		}
		for b := st.Block(); b != nil; b = b.Idom() {
			found := false
			for _, p := range b.Preds {
				if len(p.Instrs) == 0 || len(p.Succs) != 2 || p.Succs[0] != b {
					continue
				}
				ifi, ok := p.Instrs[len(p.Instrs)-1].(*ssa.If)
				if !ok {
					continue
				}
				bo, ok := ifi.Cond.(*ssa.BinOp)
				if !ok || bo.Op != token.EQL {
					continue
				}
				for _, v := range []ssa.Value{bo.X, bo.Y} {
					if s, ok := constString(v); ok {
						typeOf[s] = k
						found = true
					}
				}
			}
			if found {
				break
			}
		}
	})
	byType := map[int64][]string{}
	var names []string
	for p := range admitted {
		names = append(names, p)
	}
	sort.Strings(names)
	for _, p := range names {
		if k, ok := typeOf[strings.TrimSuffix(p, "-")]; ok {
			byType[k] = append(byType[k], p)
		}
	}
	bad := ""
	for k, ps := range byType {
		if len(ps) > 1 {
			bad = fmt.Sprintf("%v all get Subscription-Id type %d", ps, k)
		}
	}
	r.check(bad == "", rule, key, c.rel(newUe.Pos()), fmt.Sprintf("admitted formats %v, each with a Subscription-Id type of its own", names),
		"NewCHFUe admits SUPI formats that credit control cannot tell apart: "+bad+" and are sent without their prefix - subscribers `gci-X` and `nai-X` are charged to one account and rated with one tariff, so neither subscriber's credit is conserved")
}

// admittedSupiFormats: the constant prefixes NewCHFUe tests the identifier against (directly or
// through a read-only table of prefixes).
func admittedSupiFormats(c *Ctx) (map[string]bool, string) {
	newUe := c.fn("internal/context", "CHFContext.NewCHFUe")
	admitted := map[string]bool{}
	undecided := ""
	eachInstr(newUe, func(_ *ssa.BasicBlock, _ int, ins ssa.Instruction) {
		call, ok := ins.(*ssa.Call)
		if !ok || !isFunc(calleeObj(&call.Call), "strings", "HasPrefix") || len(call.Call.Args) != 2 {
			return
		}
		if s, ok := constString(call.Call.Args[1]); ok {
			admitted[s] = true
			return
		}
		if g := tableOfElement(call.Call.Args[1], 0); g != nil {
			if elems, ok := stringTableElems(c, g); ok {
				for _, s := range elems {
					admitted[s] = true
				}
				return
			}
		}
		undecided = describe(call.Call.Args[1])
	})
	// the same test written as a comparison: supi[:5] == "imsi-", or the part in front of the
	// first "-" (strings.Cut / Split) == "imsi"
	eachInstr(newUe, func(_ *ssa.BasicBlock, _ int, ins ssa.Instruction) {
		bo, ok := ins.(*ssa.BinOp)
		if !ok || bo.Op != token.EQL {
			return
		}
		for _, v := range []ssa.Value{bo.X, bo.Y} {
			if s, ok := constString(v); ok && s != "" {
				if !strings.HasSuffix(s, "-") {
					s += "-"
				}
				admitted[s] = true
			}
		}
	})
	if len(admitted) == 0 && undecided == "" {
		undecided = "no prefix test found"
	}
	return admitted, undecided
}

// c12RechargeParamVsAdmittedIds (C12.R13): the recharge path parameter is <ueId>_<ratingGroup>
// and RechargePut cuts it with strings.Split, refusing everything that does not give exactly two
// parts.  That is right while a subscriber id cannot contain the separator - true for the IMSI
// format (digits).  Once NewCHFUe admits a format whose ids may contain an underscore (an NAI),
// a known subscriber of that format can be created and charged but never recharged: the
// parameter has to be cut at its last separator then.
func c12RechargeParamVsAdmittedIds(c *Ctx, r *Report, rule string) {
	f := c.fn("internal/sbi", "Server.RechargePut")
	key := fnKey(f) + "|separator cannot occur in an admitted subscriber id"
	admitted, undecided := admittedSupiFormats(c)
	if undecided != "" {
		r.viol(rule, key, c.rel(f.Pos()), "cannot enumerate the SUPI formats NewCHFUe admits ("+undecided+")")
		return
	}
	var others []string
	for p := range admitted {
		if p != "imsi-" {
			others = append(others, p)
		}
	}
	sort.Strings(others)
	if len(others) == 0 {
		r.proven(rule, key, c.rel(f.Pos()), "only the IMSI format is admitted: its ids are digits and cannot contain the separator of the recharge parameter")
		return
	}
	// ids of other formats may contain the separator: is the parameter cut at the last one?
	last := false
	eachInstr(f, func(_ *ssa.BasicBlock, _ int, ins ssa.Instruction) {
		if call, ok := ins.(*ssa.Call); ok {
			if obj := calleeObj(&call.Call); obj != nil && obj.Pkg() != nil && obj.Pkg().Path() == "strings" && (obj.Name() == "LastIndex" || obj.Name() == "LastIndexByte") {
				last = true
			}
		}
	})
	r.check(last, rule, key, c.rel(f.Pos()), "the parameter is cut at its last separator", fmt.Sprintf("NewCHFUe admits the formats %v, whose ids may contain `_` (a legal NAI character), while RechargePut refuses every parameter that does not split into exactly two parts: a known subscriber of such a format is answered 400 and no re-authorisation notification is sent", others))
}

// noLockAcrossNotification (C09.R8 / C11.R11 / C12.R14): the re-authorisation notification is an
// HTTP request to the consumer, and the consumer is entitled to react to it with a charging
// data update of the same subscriber *before* it answers the notification.  That update needs
// the subscriber's lock.  The CHF must therefore not hold any lock of the module while it waits
// for the answer to the notification: otherwise the two sides wait for each other until a
// client time-out, the update is not answered and nobody else can be served for the subscriber.
// (The Diameter exchanges are different: those peers never call back.)
func noLockAcrossNotification(c *Ctx, r *Report, rule string) {
	sa := newSharedAnalysis(c)
	n := 0
	for _, f := range c.ModFuncs {
		if !sa.ls.reached[f] {
			continue
		}
		eachInstr(f, func(_ *ssa.BasicBlock, _ int, ins ssa.Instruction) {
			call, ok := ins.(*ssa.Call)
			if !ok {
				return
			}
			obj := calleeObj(&call.Call)
			if obj == nil || obj.Pkg() == nil || obj.Name() != "PostChargingNotification" || strings.HasPrefix(obj.Pkg().Path(), modPath) {
				return
			}
			n++
			held, _ := sa.ls.heldAt(call)
			key := fmt.Sprintf("%s|notification #%s sent with no lock held", fnKey(rootOf(f)), ordinalOf(f, call, obj))
			r.check(held == 0, rule, key, posOf(c, call), "no lock of the module is held while the CHF waits for the consumer's answer",
				"the notification to the consumer is sent - and its answer awaited - with "+sa.ls.names(held)+" held: a consumer that reacts to the notification with an update of the same subscriber before it answers (it may) waits for that lock, the CHF waits for the answer: both stall until the HTTP client gives up, the update is not answered in time and every other request of the subscriber queues behind them")
		})
	}
	if n == 0 {
		r.viol(rule, "notification", "", "no request-reachable call of PostChargingNotification found (anchor moved)")
	}
}

// subscriberKeyBehindTypeTest (C07.R9 / C08.R8): the account and the tariff of a request are
// looked up under "imsi-" + Subscription-Id-Data.  That is the subscriber the request names
// only when the Subscription-Id-Type says the data is an IMSI: for an E.164 number or an NAI
// with the same digits it is somebody else's account.  The key is built only behind the test
// Subscription-Id-Type == END_USER_IMSI.
func subscriberKeyBehindTypeTest(c *Ctx, r *Report, rule string, handlers ...*ssa.Function) {
	imsiT := constOf(c, "ccs_diameter/datatype", "END_USER_IMSI")
	for _, h := range handlers {
		n := 0
		for _, f := range withAnon(h) {
			eachInstr(f, func(_ *ssa.BasicBlock, _ int, ins ssa.Instruction) {
				bo, ok := ins.(*ssa.BinOp)
				if !ok || bo.Op != token.ADD {
					return
				}
				s, ok := constString(bo.X)
				if !ok || s != "imsi-" {
					return
				}
				n++
				guarded := false
				for b := bo.Block(); b != nil && !guarded; b = b.Idom() {
					for _, p := range b.Preds {
						if len(p.Instrs) == 0 || len(p.Succs) != 2 || p.Succs[0] != b || p.Succs[1] == b {
							continue
						}
						ifi, ok := p.Instrs[len(p.Instrs)-1].(*ssa.If)
						if !ok {
							continue
						}
						cmp, ok := ifi.Cond.(*ssa.BinOp)
						if !ok || cmp.Op != token.EQL {
							continue
						}
						x, y := cmp.X, cmp.Y
						if _, isC := x.(*ssa.Const); isC {
							x, y = y, x
						}
						k, isC := constInt(y)
						pth, okp := pathOf(x)
						if isC && k == imsiT && okp && strings.HasSuffix(strings.Join(pth.Elems, "."), "SubscriptionIdType") && len(b.Preds) == 1 {
							guarded = true
						}
					}
				}
				r.check(guarded, rule, fmt.Sprintf("%s|subscriber key #%d behind the IMSI type test", fnKey(rootOf(f)), n), posOf(c, bo), "built only for Subscription-Id-Type END_USER_IMSI",
					"the look-up key \"imsi-\" + Subscription-Id-Data is built whatever the Subscription-Id-Type says: a request that names an E.164 number or an NAI whose characters equal the digits of a stored IMSI is served from - and debits or refunds - that subscriber's account / tariff")
			})
		}
		if n == 0 {
			r.proven(rule, fnKey(h)+"|subscriber key", c.rel(h.Pos()), "the handler does not build the look-up key from the literal prefix (another construction: C07.R7 / C08.R6 cover its provenance)")
		}
	}
}

// c20ValidationGuardsItself (C20.R6): the `required` tags are evaluated by
// govalidator.ValidateStruct; the hand-written validation passes run *before* it (Config.Validate
// calls Configuration.validate, which calls Sbi.validate, and only then ValidateStruct).  Inside
// those passes a mandatory section may still be missing: every method call on, and every member
// access through, a pointer-typed configuration member needs its own nil test there.  (Outside
// validation C20.R2 lets the `required` tag stand for the test.)
func c20ValidationGuardsItself(c *Ctx, r *Report, rule string) {
	n := 0
	for _, f := range c.ModFuncs {
		root := rootOf(f)
		if root.Pkg == nil || root.Pkg.Pkg.Path() != factoryPath || root.Signature.Recv() == nil {
			continue
		}
		if root.Name() != "Validate" && root.Name() != "validate" {
			continue
		}
		eachInstr(f, func(_ *ssa.BasicBlock, _ int, ins ssa.Instruction) {
			call, ok := ins.(*ssa.Call)
			if !ok || len(call.Call.Args) == 0 || call.Call.IsInvoke() {
				return
			}
			callee := call.Call.StaticCallee()
			if callee == nil || callee.Signature.Recv() == nil || !c.inModule(callee) {
				return
			}
			recv := call.Call.Args[0]
			if _, isPtr := recv.Type().Underlying().(*types.Pointer); !isPtr {
				return
			}
			ld, ok := recv.(*ssa.UnOp)
			if !ok || ld.Op != token.MUL {
				return
			}
			fa, ok := ld.X.(*ssa.FieldAddr)
			if !ok {
				return // the receiver of the enclosing method itself, a local: not a configuration member
			}
			n++
			guarded := nilTestDominates(f, recv, call.Block())
			key := fmt.Sprintf("%s|%s called on member %s", fnKey(root), callee.Name(), fieldName(fa))
			r.check(guarded, rule, key, posOf(c, call), "behind a nil test of the member", "the validation pass calls "+shortFn(callee)+" on the configuration member "+fieldName(fa)+" without testing it for nil: the `required` tag of a section is only evaluated by ValidateStruct, which runs after this pass - a configuration that lacks the section makes ReadConfig panic with a nil dereference instead of returning the validation error")
		})
	}
	if n == 0 {
		r.proven(rule, "validation passes", "", "the hand-written validation passes call no method on a pointer-typed configuration member")
	}
}

// nilTestDominates: blk is entered only over the non-nil edge of a test `v != nil` / `v == nil`
// of the same value or access path.
func nilTestDominates(f *ssa.Function, v ssa.Value, blk *ssa.BasicBlock) bool {
	p1, _ := pathOf(v)
	for _, b := range f.Blocks {
		if len(b.Instrs) == 0 || len(b.Succs) != 2 {
			continue
		}
		ifi, ok := b.Instrs[len(b.Instrs)-1].(*ssa.If)
		if !ok {
			continue
		}
		bo, ok := ifi.Cond.(*ssa.BinOp)
		if !ok || (bo.Op != token.NEQ && bo.Op != token.EQL) {
			continue
		}
		x, y := bo.X, bo.Y
		if isNilConst(x) {
			x, y = y, x
		}
		if !isNilConst(y) {
			continue
		}
		same := x == v
		if !same {
			if p2, ok := pathOf(x); ok && p2.String() == p1.String() && p2.String() != "" {
				same = true
			}
		}
		if !same {
			continue
		}
		nonNil := b.Succs[0]
		if bo.Op == token.EQL {
			nonNil = b.Succs[1]
		}
		if edgeDominates(b, nonNil, blk) {
			return true
		}
	}
	return false
}

// c20OptionalReceivers (part of C20.R2): a method of this module called on an optional
// configuration member dereferences its receiver inside the callee; the nil test has to be at
// the call (or at the top of the method).
func c20OptionalReceivers(c *Ctx, r *Report, rule string, optional map[*types.Var]bool) {
	derefsReceiver := func(callee *ssa.Function) bool {
		if len(callee.Params) == 0 || len(callee.Blocks) == 0 {
			return false
		}
		p := callee.Params[0]
		bad := false
		for _, ref := range *p.Referrers() {
			switch y := ref.(type) {
			case *ssa.FieldAddr:
				if y.X == ssa.Value(p) && !nilTestDominates(callee, p, y.Block()) {
					bad = true
				}
			case *ssa.UnOp:
				if y.Op == token.MUL && y.X == ssa.Value(p) && !nilTestDominates(callee, p, y.Block()) {
					bad = true
				}
			}
		}
		return bad
	}
	for _, f := range c.ModFuncs {
		cnt := map[string]int{}
		eachInstr(f, func(_ *ssa.BasicBlock, _ int, ins ssa.Instruction) {
			call, ok := ins.(*ssa.Call)
			if !ok || len(call.Call.Args) == 0 || call.Call.IsInvoke() {
				return
			}
			callee := call.Call.StaticCallee()
			if callee == nil || callee.Signature.Recv() == nil || !c.inModule(callee) {
				return
			}
			ld, ok := call.Call.Args[0].(*ssa.UnOp)
			if !ok || ld.Op != token.MUL {
				return
			}
			fa, ok := ld.X.(*ssa.FieldAddr)
			if !ok {
				return
			}
			st := derefStruct(fa.X.Type())
			if st == nil || !optional[st.Field(fa.Field)] {
				return
			}
			name := fieldName(fa) + "." + callee.Name()
			cnt[name]++
			key := fmt.Sprintf("%s|%s()#%d", fnKey(rootOf(f)), name, cnt[name])
			if !derefsReceiver(callee) {
				r.proven(rule, key, posOf(c, call), "the method tests its receiver before it uses it")
				return
			}
			r.check(nilTestDominates(f, call.Call.Args[0], call.Block()), rule, key, posOf(c, call), "optional member, method called behind a nil test",
				"the method "+shortFn(callee)+", which uses its receiver without a nil test, is called on the configuration member "+fieldName(fa)+" - not guaranteed by validation (its valid tag lacks `required`) - without a nil test at the call: a configuration that validates but omits the block crashes here")
		})
	}
}

// c15NarrowShifts (C15.R8): the layout rules place a member at (shift, width) of the word it
// is packed into by adding up the shifts on its way there - which is right only if no shift on
// the way pushes bits out of the type it is computed in.  `uint32(month<<5 | date)` computes
// the shift in uint8: a 4-bit month shifted by 5 needs 9 bits and loses its top bit before it
// is widened.  Every constant left shift in an 8- or 16-bit type in the file / record header
// encoders must keep (bits of the member per TS 32.297) + (shift) within the type.
func c15NarrowShifts(c *Ctx, r *Report, rule string, fns ...*ssa.Function) {
	bitsOf := map[string]int{}
	for _, t := range [][]tsRow{ts32297Header, ts32297Record} {
		for _, row := range t {
			name := row.name
			if i := strings.LastIndex(name, "."); i >= 0 {
				name = name[i+1:]
			}
			if row.bits > 0 {
				bitsOf[name] = row.bits
			}
		}
	}
	n := 0
	for _, f := range fns {
		if f == nil {
			continue
		}
		eachInstr(f, func(_ *ssa.BasicBlock, _ int, ins ssa.Instruction) {
			bo, ok := ins.(*ssa.BinOp)
			if !ok || bo.Op != token.SHL {
				return
			}
			k, ok := constInt(bo.Y)
			if !ok || k <= 0 {
				return
			}
			w := sizeOfBasic(bo.Type()) * 8
			if w <= 0 || w >= 32 {
				return
			}
			n++
			key := fmt.Sprintf("%s|shift #%d in a %d-bit type", fnKey(f), n, w)
			p, okp := pathOf(stripConv(bo.X))
			if !okp || len(p.Elems) == 0 {
				r.proven(rule, key, posOf(c, bo), "operand is not a header member (the layout rule C15.R1 decides the result)")
				return
			}
			member := p.Elems[len(p.Elems)-1]
			b, known := bitsOf[member]
			if !known {
				r.proven(rule, key, posOf(c, bo), "operand "+member+" is not a packed member of the TS 32.297 tables")
				return
			}
			r.check(int64(b)+k <= int64(w), rule, key, posOf(c, bo), fmt.Sprintf("%s: %d bits << %d fit the %d-bit type", member, b, k, w),
				fmt.Sprintf("%s occupies %d bits (TS 32.297) and is shifted left by %d in a %d-bit type before it is widened: its upper %d bit(s) are lost - the member is written correctly only for small values (a month above 7, say, comes out without its top bit)", member, b, k, w, int64(b)+k-int64(w)))
		})
	}
	if n == 0 {
		r.proven(rule, "narrow shifts", "", "no constant left shift is computed in an 8- or 16-bit type in the header encoders")
	}
}

// ts32297Enums: the coded values of TS 32.297 clause 6.1.1.8 (file closure trigger reason),
// 6.1.2.2 (release identifier), 6.1.2.4 (data record format) and 6.1.2.5 (TS number) - written
// from the specification; value 8 of the TS number is not assigned.
var ts32297Enums = map[string]int64{
	"NormalClosure": 0, "FileSizeLimitReached": 1, "FileOpentimeLimitedReached": 2, "MaximumNumberOfCdrsInFileReached": 3,
	"FileClosedByManualIntervention": 4, "CdrReleaseVersionOrEncodingChange": 5, "AbnormalFileClosure": 128, "FileSystemError": 129,
	"FileSystemStorageExhausted": 130, "FileIntegrityError": 131,
	"Rel99": 0, "Rel4": 1, "Rel5": 2, "Rel6": 3, "Rel7": 4, "Rel8": 5, "Rel9": 6, "BeyondRel9": 7,
	"BasicEncodingRules": 1, "UnalignedPackedEncodingRules": 2, "AlignedPackedEncodingRules1": 3, "XMLEncodingRules": 4,
	"TS32005": 0, "TS32015": 1, "TS32205": 2, "TS32215": 3, "TS32225": 4, "TS32235": 5, "TS32250": 6, "TS32251": 7,
	"TS32260": 9, "TS32270": 10, "TS32271": 11, "TS32272": 12, "TS32273": 13, "TS32275": 14, "TS32274": 15, "TS32277": 16,
	"TS32296": 17, "TS32278": 18, "TS32253": 19, "TS32255": 20, "TS32254": 21, "TS32256": 22, "TS28201": 23, "TS28202": 24,
}

// c15EnumValues (C15.R9): the named values a caller puts into the header members are the
// numbers the specification assigns - a reader written from the specification recovers "TS
// 32.255" only if the constant TS32255 is 20.  Exhaustive over the typed constants of package
// cdrFile; a constant the table does not know is reported (the table has to be extended from the
// specification, not from the code).
func c15EnumValues(c *Ctx, r *Report, rule string) {
	pkg := c.pkg("cdr/cdrFile")
	n := 0
	names := pkg.Types.Scope().Names()
	for _, name := range names {
		k, ok := pkg.Types.Scope().Lookup(name).(*types.Const)
		if !ok {
			continue
		}
		nt, ok := k.Type().(*types.Named)
		if !ok || nt.Obj().Pkg() != pkg.Types {
			continue
		}
		switch nt.Obj().Name() {
		case "FileClosureTriggerReasonType", "ReleaseIdentifierType", "DataRecordFormatType", "TsNumberIdentifier":
		default:
			continue
		}
		n++
		v, exact := constant.Int64Val(k.Val())
		want, known := ts32297Enums[name]
		key := nt.Obj().Name() + "." + name
		if !known {
			// a name the table does not know (a value of a later release of the specification, a
			// vendor value): it must fit the field and must not take a value the specification gives
			// to one of the known names of the same enumeration
			width := map[string]uint{"FileClosureTriggerReasonType": 8, "ReleaseIdentifierType": 3, "DataRecordFormatType": 3, "TsNumberIdentifier": 5}[nt.Obj().Name()]
			clash := ""
			for _, other := range names {
				ok2, isK := pkg.Types.Scope().Lookup(other).(*types.Const)
				if !isK || other == name || !types.Identical(ok2.Type(), k.Type()) {
					continue
				}
				if w, spec := ts32297Enums[other]; spec && w == v {
					clash = other
				}
			}
			r.check(exact && v >= 0 && v < int64(1)<<width && clash == "", rule, key, c.rel(k.Pos()), fmt.Sprintf("= %d: not a name of the checker's table; fits the %d-bit field and takes no specified value", v, width),
				fmt.Sprintf("constant %s = %d is not in the checker's table of TS 32.297 values and %s", name, v, map[bool]string{true: "takes the value the specification assigns to " + clash, false: fmt.Sprintf("does not fit the %d-bit field", width)}[clash != ""]))
			continue
		}
		r.check(exact && v == want, rule, key, c.rel(k.Pos()), fmt.Sprintf("= %d as specified", want), fmt.Sprintf("%s is %d, TS 32.297 assigns %d: a header written with this name carries another meaning for every reader that follows the specification", name, v, want))
	}
	if n < 20 {
		r.viol(rule, "enumerations", "", fmt.Sprintf("only %d typed constants of the TS 32.297 enumerations found in cdr/cdrFile (anchor moved)", n))
	}
}
