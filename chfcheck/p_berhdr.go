package main

import (
	"fmt"
	"go/token"
	"sort"
	"strings"

	"golang.org/x/tools/go/ssa"
)

// BER identifier and length octets (X.690 8.1.2, 8.1.3) as bit layouts.
//
// C04.R10: what appendTagAndLen puts into the first identifier octet, into the
// subsequent tag-number octets and into the first length octet is the layout
// of the standard, written as a table here:
//
//	identifier octet   bits 8-7 class | bit 6 constructed | bits 5-1 tag number (<= 30) or 11111
//	tag octets         bit 8 = 1 except in the last, bits 7-1 digits
//	length, short      one octet = the length (<= 127)
//	length, long       0x80 | number of following octets
//
// C05.R10: parseTagAndLength takes the same members from the same bits.
//
// The values are interpreted as sets of bit terms (member << shift, & mask,
// constants); merges are expanded per incoming edge and the edge tells on which
// side of the `constructed` / `tagNumber <= 30` / `len <= 127` tests it lies.

type bterm struct {
	field string // "" for a constant
	shift int    // left shift (negative: right shift)
	mask  int64  // applied after the shift, in the coordinates of the result; 0 = none
	val   int64  // constants
}

func (t bterm) String() string {
	if t.field == "" {
		return fmt.Sprintf("%#x", t.val)
	}
	s := t.field
	switch {
	case t.shift > 0:
		s += fmt.Sprintf("<<%d", t.shift)
	case t.shift < 0:
		s += fmt.Sprintf(">>%d", -t.shift)
	}
	if t.mask != 0 {
		s += fmt.Sprintf("&%#x", t.mask)
	}
	return s
}

func termsString(ts []bterm) string {
	var ss []string
	for _, t := range ts {
		ss = append(ss, t.String())
	}
	sort.Strings(ss)
	return strings.Join(ss, " | ")
}

type bitEval struct {
	over map[*ssa.Phi]ssa.Value
	// fieldOf names the loads the layout speaks about ("" = not one of them)
	fieldOf func(v ssa.Value) string
	phis    []*ssa.Phi // merges met and not overridden
}

func (be *bitEval) eval(v ssa.Value, depth int) ([]bterm, bool) {
	if depth > 24 {
		return nil, false
	}
	if n := be.fieldOf(v); n != "" {
		return []bterm{{field: n}}, true
	}
	switch x := v.(type) {
	case *ssa.Const:
		if k, ok := constInt(x); ok {
			return []bterm{{val: k}}, true
		}
	case *ssa.Convert:
		return be.eval(x.X, depth+1)
	case *ssa.ChangeType:
		return be.eval(x.X, depth+1)
	case *ssa.Phi:
		if o, ok := be.over[x]; ok {
			return be.eval(o, depth+1)
		}
		be.phis = append(be.phis, x)
		return nil, false
	case *ssa.BinOp:
		switch x.Op {
		case token.OR:
			a, ok1 := be.eval(x.X, depth+1)
			b, ok2 := be.eval(x.Y, depth+1)
			if !ok1 || !ok2 {
				return nil, false
			}
			return append(append([]bterm{}, a...), b...), true
		case token.SHL, token.SHR:
			k, ok := constInt(x.Y)
			if !ok {
				return nil, false
			}
			a, ok := be.eval(x.X, depth+1)
			if !ok {
				return nil, false
			}
			out := make([]bterm, len(a))
			for i, t := range a {
				if x.Op == token.SHL {
					t.shift += int(k)
					t.val <<= uint(k)
					if t.mask != 0 {
						t.mask <<= uint(k)
					}
				} else {
					t.shift -= int(k)
					t.val >>= uint(k)
					if t.mask != 0 {
						t.mask >>= uint(k)
					}
				}
				out[i] = t
			}
			return out, true
		case token.AND:
			k, ok := constInt(x.Y)
			operand := x.X
			if !ok {
				k, ok = constInt(x.X)
				operand = x.Y
			}
			if !ok {
				return nil, false
			}
			a, ok := be.eval(operand, depth+1)
			if !ok {
				return nil, false
			}
			out := make([]bterm, len(a))
			for i, t := range a {
				if t.field == "" {
					t.val &= k
				} else if t.mask == 0 {
					t.mask = k
				} else {
					t.mask &= k
				}
				out[i] = t
			}
			return out, true
		}
	}
	return nil, false
}

// alternatives evaluates v once per combination of incoming edges of the merges
// it depends on (at most 3 nested, 16 combinations).
type bitAlt struct {
	terms []bterm
	edges [][2]*ssa.BasicBlock
}

func bitAlternatives(v ssa.Value, fieldOf func(ssa.Value) string) ([]bitAlt, bool) {
	var out []bitAlt
	okAll := true
	var rec func(over map[*ssa.Phi]ssa.Value, edges [][2]*ssa.BasicBlock, depth int)
	rec = func(over map[*ssa.Phi]ssa.Value, edges [][2]*ssa.BasicBlock, depth int) {
		be := &bitEval{over: over, fieldOf: fieldOf}
		ts, ok := be.eval(v, 0)
		if ok {
			out = append(out, bitAlt{ts, edges})
			return
		}
		if len(be.phis) == 0 || depth >= 3 || len(out) > 16 {
			okAll = false
			return
		}
		ph := be.phis[0]
		for i, e := range ph.Edges {
			o2 := map[*ssa.Phi]ssa.Value{}
			for k, val := range over {
				o2[k] = val
			}
			o2[ph] = e
			rec(o2, append(append([][2]*ssa.BasicBlock{}, edges...), [2]*ssa.BasicBlock{ph.Block().Preds[i], ph.Block()}), depth+1)
		}
	}
	rec(map[*ssa.Phi]ssa.Value{}, nil, 0)
	return out, okAll && len(out) > 0
}

// sideOf: on which side of the two-way test ending block ifb does the point
// (edge from->at, or block at when from is nil) lie: +1 true, -1 false, 0 unknown.
func sideOf(ifb, from, at *ssa.BasicBlock) int {
	if len(ifb.Succs) != 2 || ifb.Succs[0] == ifb.Succs[1] {
		return 0
	}
	on := func(i int) bool {
		if from == nil {
			return edgeDominates(ifb, ifb.Succs[i], at)
		}
		if from == ifb {
			return at == ifb.Succs[i]
		}
		return edgeDominates(ifb, ifb.Succs[i], from)
	}
	t, f := on(0), on(1)
	switch {
	case t && !f:
		return 1
	case f && !t:
		return -1
	}
	return 0
}

func constBits(ts []bterm) int64 {
	var k int64
	for _, t := range ts {
		if t.field == "" {
			k |= t.val
		}
	}
	return k
}

func fieldTerms(ts []bterm, name string) []bterm {
	var out []bterm
	for _, t := range ts {
		if t.field == name {
			out = append(out, t)
		}
	}
	return out
}

// ---------------------------------------------------------------------------
// encoder

func berHeaderEncoder(c *Ctx, r *Report, rule string) {
	f := c.fn("cdr/asn", "appendTagAndLen")
	key := fnKey(f)
	if len(f.Params) < 2 {
		r.viol(rule, key+"|shape", c.rel(f.Pos()), "appendTagAndLen no longer takes (dst, header)")
		return
	}
	dst := f.Params[0]
	hdr := paramAlloc(f.Params[1])
	fieldOf := func(v ssa.Value) string {
		ld, ok := v.(*ssa.UnOp)
		if !ok || ld.Op != token.MUL {
			return ""
		}
		fa, ok := ld.X.(*ssa.FieldAddr)
		if !ok {
			return ""
		}
		if hdr != nil && fa.X == ssa.Value(hdr) {
			return fieldName(fa)
		}
		if fa.X == ssa.Value(f.Params[1]) {
			return fieldName(fa)
		}
		return ""
	}
	// the two-way tests the layout depends on (a test may be evaluated once and branched on twice)
	type testBlock struct {
		b         *ssa.BasicBlock
		trueShort bool
	}
	var consIfs []*ssa.BasicBlock
	var tagIfs, lenIfs []testBlock
	for _, b := range f.Blocks {
		if len(b.Instrs) == 0 {
			continue
		}
		ifi, ok := b.Instrs[len(b.Instrs)-1].(*ssa.If)
		if !ok {
			continue
		}
		if fieldOf(ifi.Cond) == "constructed" {
			consIfs = append(consIfs, b)
		}
		if bo, ok := ifi.Cond.(*ssa.BinOp); ok {
			name := fieldOf(bo.X)
			k, isK := constInt(bo.Y)
			if !isK || inCycle(b) {
				continue
			}
			// value <= bound is the short form
			var short, known bool
			var bound int64
			switch bo.Op {
			case token.LEQ:
				short, known, bound = true, true, k
			case token.LSS:
				short, known, bound = true, true, k-1
			case token.GTR:
				short, known, bound = false, true, k
			case token.GEQ:
				short, known, bound = false, true, k-1
			}
			if !known {
				continue
			}
			if name == "tagNumber" && bound == 30 {
				tagIfs = append(tagIfs, testBlock{b, short})
			}
			if name == "len" && bound == 127 {
				lenIfs = append(lenIfs, testBlock{b, short})
			}
		}
	}
	if len(consIfs) == 0 || len(tagIfs) == 0 || len(lenIfs) == 0 {
		r.viol(rule, key+"|tests", c.rel(f.Pos()), "cannot find the tests on constructed / tagNumber <= 30 / len <= 127 in appendTagAndLen")
		return
	}
	sideAmong := func(tests []testBlock, from, at *ssa.BasicBlock) int {
		for _, t := range tests {
			if s := sideOf(t.b, from, at); s != 0 {
				if !t.trueShort {
					s = -s
				}
				return s
			}
		}
		return 0
	}
	consSide := func(from, at *ssa.BasicBlock) int {
		for _, b := range consIfs {
			if s := sideOf(b, from, at); s != 0 {
				return s
			}
		}
		return 0
	}
	lenSide := func(at *ssa.BasicBlock) int { return sideAmong(lenIfs, nil, at) }
	// identifier octet: the appends to the dst parameter itself
	nFirst := 0
	type formSeen struct{ cons, prim bool }
	seenForm := map[int]*formSeen{1: {}, -1: {}}
	var badAll []string
	firstPos := ""
	eachInstr(f, func(_ *ssa.BasicBlock, _ int, ins ssa.Instruction) {
		call, ok := ins.(*ssa.Call)
		if !ok {
			return
		}
		b, ok := call.Call.Value.(*ssa.Builtin)
		if !ok || b.Name() != "append" || len(call.Call.Args) != 2 || call.Call.Args[0] != ssa.Value(dst) {
			return
		}
		elems := variadicElemsOrdered(call.Call.Args[1])
		if len(elems) != 1 {
			r.viol(rule, fmt.Sprintf("%s|identifier octet #%d", key, nFirst+1), posOf(c, call), "the first append to the output does not add exactly the identifier octet")
			return
		}
		nFirst++
		if firstPos == "" {
			firstPos = posOf(c, call)
		}
		alts, ok := bitAlternatives(elems[0], fieldOf)
		if !ok {
			r.viol(rule, fmt.Sprintf("%s|identifier octet #%d", key, nFirst), posOf(c, call), "undecided: cannot read the identifier octet as a combination of the header's members and constants")
			return
		}
		for _, alt := range alts {
			cons := consSide(nil, call.Block())
			short := sideAmong(tagIfs, nil, call.Block())
			for _, e := range alt.edges {
				if s := consSide(e[0], e[1]); s != 0 {
					cons = s
				}
				if s := sideAmong(tagIfs, e[0], e[1]); s != 0 {
					short = s
				}
			}
			var bad []string
			kb := constBits(alt.terms)
			// class in bits 8-7
			cls := fieldTerms(alt.terms, "class")
			if len(cls) != 1 || cls[0].shift != 6 || (cls[0].mask != 0 && cls[0].mask&0xc0 != 0xc0) {
				bad = append(bad, "the class is not placed in bits 8-7 ("+termsString(alt.terms)+")")
			}
			if kb&0xc0 != 0 {
				bad = append(bad, fmt.Sprintf("constant bits %#x overlap the class", kb&0xc0))
			}
			// constructed in bit 6
			switch cons {
			case 1:
				if kb&0x20 == 0 {
					bad = append(bad, "bit 6 is not set for a constructed encoding ("+termsString(alt.terms)+")")
				}
			case -1:
				if kb&0x20 != 0 {
					bad = append(bad, "bit 6 is set for a primitive encoding ("+termsString(alt.terms)+")")
				}
			default:
				bad = append(bad, "cannot tell whether this value is for a constructed or a primitive encoding")
			}
			// tag number / escape in bits 5-1
			tg := fieldTerms(alt.terms, "tagNumber")
			switch {
			case short > 0:
				if len(tg) != 1 || tg[0].shift != 0 || (tg[0].mask != 0 && tg[0].mask&0x1f != 0x1f) || kb&0x1f != 0 {
					bad = append(bad, "for tag numbers up to 30 bits 5-1 must be the tag number ("+termsString(alt.terms)+")")
				}
			case short < 0:
				if len(tg) != 0 || kb&0x1f != 0x1f {
					bad = append(bad, "for tag numbers above 30 bits 5-1 must be 11111 ("+termsString(alt.terms)+")")
				}
			default:
				bad = append(bad, "the identifier octet is written outside the branches of the tag-number test")
			}
			for _, t := range alt.terms {
				if t.field != "" && t.field != "class" && t.field != "tagNumber" {
					bad = append(bad, "member "+t.field+" is mixed into the identifier octet")
				}
			}
			if fs := seenForm[short]; fs != nil {
				if cons > 0 {
					fs.cons = true
				}
				if cons < 0 {
					fs.prim = true
				}
			}
			badAll = append(badAll, bad...)
		}
	})
	for _, form := range []struct {
		side int
		name string
	}{{1, "low tag number"}, {-1, "high tag number"}} {
		fs := seenForm[form.side]
		bad := uniqStrings(badAll)
		if !fs.cons || !fs.prim {
			bad = append(bad, "no identifier octet is written for "+form.name+"s in both the constructed and the primitive form")
		}
		r.check(len(bad) == 0, rule, fmt.Sprintf("%s|identifier octet (%s)", key, form.name), firstPos, "class<<6 | constructed?0x20 | tag number or 11111 (X.690 8.1.2.2-8.1.2.4)", "the identifier octet deviates from X.690 8.1.2: "+strings.Join(bad, "; ")+": a reader takes another class, form or tag from the octet")
	}
	if nFirst == 0 {
		r.viol(rule, key+"|identifier octet", c.rel(f.Pos()), "no identifier octet is appended to the output")
	}
	// subsequent tag octets and the length octets: stores of one octet into the output
	fe := newFormEval(f)
	var loopIdx poly
	tagLoop, lastCleared := false, false
	var lastPos, loopPos string
	lenShort, lenLong := false, false
	eachInstr(f, func(b *ssa.BasicBlock, _ int, ins ssa.Instruction) {
		switch x := ins.(type) {
		case *ssa.Store:
			ia, ok := x.Addr.(*ssa.IndexAddr)
			if !ok || sizeOfBasic(x.Val.Type()) != 1 {
				return
			}
			alts, ok := bitAlternatives(x.Val, func(v ssa.Value) string {
				if n := fieldOf(v); n != "" {
					return n
				}
				// the octet already stored at an output position
				if ld, ok := v.(*ssa.UnOp); ok && ld.Op == token.MUL {
					if _, ok := ld.X.(*ssa.IndexAddr); ok {
						return "octet@" + fe.eval(ld.X.(*ssa.IndexAddr).Index).String()
					}
				}
				return ""
			})
			if !ok || len(alts) != 1 {
				return
			}
			ts := alts[0].terms
			if tg := fieldTerms(ts, "tagNumber"); len(tg) == 1 && inCycle(b) {
				loopPos = posOf(c, x)
				if constBits(ts)&0x80 != 0 && constBits(ts)&0x7f == 0 && tg[0].shift == 0 {
					tagLoop = true
					loopIdx = fe.eval(ia.Index)
				}
			}
			for _, t := range ts {
				if strings.HasPrefix(t.field, "octet@") && t.mask == 0x7f && !inCycle(b) {
					lastPos = posOf(c, x)
					if "octet@"+fe.eval(ia.Index).String() == t.field {
						// the position is the loop's position at its first iteration (most significant written first: the last octet is index n-1)
						lastCleared = true
						idx := fe.eval(ia.Index)
						_ = idx
					}
				}
			}
		case *ssa.Call:
			bi, ok := x.Call.Value.(*ssa.Builtin)
			if !ok || bi.Name() != "append" || len(x.Call.Args) != 2 || x.Call.Args[0] == ssa.Value(dst) {
				return
			}
			elems := variadicElemsOrdered(x.Call.Args[1])
			if len(elems) != 1 {
				return
			}
			side := lenSide(x.Block())
			// the number of digit octets appended on the same side of the length test
			var digitCount ssa.Value
			eachInstr(f, func(_ *ssa.BasicBlock, _ int, i2 ssa.Instruction) {
				if ms, ok := i2.(*ssa.MakeSlice); ok && lenSide(ms.Block()) == lenSide(x.Block()) && lenSide(x.Block()) != 0 {
					digitCount = ms.Len
				}
			})
			alts, ok := bitAlternatives(elems[0], func(v ssa.Value) string {
				if n := fieldOf(v); n != "" {
					return n
				}
				if digitCount != nil && v == digitCount {
					return "count"
				}
				return ""
			})
			if !ok || len(alts) != 1 {
				r.viol(rule, key+"|length octet", posOf(c, x), "undecided: cannot read the first length octet")
				return
			}
			ts := alts[0].terms
			switch {
			case side > 0:
				ln := fieldTerms(ts, "len")
				okS := len(ln) == 1 && ln[0].shift == 0 && constBits(ts) == 0 && len(ts) == 1
				lenShort = lenShort || okS
				r.check(okS, rule, key+"|length, short form", posOf(c, x), "one octet holding the length (X.690 8.1.3.4)", "for lengths up to 127 the single length octet must be the length itself, found "+termsString(ts))
			case side < 0:
				cn := fieldTerms(ts, "count")
				okL := len(cn) == 1 && cn[0].shift == 0 && constBits(ts) == 0x80 && len(ts) == 2
				lenLong = lenLong || okL
				r.check(okL, rule, key+"|length, long form", posOf(c, x), "0x80 | number of the length octets that follow (X.690 8.1.3.5)", "for lengths above 127 the first length octet must be 0x80 | (number of following length octets), found "+termsString(ts)+" (or the number announced is not the number of octets appended)")
			}
		}
	})
	r.check(tagLoop, rule, key+"|tag octets: continuation bit", loopPos, "every tag-number octet is written as digit | 0x80 (X.690 8.1.2.4.2)", "the octets of a tag number above 30 are not written as (7 bits of the number) | 0x80")
	okLast := lastCleared && loopIdx != nil
	r.check(okLast, rule, key+"|tag octets: last octet", lastPos, "bit 8 of the last tag-number octet is cleared", "bit 8 of the last tag-number octet is not cleared (no `octet & 0x7f` stored back at the same position): a reader continues the tag number into the length octets")
	if !lenShort || !lenLong {
		if !lenShort {
			r.viol(rule, key+"|length, short form", c.rel(f.Pos()), "no single length octet is written on the len <= 127 branch")
		}
		if !lenLong {
			r.viol(rule, key+"|length, long form", c.rel(f.Pos()), "no 0x80|n octet is written on the len > 127 branch")
		}
	}
}

func uniqStrings(in []string) []string {
	seen := map[string]bool{}
	var out []string
	for _, s := range in {
		if !seen[s] {
			seen[s] = true
			out = append(out, s)
		}
	}
	return out
}

// ---------------------------------------------------------------------------
// decoder

func berHeaderDecoder(c *Ctx, r *Report, rule string) {
	f := c.fn("cdr/asn", "parseTagAndLength")
	key := fnKey(f)
	if len(f.Params) < 1 {
		r.viol(rule, key+"|shape", c.rel(f.Pos()), "parseTagAndLength no longer takes the input slice")
		return
	}
	in := f.Params[0]
	fe := newFormEval(f)
	// octet loads: in[k] with constant k -> "octet0"; other indices -> "octet"
	fieldOf := func(v ssa.Value) string {
		ld, ok := v.(*ssa.UnOp)
		if !ok || ld.Op != token.MUL {
			return ""
		}
		ia, ok := ld.X.(*ssa.IndexAddr)
		if !ok || ia.X != ssa.Value(in) {
			return ""
		}
		if k, ok := fe.eval(ia.Index).isConst(); ok && k == 0 {
			return "octet0"
		}
		return "octet"
	}
	resultField := func(addr ssa.Value) string {
		fa, ok := addr.(*ssa.FieldAddr)
		if !ok || !typeIs(fa.X.Type(), modPath+"/cdr/asn", "tagAndLen") {
			return ""
		}
		return fieldName(fa)
	}
	found := map[string]bool{}
	eachInstr(f, func(b *ssa.BasicBlock, _ int, ins ssa.Instruction) {
		st, ok := ins.(*ssa.Store)
		if !ok {
			return
		}
		name := resultField(st.Addr)
		if name == "" {
			return
		}
		switch name {
		case "class":
			alts, ok := bitAlternatives(st.Val, fieldOf)
			good := ok && len(alts) == 1
			if good {
				ts := alts[0].terms
				good = len(ts) == 1 && ts[0].field == "octet0" && ts[0].shift == -6 && (ts[0].mask == 0 || ts[0].mask&3 == 3)
			}
			found["class"] = true
			r.check(good, rule, key+"|class", posOf(c, st), "class = bits 8-7 of the identifier octet", "the class is not taken from bits 8-7 of the identifier octet (octet >> 6): every context-specific tag is read with another class and matches no member")
		case "constructed":
			// (octet0 & 0x20) != 0   or   == 0x20
			good := false
			if bo, ok := st.Val.(*ssa.BinOp); ok && (bo.Op == token.NEQ || bo.Op == token.EQL) {
				alts, ok := bitAlternatives(bo.X, fieldOf)
				k, isK := constInt(bo.Y)
				if ok && len(alts) == 1 && isK {
					ts := alts[0].terms
					if len(ts) == 1 && ts[0].field == "octet0" && ts[0].shift == 0 && ts[0].mask == 0x20 {
						good = (bo.Op == token.NEQ && k == 0) || (bo.Op == token.EQL && k == 0x20)
					}
				}
			}
			found["constructed"] = true
			r.check(good, rule, key+"|constructed", posOf(c, st), "constructed = bit 6 of the identifier octet", "the constructed flag is not taken from bit 6 (0x20) of the identifier octet")
		case "tagNumber":
			alts, ok := bitAlternatives(st.Val, func(v ssa.Value) string {
				if n := fieldOf(v); n != "" {
					return n
				}
				if ld, ok := v.(*ssa.UnOp); ok && ld.Op == token.MUL && resultField(ld.X) == "tagNumber" {
					return "acc"
				}
				return ""
			})
			if !ok || len(alts) != 1 {
				r.viol(rule, key+"|tag number", posOf(c, st), "undecided: cannot read how the tag number is assembled")
				return
			}
			ts := alts[0].terms
			switch {
			case len(ts) == 1 && ts[0].field == "octet0":
				found["tag short"] = true
				// on the edge where the low five bits are not 11111
				guard := false
				for _, ib := range f.Blocks {
					if len(ib.Instrs) == 0 {
						continue
					}
					ifi, ok := ib.Instrs[len(ib.Instrs)-1].(*ssa.If)
					if !ok {
						continue
					}
					bo, ok := ifi.Cond.(*ssa.BinOp)
					if !ok || (bo.Op != token.NEQ && bo.Op != token.EQL) {
						continue
					}
					a2, ok := bitAlternatives(bo.X, fieldOf)
					k, isK := constInt(bo.Y)
					if !ok || len(a2) != 1 || !isK || k != 0x1f || len(a2[0].terms) != 1 || a2[0].terms[0].field != "octet0" || a2[0].terms[0].mask != 0x1f {
						continue
					}
					side := sideOf(ib, nil, st.Block())
					if (bo.Op == token.NEQ && side > 0) || (bo.Op == token.EQL && side < 0) {
						guard = true
					}
				}
				good := ts[0].shift == 0 && ts[0].mask == 0x1f && guard
				r.check(good, rule, key+"|tag number, low form", posOf(c, st), "tag number = bits 5-1 when they are not 11111", "the low tag-number form is not `octet & 0x1f` under the test `octet & 0x1f != 0x1f`")
			case len(fieldTerms(ts, "acc")) == 1 && len(ts) == 1:
				// acc << 7
				if ts[0].shift == 7 {
					found["tag shift"] = true
				} else {
					r.viol(rule, key+"|tag number, high form: shift", posOf(c, st), fmt.Sprintf("the accumulated tag number is shifted by %d bits per octet, X.690 8.1.2.4.2 has 7-bit digits", ts[0].shift))
				}
			case len(fieldTerms(ts, "acc")) == 1 && len(fieldTerms(ts, "octet")) == 1 && len(ts) == 2:
				o := fieldTerms(ts, "octet")[0]
				a := fieldTerms(ts, "acc")[0]
				switch {
				case a.shift == 0 && o.shift == 0 && o.mask == 0x7f:
					found["tag digit"] = true
				case a.shift == 7 && o.shift == 0 && o.mask == 0x7f:
					found["tag digit"], found["tag shift"] = true, true
				default:
					r.viol(rule, key+"|tag number, high form: digit", posOf(c, st), "a subsequent tag octet contributes "+o.String()+", X.690 8.1.2.4.2 has bits 7-1 (octet & 0x7f)")
				}
			}
		}
	})
	// continuation test: (octet & 0x80) == 0 ends the loop
	cont := false
	for _, b := range f.Blocks {
		if len(b.Instrs) == 0 || !inCycle(b) {
			continue
		}
		ifi, ok := b.Instrs[len(b.Instrs)-1].(*ssa.If)
		if !ok {
			continue
		}
		bo, ok := ifi.Cond.(*ssa.BinOp)
		if !ok || (bo.Op != token.NEQ && bo.Op != token.EQL) {
			continue
		}
		alts, ok := bitAlternatives(bo.X, fieldOf)
		k, isK := constInt(bo.Y)
		if !ok || len(alts) != 1 || !isK || len(alts[0].terms) != 1 {
			continue
		}
		t := alts[0].terms[0]
		if t.field != "octet" || t.mask != 0x80 {
			continue
		}
		// the edge on which bit 8 is clear leaves the loop
		clearEdge := 0
		if (bo.Op == token.EQL && k == 0) || (bo.Op == token.NEQ && k == 0x80) {
			clearEdge = 0
		} else if (bo.Op == token.NEQ && k == 0) || (bo.Op == token.EQL && k == 0x80) {
			clearEdge = 1
		} else {
			continue
		}
		if len(b.Succs) == 2 && !reachableFrom(b.Succs[clearEdge], nil, nil, nil)[b] || (len(b.Succs) == 2 && !inCycle(b.Succs[clearEdge])) {
			cont = true
		}
	}
	for _, need := range []struct{ k, what string }{
		{"class", "the class is never stored"},
		{"constructed", "the constructed flag is never stored"},
		{"tag short", "the low tag-number form is never stored"},
		{"tag shift", "the high tag-number form does not shift the accumulated number by 7 bits per octet"},
		{"tag digit", "the high tag-number form does not add bits 7-1 of each subsequent octet"},
	} {
		if !found[need.k] {
			r.viol(rule, key+"|"+need.k, c.rel(f.Pos()), need.what)
		}
	}
	if found["tag shift"] && found["tag digit"] {
		r.proven(rule, key+"|tag number, high form", c.rel(f.Pos()), "accumulated number << 7 | (octet & 0x7f) per subsequent octet")
	}
	r.check(cont, rule, key+"|tag number, high form: last octet", c.rel(f.Pos()), "the octet with bit 8 clear ends the tag number", "the loop over the subsequent tag octets is not ended by the octet whose bit 8 (0x80) is clear")
}
