package main

import (
	"fmt"
	"go/token"
	"go/types"
	"os"
	"sort"
	"strings"

	"golang.org/x/tools/go/ssa"
)

// Decoder side of E5d: a path walk of CDRFile.Decoding under an assignment of
// the release-identifier tests, with a small memory model for the struct
// literals it builds.  Offsets are polynomial forms over the values of the
// fields read earlier; a read of width w at an offset where the encoder wrote
// field F is named val(F), so both sides speak the same vocabulary.

type dread struct {
	Target string
	Off    string // canonical offset form
	Width  int    // -1: variable region [Off, End)
	End    string
	Shift  int
	Mask   int64 // 0 = no mask
	Order  string
	Pos    token.Pos
	// signature of the underlying read (offset/width), used to name release tests
}

func (d dread) String() string {
	if d.Width < 0 {
		return fmt.Sprintf("%s=bytes[%s:%s]", d.Target, d.Off, d.End)
	}
	s := fmt.Sprintf("%s=u%d@%s", d.Target, d.Width*8, d.Off)
	if d.Shift != 0 {
		s += fmt.Sprintf(">>%d", d.Shift)
	}
	if d.Mask != 0 {
		s += fmt.Sprintf("&%d", d.Mask)
	}
	if d.Order != "" && d.Order != "BigEndian" {
		s += "/" + d.Order
	}
	return s
}

type memKey struct {
	root ssa.Value
	path string
}

type decWalker struct {
	c      *Ctx
	f      *ssa.Function
	data   ssa.Value
	assign map[string]bool
	// names of fields by read signature "off|width|shift" from the encoder layout
	fieldAt  func(off string, width int) string
	relName  func(sig string) string
	mem      map[memKey]ssa.Value
	phi      map[*ssa.Phi]ssa.Value
	loopSym  map[*ssa.Phi]string
	fe       *formEval
	header   []dread
	records  []dread
	inLoop   bool
	step     map[string]string // loop symbol -> step form
	init     map[string]string // loop symbol -> initial form
	bound    string            // loop bound description
	visited  int
	appended bool
	// helper calls: reads already interpreted in the context of one call, and the
	// parameter bindings in force while a helper's body is interpreted
	pre  map[memKey]dread
	bind map[*ssa.Parameter]ssa.Value
}

func (d *decWalker) addrKey(addr ssa.Value) (memKey, bool) {
	switch x := addr.(type) {
	case *ssa.Alloc:
		return memKey{x, ""}, true
	case *ssa.FieldAddr:
		st := derefStruct(x.X.Type())
		if st == nil {
			return memKey{}, false
		}
		name := st.Field(x.Field).Name()
		if p, ok := x.X.(*ssa.Parameter); ok {
			return memKey{p, name}, true
		}
		base, ok := d.addrKey(x.X)
		if !ok {
			return memKey{}, false
		}
		if base.path == "" {
			return memKey{base.root, name}, true
		}
		return memKey{base.root, base.path + "." + name}, true
	}
	return memKey{}, false
}

// resolve follows chosen phis and memory loads to the defining expression.
func (d *decWalker) resolve(v ssa.Value) ssa.Value {
	for i := 0; i < 64; i++ {
		switch x := v.(type) {
		case *ssa.Phi:
			if c, ok := d.phi[x]; ok {
				v = c
				continue
			}
			return v
		case *ssa.UnOp:
			if x.Op == token.MUL {
				if k, ok := d.addrKey(x.X); ok {
					if sv, ok := d.mem[k]; ok {
						v = sv
						continue
					}
				}
			}
			return v
		case *ssa.Parameter:
			if b, ok := d.bind[x]; ok {
				v = b
				continue
			}
			return v
		default:
			return v
		}
	}
	return v
}

// pureHelper: a module function whose body is one straight-line block without
// calls (an expression helper such as an unpack function).
func (d *decWalker) pureHelper(call *ssa.Call) (*ssa.Function, *ssa.Return) {
	g := call.Call.StaticCallee()
	if g == nil || !d.c.inModule(g) || len(g.Blocks) != 1 || len(g.Params) != len(call.Call.Args) {
		return nil, nil
	}
	var ret *ssa.Return
	for _, ins := range g.Blocks[0].Instrs {
		switch x := ins.(type) {
		case *ssa.Alloc, *ssa.FieldAddr, *ssa.Field, *ssa.UnOp, *ssa.BinOp, *ssa.Convert, *ssa.ChangeType, *ssa.DebugRef, *ssa.Store:
		case *ssa.Return:
			ret = x
		default:
			return nil, nil
		}
	}
	if ret == nil || len(ret.Results) != 1 {
		return nil, nil
	}
	return g, ret
}

func (d *decWalker) bindArgs(g *ssa.Function, call *ssa.Call) func() {
	if d.bind == nil {
		d.bind = map[*ssa.Parameter]ssa.Value{}
	}
	saved := map[*ssa.Parameter]ssa.Value{}
	for i, p := range g.Params {
		if old, ok := d.bind[p]; ok {
			saved[p] = old
		}
		d.bind[p] = d.resolve(call.Call.Args[i])
	}
	return func() {
		for _, p := range g.Params {
			delete(d.bind, p)
			if old, ok := saved[p]; ok {
				d.bind[p] = old
			}
		}
	}
}

// inlineStructCall interprets `dst = helper(args)` for a helper that builds and
// returns a struct: every member the helper stores is interpreted now, with the
// helper's parameters bound to this call's arguments.
func (d *decWalker) inlineStructCall(dst memKey, call *ssa.Call) bool {
	g, ret := d.pureHelper(call)
	if g == nil {
		return false
	}
	ld, ok := ret.Results[0].(*ssa.UnOp)
	if !ok || ld.Op != token.MUL {
		return false
	}
	obj, ok := ld.X.(*ssa.Alloc)
	if !ok {
		return false
	}
	unbind := d.bindArgs(g, call)
	defer unbind()
	if d.pre == nil {
		d.pre = map[memKey]dread{}
	}
	for _, ins := range g.Blocks[0].Instrs {
		st, ok := ins.(*ssa.Store)
		if !ok {
			continue
		}
		fa, ok := st.Addr.(*ssa.FieldAddr)
		if !ok || fa.X != ssa.Value(obj) {
			continue
		}
		key := memKey{dst.root, fieldName(fa)}
		if dst.path != "" {
			key.path = dst.path + "." + fieldName(fa)
		}
		d.mem[key] = st.Val
		if rd, ok := d.parseRead("", st.Val, st.Pos()); ok {
			d.pre[key] = rd
		} else {
			delete(d.pre, key)
		}
	}
	return true
}

func (d *decWalker) newFE() {
	fe := newFormEval(d.f)
	fe.override = func(v ssa.Value) (poly, bool) {
		switch x := v.(type) {
		case *ssa.Phi:
			if c, ok := d.phi[x]; ok {
				return fe.eval(c), true
			}
			if s, ok := d.loopSym[x]; ok {
				return atomPoly(s), true
			}
		case *ssa.UnOp:
			if x.Op == token.MUL {
				// a read of one octet
				if ia, ok := x.X.(*ssa.IndexAddr); ok && ia.X == d.data {
					return atomPoly(d.readAtom(fe.eval(ia.Index).String(), 1)), true
				}
				if k, ok := d.addrKey(x.X); ok {
					if sv, ok := d.mem[k]; ok {
						return fe.eval(sv), true
					}
				}
			}
		case *ssa.Call:
			if w, lo, _, ok := d.uintRead(x); ok {
				return atomPoly(d.readAtom(fe.eval(lo).String(), w)), true
			}
		case *ssa.Convert:
			// widening/narrowing between integer types: identity for the layout (wrap is C14.R2's subject)
			if isIntegerType(x.Type()) && isIntegerType(x.X.Type()) {
				return fe.eval(x.X), true
			}
		}
		return nil, false
	}
	d.fe = fe
}

func (d *decWalker) readAtom(off string, width int) string {
	if d.fieldAt != nil {
		if n := d.fieldAt(off, width); n != "" {
			return "val(" + n + ")"
		}
	}
	return fmt.Sprintf("rd%d@(%s)", width, off)
}

// uintRead: call of (ByteOrder).UintN(data[lo:hi]).
func (d *decWalker) uintRead(call *ssa.Call) (width int, lo, hi ssa.Value, ok bool) {
	obj := calleeObj(&call.Call)
	if obj == nil || obj.Pkg() == nil || obj.Pkg().Path() != "encoding/binary" {
		return 0, nil, nil, false
	}
	switch obj.Name() {
	case "Uint16":
		width = 2
	case "Uint32":
		width = 4
	case "Uint64":
		width = 8
	default:
		return 0, nil, nil, false
	}
	args := call.Call.Args
	arg := args[len(args)-1]
	sl, isSl := arg.(*ssa.Slice)
	if !isSl || sl.X != d.data {
		return 0, nil, nil, false
	}
	return width, sl.Low, sl.High, true
}

func (d *decWalker) orderOfCall(call *ssa.Call) string {
	obj := calleeObj(&call.Call)
	if obj == nil {
		return "?"
	}
	if sig, ok := obj.Type().(*types.Signature); ok && sig.Recv() != nil {
		n := namedOf(sig.Recv().Type())
		if n != nil {
			switch n.Obj().Name() {
			case "bigEndian":
				return "BigEndian"
			case "littleEndian":
				return "LittleEndian"
			}
		}
	}
	for _, a := range call.Call.Args {
		if o := byteOrderOf(d.f, a); o != "?" {
			return o
		}
	}
	return "?"
}

// parseRead interprets the value stored into a target.
func (d *decWalker) parseRead(target string, v ssa.Value, pos token.Pos) (dread, bool) {
	r := dread{Target: target, Pos: pos}
	v = d.resolve(v)
	for i := 0; i < 16; i++ {
		switch x := v.(type) {
		case *ssa.Convert:
			v = d.resolve(x.X)
			continue
		case *ssa.ChangeType:
			v = d.resolve(x.X)
			continue
		case *ssa.BinOp:
			switch x.Op {
			case token.AND:
				if k, ok := constInt(x.Y); ok {
					if r.Mask == 0 {
						r.Mask = k
					} else {
						r.Mask &= k
					}
					v = d.resolve(x.X)
					continue
				}
			case token.SHR:
				if k, ok := constInt(x.Y); ok {
					if r.Mask != 0 {
						// mask applied after shift is relative to the shifted value: fine
					}
					r.Shift += int(k)
					v = d.resolve(x.X)
					continue
				}
			}
			return r, false
		case *ssa.Call:
			if w, lo, hi, ok := d.uintRead(x); ok {
				r.Width = w
				r.Off = d.fe.eval(lo).String()
				wantHi := polyAdd(d.fe.eval(lo), constPoly(int64(w)), 1)
				if lo == nil {
					r.Off = "0"
					wantHi = constPoly(int64(w))
				}
				if hi == nil || !polyEqual(d.fe.eval(hi), wantHi) {
					return r, false
				}
				r.Order = d.orderOfCall(x)
				return r, true
			}
			// a pure scalar helper of the module: continue with its result expression
			if g, ret := d.pureHelper(x); g != nil && !isStructValue(ret.Results[0].Type()) {
				unbind := d.bindArgs(g, x)
				rr, ok := d.parseRead(target, ret.Results[0], pos)
				unbind()
				if ok {
					if r.Mask != 0 {
						if rr.Mask == 0 {
							rr.Mask = r.Mask
						} else {
							rr.Mask &= r.Mask
						}
					}
					rr.Shift += r.Shift
					return rr, true
				}
			}
			return r, false
		case *ssa.UnOp:
			if x.Op == token.MUL {
				if ia, ok := x.X.(*ssa.IndexAddr); ok && ia.X == d.data {
					r.Width = 1
					r.Off = d.fe.eval(ia.Index).String()
					return r, true
				}
				// a local byte array filled by copy(arr[:], data[lo:hi])
				if al, ok := x.X.(*ssa.Alloc); ok {
					if arr, ok := al.Type().Underlying().(*types.Pointer).Elem().Underlying().(*types.Array); ok && sizeOfBasic(arr.Elem()) == 1 {
						var found *ssa.Slice
						eachInstr(d.f, func(_ *ssa.BasicBlock, _ int, ins ssa.Instruction) {
							call, ok := ins.(*ssa.Call)
							if !ok {
								return
							}
							if b, ok := call.Call.Value.(*ssa.Builtin); !ok || b.Name() != "copy" {
								return
							}
							dst, ok1 := call.Call.Args[0].(*ssa.Slice)
							src, ok2 := call.Call.Args[1].(*ssa.Slice)
							if ok1 && ok2 && dst.X == ssa.Value(al) && dst.Low == nil && src.X == d.data {
								found = src
							}
						})
						if found != nil && found.Low != nil && found.High != nil {
							lo, hi := d.fe.eval(found.Low), d.fe.eval(found.High)
							if polyEqual(polyAdd(hi, lo, -1), constPoly(arr.Len())) {
								r.Width = int(arr.Len())
								r.Off = lo.String()
								return r, true
							}
						}
					}
				}
			}
			return r, false
		case *ssa.Slice:
			if x.X == d.data {
				r.Width = -1
				if x.Low != nil {
					r.Off = d.fe.eval(x.Low).String()
				} else {
					r.Off = "0"
				}
				if x.High != nil {
					r.End = d.fe.eval(x.High).String()
				} else {
					r.End = "len(data)"
				}
				return r, true
			}
			return r, false
		default:
			return r, false
		}
	}
	return r, false
}

// storeStruct copies all memory entries under src to dst.
func (d *decWalker) copyStruct(dst, src memKey) {
	for k, v := range d.mem {
		if k.root != src.root {
			continue
		}
		if src.path == "" || k.path == src.path || strings.HasPrefix(k.path, src.path+".") {
			rel := strings.TrimPrefix(strings.TrimPrefix(k.path, src.path), ".")
			np := dst.path
			if rel != "" {
				if np != "" {
					np += "."
				}
				np += rel
			}
			d.mem[memKey{dst.root, np}] = v
			if rd, ok := d.pre[k]; ok {
				d.pre[memKey{dst.root, np}] = rd
			} else {
				delete(d.pre, memKey{dst.root, np})
			}
		}
	}
}

func isStructValue(t types.Type) bool {
	_, ok := t.Underlying().(*types.Struct)
	return ok
}

func (d *decWalker) exec(b *ssa.BasicBlock) {
	for _, ins := range b.Instrs {
		st, ok := ins.(*ssa.Store)
		if !ok {
			continue
		}
		dk, ok := d.addrKey(st.Addr)
		if !ok {
			continue
		}
		if isStructValue(st.Val.Type()) {
			// struct copy: source is a load of another object, or a zero value
			if ld, ok := st.Val.(*ssa.UnOp); ok && ld.Op == token.MUL {
				if sk, ok := d.addrKey(ld.X); ok {
					d.copyStruct(dk, sk)
				}
			}
			if call, ok := st.Val.(*ssa.Call); ok {
				d.inlineStructCall(dk, call)
			}
			continue
		}
		// appended record?
		if fa, ok := st.Addr.(*ssa.FieldAddr); ok && fieldName(fa) == "CdrList" {
			if ap, ok := st.Val.(*ssa.Call); ok {
				if bi, ok := ap.Call.Value.(*ssa.Builtin); ok && bi.Name() == "append" && len(ap.Call.Args) == 2 {
					for _, el := range variadicElems(ap.Call.Args[1]) {
						if ld, ok := el.(*ssa.UnOp); ok && ld.Op == token.MUL {
							if sk, ok := d.addrKey(ld.X); ok {
								d.collect(sk, "CDR", &d.records)
								d.appended = true
							}
						}
					}
				}
			}
			continue
		}
		d.mem[dk] = st.Val
	}
}

// collect turns the memory entries under k into reads.
func (d *decWalker) collect(k memKey, prefix string, out *[]dread) {
	var paths []string
	for mk := range d.mem {
		if mk.root == k.root && (k.path == "" || mk.path == k.path || strings.HasPrefix(mk.path, k.path+".")) {
			paths = append(paths, mk.path)
		}
	}
	sort.Strings(paths)
	for _, p := range paths {
		v := d.mem[memKey{k.root, p}]
		rel := strings.TrimPrefix(strings.TrimPrefix(p, k.path), ".")
		target := prefix
		if rel != "" {
			target += "." + rel
		}
		pos := token.NoPos
		if ins, ok := v.(ssa.Instruction); ok {
			pos = ins.Pos()
		}
		rd, ok := d.parseRead(target, v, pos)
		if pr, has := d.pre[memKey{k.root, p}]; has {
			rd, ok = pr, true
			rd.Target = target
		}
		if !ok {
			if k0, isC := constInt(d.resolve(v)); isC {
				rd = dread{Target: target, Off: fmt.Sprintf("const %d", k0), Width: 0, Pos: pos}
			} else {
				failUndecided("%s: cannot interpret what the decoder stores into %s (%s)", d.c.rel(pos), target, v.String())
			}
		}
		*out = append(*out, rd)
	}
}

// releaseTestDec: `x == 7` where x resolves to a read that the encoder names.
func (d *decWalker) releaseTestDec(ifi *ssa.If) (string, bool, bool) {
	bo, ok := ifi.Cond.(*ssa.BinOp)
	if !ok || (bo.Op != token.EQL && bo.Op != token.NEQ) {
		return "", false, false
	}
	var x ssa.Value
	if k, ok := constInt(bo.Y); ok && k == 7 {
		x = bo.X
	} else if k, ok := constInt(bo.X); ok && k == 7 {
		x = bo.Y
	} else {
		return "", false, false
	}
	rd, ok := d.parseRead("?", x, ifi.Pos())
	if !ok {
		return "", false, false
	}
	sig := fmt.Sprintf("%s|%d|%d", rd.Off, rd.Width, rd.Shift)
	name := d.relName(sig)
	if name == "" {
		return "", false, false
	}
	return name, bo.Op == token.EQL, true
}

func (d *decWalker) walk(b, prev *ssa.BasicBlock) {
	d.visited++
	if d.visited > 400 {
		failUndecided("decoder walk does not terminate")
	}
	// loop head?
	isHead := false
	for _, p := range b.Preds {
		if b.Dominates(p) && p != b {
			isHead = true
		}
	}
	if isHead && d.inLoop && prev != nil && b.Dominates(prev) {
		// back edge: record the steps
		for _, ins := range b.Instrs {
			ph, ok := ins.(*ssa.Phi)
			if !ok {
				break
			}
			for i, p := range b.Preds {
				if p == prev {
					d.step[d.loopSym[ph]] = polyAdd(d.fe.eval(ph.Edges[i]), atomPoly(d.loopSym[ph]), -1).String()
				}
			}
		}
		return
	}
	if isHead && !d.inLoop {
		// entering the record loop: the header is complete
		hk := memKey{}
		for mk := range d.mem {
			if _, isParam := mk.root.(*ssa.Parameter); isParam && strings.HasPrefix(mk.path, "Hdr") {
				hk = memKey{mk.root, "Hdr"}
			}
		}
		if hk.root != nil {
			d.collect(hk, "Hdr", &d.header)
		}
		d.inLoop = true
		for _, ins := range b.Instrs {
			ph, ok := ins.(*ssa.Phi)
			if !ok {
				break
			}
			sym := "loop:" + ph.Comment
			for i, p := range b.Preds {
				if p == prev {
					d.init[sym] = d.fe.eval(ph.Edges[i]).String()
				}
			}
			d.loopSym[ph] = sym
			delete(d.phi, ph)
		}
		d.newFE()
		d.exec(b)
		ifi, ok := b.Instrs[len(b.Instrs)-1].(*ssa.If)
		if !ok {
			failUndecided("record loop head does not end in a condition")
		}
		if bo, ok := ifi.Cond.(*ssa.BinOp); ok {
			d.bound = fmt.Sprintf("%s %s %s", d.fe.eval(bo.X), bo.Op, d.fe.eval(bo.Y))
		}
		d.walk(b.Succs[0], b)
		return
	}
	if prev != nil {
		changed := false
		for _, ins := range b.Instrs {
			ph, ok := ins.(*ssa.Phi)
			if !ok {
				break
			}
			for i, p := range b.Preds {
				if p == prev {
					d.phi[ph] = ph.Edges[i]
					changed = true
				}
			}
		}
		if changed {
			d.newFE()
		}
	}
	d.exec(b)
	if len(b.Instrs) == 0 {
		return
	}
	switch t := b.Instrs[len(b.Instrs)-1].(type) {
	case *ssa.Jump:
		d.walk(b.Succs[0], b)
	case *ssa.If:
		if name, eq, ok := d.releaseTestDec(t); ok {
			val := d.assign[name]
			if val == eq {
				d.walk(b.Succs[0], b)
			} else {
				d.walk(b.Succs[1], b)
			}
			return
		}
		// a guard of the record loop on the octets that are left: leaving the loop is right only
		// when not even the shortest record header (4 octets) remains
		if d.inLoop {
			if cont, ok := d.truncationGuard(b, t); ok {
				d.walk(cont, b)
				return
			}
		}
		// error / diagnostic branch: must not store anything the layout depends on; follow the branch that continues
		s0, s1 := b.Succs[0], b.Succs[1]
		if endsInPanic(s0) {
			d.walk(s1, b)
		} else if endsInPanic(s1) {
			d.walk(s0, b)
		} else {
			// a diamond with a diagnostic print on one side: take the side that is the join (or the shorter)
			if len(s0.Succs) == 1 && s0.Succs[0] == s1 && !hasStore(s0) {
				d.walk(s1, b)
			} else if len(s1.Succs) == 1 && s1.Succs[0] == s0 && !hasStore(s1) {
				d.walk(s0, b)
			} else {
				failUndecided("%s: a branch of the decoder that is not a release-identifier test may change what is read", posOf(d.c, t))
			}
		}
	case *ssa.Return, *ssa.Panic:
	}
}

// truncationGuard: `if <cursor + k compared with len(data)> { leave the loop }`.  Returns the
// edge that stays in the loop when the guard is one; fails (with the octet count as witness)
// when the leaving edge is taken although a complete record header may still be there.
func (d *decWalker) truncationGuard(b *ssa.BasicBlock, ifi *ssa.If) (*ssa.BasicBlock, bool) {
	bo, ok := ifi.Cond.(*ssa.BinOp)
	if !ok {
		return nil, false
	}
	switch bo.Op {
	case token.LSS, token.LEQ, token.GTR, token.GEQ:
	default:
		return nil, false
	}
	diff := polyAdd(d.fe.eval(bo.X), d.fe.eval(bo.Y), -1)
	if os.Getenv("CHFCHECK_DEBUG") != "" {
		fmt.Fprintf(os.Stderr, "truncationGuard: %s %s %s\n", d.fe.eval(bo.X), bo.Op, d.fe.eval(bo.Y))
	}
	var k, sLen, sCur int64
	nLen, nCur := 0, 0
	for mono, coef := range diff {
		switch {
		case mono == "":
			k = coef
		case (strings.HasPrefix(mono, "len(") || strings.HasPrefix(mono, "call:len@")) && !strings.Contains(mono, monoSep):
			sLen, nLen = coef, nLen+1
		case strings.HasPrefix(mono, "loop:") && !strings.Contains(mono, monoSep):
			sCur, nCur = coef, nCur+1
		default:
			return nil, false
		}
	}
	if nLen != 1 || nCur != 1 || sLen != -sCur || (sLen != 1 && sLen != -1) {
		return nil, false
	}
	// the loop head: the block that dominates b and is the target of a back edge
	stays := func(s *ssa.BasicBlock) bool {
		seen := map[*ssa.BasicBlock]bool{}
		stack := []*ssa.BasicBlock{s}
		for len(stack) > 0 {
			x := stack[len(stack)-1]
			stack = stack[:len(stack)-1]
			if seen[x] {
				continue
			}
			seen[x] = true
			if x != b && x.Dominates(b) {
				for _, p := range x.Preds {
					if x.Dominates(p) && p != x {
						return true // reached a loop head that encloses the guard
					}
				}
			}
			stack = append(stack, x.Succs...)
		}
		return false
	}
	s0, s1 := b.Succs[0], b.Succs[1]
	st0, st1 := stays(s0), stays(s1)
	if st0 == st1 {
		return nil, false
	}
	exitOnTrue := !st0
	holds := func(r int64) bool { // the condition with r octets left
		v := sLen*r + k
		switch bo.Op {
		case token.LSS:
			return v < 0
		case token.LEQ:
			return v <= 0
		case token.GTR:
			return v > 0
		default:
			return v >= 0
		}
	}
	for r := int64(4); r <= 64; r++ {
		if holds(r) == exitOnTrue {
			failUndecided("%s: the decoder leaves the record loop although %d octets are left - enough for the header of a record (4 octets when its release identifier is not 7, then possibly an empty payload): that record is dropped", posOf(d.c, ifi), r)
		}
	}
	if exitOnTrue {
		return s1, true
	}
	return s0, true
}

func endsInPanic(b *ssa.BasicBlock) bool {
	if len(b.Instrs) == 0 {
		return false
	}
	_, ok := b.Instrs[len(b.Instrs)-1].(*ssa.Panic)
	return ok
}

func hasStore(b *ssa.BasicBlock) bool {
	for _, ins := range b.Instrs {
		if st, ok := ins.(*ssa.Store); ok {
			if a, ok := st.Addr.(*ssa.IndexAddr); ok {
				if al, ok := a.X.(*ssa.Alloc); ok && al.Comment == "varargs" {
					continue
				}
			}
			return true
		}
	}
	return false
}

type decLayout struct {
	header  []dread
	records []dread
	init    map[string]string
	step    map[string]string
	bound   string
}

func decoderLayout(c *Ctx, f *ssa.Function, assign map[string]bool, fieldAt func(off string, width int) string, relName func(sig string) string) (dl *decLayout, err error) {
	defer func() {
		if p := recover(); p != nil {
			if u, ok := p.(undecided); ok {
				err = fmt.Errorf("%s", u.msg)
				return
			}
			panic(p)
		}
	}()
	d := &decWalker{c: c, f: f, assign: assign, fieldAt: fieldAt, relName: relName, mem: map[memKey]ssa.Value{}, phi: map[*ssa.Phi]ssa.Value{},
		loopSym: map[*ssa.Phi]string{}, step: map[string]string{}, init: map[string]string{}}
	eachInstr(f, func(_ *ssa.BasicBlock, _ int, ins ssa.Instruction) {
		if ex, ok := ins.(*ssa.Extract); ok && ex.Index == 0 {
			if call, ok := ex.Tuple.(*ssa.Call); ok && isFunc(calleeObj(&call.Call), "os", "ReadFile") {
				d.data = ex
			}
		}
	})
	if d.data == nil {
		return nil, fmt.Errorf("decoder does not read a file with os.ReadFile")
	}
	d.newFE()
	d.walk(f.Blocks[0], nil)
	if !d.inLoop {
		// no loop reached: collect header anyway
		for mk := range d.mem {
			if _, isParam := mk.root.(*ssa.Parameter); isParam && strings.HasPrefix(mk.path, "Hdr") {
				d.collect(memKey{mk.root, "Hdr"}, "Hdr", &d.header)
				break
			}
		}
	}
	return &decLayout{header: d.header, records: d.records, init: d.init, step: d.step, bound: d.bound}, nil
}
