package main

import (
	"go/types"
	"sort"
	"strings"

	"golang.org/x/tools/go/ssa"
)

// E2: lockset engine.  Lock classes are (struct type, mutex field) pairs
// (lockdep style).  A forward must-analysis computes, for every instruction
// of every module function, the set of classes certainly held; summaries give
// the net effect of callees; entry locksets are the meet over all call sites
// of functions reachable from the request entry points.

type lockKind int

const (
	lkLock lockKind = iota
	lkRLock
	lkUnlock
	lkRUnlock
)

type lockOp struct {
	ins      ssa.Instruction
	class    string
	kind     lockKind
	deferred bool
}

type lsState struct {
	held uint32 // classes held (must)
	dfr  uint32 // classes with a registered deferred unlock (must)
	rel  uint32 // classes released without having been acquired here (may)
	top  bool   // unvisited
}

func meetState(a, b lsState) lsState {
	if a.top {
		return b
	}
	if b.top {
		return a
	}
	return lsState{held: a.held & b.held, dfr: a.dfr & b.dfr, rel: a.rel | b.rel}
}

type fnSummary struct {
	acq uint32 // classes held at every return although not at entry
	rel uint32 // classes possibly released that were held at entry
}

type locksets struct {
	c       *Ctx
	classes []string
	idx     map[string]int
	ops     map[ssa.Instruction]lockOp
	sum     map[*ssa.Function]fnSummary
	entry   map[*ssa.Function]uint32 // lockset at entry (meet over call sites)
	reached map[*ssa.Function]bool
	pred    map[*ssa.Function]*ssa.Function
	blockIn map[*ssa.BasicBlock]lsState
	// lock-order edges: held class -> acquired class, with a witness
	order map[[2]int]ssa.Instruction
	// classes a function may acquire, itself or through its callees
	lockedIn map[*ssa.Function]uint32
}

func (ls *locksets) classIndex(name string) int {
	if i, ok := ls.idx[name]; ok {
		return i
	}
	i := len(ls.classes)
	if i >= 30 {
		broken("too many lock classes")
	}
	ls.classes = append(ls.classes, name)
	ls.idx[name] = i
	return i
}

func (ls *locksets) names(mask uint32) string {
	var out []string
	for i, n := range ls.classes {
		if mask&(1<<uint(i)) != 0 {
			out = append(out, n)
		}
	}
	if len(out) == 0 {
		return "{}"
	}
	sort.Strings(out)
	return "{" + strings.Join(out, ",") + "}"
}

// lockOpOf recognises sync.Mutex / sync.RWMutex operations.
func (ls *locksets) lockOpOf(ins ssa.Instruction) (lockOp, bool) {
	ci, ok := ins.(ssa.CallInstruction)
	if !ok {
		return lockOp{}, false
	}
	if _, isGo := ins.(*ssa.Go); isGo {
		return lockOp{}, false
	}
	cc := ci.Common()
	obj := calleeObj(cc)
	if obj == nil || obj.Pkg() == nil || obj.Pkg().Path() != "sync" || cc.IsInvoke() {
		return lockOp{}, false
	}
	var kind lockKind
	switch funcLocalName(obj) {
	case "Mutex.Lock", "RWMutex.Lock":
		kind = lkLock
	case "Mutex.Unlock", "RWMutex.Unlock":
		kind = lkUnlock
	case "RWMutex.RLock":
		kind = lkRLock
	case "RWMutex.RUnlock":
		kind = lkRUnlock
	default:
		return lockOp{}, false
	}
	if len(cc.Args) == 0 {
		return lockOp{}, false
	}
	class := mutexClass(cc.Args[0])
	_, isDefer := ins.(*ssa.Defer)
	return lockOp{ins: ins, class: class, kind: kind, deferred: isDefer}, true
}

// mutexClass names the lock class of a mutex address.
func mutexClass(addr ssa.Value) string {
	switch x := addr.(type) {
	case *ssa.FieldAddr:
		n := namedOf(x.X.Type())
		if n != nil {
			return n.Obj().Name() + "." + fieldName(x)
		}
		// mutex embedded deeper: recurse
		return mutexClass(x.X) + "." + fieldName(x)
	case *ssa.Global:
		return "global " + x.Name()
	case *ssa.Alloc:
		return "local " + x.Comment
	case *ssa.Parameter:
		return "param " + x.Name()
	}
	return "unknown mutex"
}

func newLocksets(c *Ctx, entries []*ssa.Function) *locksets {
	ls := &locksets{c: c, idx: map[string]int{}, ops: map[ssa.Instruction]lockOp{}, sum: map[*ssa.Function]fnSummary{},
		entry: map[*ssa.Function]uint32{}, blockIn: map[*ssa.BasicBlock]lsState{}, order: map[[2]int]ssa.Instruction{}}
	for _, f := range c.ModFuncs {
		eachInstr(f, func(_ *ssa.BasicBlock, _ int, ins ssa.Instruction) {
			if op, ok := ls.lockOpOf(ins); ok {
				ls.classIndex(op.class)
				ls.ops[ins] = op
			}
		})
	}
	// summaries (entry state empty), iterate to a fixpoint
	for round := 0; round < 6; round++ {
		changed := false
		for _, f := range c.ModFuncs {
			s := ls.analyse(f, 0, nil)
			if s != ls.sum[f] {
				ls.sum[f] = s
				changed = true
			}
		}
		if !changed {
			break
		}
	}
	// may-acquire sets (transitive)
	ls.lockedIn = map[*ssa.Function]uint32{}
	for ins, op := range ls.ops {
		if !op.deferred && (op.kind == lkLock || op.kind == lkRLock) {
			ls.lockedIn[ins.Parent()] |= 1 << uint(ls.idx[op.class])
		}
	}
	for round := 0; round < 10; round++ {
		changed := false
		for _, f := range c.ModFuncs {
			m := ls.lockedIn[f]
			for _, callee := range c.callgraph().out[f] {
				m |= ls.lockedIn[callee]
			}
			if m != ls.lockedIn[f] {
				ls.lockedIn[f] = m
				changed = true
			}
		}
		if !changed {
			break
		}
	}
	// entry locksets: meet over call sites, top-down from the entry points
	ls.reached, ls.pred = c.reach(entries)
	const top = ^uint32(0)
	for f := range ls.reached {
		ls.entry[f] = top
	}
	isEntry := map[*ssa.Function]bool{}
	for _, e := range entries {
		ls.entry[e] = 0
		isEntry[e] = true
	}
	// functions whose address is taken (closures handed to libraries, method values) may be called from anywhere
	for f := range ls.reached {
		if f.Parent() != nil && !ls.calledDirectly(f) {
			ls.entry[f] = 0
			isEntry[f] = true
		}
	}
	for round := 0; round < 20; round++ {
		changed := false
		for _, f := range c.ModFuncs {
			if !ls.reached[f] || ls.entry[f] == top && !isEntry[f] {
				// not yet reached by the propagation: still analyse callers first
				if !ls.reached[f] {
					continue
				}
			}
			e := ls.entry[f]
			if e == top {
				continue
			}
			ls.analyse(f, e, func(call ssa.CallInstruction, held uint32) {
				for _, callee := range c.calleesAt(call) {
					if !ls.reached[callee] || isEntry[callee] || callee.Blocks == nil {
						continue
					}
					old := ls.entry[callee]
					nw := held
					if old != top {
						nw = old & held
					}
					if nw != old {
						ls.entry[callee] = nw
						changed = true
					}
				}
			})
		}
		if !changed {
			break
		}
	}
	// final pass: record block-entry states and lock-order edges
	for _, f := range c.ModFuncs {
		e := ls.entry[f]
		if !ls.reached[f] || e == top {
			e = 0
		}
		ls.analyseRecord(f, e)
	}
	return ls
}

// calledDirectly: some call instruction in the module has f as static callee.
func (ls *locksets) calledDirectly(f *ssa.Function) bool {
	par := f.Parent()
	if par == nil {
		return true
	}
	found := false
	for _, g := range withAnon(rootOf(par)) {
		eachInstr(g, func(_ *ssa.BasicBlock, _ int, ins ssa.Instruction) {
			if ci, ok := ins.(ssa.CallInstruction); ok {
				if _, isGo := ins.(*ssa.Go); isGo {
					return
				}
				if ci.Common().StaticCallee() == f {
					found = true
				}
			}
		})
	}
	return found
}

func rootOf(f *ssa.Function) *ssa.Function {
	for f.Parent() != nil {
		f = f.Parent()
	}
	return f
}

// transfer applies one instruction to the state.
func (ls *locksets) transfer(st lsState, ins ssa.Instruction, onCall func(ssa.CallInstruction, uint32), record bool) lsState {
	if op, ok := ls.ops[ins]; ok {
		bit := uint32(1) << uint(ls.idx[op.class])
		switch {
		case op.deferred && (op.kind == lkUnlock || op.kind == lkRUnlock):
			st.dfr |= bit
		case op.deferred:
			// deferred Lock: ignore
		case op.kind == lkLock || op.kind == lkRLock:
			if record {
				for i := range ls.classes {
					if st.held&(1<<uint(i)) != 0 {
						k := [2]int{i, ls.idx[op.class]}
						if _, ok := ls.order[k]; !ok {
							ls.order[k] = ins
						}
					}
				}
			}
			st.held |= bit
		default:
			if st.held&bit == 0 {
				st.rel |= bit
			}
			st.held &^= bit
			st.dfr &^= bit
		}
		return st
	}
	ci, ok := ins.(ssa.CallInstruction)
	if !ok {
		return st
	}
	if _, isGo := ins.(*ssa.Go); isGo {
		return st
	}
	if _, isDefer := ins.(*ssa.Defer); isDefer {
		// deferred call of a module function that unlocks: treat its releases as deferred unlocks
		for _, callee := range ls.c.calleesAt(ci) {
			if s, ok := ls.sum[callee]; ok {
				st.dfr |= s.rel
			}
		}
		return st
	}
	if onCall != nil {
		onCall(ci, st.held)
	}
	callees := ls.c.calleesAt(ci)
	if len(callees) == 0 {
		return st
	}
	acq := ^uint32(0)
	var rel uint32
	known := false
	for _, callee := range callees {
		if callee.Blocks == nil {
			continue
		}
		s, ok := ls.sum[callee]
		if !ok {
			s = fnSummary{}
		}
		known = true
		acq &= s.acq
		rel |= s.rel
	}
	if !known {
		return st
	}
	var may uint32
	for _, callee := range callees {
		may |= ls.lockedIn[callee]
	}
	if record && may != 0 {
		for i := range ls.classes {
			if st.held&(1<<uint(i)) == 0 {
				continue
			}
			for j := range ls.classes {
				if may&(1<<uint(j)) != 0 {
					k := [2]int{i, j}
					if _, ok := ls.order[k]; !ok {
						ls.order[k] = ins
					}
				}
			}
		}
	}
	newRel := rel &^ st.held
	st.rel |= newRel
	st.held = (st.held &^ rel) | acq
	return st
}

// analyse runs the intra-procedural analysis with the given entry lockset and
// returns the function summary.
func (ls *locksets) analyse(f *ssa.Function, entry uint32, onCall func(ssa.CallInstruction, uint32)) fnSummary {
	in := ls.fixpoint(f, entry)
	sum := fnSummary{acq: ^uint32(0)}
	nret := 0
	for _, b := range f.Blocks {
		st, ok := in[b]
		if !ok || st.top {
			continue
		}
		for _, ins := range b.Instrs {
			if _, isRet := ins.(*ssa.Return); isRet {
				nret++
				heldAtRet := st.held &^ st.dfr
				sum.acq &= heldAtRet &^ entry
				sum.rel |= st.rel | (entry & st.dfr) | (entry &^ st.held)
			}
			st = ls.transfer(st, ins, onCall, false)
		}
	}
	if nret == 0 {
		sum.acq = 0
	}
	return sum
}

func (ls *locksets) fixpoint(f *ssa.Function, entry uint32) map[*ssa.BasicBlock]lsState {
	in := map[*ssa.BasicBlock]lsState{}
	for _, b := range f.Blocks {
		in[b] = lsState{top: true}
	}
	if len(f.Blocks) == 0 {
		return in
	}
	in[f.Blocks[0]] = lsState{held: entry}
	if f.Recover != nil {
		in[f.Recover] = lsState{held: 0}
	}
	work := []*ssa.BasicBlock{f.Blocks[0]}
	inWork := map[*ssa.BasicBlock]bool{f.Blocks[0]: true}
	for len(work) > 0 {
		b := work[0]
		work = work[1:]
		inWork[b] = false
		st := in[b]
		if st.top {
			continue
		}
		for _, ins := range b.Instrs {
			st = ls.transfer(st, ins, nil, false)
		}
		for _, s := range b.Succs {
			n := meetState(in[s], st)
			if n != in[s] {
				in[s] = n
				if !inWork[s] {
					work = append(work, s)
					inWork[s] = true
				}
			}
		}
	}
	return in
}

func (ls *locksets) analyseRecord(f *ssa.Function, entry uint32) {
	in := ls.fixpoint(f, entry)
	for b, st := range in {
		ls.blockIn[b] = st
	}
	for _, b := range f.Blocks {
		st := in[b]
		if st.top {
			continue
		}
		for _, ins := range b.Instrs {
			st = ls.transfer(st, ins, nil, true)
		}
	}
}

// stateAt returns the lock state just before ins executes.
func (ls *locksets) stateAt(ins ssa.Instruction) (lsState, bool) {
	b := ins.Block()
	st, ok := ls.blockIn[b]
	if !ok || st.top {
		return lsState{}, false
	}
	for _, x := range b.Instrs {
		if x == ins {
			return st, true
		}
		st = ls.transfer(st, x, nil, false)
	}
	return st, true
}

func (ls *locksets) heldAt(ins ssa.Instruction) (uint32, bool) {
	st, ok := ls.stateAt(ins)
	return st.held, ok
}

// ---------------------------------------------------------------------------
// entry points

// requestEntries returns the functions a request can start in: every function
// value placed in a []Route literal (method values and function literals), and
// the closures the Diameter handler constructors return.
func requestEntries(c *Ctx) []*ssa.Function {
	var out []*ssa.Function
	seen := map[*ssa.Function]bool{}
	add := func(f *ssa.Function) {
		if f != nil && !seen[f] {
			seen[f] = true
			out = append(out, f)
		}
	}
	sbi := c.SSA[modPath+"/internal/sbi"]
	if sbi == nil {
		broken("anchor: internal/sbi not loaded")
	}
	routeT := c.namedType("internal/sbi", "Route")
	for _, f := range c.ModFuncs {
		if rootOf(f).Pkg != sbi {
			continue
		}
		eachInstr(f, func(_ *ssa.BasicBlock, _ int, ins ssa.Instruction) {
			st, ok := ins.(*ssa.Store)
			if !ok {
				return
			}
			fa, ok := st.Addr.(*ssa.FieldAddr)
			if !ok || namedOf(fa.X.Type()) != routeT || fieldName(fa) != "APIFunc" {
				return
			}
			switch v := stripConv(st.Val).(type) {
			case *ssa.MakeClosure:
				fn := v.Fn.(*ssa.Function)
				if strings.HasSuffix(fn.Name(), "$bound") {
					if mo, ok := fn.Object().(*types.Func); ok {
						add(c.Prog.FuncValue(mo))
						return
					}
				}
				add(fn)
			case *ssa.Function:
				add(v)
			}
		})
	}
	if len(out) < 6 {
		broken("anchor: only %d route handler functions found", len(out))
	}
	// Diameter handler closures
	for _, a := range [][2]string{{"internal/abmf", "HandleCCA"}, {"internal/rating", "HandleSUA"}, {"pkg/abmf", "handleCCR"}, {"pkg/rf", "handleSUR"}} {
		if f := c.fnOpt(a[0], a[1]); f != nil {
			for _, an := range f.AnonFuncs {
				add(an)
			}
		}
	}
	return out
}
