package main

import (
	"bytes"
	"fmt"
	"go/ast"
	"go/token"
	"go/types"
	"os"
	"regexp"
	"sort"
	"strconv"
	"strings"

	"golang.org/x/tools/go/packages"
)

// Normalisation pre-pass: helper functions the rules do not know are inlined
// into their callers before the program is analysed.
//
// The rules are anchored in the functions that exist in the code base (the
// inventory in baseline_funcs.txt: package path, receiver, name - no source
// text).  A maintenance edit that extracts a helper, splits a function in two
// or turns a closure into a named function introduces a function that is not
// in the inventory; analysing it separately would hide, from intraprocedural
// rules, code that used to sit in the anchor function.  Inlining such functions
// into every call site (and dropping their declarations) is semantics
// preserving, so the verdict on the normalised program is a verdict on the
// program.  The transformation is done on source text with `//line`
// directives, so reported positions still point into the real files; the
// result is type-checked again by the loader, and if it does not type-check the
// un-normalised program is analysed instead.
//
// A function g is inlined when it is declared in a module package, is not in
// the inventory, is not generic / variadic / recursive, has no labels, is only
// called (never used as a value), every call is a direct call from its own
// package in a statement position the transformation handles, and the package
// level names its body uses are not shadowed at the call sites.  Bodies with
// `defer` or `recover` become an immediately invoked function literal; all
// others become a labelled one-trip block in which `return` is an assignment
// to the result variables followed by a break.

type inlineCand struct {
	pkg   *packages.Package
	decl  *ast.FuncDecl
	obj   *types.Func
	file  *ast.File
	sites []*inlineSite
	lit   bool // needs the function-literal form (defer / recover)
}

type inlineSite struct {
	pkg   *packages.Package // the package the call site is in (may differ from the helper's)
	file  *ast.File
	call  *ast.CallExpr
	stmt  ast.Stmt // the statement to replace
	kind  string   // expr | assign | define | return | var
	scope *types.Scope
}

func baselineFuncs() map[string]bool {
	m := map[string]bool{}
	data, err := os.ReadFile(verifDir() + "/chfcheck/baseline_funcs.txt")
	if err != nil {
		broken("baseline function inventory: %v", err)
	}
	for _, l := range strings.Split(string(data), "\n") {
		l = strings.TrimSpace(l)
		if l != "" && !strings.HasPrefix(l, "#") {
			m[l] = true
		}
	}
	if len(m) < 100 {
		broken("baseline function inventory has only %d entries", len(m))
	}
	return m
}

func funcKeyOf(pkgPath string, d *ast.FuncDecl) string {
	recv := ""
	if d.Recv != nil && len(d.Recv.List) == 1 {
		t := d.Recv.List[0].Type
		if s, ok := t.(*ast.StarExpr); ok {
			t = s.X
		}
		if ix, ok := t.(*ast.IndexExpr); ok {
			t = ix.X
		}
		if id, ok := t.(*ast.Ident); ok {
			recv = id.Name
		}
	}
	return pkgPath + "|" + recv + "|" + d.Name.Name
}

// writeInventory prints the inventory of the loaded program (used once to
// produce baseline_funcs.txt: `chfcheck -inventory`).
func writeInventory(c *Ctx) {
	var out []string
	for _, p := range c.Mod {
		for _, f := range p.Syntax {
			for _, d := range f.Decls {
				if fd, ok := d.(*ast.FuncDecl); ok {
					out = append(out, funcKeyOf(p.PkgPath, fd))
				}
			}
		}
	}
	sort.Strings(out)
	fmt.Println("# inventory of module functions known to the rules: package|receiver|name")
	for _, l := range out {
		fmt.Println(l)
	}
}

type textEdit struct {
	start, end int
	text       string
}

// normalise computes the overlay (file name -> new content) that inlines the
// unknown helpers of one pass; nil when there is nothing to do.
// inlineUniq numbers the generated labels and result variables; it runs on
// over the passes so that a body copied in a later pass cannot clash with the
// names generated for its own earlier inlinings.
var inlineUniq int
var inlinePkgUniq int

var inlTagRe = regexp.MustCompile(`\b(_inl[0-9]+(?:s[0-9]+)*)`)

func normalise(mod []*packages.Package, fset *token.FileSet, known map[string]bool, prev map[string][]byte, note func(string)) map[string][]byte {
	overlay := map[string][]byte{}
	for k, v := range prev {
		overlay[k] = v
	}
	changed := false
	// a helper called in the init clause of an if statement: the clause is moved in front of
	// the statement (inside a block that keeps the scope of what it declares), so that the
	// call sits in a position the inliner handles; the inlining itself is the next pass
	if n := 0; os.Getenv("CHFCHECK_NOIFHOIST") == "" && func() bool { n = hoistIfInits(mod, fset, known, overlay); return n > 0 }() {
		note(fmt.Sprintf("moved %d if-init clause(s) that call unknown helpers in front of their statements", n))
		return overlay
	}
	for _, p := range mod {
		info := p.TypesInfo
		// candidates
		cands := map[*types.Func]*inlineCand{}
		for _, f := range p.Syntax {
			for _, d := range f.Decls {
				fd, ok := d.(*ast.FuncDecl)
				if !ok || fd.Body == nil || known[funcKeyOf(p.PkgPath, fd)] || fd.Name.Name == "init" || fd.Name.Name == "main" {
					continue
				}
				obj, _ := info.Defs[fd.Name].(*types.Func)
				if obj == nil {
					continue
				}
				sig := obj.Type().(*types.Signature)
				if sig.Variadic() || sig.TypeParams().Len() > 0 || sig.RecvTypeParams().Len() > 0 {
					continue
				}
				cands[obj] = &inlineCand{pkg: p, decl: fd, obj: obj, file: f}
			}
		}
		if len(cands) == 0 {
			continue
		}
		// body restrictions
		for obj, cd := range cands {
			bad := false
			ast.Inspect(cd.decl.Body, func(n ast.Node) bool {
				switch x := n.(type) {
				case *ast.FuncLit:
					// returns inside belong to the literal; defers too
					ast.Inspect(x.Body, func(m ast.Node) bool {
						if id, ok := m.(*ast.Ident); ok && info.Uses[id] == types.Object(obj) {
							bad = true
						}
						return true
					})
					return false
				case *ast.LabeledStmt, *ast.BranchStmt:
					if b, ok := x.(*ast.BranchStmt); ok && (b.Label == nil || strings.HasPrefix(b.Label.Name, "_inl")) {
						return true
					}
					if l, ok := x.(*ast.LabeledStmt); ok && strings.HasPrefix(l.Label.Name, "_inl") {
						return true // generated by an earlier pass: unique in the module
					}
					bad = true
				case *ast.DeferStmt:
					cd.lit = true
				case *ast.CallExpr:
					if id, ok := x.Fun.(*ast.Ident); ok && id.Name == "recover" {
						cd.lit = true
					}
				case *ast.Ident:
					if info.Uses[x] == types.Object(obj) {
						bad = true // recursive
					}
				}
				return true
			})
			if bad {
				delete(cands, obj)
			}
		}
		// candidates whose body is one return of an expression without calls (other than
		// conversions, len, cap): calling them has no effect, so they do not restrict hoisting
		pureFns := map[*types.Func]bool{}
		for obj, cd := range cands {
			if len(cd.decl.Body.List) != 1 {
				continue
			}
			rs, ok := cd.decl.Body.List[0].(*ast.ReturnStmt)
			if !ok {
				continue
			}
			pure := true
			for _, e := range rs.Results {
				ast.Inspect(e, func(n ast.Node) bool {
					switch y := n.(type) {
					case *ast.CallExpr:
						if tv, ok := info.Types[y.Fun]; ok && tv.IsType() {
							return true
						}
						if id, ok := y.Fun.(*ast.Ident); ok {
							if b, ok := info.Uses[id].(*types.Builtin); ok && (b.Name() == "len" || b.Name() == "cap") {
								return true
							}
						}
						pure = false
					case *ast.FuncLit:
						pure = false
					case *ast.UnaryExpr:
						if y.Op == token.ARROW {
							pure = false
						}
					}
					return pure
				})
			}
			if pure {
				pureFns[obj] = true
			}
		}
		// uses: every use must be the callee of a direct call in a handled statement position
		type useCtx struct {
			file *ast.File
			path []ast.Node
		}
		abort := map[*types.Func]bool{}
		// helpers that may be inlined into other packages: everything they name from their own
		// package is exported
		crossOK := map[*types.Func]bool{}
		for obj, cd := range cands {
			crossOK[obj] = exportedOnly(info, p.Types, cd.decl)
		}
		scan := func(q *packages.Package) {
			qinfo := q.TypesInfo
			for _, f := range q.Syntax {
				var stack []ast.Node
				ast.Inspect(f, func(n ast.Node) bool {
					if n == nil {
						stack = stack[:len(stack)-1]
						return true
					}
					stack = append(stack, n)
					id, ok := n.(*ast.Ident)
					if !ok {
						return true
					}
					fn, ok := qinfo.Uses[id].(*types.Func)
					if !ok {
						return true
					}
					cd := cands[fn]
					if cd == nil {
						return true
					}
					// the identifier must be the Fun (or Sel of the Fun) of a call
					var call *ast.CallExpr
					i := len(stack) - 2
					if i >= 0 {
						if sel, ok := stack[i].(*ast.SelectorExpr); ok && sel.Sel == id {
							i--
						}
					}
					if i >= 0 {
						if ce, ok := stack[i].(*ast.CallExpr); ok && (ce.Fun == ast.Expr(id) || isSelOf(ce.Fun, id)) {
							call = ce
						}
					}
					if call == nil {
						abort[fn] = true
						inlDebug(fn, "used other than as the callee of a direct call", fset, id.Pos())
						return true
					}
					// statement position: the innermost enclosing statement that is a direct
					// child of a block / case body
					var stmt ast.Stmt
					kind := ""
					si := -1
					for k := i - 1; k >= 0; k-- {
						if st, ok := stack[k].(ast.Stmt); ok {
							stmt, si = st, k
							break
						}
						if _, isLit := stack[k].(*ast.FuncLit); isLit {
							break
						}
					}
					if stmt == nil {
						abort[fn] = true
						inlDebug(fn, "no enclosing statement", fset, id.Pos())
						return true
					}
					direct := si == i-1 // the call is an operand of the statement itself
					switch st := stmt.(type) {
					case *ast.ExprStmt:
						if direct && st.X == ast.Expr(call) {
							kind = "expr"
						} else {
							kind = "hoist"
						}
					case *ast.AssignStmt:
						switch {
						case direct && len(st.Rhs) == 1 && st.Rhs[0] == ast.Expr(call) && st.Tok == token.DEFINE:
							kind = "define"
						case direct && len(st.Rhs) == 1 && st.Rhs[0] == ast.Expr(call) && st.Tok == token.ASSIGN:
							kind = "assign"
						default:
							kind = "hoist"
						}
					case *ast.ReturnStmt:
						if direct && len(st.Results) == 1 && st.Results[0] == ast.Expr(call) {
							kind = "return"
						} else {
							kind = "hoist"
						}
					case *ast.IfStmt:
						// only from the condition of the statement itself (not from its blocks: those have their own statements)
						if st.Cond != nil && st.Cond.Pos() <= call.Pos() && call.End() <= st.Cond.End() {
							kind = "hoist"
						}
					case *ast.IncDecStmt, *ast.SendStmt:
						kind = "hoist"
					case *ast.DeclStmt:
						if gd, ok := st.Decl.(*ast.GenDecl); ok && gd.Tok == token.VAR {
							kind = "hoist"
						}
					}
					if kind == "" {
						abort[fn] = true
						inlDebug(fn, "call in an unhandled statement position", fset, id.Pos())
						return true
					}
					// an if statement in an else-if position cannot be prefixed
					if ifs, ok := stmt.(*ast.IfStmt); ok && si-1 >= 0 {
						if par, ok := stack[si-1].(*ast.IfStmt); ok && par.Else == ast.Stmt(ifs) {
							abort[fn] = true
							inlDebug(fn, "call in an else-if condition", fset, id.Pos())
							return true
						}
					}
					if kind == "hoist" {
						// single result, and everything else the statement evaluates is free of calls
						if fn.Type().(*types.Signature).Results().Len() != 1 || !restIsPure(qinfo, stmt, call, pureFns) {
							abort[fn] = true
							inlDebug(fn, "hoisting blocked: several results or impure neighbours", fset, id.Pos())
							return true
						}
					}
					// the statement must be a direct child of a block / case body (not an if/for/switch init)
					okParent := false
					if si-1 >= 0 {
						switch par := stack[si-1].(type) {
						case *ast.BlockStmt:
							okParent = true
						case *ast.CaseClause:
							for _, bs := range par.Body {
								if bs == stmt {
									okParent = true
								}
							}
						case *ast.CommClause:
							for _, bs := range par.Body {
								if bs == stmt {
									okParent = true
								}
							}
						}
					}
					if !okParent {
						abort[fn] = true
						inlDebug(fn, "statement is not a direct child of a block", fset, id.Pos())
						return true
					}
					// enclosing function must not be the candidate itself (recursion handled) nor another candidate of this pass whose body we copy
					if q != p && !crossOK[fn] {
						abort[fn] = true
						inlDebug(fn, "used from another package and names unexported objects", fset, id.Pos())
						return true
					}
					sc := q.Types.Scope().Innermost(call.Pos())
					cd.sites = append(cd.sites, &inlineSite{pkg: q, file: f, call: call, stmt: stmt, kind: kind, scope: sc})
					return true
				})
			}
		}
		scan(p)
		// uses from other packages: inlined there as well when the helper names nothing
		// unexported, otherwise the helper stays
		for _, q := range mod {
			if q == p {
				continue
			}
			used := false
			for _, obj := range q.TypesInfo.Uses {
				if fn, ok := obj.(*types.Func); ok && cands[fn] != nil {
					used = true
				}
			}
			if used {
				scan(q)
			}
		}
		for fn := range abort {
			delete(cands, fn)
		}
		// leaves only: a candidate whose body calls another candidate waits for the next pass
		for obj, cd := range cands {
			callsOther := false
			ast.Inspect(cd.decl.Body, func(n ast.Node) bool {
				if id, ok := n.(*ast.Ident); ok {
					if fn, ok := info.Uses[id].(*types.Func); ok && fn != obj && cands[fn] != nil {
						callsOther = true
					}
				}
				return true
			})
			if callsOther {
				delete(cands, obj)
			}
		}
		// a call site inside the body of a candidate that is itself inlined in this pass would be lost: drop the inner one's sites' owner
		for obj, cd := range cands {
			for _, s := range cd.sites {
				for other, od := range cands {
					if other != obj && od.decl.Body.Pos() <= s.call.Pos() && s.call.End() <= od.decl.Body.End() {
						delete(cands, other) // keep the inner helper's inlining, postpone the outer one
					}
				}
			}
		}
		// two candidates called in one statement (f(g())): the edits of the two sites would overlap.
		// The inner call's helper waits for the next pass, when the outer one has been expanded and
		// the inner call sits in a statement of its own
		for obj, cd := range cands {
			if cands[obj] == nil {
				continue
			}
			for _, s := range cd.sites {
				for other, od := range cands {
					if other == obj {
						continue
					}
					for _, t := range od.sites {
						if t.file == s.file && s.stmt != nil && t.call != s.call && s.stmt.Pos() <= t.call.Pos() && t.call.End() <= s.stmt.End() &&
							s.call.Pos() <= t.call.Pos() && t.call.End() <= s.call.End() {
							delete(cands, other)
						}
					}
				}
			}
		}
		if len(cands) == 0 {
			continue
		}
		// shadowing check and edits per file
		edits := map[*ast.File][]textEdit{}
		imports := map[*ast.File]map[string]string{} // path -> alias
		reused := map[*ast.File][]*types.PkgName{}   // imports of a file that inlined text refers to
		deleted := map[*ast.File][][2]token.Pos{}    // declarations dropped from a file
		src := func(f *ast.File) []byte {
			name := fset.File(f.Pos()).Name()
			if b, ok := overlay[name]; ok {
				return b
			}
			b, err := os.ReadFile(name)
			if err != nil {
				broken("inline: %v", err)
			}
			return b
		}
		off := func(pos token.Pos) int { return fset.Position(pos).Offset }
		var order []*inlineCand
		for _, cd := range cands {
			order = append(order, cd)
		}
		sort.Slice(order, func(i, j int) bool { return order[i].decl.Pos() < order[j].decl.Pos() })
		for _, cd := range order {
			if len(cd.sites) == 0 {
				continue // unused helper: leave it alone
			}
			ok := true
			// package-level names used by the body must resolve to the same object at each site
			free := map[string]types.Object{}
			ast.Inspect(cd.decl.Body, func(n ast.Node) bool {
				if id, isId := n.(*ast.Ident); isId {
					if o := info.Uses[id]; o != nil && o.Parent() == p.Types.Scope() {
						free[id.Name] = o
					}
					if o := info.Uses[id]; o != nil && o.Parent() == types.Universe {
						free[id.Name] = o
					}
				}
				return true
			})
			for _, s := range cd.sites {
				for name, o := range free {
					if s.pkg != p && o.Parent() != types.Universe {
						continue // qualified with the package name at this site
					}
					if _, got := s.scope.LookupParent(name, s.call.Pos()); got != o {
						ok = false
					}
				}
			}
			if !ok {
				note("helper " + cd.obj.Name() + " not inlined: a package-level name it uses is shadowed at a call site")
				continue
			}
			calleeSrc := src(cd.file)
			sig := cd.obj.Type().(*types.Signature)
			// per site
			siteEdits := map[*ast.File][]textEdit{}
			for _, s := range cd.sites {
				inlineUniq++
				tag := fmt.Sprintf("_inl%d", inlineUniq)
				sinfo := s.pkg.TypesInfo
				cross := s.pkg != p
				if imports[s.file] == nil {
					imports[s.file] = map[string]string{}
				}
				alias := func(path string) string {
					// an import of the caller's file under a usable name is reused
					for _, is := range s.file.Imports {
						if strings.Trim(is.Path.Value, "\"`") != path {
							continue
						}
						if pn, ok := sinfo.Implicits[is].(*types.PkgName); ok && is.Name == nil {
							reused[s.file] = append(reused[s.file], pn)
							return pn.Name()
						}
						if is.Name != nil && is.Name.Name != "_" && is.Name.Name != "." {
							if pn, ok := sinfo.Defs[is.Name].(*types.PkgName); ok {
								reused[s.file] = append(reused[s.file], pn)
							}
							return is.Name.Name
						}
					}
					if a, ok := imports[s.file][path]; ok {
						return a
					}
					inlinePkgUniq++ // unique over all passes: a later pass must not reuse a name an earlier one added to the file
					a := fmt.Sprintf("_inlpkg%d", inlinePkgUniq)
					imports[s.file][path] = a
					return a
				}
				qual := func(q *types.Package) string {
					if q == s.pkg.Types {
						return ""
					}
					return alias(q.Path())
				}
				// body text with edits: package identifiers -> aliases, returns -> assignments
				var bedits []textEdit
				bodyStart, bodyEnd := off(cd.decl.Body.Lbrace)+1, off(cd.decl.Body.Rbrace)
				nres := sig.Results().Len()
				var resNames []string
				for i := 0; i < nres; i++ {
					resNames = append(resNames, fmt.Sprintf("%s_r%d", tag, i))
				}
				named := nres > 0 && sig.Results().At(0).Name() != "" && sig.Results().At(0).Name() != "_"
				// exits that the caller's test right after the call sends to its terminating branch
				// are threaded to a copy of that branch (see threadPlan)
				var plan *threadPlan
				if !cd.lit && (s.kind == "define" || s.kind == "assign") {
					plan = planThreading(sinfo, info, s, cd, nres)
				}
				ftag := tag + "f"
				var walk func(n ast.Node, inLit bool)
				walk = func(n ast.Node, inLit bool) {
					ast.Inspect(n, func(m ast.Node) bool {
						switch x := m.(type) {
						case *ast.FuncLit:
							if m != n {
								walk(x.Body, true)
								return false
							}
						case *ast.SelectorExpr:
							// pkg.Name where pkg is the site's own package: the qualifier goes
							if id, ok := x.X.(*ast.Ident); ok && cross {
								if pn, ok := info.Uses[id].(*types.PkgName); ok && pn.Imported() == s.pkg.Types {
									bedits = append(bedits, textEdit{off(x.Pos()), off(x.Sel.Pos()), ""})
									return false
								}
							}
						case *ast.Ident:
							if pn, ok := info.Uses[x].(*types.PkgName); ok {
								bedits = append(bedits, textEdit{off(x.Pos()), off(x.End()), alias(pn.Imported().Path())})
							} else if o := info.Uses[x]; cross && o != nil && o.Pkg() == p.Types && o.Parent() == p.Types.Scope() {
								// a package-level name of the helper's package, seen from another package
								bedits = append(bedits, textEdit{off(x.Pos()), off(x.Pos()), alias(p.Types.Path()) + "."})
							}
						case *ast.ReturnStmt:
							if inLit || cd.lit {
								return true
							}
							if nres == 0 {
								bedits = append(bedits, textEdit{off(x.Pos()), off(x.Pos()) + len("return"), "break " + tag})
							} else if len(x.Results) == 0 {
								var ns []string
								for i := 0; i < nres; i++ {
									ns = append(ns, sig.Results().At(i).Name())
								}
								bedits = append(bedits, textEdit{off(x.Pos()), off(x.Pos()) + len("return"), "{ " + strings.Join(resNames, ", ") + " = " + strings.Join(ns, ", ") + "; break " + tag + " }"})
							} else {
								target := tag
								if plan != nil && plan.failing[x] {
									target = ftag
								}
								bedits = append(bedits, textEdit{off(x.Pos()), off(x.Pos()) + len("return"), "{ " + strings.Join(resNames, ", ") + " ="})
								bedits = append(bedits, textEdit{off(x.End()), off(x.End()), "; break " + target + " }"})
							}
						}
						return true
					})
				}
				walk(cd.decl.Body, false)
				sort.Slice(bedits, func(i, j int) bool { return bedits[i].start > bedits[j].start })
				body := append([]byte{}, calleeSrc[bodyStart:bodyEnd]...)
				for _, e := range bedits {
					a, b := e.start-bodyStart, e.end-bodyStart
					if a < 0 || b > len(body) || a > b {
						ok = false
						break
					}
					body = append(body[:a], append([]byte(e.text), body[b:]...)...)
				}
				if !ok {
					break
				}
				// labels and temporaries generated by an earlier pass inside the copied body are
				// renamed per site: two copies may land in one function, where labels must differ
				body = inlTagRe.ReplaceAllFunc(body, func(m []byte) []byte {
					if string(m) == tag {
						return m // generated for this site just now
					}
					return append(append([]byte{}, m...), []byte("s"+strconv.Itoa(inlineUniq))...)
				})
				// arguments
				var pre, bind strings.Builder
				callerSrc := src(s.file)
				argText := func(e ast.Expr) string { return string(callerSrc[off(e.Pos()):off(e.End())]) }
				np := 0
				if sig.Recv() != nil {
					sel, isSel := s.call.Fun.(*ast.SelectorExpr)
					if !isSel {
						ok = false
						break
					}
					recvT := sig.Recv().Type()
					xT := sinfo.TypeOf(sel.X)
					x := argText(sel.X)
					switch {
					case types.Identical(xT, recvT):
					case types.Identical(types.NewPointer(xT), recvT):
						x = "&" + x
					case isPtrTo(xT, recvT):
						x = "*" + x
					default:
						ok = false
					}
					if !ok {
						break
					}
					fmt.Fprintf(&pre, "var %s_a%d %s = %s; ", tag, np, types.TypeString(recvT, qual), x)
					rn := sig.Recv().Name()
					if rn != "" && rn != "_" {
						fmt.Fprintf(&bind, "var %s %s = %s_a%d; _ = %s; ", rn, types.TypeString(recvT, qual), tag, np, rn)
					}
					np++
				}
				if len(s.call.Args) != sig.Params().Len() {
					ok = false
					break
				}
				for i, a := range s.call.Args {
					pt := sig.Params().At(i)
					// a parameter the body only reads, bound to a plain local variable of the caller
					// with the same name: no copy is made, the body reads the caller's variable
					if id, ok := a.(*ast.Ident); ok && pt.Name() == id.Name && readOnlyParam(info, cd.decl, pt) {
						if v, ok := sinfo.Uses[id].(*types.Var); ok && !v.IsField() && v.Parent() != s.pkg.Types.Scope() && types.Identical(v.Type(), pt.Type()) {
							np++
							continue
						}
					}
					fmt.Fprintf(&pre, "var %s_a%d %s = %s; ", tag, np, types.TypeString(pt.Type(), qual), argText(a))
					if pt.Name() != "" && pt.Name() != "_" {
						fmt.Fprintf(&bind, "var %s %s = %s_a%d; _ = %s; ", pt.Name(), types.TypeString(pt.Type(), qual), tag, np, pt.Name())
					} else {
						fmt.Fprintf(&pre, "_ = %s_a%d; ", tag, np)
					}
					np++
				}
				// results
				var resDecl strings.Builder
				var resTypes []string
				for i := 0; i < nres; i++ {
					rt := types.TypeString(sig.Results().At(i).Type(), qual)
					resTypes = append(resTypes, rt)
					fmt.Fprintf(&resDecl, "var %s %s; ", resNames[i], rt)
				}
				calleePos := fset.Position(cd.decl.Body.Lbrace)
				stmtEnd := fset.Position(s.stmt.End())
				var out bytes.Buffer
				out.WriteString("{ ")
				out.WriteString(pre.String())
				if cd.lit {
					// immediately invoked literal (defer / recover keep their meaning)
					if nres > 0 {
						out.WriteString(strings.Join(resNames, ", ") + " := ")
					}
					out.WriteString("func() (" + strings.Join(resTypes, ", ") + ") { " + bind.String())
					if named {
						// named results of the callee are declared by the literal's own signature: use the literal with names
						out.Reset()
						out.WriteString("{ " + pre.String())
						var sigRes []string
						for i := 0; i < nres; i++ {
							sigRes = append(sigRes, sig.Results().At(i).Name()+" "+resTypes[i])
						}
						out.WriteString(strings.Join(resNames, ", ") + " := func() (" + strings.Join(sigRes, ", ") + ") { " + bind.String())
					}
					fmt.Fprintf(&out, "\n//line %s:%d\n", calleePos.Filename, calleePos.Line)
					out.Write(body)
					fmt.Fprintf(&out, "\n//line %s:%d\n", stmtEnd.Filename, stmtEnd.Line)
					out.WriteString("}(); ")
				} else {
					out.WriteString(resDecl.String())
					threaded := plan != nil && len(plan.failing) > 0
					out.WriteString(tag + ": for { ")
					if threaded {
						out.WriteString(ftag + ": for { ")
					}
					out.WriteString(bind.String())
					if named {
						for i := 0; i < nres; i++ {
							fmt.Fprintf(&out, "var %s %s; _ = %s; ", sig.Results().At(i).Name(), resTypes[i], sig.Results().At(i).Name())
						}
					}
					fmt.Fprintf(&out, "\n//line %s:%d\n", calleePos.Filename, calleePos.Line)
					out.Write(body)
					fmt.Fprintf(&out, "\n//line %s:%d\n", stmtEnd.Filename, stmtEnd.Line)
					if threaded {
						// the failing exits arrive here, outside the callee's scope: hand over the
						// results and run a copy of the caller's terminating branch
						as := s.stmt.(*ast.AssignStmt)
						var ls, keep []string
						for _, l := range as.Lhs {
							t := argText(l)
							ls = append(ls, t)
							if id, ok := l.(*ast.Ident); ok && id.Name != "_" {
								keep = append(keep, "_ = "+id.Name+"; ")
							}
						}
						op := " = "
						if s.kind == "define" {
							op = " := "
						}
						bpos := fset.Position(plan.ifs.Body.Lbrace)
						out.WriteString("; break " + tag + " }; { " + strings.Join(ls, ", ") + op + strings.Join(resNames, ", ") + "; " + strings.Join(keep, ""))
						fmt.Fprintf(&out, "\n//line %s:%d\n", bpos.Filename, bpos.Line)
						out.Write(callerSrc[off(plan.ifs.Body.Lbrace)+1 : off(plan.ifs.Body.Rbrace)])
						fmt.Fprintf(&out, "\n//line %s:%d\n", stmtEnd.Filename, stmtEnd.Line)
						out.WriteString("} }; ")
					} else {
						out.WriteString("; break " + tag + " }; ")
					}
				}
				// hand the results to the statement
				tail := ""
				switch s.kind {
				case "expr":
					for _, rn := range resNames {
						tail += "_ = " + rn + "; "
					}
					tail += "}"
				case "assign":
					as := s.stmt.(*ast.AssignStmt)
					var ls []string
					for _, l := range as.Lhs {
						ls = append(ls, argText(l))
					}
					if len(ls) != nres {
						ok = false
					}
					tail = strings.Join(ls, ", ") + " = " + strings.Join(resNames, ", ") + " }"
				case "define":
					as := s.stmt.(*ast.AssignStmt)
					var ls []string
					for _, l := range as.Lhs {
						ls = append(ls, argText(l))
					}
					if len(ls) != nres {
						ok = false
					}
					// the defined names must outlive the block: declare the results outside
					var outer strings.Builder
					for i := 0; i < nres; i++ {
						fmt.Fprintf(&outer, "var %s %s; ", resNames[i], resTypes[i])
					}
					// rebuild: results declared before the block, block assigns them, then the define statement
					text := out.String()
					text = strings.Replace(text, resDecl.String(), "", 1)
					if cd.lit {
						text = strings.Replace(text, strings.Join(resNames, ", ")+" := func()", strings.Join(resNames, ", ")+" = func()", 1)
					}
					out.Reset()
					out.WriteString(outer.String())
					out.WriteString(text)
					tail = "}; " + strings.Join(ls, ", ") + " := " + strings.Join(resNames, ", ")
					for _, l := range as.Lhs {
						if id, ok := l.(*ast.Ident); ok && id.Name != "_" {
							tail += "; _ = " + id.Name // its only use may be a test that threading removes
						}
					}
					// blank identifiers on the left of := are legal only with at least one new name; keep as written
				case "return":
					tail = "return " + strings.Join(resNames, ", ") + " }"
				case "hoist":
					// { <block computing r0>; <statement with the call replaced by r0> }
					text := out.String()
					text = strings.Replace(text, resDecl.String(), "", 1)
					if cd.lit {
						text = strings.Replace(text, strings.Join(resNames, ", ")+" := func()", strings.Join(resNames, ", ")+" = func()", 1)
					}
					// the result variable is declared in front of the statement (unique name, no
					// enclosing block: the statement may itself declare names that must stay visible)
					prefix := resDecl.String() + text + "}; "
					if cross {
						deleted[s.file] = append(deleted[s.file], [2]token.Pos{s.call.Fun.Pos(), s.call.Fun.End()})
					}
					siteEdits[s.file] = append(siteEdits[s.file],
						textEdit{off(s.stmt.Pos()), off(s.stmt.Pos()), prefix},
						textEdit{off(s.call.Pos()), off(s.call.End()), resNames[0]})
					continue
				}
				if !ok {
					break
				}
				out.WriteString(tail)
				if cross {
					deleted[s.file] = append(deleted[s.file], [2]token.Pos{s.call.Fun.Pos(), s.call.Fun.End()})
				}
				siteEdits[s.file] = append(siteEdits[s.file], textEdit{off(s.stmt.Pos()), off(s.stmt.End()), out.String()})
				if plan != nil && len(plan.failing) > 0 && plan.allDecided {
					// every exit was sent to its side of the caller's test: the test is dead
					siteEdits[s.file] = append(siteEdits[s.file], textEdit{off(plan.ifs.Pos()), off(plan.ifs.End()), "/* test decided by the inlined exits */"})
				}
			}
			if !ok {
				note("helper " + cd.obj.Name() + " not inlined: unsupported call form")
				continue
			}
			for f, es := range siteEdits {
				edits[f] = append(edits[f], es...)
			}
			// drop the declaration (and its doc comment)
			start := cd.decl.Pos()
			if cd.decl.Doc != nil {
				start = cd.decl.Doc.Pos()
			}
			edits[cd.file] = append(edits[cd.file], textEdit{off(start), off(cd.decl.End()), ""})
			deleted[cd.file] = append(deleted[cd.file], [2]token.Pos{start, cd.decl.End()})
			note("inlined helper " + p.PkgPath[len(modPath):] + "." + cd.obj.Name() + fmt.Sprintf(" into %d call site(s)", len(cd.sites)))
		}
		// imports that lose their last use (their only users were dropped declarations) become blank imports
		for f := range edits {
			finfo := info
			for _, q := range mod {
				for _, qf := range q.Syntax {
					if qf == f {
						finfo = q.TypesInfo
					}
				}
			}
			for _, is := range f.Imports {
				var pn *types.PkgName
				if is.Name != nil {
					if is.Name.Name == "_" || is.Name.Name == "." {
						continue
					}
					pn, _ = finfo.Defs[is.Name].(*types.PkgName)
				} else {
					pn, _ = finfo.Implicits[is].(*types.PkgName)
				}
				if pn == nil {
					continue
				}
				uses := 0
				ast.Inspect(f, func(n ast.Node) bool {
					if id, ok := n.(*ast.Ident); ok && finfo.Uses[id] == types.Object(pn) {
						gone := false
						for _, d := range deleted[f] {
							if d[0] <= id.Pos() && id.End() <= d[1] {
								gone = true
							}
						}
						if !gone {
							uses++
						}
					}
					return true
				})
				for _, r := range reused[f] {
					if r == pn {
						uses++
					}
				}
				if uses == 0 {
					if is.Name != nil {
						edits[f] = append(edits[f], textEdit{off(is.Name.Pos()), off(is.Name.End()), "_"})
					} else {
						edits[f] = append(edits[f], textEdit{off(is.Path.Pos()), off(is.Path.Pos()), "_ "})
					}
				}
			}
		}
		// apply
		for f, es := range edits {
			name := fset.File(f.Pos()).Name()
			b := append([]byte{}, src(f)...)
			sort.Slice(es, func(i, j int) bool { return es[i].start > es[j].start })
			okf := true
			for i := 1; i < len(es); i++ {
				if es[i].end > es[i-1].start {
					okf = false // overlapping edits: give up on this file for this pass
				}
			}
			if !okf {
				note("overlapping inline edits in " + name + ": skipped")
				continue
			}
			for _, e := range es {
				b = append(b[:e.start], append([]byte(e.text), b[e.end:]...)...)
			}
			// imports for this file
			if imps := imports[f]; len(imps) > 0 {
				var keys []string
				for k := range imps {
					keys = append(keys, k)
				}
				sort.Strings(keys)
				var ib strings.Builder
				for _, k := range keys {
					fmt.Fprintf(&ib, "; import %s %q", imps[k], k)
				}
				// after the package clause (same line, so line numbers do not move)
				pos := off(f.Name.End())
				b = append(b[:pos], append([]byte(ib.String()), b[pos:]...)...)
			}
			overlay[name] = b
			changed = true
		}
	}
	if !changed {
		return nil
	}
	return overlay
}

// hoistIfInits rewrites `if INIT; COND { .. } [else ..]` into `{ INIT; if COND { .. } [else ..] }`
// where INIT calls a module function that is not in the inventory.  Returns the number of
// statements rewritten; the new texts are put into overlay.  Of nested candidates only the
// outermost is rewritten in one pass.
func hoistIfInits(mod []*packages.Package, fset *token.FileSet, known map[string]bool, overlay map[string][]byte) int {
	total := 0
	modPkgs := map[*types.Package]*packages.Package{}
	for _, p := range mod {
		modPkgs[p.Types] = p
	}
	unknownFn := func(fn *types.Func) bool {
		p := modPkgs[fn.Pkg()]
		if p == nil {
			return false
		}
		for _, f := range p.Syntax {
			for _, d := range f.Decls {
				if fd, ok := d.(*ast.FuncDecl); ok && fd.Body != nil && p.TypesInfo.Defs[fd.Name] == types.Object(fn) {
					return !known[funcKeyOf(p.PkgPath, fd)]
				}
			}
		}
		return false
	}
	type rewrite struct{ start, cond, end int }
	for _, p := range mod {
		// the BER codec used to be left out here (a work-around for two refactorings of the ambitious
		// corpus); an extracted `if x, err = helper(..); err != nil` in ParseField needs the move like
		// any other package, and the C16 proofs hold on the merged body.  CHFCHECK_NO_ASN_IFHOIST=1
		// restores the old behaviour for comparison
		if strings.HasSuffix(p.PkgPath, "/cdr/asn") && os.Getenv("CHFCHECK_NO_ASN_IFHOIST") != "" {
			continue
		}
		info := p.TypesInfo
		for _, f := range p.Syntax {
			name := fset.File(f.Pos()).Name()
			off := func(pos token.Pos) int { return fset.Position(pos).Offset }
			var rws []rewrite
			var stack []ast.Node
			ast.Inspect(f, func(n ast.Node) bool {
				if n == nil {
					stack = stack[:len(stack)-1]
					return true
				}
				stack = append(stack, n)
				ifs, ok := n.(*ast.IfStmt)
				if !ok || ifs.Init == nil || len(stack) < 2 {
					return true
				}
				switch stack[len(stack)-2].(type) {
				case *ast.BlockStmt, *ast.CaseClause, *ast.CommClause:
				default:
					return true // else-if, labelled statement ...
				}
				unknown := false
				ast.Inspect(ifs.Init, func(m ast.Node) bool {
					if ce, ok := m.(*ast.CallExpr); ok {
						if fn := calledFunc(info, ce); fn != nil && unknownFn(fn) {
							unknown = true
						}
					}
					return true
				})
				if unknown {
					rws = append(rws, rewrite{off(ifs.Pos()), off(ifs.Cond.Pos()), off(ifs.End())})
				}
				return true
			})
			if len(rws) == 0 {
				continue
			}
			var b []byte
			if ob, ok := overlay[name]; ok {
				b = append([]byte{}, ob...)
			} else if rb, err := os.ReadFile(name); err == nil {
				b = rb
			} else {
				continue
			}
			sort.Slice(rws, func(i, j int) bool { return rws[i].start < rws[j].start })
			var acc []rewrite
			lastEnd := -1
			for _, rw := range rws {
				if rw.start >= lastEnd {
					acc = append(acc, rw)
					lastEnd = rw.end
				}
			}
			for k := len(acc) - 1; k >= 0; k-- {
				rw := acc[k]
				// "if INIT; COND" : the init text ends at the semicolon in front of the condition
				head := string(b[rw.start:rw.cond])
				semi := strings.LastIndex(head, ";")
				if !strings.HasPrefix(head, "if") || semi < 0 {
					continue
				}
				initText := strings.TrimSpace(head[2:semi])
				nb := append([]byte{}, b[:rw.start]...)
				nb = append(nb, []byte("{ "+initText+"; if ")...)
				nb = append(nb, b[rw.cond:rw.end]...)
				nb = append(nb, []byte(" }")...)
				nb = append(nb, b[rw.end:]...)
				b = nb
				total++
			}
			overlay[name] = b
		}
	}
	return total
}

// inlDebug prints why a helper is not inlined (CHFCHECK_INLINE_DEBUG=1).
func inlDebug(fn *types.Func, why string, fset *token.FileSet, pos token.Pos) {
	if os.Getenv("CHFCHECK_INLINE_DEBUG") != "" {
		fmt.Fprintf(os.Stderr, "inline-debug: %s not inlined: %s (%s)\n", fn.FullName(), why, fset.Position(pos))
	}
}

func isSelOf(fun ast.Expr, id *ast.Ident) bool {
	sel, ok := fun.(*ast.SelectorExpr)
	return ok && sel.Sel == id
}

func isPtrTo(t, elem types.Type) bool {
	p, ok := t.Underlying().(*types.Pointer)
	return ok && types.Identical(p.Elem(), elem)
}

// restIsPure: apart from `call`, the expressions statement st evaluates itself
// (not those of nested blocks) contain no calls other than conversions and the
// builtins len / cap, no receives and no function literals - so evaluating
// `call` before the statement does not reorder effects.
func restIsPure(info *types.Info, st ast.Stmt, call *ast.CallExpr, pureFns map[*types.Func]bool) bool {
	var exprs []ast.Expr
	switch x := st.(type) {
	case *ast.ExprStmt:
		exprs = []ast.Expr{x.X}
	case *ast.AssignStmt:
		exprs = append(append(exprs, x.Lhs...), x.Rhs...)
	case *ast.ReturnStmt:
		exprs = x.Results
	case *ast.IfStmt:
		if x.Init != nil {
			return false
		}
		exprs = []ast.Expr{x.Cond}
	case *ast.IncDecStmt:
		exprs = []ast.Expr{x.X}
	case *ast.SendStmt:
		exprs = []ast.Expr{x.Chan, x.Value}
	case *ast.DeclStmt:
		gd, ok := x.Decl.(*ast.GenDecl)
		if !ok {
			return false
		}
		for _, sp := range gd.Specs {
			if vs, ok := sp.(*ast.ValueSpec); ok {
				exprs = append(exprs, vs.Values...)
			}
		}
	default:
		return false
	}
	pure := true
	for _, e := range exprs {
		ast.Inspect(e, func(n ast.Node) bool {
			switch y := n.(type) {
			case *ast.CallExpr:
				if y == call {
					// its own arguments are evaluated at the same point either way
					return false
				}
				if tv, ok := info.Types[y.Fun]; ok && tv.IsType() {
					return true
				}
				if id, ok := y.Fun.(*ast.Ident); ok {
					if b, ok := info.Uses[id].(*types.Builtin); ok && (b.Name() == "len" || b.Name() == "cap") {
						return true
					}
				}
				if y.Pos() <= call.Pos() && call.End() <= y.End() {
					// a call that has `call` among its operands runs after it either way
					return true
				}
				if fn := calledFunc(info, y); fn != nil && pureFns[fn] {
					return true // an effect-free helper (itself about to be inlined)
				}
				if y.Pos() >= call.End() {
					// calls happen in lexical order: this one runs after `call` either way
					return true
				}
				pure = false
			case *ast.BinaryExpr:
				// the right operand of && / || is evaluated conditionally
				if (y.Op == token.LAND || y.Op == token.LOR) && y.Y.Pos() <= call.Pos() && call.End() <= y.Y.End() {
					pure = false
				}
			case *ast.FuncLit:
				pure = false
				return false
			case *ast.UnaryExpr:
				if y.Op == token.ARROW {
					pure = false
				}
			}
			return true
		})
	}
	return pure
}

// readOnlyParam: the body never assigns to the parameter, takes its address or
// captures it in a function literal.
func readOnlyParam(info *types.Info, fd *ast.FuncDecl, pv *types.Var) bool {
	ok := true
	isParam := func(e ast.Expr) bool {
		id, isId := e.(*ast.Ident)
		return isId && (info.Uses[id] == types.Object(pv) || info.Defs[id] == types.Object(pv))
	}
	ast.Inspect(fd.Body, func(n ast.Node) bool {
		switch x := n.(type) {
		case *ast.AssignStmt:
			for _, l := range x.Lhs {
				if isParam(l) {
					ok = false
				}
				// a member of the parameter assigned through a selector
				for e := l; ; {
					if sel, isSel := e.(*ast.SelectorExpr); isSel {
						e = sel.X
						if isParam(e) {
							ok = false
						}
						continue
					}
					if ix, isIx := e.(*ast.IndexExpr); isIx {
						e = ix.X
						continue
					}
					break
				}
			}
		case *ast.IncDecStmt:
			if isParam(x.X) {
				ok = false
			}
		case *ast.UnaryExpr:
			if x.Op == token.AND {
				for e := x.X; ; {
					if isParam(e) {
						ok = false
					}
					if sel, isSel := e.(*ast.SelectorExpr); isSel {
						e = sel.X
						continue
					}
					break
				}
			}
		case *ast.FuncLit:
			ast.Inspect(x.Body, func(m ast.Node) bool {
				if id, isId := m.(*ast.Ident); isId && info.Uses[id] == types.Object(pv) {
					ok = false
				}
				return true
			})
			return false
		case *ast.RangeStmt:
			if x.Key != nil && isParam(x.Key) || x.Value != nil && isParam(x.Value) {
				ok = false
			}
		}
		return true
	})
	return ok
}

// threadPlan: the statement after `a, b := helper(...)` is
// `if <test of one result> { ...; return ... }`.  The exits of the helper
// whose value for that result decides the test on its face (a literal nil /
// true / false, an error just constructed, the variable of an enclosing
// `if err != nil`) are sent straight to a copy of the terminating branch, the
// way the un-extracted code was written; all other exits take the ordinary
// route and meet the test itself.  This keeps a value and the flag that
// guards it from being merged into uncorrelated phis.
type threadPlan struct {
	ifs     *ast.IfStmt
	failing map[*ast.ReturnStmt]bool
	// every exit of the helper decides the test: the exits that are not failing
	// make it false, so the caller's test itself is dead after threading
	allDecided bool
}

func planThreading(sinfo, info *types.Info, s *inlineSite, cd *inlineCand, nres int) *threadPlan {
	as, ok := s.stmt.(*ast.AssignStmt)
	if !ok || len(as.Lhs) != nres {
		return nil
	}
	// the statement that follows the call in its block
	var next ast.Stmt
	ast.Inspect(s.file, func(n ast.Node) bool {
		var list []ast.Stmt
		switch x := n.(type) {
		case *ast.BlockStmt:
			list = x.List
		case *ast.CaseClause:
			list = x.Body
		case *ast.CommClause:
			list = x.Body
		}
		for i, st := range list {
			if st == s.stmt && i+1 < len(list) {
				next = list[i+1]
			}
		}
		return next == nil
	})
	ifs, ok := next.(*ast.IfStmt)
	if !ok || ifs.Init != nil || ifs.Else != nil || len(ifs.Body.List) == 0 {
		return nil
	}
	// the tested result and the outcome that enters the branch
	var name, want string
	isNilIdent := func(e ast.Expr) bool {
		id, ok := e.(*ast.Ident)
		if !ok {
			return false
		}
		// the identifier belongs to the caller's or to the helper's syntax tree
		_, a := sinfo.Uses[id].(*types.Nil)
		_, b := info.Uses[id].(*types.Nil)
		return a || b
	}
	switch c := ifs.Cond.(type) {
	case *ast.BinaryExpr:
		id, ok := c.X.(*ast.Ident)
		if !ok || !isNilIdent(c.Y) {
			return nil
		}
		switch c.Op {
		case token.NEQ:
			name, want = id.Name, "nonnil"
		case token.EQL:
			name, want = id.Name, "nil"
		default:
			return nil
		}
	case *ast.UnaryExpr:
		id, ok := c.X.(*ast.Ident)
		if !ok || c.Op != token.NOT {
			return nil
		}
		name, want = id.Name, "false"
	case *ast.Ident:
		name, want = c.Name, "true"
	default:
		return nil
	}
	idx := -1
	for i, l := range as.Lhs {
		if id, ok := l.(*ast.Ident); ok && id.Name == name && name != "_" {
			idx = i
		}
	}
	if idx < 0 {
		return nil
	}
	// the branch terminates and can be copied
	switch last := ifs.Body.List[len(ifs.Body.List)-1].(type) {
	case *ast.ReturnStmt:
	case *ast.ExprStmt:
		call, ok := last.X.(*ast.CallExpr)
		if !ok {
			return nil
		}
		if id, ok := call.Fun.(*ast.Ident); !ok || id.Name != "panic" {
			return nil
		}
	default:
		return nil
	}
	copyable := true
	ast.Inspect(ifs.Body, func(n ast.Node) bool {
		switch n.(type) {
		case *ast.BranchStmt, *ast.LabeledStmt, *ast.FuncLit, *ast.DeferStmt, *ast.GoStmt:
			copyable = false
		}
		return copyable
	})
	if !copyable {
		return nil
	}
	plan := &threadPlan{ifs: ifs, failing: map[*ast.ReturnStmt]bool{}, allDecided: true}
	opposite := map[string]string{"nonnil": "nil", "nil": "nonnil", "true": "false", "false": "true"}
	// classify the helper's exits
	var stack []ast.Node
	assignedIn := func(body *ast.BlockStmt, obj types.Object) bool {
		found := false
		ast.Inspect(body, func(n ast.Node) bool {
			switch x := n.(type) {
			case *ast.AssignStmt:
				for _, l := range x.Lhs {
					if id, ok := l.(*ast.Ident); ok && (info.Uses[id] == obj || info.Defs[id] == obj) {
						found = true
					}
				}
			case *ast.UnaryExpr:
				if id, ok := x.X.(*ast.Ident); ok && x.Op == token.AND && info.Uses[id] == obj {
					found = true
				}
			}
			return !found
		})
		return found
	}
	classify := func(e ast.Expr) string {
		switch x := e.(type) {
		case *ast.Ident:
			switch o := info.Uses[x].(type) {
			case *types.Nil:
				return "nil"
			case *types.Const:
				if o.Parent() == types.Universe && (x.Name == "true" || x.Name == "false") {
					return x.Name
				}
			case *types.Var:
				// the variable of an enclosing `if v != nil` that the branch does not assign
				for i := len(stack) - 1; i >= 0; i-- {
					is, ok := stack[i].(*ast.IfStmt)
					if !ok {
						continue
					}
					be, ok := is.Cond.(*ast.BinaryExpr)
					if !ok || be.Op != token.NEQ || !isNilIdent(be.Y) {
						continue
					}
					cid, ok := be.X.(*ast.Ident)
					if !ok || info.Uses[cid] != types.Object(o) {
						continue
					}
					// the return must sit in the then-branch
					if i+1 < len(stack) && stack[i+1] == ast.Node(is.Body) && !assignedIn(is.Body, o) {
						return "nonnil"
					}
				}
			}
		case *ast.CallExpr:
			if sel, ok := x.Fun.(*ast.SelectorExpr); ok {
				if fn, ok := info.Uses[sel.Sel].(*types.Func); ok && fn.Pkg() != nil {
					switch fn.Pkg().Path() + "." + fn.Name() {
					case "fmt.Errorf", "errors.New", "github.com/pkg/errors.New", "github.com/pkg/errors.Errorf":
						return "nonnil"
					}
				}
			}
		case *ast.UnaryExpr:
			if _, ok := x.X.(*ast.CompositeLit); ok && x.Op == token.AND {
				return "nonnil"
			}
		}
		return ""
	}
	ast.Inspect(cd.decl.Body, func(n ast.Node) bool {
		if n == nil {
			stack = stack[:len(stack)-1]
			return true
		}
		if _, isLit := n.(*ast.FuncLit); isLit {
			return false
		}
		stack = append(stack, n)
		if rs, ok := n.(*ast.ReturnStmt); ok {
			got := ""
			if len(rs.Results) == nres {
				got = classify(rs.Results[idx])
			}
			switch {
			case got == want:
				plan.failing[rs] = true
			case got != "" && got == opposite[want]:
			default:
				plan.allDecided = false
			}
		}
		return true
	})
	return plan
}

// calledFunc: the function object a call expression names directly.
func calledFunc(info *types.Info, call *ast.CallExpr) *types.Func {
	switch f := call.Fun.(type) {
	case *ast.Ident:
		fn, _ := info.Uses[f].(*types.Func)
		return fn
	case *ast.SelectorExpr:
		fn, _ := info.Uses[f.Sel].(*types.Func)
		return fn
	}
	return nil
}

// exportedOnly: everything the function declaration names from its own package
// (package-level objects, fields, methods; in its signature and its body) is
// exported, so that its text is meaningful in another package once the
// package-level names are qualified.
func exportedOnly(info *types.Info, pkg *types.Package, fd *ast.FuncDecl) bool {
	// (a method is copied like a function: its receiver becomes a local variable of the
	// receiver's - exported - type, selectors of exported members mean the same everywhere)
	ok := true
	ast.Inspect(fd, func(n ast.Node) bool {
		id, isId := n.(*ast.Ident)
		if !isId {
			return ok
		}
		o := info.Uses[id]
		if o == nil || o.Pkg() != pkg {
			return ok
		}
		switch x := o.(type) {
		case *types.Var:
			if x.IsField() && !x.Exported() {
				ok = false
			}
			if !x.IsField() && x.Parent() == pkg.Scope() && !x.Exported() {
				ok = false
			}
		case *types.Func:
			if !x.Exported() {
				ok = false
			}
		case *types.TypeName, *types.Const:
			if o.Parent() == pkg.Scope() && !o.Exported() {
				ok = false
			}
		}
		return ok
	})
	return ok
}
