package main

import (
	"fmt"
	"go/token"
	"go/types"
	"sort"
	"strings"

	"golang.org/x/tools/go/ssa"
)

// E5d: TS 32.297 layout extraction from the cdrFile encoders and decoder.
//
// Encoder: abstract interpretation of the write calls in CFG order; the state
// is the list of segments written; the only branches that may change the list
// are the "release identifier == 7" tests, which fork the path condition -
// enumerated as conditions of the layout table, not as executions.  Every other
// branch must yield the same list on both sides, otherwise the extraction is
// undecided and the check fails.

type bitField struct {
	Field string
	Shift int
	Mask  int64 // decoder side only (0 = none)
}

type seg struct {
	Kind  string // field | pack | var | nested | repeat
	Name  string // field path (or nested function)
	Width int    // octets; -1 = variable (len of Name)
	Bits  []bitField
	Order string // BigEndian / LittleEndian / - (raw bytes)
	Body  []seg
	Pos   token.Pos
}

func (s seg) String() string {
	switch s.Kind {
	case "pack":
		var parts []string
		for _, b := range s.Bits {
			parts = append(parts, fmt.Sprintf("%s<<%d", b.Field, b.Shift))
		}
		return fmt.Sprintf("pack%d[%s]%s", s.Width, strings.Join(parts, "|"), orderSuffix(s.Order))
	case "var":
		return fmt.Sprintf("bytes(%s)", s.Name)
	case "nested":
		return fmt.Sprintf("nested(%s)", s.Name)
	case "repeat":
		var parts []string
		for _, b := range s.Body {
			parts = append(parts, b.String())
		}
		return "repeat{" + strings.Join(parts, ", ") + "}"
	}
	return fmt.Sprintf("%s:%d%s", s.Name, s.Width, orderSuffix(s.Order))
}

func orderSuffix(o string) string {
	if o == "" || o == "BigEndian" {
		return ""
	}
	return "/" + o
}

func segsString(ss []seg) string {
	var parts []string
	for _, s := range ss {
		parts = append(parts, s.String())
	}
	return strings.Join(parts, ", ")
}

type undecided struct{ msg string }

func failUndecided(format string, a ...any) { panic(undecided{fmt.Sprintf(format, a...)}) }

type encWalker struct {
	c        *Ctx
	f        *ssa.Function
	recv     ssa.Value // the receiver object (spill Alloc of the value receiver)
	assign   map[string]bool
	conds    map[string]bool // release tests met
	memo     map[*ssa.BasicBlock][]seg
	inProg   map[*ssa.BasicBlock]bool
	wrote    []ssa.Instruction // file writes (os.WriteFile)
	ret      []ssa.Value
	path     []*ssa.BasicBlock // blocks on the path being walked (for phis of an appended slice)
	phiUse   int               // number of phis resolved by the path so far
	loopBase map[*ssa.Phi]bool // loop-carried slices being described (their value at the loop head counts as empty)
}

// recvFieldPath: v is a load of receiver member path.
func (w *encWalker) recvFieldPath(v ssa.Value) (string, bool) {
	v = stripConvSameSize(v)
	p, ok := pathOf(v)
	if !ok || len(p.Elems) == 0 {
		return "", false
	}
	root := p.Root
	if root == w.recv {
		return strings.Join(p.Elems, "."), true
	}
	// a local that holds a copy of a receiver member (openedTs := hdr.FileOpeningTimestamp,
	// the value receiver of an inlined method): continue through the copy
	cur, elems := root, p.Elems
	for hops := 0; hops < 4; hops++ {
		a, ok := cur.(*ssa.Alloc)
		if !ok || a == w.recv {
			break
		}
		var src ssa.Value
		nst := 0
		for _, ref := range *a.Referrers() {
			if st, ok := ref.(*ssa.Store); ok && st.Addr == ssa.Value(a) {
				nst++
				src = st.Val
			}
		}
		if nst != 1 {
			break
		}
		sp, ok := pathOf(stripConvSameSize(src))
		if !ok {
			break
		}
		elems = append(append([]string{}, sp.Elems...), elems...)
		if sp.Root == w.recv {
			return strings.Join(elems, "."), true
		}
		cur = sp.Root
	}
	// range element copied into a local: name it by its type
	if a, ok := root.(*ssa.Alloc); ok {
		if n := namedOf(a.Type()); n != nil {
			return n.Obj().Name() + ":" + strings.Join(p.Elems, "."), true
		}
	}
	return "", false
}

// stripConvSameSize removes ChangeType/Convert between integer types of the same size.
func stripConvSameSize(v ssa.Value) ssa.Value {
	for {
		switch x := v.(type) {
		case *ssa.ChangeType:
			v = x.X
		case *ssa.Convert:
			if isIntegerType(x.Type()) && isIntegerType(x.X.Type()) && sizeOfBasic(x.Type()) == sizeOfBasic(x.X.Type()) {
				v = x.X
			} else {
				return v
			}
		case *ssa.MakeInterface:
			v = x.X
		default:
			return v
		}
	}
}

func sizeOfBasic(t types.Type) int {
	b, ok := t.Underlying().(*types.Basic)
	if !ok {
		return -1
	}
	switch b.Kind() {
	case types.Uint8, types.Int8, types.Bool:
		return 1
	case types.Uint16, types.Int16:
		return 2
	case types.Uint32, types.Int32:
		return 4
	case types.Uint64, types.Int64, types.Int, types.Uint:
		return 8
	}
	return -1
}

func widthOfType(t types.Type) int {
	switch x := t.Underlying().(type) {
	case *types.Basic:
		return sizeOfBasic(t)
	case *types.Array:
		w := widthOfType(x.Elem())
		if w < 0 {
			return -1
		}
		return int(x.Len()) * w
	case *types.Slice:
		return -1
	}
	return -2 // unsupported
}

// describeValue turns a written value into a segment.
func (w *encWalker) describeValue(v ssa.Value, order string, pos token.Pos) seg {
	inner := v
	if mi, ok := v.(*ssa.MakeInterface); ok {
		inner = mi.X
	}
	// the current element of a range over a literal list of values (a table of the
	// members to write, in order): described element by element
	if ld, ok := inner.(*ssa.UnOp); ok && ld.Op == token.MUL {
		if ia, ok := ld.X.(*ssa.IndexAddr); ok {
			if elems := variadicElemsOrdered(ia.X); elems != nil && isRangeCounter(ia.Index) {
				tbl := seg{Kind: "table", Name: "table", Width: -1, Pos: pos}
				for _, e := range elems {
					tbl.Body = append(tbl.Body, w.describeValue(e, order, pos))
				}
				return tbl
			}
		}
	}
	// member[:] of an array member: the member itself
	if sl, ok := inner.(*ssa.Slice); ok && sl.Low == nil && sl.High == nil && sl.Max == nil {
		if pt, ok := sl.X.Type().Underlying().(*types.Pointer); ok {
			if arr, ok := pt.Elem().Underlying().(*types.Array); ok && sizeOfBasic(arr.Elem()) == 1 {
				if p, ok := pathOfAddr(sl.X); ok && len(p.Elems) > 0 && (p.Root == w.recv) {
					return seg{Kind: "field", Name: strings.Join(p.Elems, "."), Width: int(arr.Len()), Order: "", Pos: pos}
				}
			}
		}
	}
	width := widthOfType(inner.Type())
	if width == -2 {
		failUndecided("%s: written value of type %s has no fixed binary size", w.c.rel(pos), inner.Type())
	}
	// nested encoder call
	if call, ok := inner.(*ssa.Call); ok {
		if sc := call.Call.StaticCallee(); sc != nil && sc.Name() == "Encoding" && w.c.inModule(sc) {
			name := "?"
			if len(call.Call.Args) > 0 {
				if p, ok := w.recvFieldPath(call.Call.Args[0]); ok {
					name = p
				}
			}
			return seg{Kind: "nested", Name: name + "/" + shortFn(sc), Width: -1, Pos: pos}
		}
	}
	if p, ok := w.recvFieldPath(inner); ok {
		if width == -1 {
			return seg{Kind: "var", Name: p, Width: -1, Order: "", Pos: pos}
		}
		o := order
		if width == 1 || isByteArray(inner.Type()) {
			o = ""
		}
		return seg{Kind: "field", Name: p, Width: width, Order: o, Pos: pos}
	}
	// OR / ADD chain of shifted members
	bits, ok := w.packBits(inner)
	if ok && width > 0 {
		sort.SliceStable(bits, func(i, j int) bool { return bits[i].Shift > bits[j].Shift })
		o := order
		if width == 1 {
			o = ""
		}
		return seg{Kind: "pack", Name: "pack", Width: width, Bits: bits, Order: o, Pos: pos}
	}
	failUndecided("%s: cannot interpret the written value %s", w.c.rel(pos), inner.String())
	return seg{}
}

func isByteArray(t types.Type) bool {
	a, ok := t.Underlying().(*types.Array)
	return ok && sizeOfBasic(a.Elem()) == 1
}

func (w *encWalker) packBits(v ssa.Value) ([]bitField, bool) {
	v = stripConvSameSize(v)
	switch x := v.(type) {
	case *ssa.BinOp:
		switch x.Op {
		case token.OR, token.ADD:
			a, ok1 := w.packBits(x.X)
			b, ok2 := w.packBits(x.Y)
			if ok1 && ok2 {
				return append(a, b...), true
			}
			return nil, false
		case token.SHL:
			k, ok := constInt(x.Y)
			if !ok {
				return nil, false
			}
			inner, ok := w.packBits(x.X)
			if !ok {
				return nil, false
			}
			for i := range inner {
				inner[i].Shift += int(k)
			}
			return inner, true
		case token.AND:
			// member & constant: the member is narrowed to the mask before it is placed
			k, ok := constInt(x.Y)
			operand := x.X
			if !ok {
				k, ok = constInt(x.X)
				operand = x.Y
			}
			if !ok {
				return nil, false
			}
			inner, ok := w.packBits(operand)
			if !ok {
				return nil, false
			}
			for i := range inner {
				m := k >> uint(inner[i].Shift)
				if inner[i].Mask == 0 {
					inner[i].Mask = m
				} else {
					inner[i].Mask &= m
				}
				if inner[i].Mask == 0 {
					inner[i].Mask = -1 // everything masked away
				}
			}
			return inner, true
		case token.MUL:
			k, ok := constInt(x.Y)
			if !ok || k <= 0 || k&(k-1) != 0 {
				return nil, false
			}
			sh := 0
			for (int64(1) << uint(sh)) < k {
				sh++
			}
			inner, ok := w.packBits(x.X)
			if !ok {
				return nil, false
			}
			for i := range inner {
				inner[i].Shift += sh
			}
			return inner, true
		}
	case *ssa.Convert:
		// widening conversion of a member
		return w.packBits(x.X)
	case *ssa.Call:
		// a pure helper of the module that computes the word from members of its
		// argument (e.g. a pack() method): interpret its result expression
		return w.packBitsOfCall(x)
	}
	if p, ok := w.recvFieldPath(v); ok {
		return []bitField{{Field: p, Shift: 0}}, true
	}
	return nil, false
}

// byteOrderOf names the byte-order argument.
func byteOrderOf(f *ssa.Function, v ssa.Value) string {
	for d := range depSet(f, v) {
		if g, ok := d.(*ssa.Global); ok && g.Pkg != nil && g.Pkg.Pkg.Path() == "encoding/binary" {
			return g.Name()
		}
	}
	return "?"
}

// releaseTest: the If tests `member == 7` on a receiver member; returns the member.
func (w *encWalker) releaseTest(ifi *ssa.If) (string, bool, bool) {
	bo, ok := ifi.Cond.(*ssa.BinOp)
	if !ok || (bo.Op != token.EQL && bo.Op != token.NEQ) {
		return "", false, false
	}
	var x ssa.Value
	if k, ok := constInt(bo.Y); ok && k == 7 {
		x = bo.X
	} else if k, ok := constInt(bo.X); ok && k == 7 {
		x = bo.Y
	} else {
		return "", false, false
	}
	p, ok := w.recvFieldPath(x)
	if !ok {
		return "", false, false
	}
	return p, bo.Op == token.EQL, true
}

func (w *encWalker) segsOfBlock(b *ssa.BasicBlock) []seg {
	var out []seg
	for _, ins := range b.Instrs {
		call, ok := ins.(*ssa.Call)
		if !ok {
			continue
		}
		obj := calleeObj(&call.Call)
		if obj == nil || obj.Pkg() == nil {
			continue
		}
		switch obj.Pkg().Path() + "." + funcLocalName(obj) {
		case "encoding/binary.Write":
			order := byteOrderOf(w.f, call.Call.Args[1])
			out = append(out, w.describeValue(call.Call.Args[2], order, call.Pos()))
		case "bytes.Buffer.Write":
			out = append(out, w.describeValue(call.Call.Args[1], "", call.Pos()))
		case "bytes.Buffer.WriteByte":
			s := w.describeValue(call.Call.Args[1], "", call.Pos())
			out = append(out, s)
		case "bytes.Buffer.WriteString":
			failUndecided("%s: WriteString in an encoder", w.c.rel(call.Pos()))
		case "os.WriteFile":
			w.wrote = append(w.wrote, call)
			// octets assembled by append and handed to the write directly
			if len(call.Call.Args) >= 2 {
				if segs, ok := w.sliceSegs(call.Call.Args[1], call.Pos(), 0); ok {
					out = append(out, segs...)
				}
			}
		}
	}
	return out
}

func (w *encWalker) seqFrom(b, stop *ssa.BasicBlock) []seg {
	if b == stop {
		return nil
	}
	if s, ok := w.memo[b]; ok {
		return s
	}
	if w.inProg[b] {
		failUndecided("%s: unexpected loop in encoder %s", w.c.rel(w.f.Pos()), shortFn(w.f))
	}
	w.inProg[b] = true
	w.path = append(w.path, b)
	phi0 := w.phiUse
	defer func() { w.inProg[b] = false; w.path = w.path[:len(w.path)-1] }()
	// loop head?
	isHead := false
	for _, p := range b.Preds {
		if b.Dominates(p) && p != b {
			isHead = true
		}
	}
	own := w.segsOfBlock(b)
	var rest []seg
	if len(b.Instrs) > 0 {
		switch t := b.Instrs[len(b.Instrs)-1].(type) {
		case *ssa.If:
			if isHead {
				if len(own) > 0 {
					failUndecided("%s: writes in a loop head", w.c.rel(w.f.Pos()))
				}
				body := w.seqFromLoop(b.Succs[0], b)
				exit := w.seqFrom(b.Succs[1], stop)
				if len(body) == 0 {
					rest = exit // a loop that writes nothing (its appends are described where the slice is used)
				} else if len(body) == 1 && body[0].Kind == "table" {
					// one write per element of a literal list, in order: the list itself
					rest = append(append([]seg{}, body[0].Body...), exit...)
				} else {
					rest = append([]seg{{Kind: "repeat", Name: "records", Width: -1, Body: body}}, exit...)
				}
			} else if member, eq, ok := w.releaseTest(t); ok {
				w.conds[member] = true
				val := w.assign[member]
				if val == eq {
					rest = w.seqFrom(b.Succs[0], stop)
				} else {
					rest = w.seqFrom(b.Succs[1], stop)
				}
			} else {
				s0 := w.seqFrom(b.Succs[0], stop)
				s1 := w.seqFrom(b.Succs[1], stop)
				if segsString(s0) != segsString(s1) {
					failUndecided("%s: a branch that is not a release-identifier test changes what is written (%s vs %s)", posOf(w.c, t), segsString(s0), segsString(s1))
				}
				rest = s0
			}
		case *ssa.Jump:
			rest = w.seqFrom(b.Succs[0], stop)
		case *ssa.Return:
			w.ret = append(w.ret, t.Results...)
			// an encoder that assembles its octets by append and returns the slice
			for _, res := range t.Results {
				if sl, ok := res.Type().Underlying().(*types.Slice); ok && sizeOfBasic(sl.Elem()) == 1 {
					if segs, ok := w.sliceSegs(res, t.Pos(), 0); ok {
						rest = append(rest, segs...)
					}
				}
			}
		case *ssa.Panic:
		}
	}
	out := append(append([]seg{}, own...), rest...)
	if stop == nil && w.phiUse == phi0 {
		w.memo[b] = out
	}
	return out
}

// sliceSegs describes a []byte value built by appending to an empty slice:
// make([]byte, 0, n) / nil, append(s, b...), append(s, other...),
// binary.<order>.AppendUintNN(s, v).  A Buffer.Bytes() result is not such a
// value (its octets are the Write calls already collected): (nil, false).
func (w *encWalker) sliceSegs(v ssa.Value, pos token.Pos, depth int) ([]seg, bool) {
	if depth > 64 {
		failUndecided("%s: the appended slice is built too deeply", w.c.rel(pos))
	}
	switch x := v.(type) {
	case *ssa.MakeSlice:
		if k, ok := constInt(x.Len); ok && k == 0 {
			return nil, true
		}
		failUndecided("%s: the encoder appends to a slice that is not empty (make with a length)", posOf(w.c, x))
	case *ssa.Const:
		if x.Value == nil {
			return nil, true
		}
	case *ssa.Slice:
		// make([]byte, 0, constant) is new [n]byte sliced [:0]; s[:0] empties any slice
		if x.High != nil && x.Low == nil {
			if k, ok := constInt(x.High); ok && k == 0 {
				return nil, true
			}
		}
	case *ssa.UnOp:
		// the slice is kept in a member of a local writer object (w.buf = append(w.buf, ...)):
		// follow the member's reaching definition along the walked path
		if x.Op == token.MUL {
			if _, isLocal := localMemberOf(x.X); isLocal {
				if sv, ok := forwardLoad(x); ok {
					return w.sliceSegs(sv, pos, depth+1)
				}
				if ms := memoryMerge(x); len(ms) > 1 {
					for _, m := range ms {
						for i := len(w.path) - 1; i > 0; i-- {
							if w.path[i] == m.at && w.path[i-1] == m.from {
								w.phiUse++
								return w.sliceSegs(m.val, pos, depth+1)
							}
						}
					}
					failUndecided("%s: cannot tell which state of the writer object reaches here", w.c.rel(pos))
				}
			}
		}
	case *ssa.Phi:
		if w.loopBase[x] {
			return nil, true // the slice as it enters this iteration
		}
		blk := x.Block()
		// loop-carried slice: what it holds before the loop, then what one iteration appends, repeated
		{
			var backV, initV ssa.Value
			uniform := true
			for i, p := range blk.Preds {
				if blk.Dominates(p) {
					if backV != nil && backV != x.Edges[i] {
						uniform = false
					}
					backV = x.Edges[i]
				} else {
					if initV != nil && initV != x.Edges[i] {
						uniform = false
					}
					initV = x.Edges[i]
				}
			}
			if backV != nil && initV != nil && uniform {
				init, ok := w.sliceSegs(initV, pos, depth+1)
				if !ok {
					return nil, false
				}
				if w.loopBase == nil {
					w.loopBase = map[*ssa.Phi]bool{}
				}
				w.loopBase[x] = true
				body, ok := w.sliceSegs(backV, pos, depth+1)
				delete(w.loopBase, x)
				if !ok {
					return nil, false
				}
				if len(body) == 0 {
					return init, true
				}
				return append(init, seg{Kind: "repeat", Name: "records", Width: -1, Body: body}), true
			}
		}
		// the edge the walked path came in by
		for i := len(w.path) - 1; i > 0; i-- {
			if w.path[i] == blk {
				for k, p := range blk.Preds {
					if p == w.path[i-1] {
						w.phiUse++
						return w.sliceSegs(x.Edges[k], pos, depth+1)
					}
				}
			}
		}
		failUndecided("%s: cannot tell which appended slice reaches the return", w.c.rel(pos))
	case *ssa.Call:
		if b, ok := x.Call.Value.(*ssa.Builtin); ok && b.Name() == "append" && len(x.Call.Args) == 2 {
			base, ok := w.sliceSegs(x.Call.Args[0], pos, depth+1)
			if !ok {
				return nil, false
			}
			if elems := variadicElemsOrdered(x.Call.Args[1]); elems != nil {
				for _, e := range elems {
					base = append(base, w.describeValue(e, "", x.Pos()))
				}
				return base, true
			}
			// append(s, other...): a nested appended slice, or a member
			if inner, ok := w.sliceSegs(x.Call.Args[1], pos, depth+1); ok {
				return append(base, inner...), true
			}
			return append(base, w.describeValue(x.Call.Args[1], "", x.Pos())), true
		}
		obj := calleeObj(&x.Call)
		if obj == nil || obj.Pkg() == nil {
			return nil, false
		}
		if obj.Pkg().Path() == "encoding/binary" && strings.HasPrefix(obj.Name(), "AppendUint") && len(x.Call.Args) == 3 {
			base, ok := w.sliceSegs(x.Call.Args[1], pos, depth+1)
			if !ok {
				return nil, false
			}
			order := byteOrderOf(w.f, x.Call.Args[0])
			if order == "?" {
				if n := namedOf(x.Call.Args[0].Type()); n != nil {
					switch n.Obj().Name() {
					case "bigEndian":
						order = "BigEndian"
					case "littleEndian":
						order = "LittleEndian"
					}
				}
			}
			return append(base, w.describeValue(x.Call.Args[2], order, x.Pos())), true
		}
		if sc := x.Call.StaticCallee(); sc != nil && sc.Name() == "Encoding" && w.c.inModule(sc) {
			return []seg{w.describeValue(x, "", x.Pos())}, true
		}
	}
	return nil, false
}

// variadicElemsOrdered: the elements of the implicit array of a variadic call,
// by index; nil when v is not such a slice.
func variadicElemsOrdered(v ssa.Value) []ssa.Value {
	sl, ok := v.(*ssa.Slice)
	if !ok || sl.Low != nil || sl.High != nil {
		return nil
	}
	alloc, ok := sl.X.(*ssa.Alloc)
	if !ok {
		return nil
	}
	arr, ok := alloc.Type().Underlying().(*types.Pointer).Elem().Underlying().(*types.Array)
	if !ok {
		return nil
	}
	out := make([]ssa.Value, arr.Len())
	for _, ref := range *alloc.Referrers() {
		ia, ok := ref.(*ssa.IndexAddr)
		if !ok {
			continue
		}
		k, ok := constInt(ia.Index)
		if !ok || k < 0 || k >= arr.Len() {
			return nil
		}
		for _, r2 := range *ia.Referrers() {
			if st, ok := r2.(*ssa.Store); ok && st.Addr == ia {
				out[k] = st.Val
			}
		}
	}
	for _, e := range out {
		if e == nil {
			return nil
		}
	}
	return out
}

// seqFromLoop walks a loop body until control returns to head.
func (w *encWalker) seqFromLoop(b, head *ssa.BasicBlock) []seg {
	saved := w.memo
	w.memo = map[*ssa.BasicBlock][]seg{}
	defer func() { w.memo = saved }()
	return w.seqFrom(b, head)
}

// encoderLayout extracts the segment list of encoder f under the assignment.
func encoderLayout(c *Ctx, f *ssa.Function, assign map[string]bool) (segs []seg, conds []string, err error) {
	defer func() {
		if p := recover(); p != nil {
			if u, ok := p.(undecided); ok {
				err = fmt.Errorf("%s", u.msg)
				return
			}
			panic(p)
		}
	}()
	w := &encWalker{c: c, f: f, assign: assign, conds: map[string]bool{}, memo: map[*ssa.BasicBlock][]seg{}, inProg: map[*ssa.BasicBlock]bool{}}
	if len(f.Params) > 0 {
		if a := paramAlloc(f.Params[0]); a != nil {
			w.recv = a
		} else {
			w.recv = f.Params[0]
		}
	}
	segs = w.seqFrom(f.Blocks[0], nil)
	for k := range w.conds {
		conds = append(conds, k)
	}
	sort.Strings(conds)
	return segs, conds, nil
}

// allAssignments enumerates the assignments of the given condition names.
func allAssignments(names []string) []map[string]bool {
	out := []map[string]bool{{}}
	for _, n := range names {
		var next []map[string]bool
		for _, a := range out {
			for _, v := range []bool{false, true} {
				b := map[string]bool{}
				for k, x := range a {
					b[k] = x
				}
				b[n] = v
				next = append(next, b)
			}
		}
		out = next
	}
	return out
}

func assignString(a map[string]bool) string {
	var ks []string
	for k := range a {
		ks = append(ks, k)
	}
	sort.Strings(ks)
	var parts []string
	for _, k := range ks {
		if a[k] {
			parts = append(parts, k+"==7")
		} else {
			parts = append(parts, k+"!=7")
		}
	}
	if len(parts) == 0 {
		return "always"
	}
	return strings.Join(parts, ",")
}

// releaseConds lists the members tested against 7 anywhere in f.
func releaseConds(c *Ctx, f *ssa.Function) []string {
	w := &encWalker{c: c, f: f}
	if len(f.Params) > 0 {
		if a := paramAlloc(f.Params[0]); a != nil {
			w.recv = a
		} else {
			w.recv = f.Params[0]
		}
	}
	set := map[string]bool{}
	for _, b := range f.Blocks {
		if len(b.Instrs) == 0 {
			continue
		}
		if ifi, ok := b.Instrs[len(b.Instrs)-1].(*ssa.If); ok {
			if m, _, ok := w.releaseTest(ifi); ok {
				set[m] = true
			}
		}
	}
	var out []string
	for k := range set {
		out = append(out, k)
	}
	sort.Strings(out)
	return out
}

// packBitsOfCall interprets a call of a module function whose body is one
// straight-line expression over members of its first argument.  The members are
// renamed to paths of the caller's receiver.
func (w *encWalker) packBitsOfCall(call *ssa.Call) ([]bitField, bool) {
	sc := call.Call.StaticCallee()
	if sc == nil || !w.c.inModule(sc) || len(sc.Blocks) != 1 || len(sc.Params) == 0 || len(call.Call.Args) == 0 {
		return nil, false
	}
	prefix, ok := w.recvFieldPath(call.Call.Args[0])
	if !ok {
		return nil, false
	}
	var ret *ssa.Return
	for _, ins := range sc.Blocks[0].Instrs {
		switch x := ins.(type) {
		case *ssa.Alloc, *ssa.FieldAddr, *ssa.Field, *ssa.UnOp, *ssa.BinOp, *ssa.Convert, *ssa.ChangeType, *ssa.DebugRef:
		case *ssa.Store:
			if _, isParam := x.Val.(*ssa.Parameter); !isParam {
				return nil, false
			}
		case *ssa.Return:
			ret = x
		default:
			return nil, false // calls, branches, ...: not a pure expression helper
		}
	}
	if ret == nil || len(ret.Results) != 1 {
		return nil, false
	}
	var recv ssa.Value = sc.Params[0]
	if a := paramAlloc(sc.Params[0]); a != nil {
		recv = a
	}
	sub := &encWalker{c: w.c, f: sc, recv: recv, assign: w.assign, conds: w.conds}
	bits, ok := sub.packBits(ret.Results[0])
	if !ok {
		return nil, false
	}
	for i := range bits {
		bits[i].Field = prefix + "." + bits[i].Field
	}
	return bits, true
}

// isRangeCounter: v is the index of a range loop (phi(-1, v) + 1): it takes
// every index 0..len-1 once, in order.
func isRangeCounter(v ssa.Value) bool {
	bo, ok := v.(*ssa.BinOp)
	if !ok || bo.Op != token.ADD {
		return false
	}
	if k, ok := constInt(bo.Y); !ok || k != 1 {
		return false
	}
	ph, ok := bo.X.(*ssa.Phi)
	if !ok {
		return false
	}
	init, back := false, false
	for _, e := range ph.Edges {
		if k, ok := constInt(e); ok && k == -1 {
			init = true
		} else if e == ssa.Value(bo) {
			back = true
		} else {
			return false
		}
	}
	return init && back
}
