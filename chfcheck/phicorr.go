package main

import (
	"go/token"
	"go/types"

	"golang.org/x/tools/go/ssa"
)

// Correlated phis.  Phis of one block select the same predecessor.  When a
// branch that dominates a program point has established a fact about one of
// them (the error result is nil, the ok flag is true), the incoming edges on
// which that phi carries a contradicting value are infeasible for all its
// siblings at that point.  This is what makes a value merged from several
// `return` statements (after inlining, or through named results) usable again
// behind the caller's `if err != nil { return }`.

type valueFacts struct{ isNil, nonNil, isTrue, isFalse bool }

// knownAbout collects what the branches dominating block `at` say about v.
func knownAbout(v ssa.Value, at *ssa.BasicBlock) valueFacts {
	var k valueFacts
	f := at.Parent()
	for _, b := range f.Blocks {
		if len(b.Instrs) == 0 || len(b.Succs) != 2 {
			continue
		}
		ifi, ok := b.Instrs[len(b.Instrs)-1].(*ssa.If)
		if !ok {
			continue
		}
		// which fact holds on the true edge
		var onTrue, onFalse *valueFacts
		t, fl := valueFacts{}, valueFacts{}
		switch c := ifi.Cond.(type) {
		case *ssa.BinOp:
			if c.Op != token.EQL && c.Op != token.NEQ {
				continue
			}
			var other ssa.Value
			if c.X == v {
				other = c.Y
			} else if c.Y == v {
				other = c.X
			} else {
				continue
			}
			switch {
			case isNilConst(other):
				if c.Op == token.EQL {
					t.isNil, fl.nonNil = true, true
				} else {
					t.nonNil, fl.isNil = true, true
				}
			default:
				if kc, ok := other.(*ssa.Const); ok && kc.Value != nil && isBoolType(kc.Type()) {
					bv := kc.Value.String() == "true"
					if (c.Op == token.EQL) == bv {
						t.isTrue, fl.isFalse = true, true
					} else {
						t.isFalse, fl.isTrue = true, true
					}
				} else {
					continue
				}
			}
		case *ssa.UnOp:
			if c.Op != token.NOT || c.X != v {
				continue
			}
			t.isFalse, fl.isTrue = true, true
		default:
			if ifi.Cond != v {
				continue
			}
			t.isTrue, fl.isFalse = true, true
		}
		onTrue, onFalse = &t, &fl
		if b.Succs[0] != b.Succs[1] {
			if edgeDominates(b, b.Succs[0], at) {
				k = mergeFacts(k, *onTrue)
			}
			if edgeDominates(b, b.Succs[1], at) {
				k = mergeFacts(k, *onFalse)
			}
		}
	}
	return k
}

func mergeFacts(a, b valueFacts) valueFacts {
	return valueFacts{a.isNil || b.isNil, a.nonNil || b.nonNil, a.isTrue || b.isTrue, a.isFalse || b.isFalse}
}

func isBoolType(t types.Type) bool {
	b, ok := t.Underlying().(*types.Basic)
	return ok && b.Info()&types.IsBoolean != 0
}

// definitely: what is certain about value v where it leaves block `pred`.
func definitely(v ssa.Value, pred *ssa.BasicBlock) valueFacts {
	var k valueFacts
	switch x := v.(type) {
	case *ssa.Const:
		if x.IsNil() {
			k.isNil = true
		} else if x.Value != nil && isBoolType(x.Type()) {
			if x.Value.String() == "true" {
				k.isTrue = true
			} else {
				k.isFalse = true
			}
		}
		return k
	case *ssa.MakeInterface, *ssa.Alloc, *ssa.MakeClosure, *ssa.MakeMap, *ssa.MakeSlice, *ssa.MakeChan, *ssa.Function, *ssa.Global:
		k.nonNil = true
		return k
	case *ssa.Call:
		if obj := calleeObj(&x.Call); obj != nil && (isFunc(obj, "fmt", "Errorf") || isFunc(obj, "errors", "New")) {
			k.nonNil = true
			return k
		}
	}
	if pred != nil {
		kk := knownAbout(v, pred)
		// the terminator of pred itself may decide it for the edge; knownAbout only uses dominating edges
		return kk
	}
	return k
}

// phiEdgeFeasible: can the phis of ph's block have come in over edge i, given
// what is known at block `at`?
func phiEdgeFeasible(ph *ssa.Phi, i int, at *ssa.BasicBlock) bool {
	b := ph.Block()
	if at == nil || i >= len(b.Preds) {
		return true
	}
	for _, ins := range b.Instrs {
		s, ok := ins.(*ssa.Phi)
		if !ok {
			break
		}
		want := knownAbout(s, at)
		if !(want.isNil || want.nonNil || want.isTrue || want.isFalse) {
			continue
		}
		have := definitely(s.Edges[i], b.Preds[i])
		if want.isNil && have.nonNil || want.nonNil && have.isNil || want.isTrue && have.isFalse || want.isFalse && have.isTrue {
			return false
		}
	}
	return true
}

// resolvePhiByUses: when every use of ph lies where exactly one and the same
// incoming edge is feasible, ph is that edge's value.
func resolvePhiByUses(ph *ssa.Phi) (ssa.Value, bool) {
	refs := ph.Referrers()
	if refs == nil || len(ph.Edges) < 2 {
		return nil, false
	}
	only := -1
	nuse := 0
	for _, ref := range *refs {
		if _, isDbg := ref.(*ssa.DebugRef); isDbg {
			continue
		}
		at := ref.Block()
		if p2, isPhi := ref.(*ssa.Phi); isPhi {
			// the value flows on over the predecessor edges of that phi
			for j, e := range p2.Edges {
				if e == ssa.Value(ph) {
					at = p2.Block().Preds[j]
				}
			}
		}
		if at == nil {
			return nil, false
		}
		nuse++
		feas := -1
		nf := 0
		for i := range ph.Edges {
			if phiEdgeFeasible(ph, i, at) {
				feas = i
				nf++
			}
		}
		if nf != 1 {
			return nil, false
		}
		if only >= 0 && only != feas {
			return nil, false
		}
		only = feas
	}
	if nuse == 0 || only < 0 {
		return nil, false
	}
	return ph.Edges[only], true
}

// threadedReach: blocks reachable from the edge pred->start when branches on
// phis of the block just entered are decided by the value the phi carries on
// that edge (one-step jump threading).  Used where a rejecting edge assigns a
// result and the caller's test of that result sits behind a merge.
func threadedReach(pred, start *ssa.BasicBlock) map[*ssa.BasicBlock]bool {
	return threadedReachAvoid(pred, start, nil)
}

// threadedReachAvoid: the same, never entering a block of avoid (loop heads: within one iteration).
func threadedReachAvoid(pred, start *ssa.BasicBlock, avoid map[*ssa.BasicBlock]bool) map[*ssa.BasicBlock]bool {
	type st struct{ from, b *ssa.BasicBlock }
	seen := map[st]bool{}
	out := map[*ssa.BasicBlock]bool{}
	stack := []st{{pred, start}}
	for len(stack) > 0 {
		cur := stack[len(stack)-1]
		stack = stack[:len(stack)-1]
		if seen[cur] {
			continue
		}
		seen[cur] = true
		out[cur.b] = true
		b := cur.b
		if len(b.Instrs) == 0 {
			continue
		}
		succs := b.Succs
		if ifi, ok := b.Instrs[len(b.Instrs)-1].(*ssa.If); ok && cur.from != nil && len(b.Succs) == 2 {
			if take, decided := decideOnEdge(ifi.Cond, b, cur.from); decided {
				if take {
					succs = b.Succs[:1]
				} else {
					succs = b.Succs[1:]
				}
			}
		}
		for _, s := range succs {
			if avoid[s] {
				continue
			}
			// keep the identity of the incoming edge only through blocks that hold nothing but phis and a jump
			from := b
			stack = append(stack, st{from, s})
		}
	}
	return out
}

// decideOnEdge: the outcome of cond in block b when b was entered from pred,
// if cond tests a phi of b (or a phi of a jump-only predecessor chain).
func decideOnEdge(cond ssa.Value, b, pred *ssa.BasicBlock) (bool, bool) {
	idx := -1
	for i, p := range b.Preds {
		if p == pred {
			idx = i
		}
	}
	if idx < 0 {
		return false, false
	}
	valOn := func(v ssa.Value) (valueFacts, bool) {
		ph, ok := v.(*ssa.Phi)
		if !ok || ph.Block() != b {
			return valueFacts{}, false
		}
		k := definitely(ph.Edges[idx], pred)
		if !(k.isNil || k.nonNil || k.isTrue || k.isFalse) {
			// the test that ends pred decides it for this very edge
			k = factFromTerminator(ph.Edges[idx], pred, b)
		}
		return k, true
	}
	switch c := cond.(type) {
	case *ssa.BinOp:
		if c.Op != token.EQL && c.Op != token.NEQ {
			return false, false
		}
		var v, other ssa.Value = c.X, c.Y
		if isNilConst(c.X) {
			v, other = c.Y, c.X
		}
		if !isNilConst(other) {
			return false, false
		}
		k, ok := valOn(v)
		if !ok {
			return false, false
		}
		if k.isNil {
			return c.Op == token.EQL, true
		}
		if k.nonNil {
			return c.Op == token.NEQ, true
		}
	case *ssa.UnOp:
		if c.Op == token.NOT {
			if k, ok := valOn(c.X); ok {
				if k.isTrue {
					return false, true
				}
				if k.isFalse {
					return true, true
				}
			}
		}
	default:
		if k, ok := valOn(cond); ok {
			if k.isTrue {
				return true, true
			}
			if k.isFalse {
				return false, true
			}
		}
	}
	return false, false
}

// factFromTerminator: what the condition ending `pred` says about v on the edge
// pred -> to (v == nil / v != nil / v / !v tested there).
func factFromTerminator(v ssa.Value, pred, to *ssa.BasicBlock) valueFacts {
	var k valueFacts
	if len(pred.Instrs) == 0 || len(pred.Succs) != 2 || pred.Succs[0] == pred.Succs[1] {
		return k
	}
	ifi, ok := pred.Instrs[len(pred.Instrs)-1].(*ssa.If)
	if !ok {
		return k
	}
	taken := pred.Succs[0] == to
	if !taken && pred.Succs[1] != to {
		return k
	}
	switch c := ifi.Cond.(type) {
	case *ssa.BinOp:
		if c.Op != token.EQL && c.Op != token.NEQ {
			return k
		}
		var x ssa.Value
		switch {
		case isNilConst(c.Y):
			x = c.X
		case isNilConst(c.X):
			x = c.Y
		default:
			return k
		}
		if x != v {
			return k
		}
		if (c.Op == token.NEQ) == taken {
			k.nonNil = true
		} else {
			k.isNil = true
		}
	case *ssa.UnOp:
		if c.Op == token.NOT && c.X == v {
			if taken {
				k.isFalse = true
			} else {
				k.isTrue = true
			}
		}
	default:
		if ifi.Cond == v {
			if taken {
				k.isTrue = true
			} else {
				k.isFalse = true
			}
		}
	}
	return k
}
