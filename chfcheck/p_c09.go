package main

import (
	"fmt"
	"go/token"
	"go/types"
	"sort"
	"strings"

	"golang.org/x/tools/go/ssa"
)

// C09: concurrent requests behave like some serial order; no race, crash or deadlock.

func init() { register("C09", "other", checkC09) }

type fieldAccess struct {
	f      *ssa.Function
	ins    ssa.Instruction
	owner  string // struct type name
	field  string
	write  bool
	held   uint32
	prepub bool
	atomic bool // the access is a sync/atomic operation on the member's address
}

type sharedAnalysis struct {
	c         *Ctx
	ls        *locksets
	owners    map[*types.Named]bool
	accesses  []fieldAccess
	callersOf map[*ssa.Function][]ssa.CallInstruction
	pubMemo   map[pubKey]int // 0 unknown, 1 publishing, 2 not

	singletonMemo map[string]bool
}

type pubKey struct {
	f   *ssa.Function
	idx int
}

// lockOwners: module struct types that contain a sync.Mutex / sync.RWMutex field.
func lockOwners(c *Ctx) map[*types.Named]bool {
	out := map[*types.Named]bool{}
	for _, p := range c.Mod {
		if strings.HasSuffix(p.ID, ".test]") || strings.HasSuffix(p.PkgPath, "_test") {
			continue
		}
		for _, name := range p.Types.Scope().Names() {
			tn, ok := p.Types.Scope().Lookup(name).(*types.TypeName)
			if !ok {
				continue
			}
			n, ok := tn.Type().(*types.Named)
			if !ok {
				continue
			}
			st, ok := n.Underlying().(*types.Struct)
			if !ok {
				continue
			}
			for i := 0; i < st.NumFields(); i++ {
				if isSyncMutex(st.Field(i).Type()) {
					out[n] = true
				}
			}
		}
	}
	return out
}

func isSyncMutex(t types.Type) bool {
	return typeIs(t, "sync", "Mutex") || typeIs(t, "sync", "RWMutex")
}

// selfSynchronised: fields whose type carries its own synchronisation.
func selfSynchronised(t types.Type) bool {
	if isSyncMutex(t) || typeIs(t, "sync", "Map") || typeIs(t, "sync", "WaitGroup") || typeIs(t, "sync", "Once") {
		return true
	}
	if _, ok := t.Underlying().(*types.Chan); ok {
		return true
	}
	if n := namedOf(t); n != nil && n.Obj().Pkg() != nil {
		switch n.Obj().Pkg().Path() + "." + n.Obj().Name() {
		case "github.com/fiorix/go-diameter/diam/sm.Client", "github.com/fiorix/go-diameter/diam/sm.StateMachine",
			"github.com/free5gc/util/idgenerator.IDGenerator":
			return true
		}
	}
	return false
}

func newSharedAnalysis(c *Ctx) *sharedAnalysis {
	entries := requestEntries(c)
	sa := &sharedAnalysis{c: c, ls: newLocksets(c, entries), owners: lockOwners(c), callersOf: map[*ssa.Function][]ssa.CallInstruction{}, pubMemo: map[pubKey]int{}, singletonMemo: map[string]bool{}}
	for _, f := range c.ModFuncs {
		eachInstr(f, func(_ *ssa.BasicBlock, _ int, ins ssa.Instruction) {
			if ci, ok := ins.(ssa.CallInstruction); ok {
				for _, callee := range c.calleesAt(ci) {
					sa.callersOf[callee] = append(sa.callersOf[callee], ci)
				}
			}
		})
	}
	for _, f := range c.ModFuncs {
		if !sa.ls.reached[f] {
			continue
		}
		eachInstr(f, func(_ *ssa.BasicBlock, _ int, ins ssa.Instruction) {
			fa, ok := ins.(*ssa.FieldAddr)
			if !ok {
				return
			}
			n := namedOf(fa.X.Type())
			if n == nil || !sa.owners[n] {
				return
			}
			st := derefStruct(fa.X.Type())
			fld := st.Field(fa.Field)
			if selfSynchronised(fld.Type()) {
				return
			}
			for _, a := range classifyFieldUses(fa) {
				held, _ := sa.ls.heldAt(a.ins)
				isAtomic := false
				if ci, ok := a.ins.(ssa.CallInstruction); ok {
					if obj := calleeObj(ci.Common()); obj != nil && obj.Pkg() != nil && obj.Pkg().Path() == "sync/atomic" {
						isAtomic = true
					}
				}
				sa.accesses = append(sa.accesses, fieldAccess{f: f, ins: a.ins, owner: n.Obj().Name(), field: fld.Name(), write: a.write, held: held,
					prepub: sa.prePub(f, fa.X, a.ins, 0), atomic: isAtomic})
			}
		})
	}
	return sa
}

type useClass struct {
	ins   ssa.Instruction
	write bool
}

// classifyFieldUses classifies every use of a field address as read or write.
// Operations on the map or slice loaded from the field count as accesses of
// the field (ue.RatingType[rg] = x is a write of RatingType).
func classifyFieldUses(fa *ssa.FieldAddr) []useClass {
	var out []useClass
	for _, ref := range *fa.Referrers() {
		switch x := ref.(type) {
		case *ssa.Store:
			if x.Addr == ssa.Value(fa) {
				out = append(out, useClass{x, true})
			} else {
				out = append(out, useClass{x, true}) // address stored somewhere: conservatively a write
			}
		case *ssa.UnOp:
			if x.Op != token.MUL {
				continue
			}
			wrote := false
			for _, r2 := range *x.Referrers() {
				switch y := r2.(type) {
				case *ssa.MapUpdate:
					if y.Map == ssa.Value(x) {
						out = append(out, useClass{y, true})
						wrote = true
					}
				case *ssa.IndexAddr:
					for _, r3 := range *y.Referrers() {
						if st, ok := r3.(*ssa.Store); ok && st.Addr == ssa.Value(y) {
							out = append(out, useClass{st, true})
							wrote = true
						}
					}
				}
			}
			_ = wrote
			out = append(out, useClass{x, false})
		case *ssa.FieldAddr, *ssa.IndexAddr:
			// nested struct/array field: treat address-of as read; deeper stores as writes
			for _, r2 := range *ref.(ssa.Value).Referrers() {
				if st, ok := r2.(*ssa.Store); ok {
					out = append(out, useClass{st, true})
				} else if ld, ok := r2.(*ssa.UnOp); ok && ld.Op == token.MUL {
					out = append(out, useClass{ld, false})
				}
			}
		case ssa.CallInstruction:
			out = append(out, useClass{ref, true}) // address escapes into a call
		case *ssa.DebugRef:
		default:
			out = append(out, useClass{ref, false})
		}
	}
	return out
}

// prePub: the object `base` points to has not been published (made reachable
// by other goroutines) when `at` executes.
func (sa *sharedAnalysis) prePub(f *ssa.Function, base ssa.Value, at ssa.Instruction, depth int) bool {
	return sa.prePubX(f, base, at, depth, false)
}

// prePubX: with selfOK the publication performed by `at` itself (a call that
// hands the object to a publishing callee) does not count: the callee's own
// ordering is examined separately.
func (sa *sharedAnalysis) prePubX(f *ssa.Function, base ssa.Value, at ssa.Instruction, depth int, selfOK bool) bool {
	if depth > 3 {
		return false
	}
	for {
		if ct, ok := base.(*ssa.ChangeType); ok {
			base = ct.X
			continue
		}
		break
	}
	switch b := base.(type) {
	case *ssa.Alloc:
		for _, p := range sa.publications(f, b) {
			if p == at && selfOK {
				continue
			}
			if p == at || canReach(p, at) {
				return false
			}
		}
		return true
	case *ssa.Parameter:
		idx := -1
		for i, p := range f.Params {
			if p == b {
				idx = i
			}
		}
		callers := sa.callersOf[f]
		if idx < 0 || len(callers) == 0 || f.Parent() != nil {
			return false
		}
		for _, p := range sa.publications(f, b) {
			if p == at && selfOK {
				continue
			}
			if p == at || canReach(p, at) {
				return false
			}
		}
		for _, cs := range callers {
			cc := cs.Common()
			if cc.IsInvoke() || idx >= len(cc.Args) {
				return false
			}
			if _, isGo := cs.(*ssa.Go); isGo {
				return false
			}
			if !sa.prePubX(cs.Parent(), cc.Args[idx], cs, depth+1, true) {
				return false
			}
		}
		return true
	}
	return false
}

// publications: instructions of f that make the object v points to reachable
// from elsewhere: stores of the pointer, passing it to a function that
// publishes it or to a function outside the module, sending it.
func (sa *sharedAnalysis) publications(f *ssa.Function, v ssa.Value) []ssa.Instruction {
	var out []ssa.Instruction
	seen := map[ssa.Value]bool{}
	var walk func(v ssa.Value)
	walk = func(v ssa.Value) {
		if seen[v] {
			return
		}
		seen[v] = true
		refs := v.Referrers()
		if refs == nil {
			return
		}
		for _, ref := range *refs {
			switch x := ref.(type) {
			case *ssa.Store:
				if x.Val == v {
					out = append(out, x)
				}
			case *ssa.MapUpdate:
				if x.Value == v || x.Key == v {
					out = append(out, x)
				}
			case *ssa.Send:
				if x.X == v {
					out = append(out, x)
				}
			case *ssa.MakeInterface:
				walk(x)
			case *ssa.ChangeType:
				walk(x)
			case *ssa.Phi:
				walk(x)
			case *ssa.MakeClosure:
				out = append(out, x)
			case *ssa.Return:
				// handed to the caller: not a publication inside f
			case ssa.CallInstruction:
				cc := x.Common()
				argIdx := -1
				for i, a := range cc.Args {
					if a == v {
						argIdx = i
					}
				}
				if cc.IsInvoke() {
					if cc.Value == v || argIdx >= 0 {
						out = append(out, x)
					}
					continue
				}
				if argIdx < 0 {
					continue
				}
				callee := cc.StaticCallee()
				if callee == nil || callee.Blocks == nil || !sa.c.inModule(callee) {
					// library call: benign only for logging/formatting
					if obj := calleeObj(cc); obj != nil && obj.Pkg() != nil {
						switch obj.Pkg().Path() {
						case "fmt", "github.com/sirupsen/logrus":
							continue
						}
					}
					out = append(out, x)
					continue
				}
				if _, isGo := x.(*ssa.Go); isGo {
					out = append(out, x)
					continue
				}
				if sa.publishesParam(callee, argIdx, 0) {
					out = append(out, x)
				}
			}
		}
	}
	walk(v)
	return out
}

func (sa *sharedAnalysis) publishesParam(f *ssa.Function, idx, depth int) bool {
	k := pubKey{f, idx}
	if m := sa.pubMemo[k]; m != 0 {
		return m == 1
	}
	if depth > 4 || idx >= len(f.Params) {
		return true
	}
	sa.pubMemo[k] = 2 // assume not (breaks recursion)
	res := len(sa.publications(f, f.Params[idx])) > 0
	if res {
		sa.pubMemo[k] = 1
	}
	return res
}

// eligible returns the mask of lock classes that can protect fields of the
// struct type `owner`: the locks that live in the same struct (same instance,
// under the one-subscriber-per-request assumption) and the locks of singleton
// objects.  A per-subscriber lock does not protect global state: two requests
// of different subscribers hold different instances of that class.
func (sa *sharedAnalysis) eligible(owner string) uint32 {
	var m uint32
	for i, cl := range sa.ls.classes {
		t := strings.SplitN(cl, ".", 2)[0]
		if t == owner || sa.singleton(t) {
			m |= 1 << uint(i)
		}
	}
	return m
}

// singleton: the module allocates objects of the named struct type at most
// once: a package-level variable of the type, or a single allocation site.
func (sa *sharedAnalysis) singleton(typeName string) bool {
	if v, ok := sa.singletonMemo[typeName]; ok {
		return v
	}
	var n *types.Named
	for o := range sa.owners {
		if o.Obj().Name() == typeName {
			n = o
		}
	}
	res := false
	if n != nil {
		sites := 0
		globals := 0
		for _, f := range sa.c.ModFuncs {
			eachInstr(f, func(_ *ssa.BasicBlock, _ int, ins ssa.Instruction) {
				if a, ok := ins.(*ssa.Alloc); ok {
					if pt, ok := a.Type().Underlying().(*types.Pointer); ok && types.Identical(pt.Elem(), n) {
						sites++
						if inCycle(a.Block()) || sa.ls.reached[f] {
							sites += 2 // allocated per request or in a loop
						}
					}
				}
			})
		}
		for _, p := range sa.c.Mod {
			for _, name := range p.Types.Scope().Names() {
				if v, ok := p.Types.Scope().Lookup(name).(*types.Var); ok && types.Identical(v.Type(), n) {
					globals++
				}
			}
		}
		res = (globals == 1 && sites == 0) || (globals == 0 && sites == 1)
	}
	sa.singletonMemo[typeName] = res
	return res
}

// ---------------------------------------------------------------------------

func checkC09(c *Ctx, r *Report) {
	r.Explanation = "Race-freedom and deadlock-freedom by lockset analysis over every interleaving (no interleaving is enumerated): (R1) Eraser-style consistent lockset - the shared mutable fields are computed (fields of mutex-owning structs with a write reachable from a request entry point after the object is published; map/slice operations on the loaded field count) and the must-locksets of all their request-reachable accesses must have a non-empty intersection; (R2) every lock acquired in request code is released on every exit; (R3) the acquired-while-held graph over lock classes is acyclic and no class is re-acquired while held; (R4) no unlocked check-then-act (Load ... Store) on the subscriber pool; (R5) Diameter answer handlers cannot block forever on their channel (shared with C19)."
	r.Undecided = []string{"equivalence to a serial order of effects across components (account DB, files)", "GOMAXPROCS", "fields of the records reachable through ue.Cdr (field-insensitive beyond the owner struct)", "lock instances are abstracted to lock classes (one request touches one subscriber)"}
	r.Assumptions = append(r.Assumptions, "one request touches one subscriber context, so the lock class ChfUe.CULock stands for the instance of the request's subscriber", "sync.Map, channels, sm.Client/StateMachine and idgenerator are internally synchronised")
	r.rule("C09.R1", "consistent lockset for every shared mutable field of a mutex-owning struct", 8)
	r.rule("C09.R2", "every request-reachable Lock is released on every return path (explicitly or by defer)", 4)
	r.rule("C09.R3", "lock-order graph acyclic; no self re-acquisition", 1)
	r.rule("C09.R5", "after LoadOrStore on the subscriber pool the request goes on with the context that is in the pool, not with the one it offered", 1)
	r.rule("C09.R6", "no request removes or replaces a subscriber context in the pool: a request that already fetched the context would go on with an orphan (shared with C01.R5/C10.R5)", 1)
	r.rule("C09.R7", "the file a request writes under its subscriber's lock is the subscriber's own (named after the subscriber): a path shared by all subscribers is shared state without a common lock", 1)
	r.rule("C09.R8", "no lock is held while the CHF waits for the consumer's answer to a re-authorisation notification (the consumer may send an update of the same subscriber first)", 1)
	r.rule("C09.R9", "numbers handed out to concurrent requests (local record sequence number, session counter) are allocated in one step: the value used is the one the increment produced (shared with C10.R1) - an atomic Add followed by a separate Load gives two requests the same number and skips another, which no serial order of the requests produces", 1)
	r.rule("C09.R4", "no check-then-act on the subscriber pool without a lock (LoadOrStore or one held lock)", 1)

	sa := newSharedAnalysis(c)
	ls := sa.ls
	r.count("lock_classes", len(ls.classes))
	r.count("request_reachable_functions", len(ls.reached))
	r.count("field_accesses", len(sa.accesses))

	reportLocksetRule(c, r, sa, "C09.R1", nil)

	// ---- R2 release on all exits
	checkReleaseOnAllExits(c, r, ls, "C09.R2")

	// ---- R3 lock order
	{
		n := len(ls.classes)
		adj := make([][]int, n)
		var edges []string
		for k, w := range ls.order {
			if !ls.reached[w.Parent()] {
				continue
			}
			adj[k[0]] = append(adj[k[0]], k[1])
			edges = append(edges, ls.classes[k[0]]+"->"+ls.classes[k[1]])
			if k[0] == k[1] {
				if strings.HasPrefix(ls.classes[k[0]], "Config.") {
					r.info("C09.R3", "self|"+ls.classes[k[0]], posOf(c, w), "recursive read lock on the configuration (outside C09's anchors)")
					continue
				}
				r.viol("C09.R3", "self|"+ls.classes[k[0]], posOf(c, w), "lock class "+ls.classes[k[0]]+" is acquired while already held: self-deadlock")
			}
		}
		sort.Strings(edges)
		// cycle detection
		color := make([]int, n)
		cyc := ""
		var dfs func(u int, path []int)
		dfs = func(u int, path []int) {
			color[u] = 1
			for _, v := range adj[u] {
				if v == u {
					continue
				}
				if color[v] == 1 {
					var names []string
					for _, p := range append(path, u, v) {
						names = append(names, ls.classes[p])
					}
					cyc = strings.Join(names, " -> ")
				} else if color[v] == 0 {
					dfs(v, append(path, u))
				}
			}
			color[u] = 2
		}
		for i := 0; i < n; i++ {
			if color[i] == 0 {
				dfs(i, nil)
			}
		}
		r.check(cyc == "", "C09.R3", "order", "", "acquired-while-held edges: ["+strings.Join(edges, ", ")+"] acyclic", "lock-order cycle: "+cyc)
	}

	// ---- R4 check-then-act on the pool
	checkPoolAtomicity(c, r, sa, "C09.R4")
	// R7: files are shared state too: what a request writes under its subscriber's lock must be
	// the subscriber's own file
	{
		df := c.fn("internal/sbi/processor", "dumpCdrFile")
		var ueid ssa.Value
		for _, p := range df.Params {
			if b, ok := p.Type().Underlying().(*types.Basic); ok && b.Info()&types.IsString != 0 {
				ueid = p
				break
			}
		}
		n := 0
		for _, f := range withAnon(df) {
			eachInstr(f, func(_ *ssa.BasicBlock, _ int, ins ssa.Instruction) {
				call, ok := ins.(ssa.CallInstruction)
				if !ok {
					return
				}
				obj := calleeObj(call.Common())
				if obj == nil || obj.Pkg() == nil {
					return
				}
				var paths []ssa.Value
				args := call.Common().Args
				switch {
				case obj.Pkg().Path() == "os" && (obj.Name() == "WriteFile" || obj.Name() == "Create" || obj.Name() == "OpenFile" || obj.Name() == "Remove") && len(args) >= 1:
					paths = args[:1]
				case obj.Pkg().Path() == "os" && obj.Name() == "Rename" && len(args) == 2:
					paths = args[:2]
				case strings.HasSuffix(obj.Pkg().Path(), "/cdr/cdrFile") && obj.Name() == "Encoding" && len(args) >= 2:
					paths = args[len(args)-1:]
				default:
					return
				}
				for _, pv := range paths {
					n++
					own := false
					for d := range depSet(f, pv) {
						if d == ueid {
							own = true
						}
					}
					r.check(own, "C09.R7", fmt.Sprintf("%s|file path of %s #%d", fnKey(df), obj.Name(), n), posOf(c, ins), "the file name is built from the subscriber's identity", "the file "+obj.Name()+" works on ("+describe(pv)+") is the same for every subscriber, but the lock held around it is the subscriber's own: two subscribers served at the same time write, rename or remove each other's file - one's CDR file ends up with the other's records and the second request fails after its usage was recorded")
				}
			})
		}
		if n == 0 {
			r.viol("C09.R7", fnKey(df)+"|file", c.rel(df.Pos()), "dumpCdrFile does not write a file (anchor moved)")
		}
	}
	noLockAcrossNotification(c, r, "C09.R8")
	r.shareFrom(c, checkC10, map[string]string{"C10.R1": "C09.R9"})
	checkPoolLifetime(c, r, "C09.R6", "a create of the same subscriber that is in flight has fetched the context already; it registers its session in the orphaned object and is answered 201, and no serial order of the two requests explains that the acknowledged session can be neither updated nor released")
	checkPoolWinner(c, r, "C09.R5")
}

// checkPoolWinner: LoadOrStore(key, mine) returns the value that is in the pool
// - mine only if nobody was faster.  A function that goes on with (returns)
// `mine` regardless hands a context to the request that is not the one every
// other request of the subscriber finds: its sessions are lost to them.  Every
// *ChfUe returned after the call must be the call's first result, or the
// offered value on the edge where `loaded` is false.
func checkPoolWinner(c *Ctx, r *Report, rule string) {
	n := 0
	for _, f := range c.ModFuncs {
		eachInstr(f, func(_ *ssa.BasicBlock, _ int, ins ssa.Instruction) {
			call, ok := ins.(*ssa.Call)
			if !ok {
				return
			}
			obj := calleeObj(&call.Call)
			if obj == nil || obj.Pkg() == nil || obj.Pkg().Path() != "sync" || funcLocalName(obj) != "Map.LoadOrStore" || len(call.Call.Args) != 3 {
				return
			}
			fa, ok := call.Call.Args[0].(*ssa.FieldAddr)
			if !ok || !typeIs(fa.X.Type(), ctxPath, "CHFContext") || fieldName(fa) != "UePool" {
				return
			}
			n++
			key := fmt.Sprintf("%s|LoadOrStore #%d", fnKey(f), n)
			offered := stripConv(call.Call.Args[2])
			var actual, loaded ssa.Value
			for _, ref := range *call.Referrers() {
				if ex, ok := ref.(*ssa.Extract); ok {
					if ex.Index == 0 {
						actual = ex
					} else {
						loaded = ex
					}
				}
			}
			bad := ""
			nret := 0
			for _, ri := range returnsOf(f) {
				if len(ri.Vals) == 0 || !typeIs(ri.Vals[0].Type(), ctxPath, "ChfUe") {
					continue
				}
				if !canReach(call, ri.Point()) {
					continue
				}
				if k, ok := ri.Vals[0].(*ssa.Const); ok && k.Value == nil {
					continue
				}
				nret++
				fromActual := false
				if actual != nil {
					for d := range depSet(f, ri.Vals[0]) {
						if d == actual {
							fromActual = true
						}
					}
				}
				if fromActual {
					continue
				}
				// the offered value: only where loaded is known false
				okEdge := false
				if loaded != nil && stripConv(ri.Vals[0]) == offered {
					for _, b := range f.Blocks {
						if len(b.Instrs) == 0 || len(b.Succs) != 2 {
							continue
						}
						if ifi, ok := b.Instrs[len(b.Instrs)-1].(*ssa.If); ok && ifi.Cond == loaded {
							if edgeDominates(b, b.Succs[1], ri.At) {
								okEdge = true
							}
						}
					}
				}
				if !okEdge && bad == "" {
					bad = fmt.Sprintf("the context returned at %s is %s, not the result of LoadOrStore", posOf(c, ri.Point()), describe(ri.Vals[0]))
				}
			}
			r.check(bad == "" && nret > 0, rule, key, posOf(c, call), "every context returned after LoadOrStore is the one that is in the pool",
				bad+": when a concurrent request stored the subscriber's context first, this request goes on with a private context that no other request finds - the session it opens is answered 201 and then lost (404 on update/release, no CDR)")
		})
	}
	if n == 0 {
		r.info(rule, "no LoadOrStore on the subscriber pool", "", "the pool is not filled with LoadOrStore (C09.R4 decides the alternative)")
	}
}

// reportLocksetRule groups the accesses by field and emits one obligation per
// shared mutable field.  `only` restricts to owner.field names when non-nil.
func reportLocksetRule(c *Ctx, r *Report, sa *sharedAnalysis, rule string, only map[string]bool) {
	ls := sa.ls
	byField := map[string][]fieldAccess{}
	for _, a := range sa.accesses {
		byField[a.owner+"."+a.field] = append(byField[a.owner+"."+a.field], a)
	}
	var names []string
	for k := range byField {
		names = append(names, k)
	}
	sort.Strings(names)
	shared := 0
	for _, name := range names {
		if only != nil && !only[name] {
			continue
		}
		acc := byField[name]
		hasWrite := false
		for _, a := range acc {
			if a.write && !a.prepub {
				hasWrite = true
			}
		}
		if !hasWrite {
			continue
		}
		shared++
		// a member touched only through sync/atomic operations needs no lock
		allAtomic := true
		for _, a := range acc {
			if !a.prepub && !a.atomic {
				allAtomic = false
			}
		}
		if allAtomic {
			r.proven(rule, "field "+name, "", "every request-reachable access is a sync/atomic operation")
			continue
		}
		common := sa.eligible(strings.SplitN(name, ".", 2)[0])
		n, nLocked := 0, 0
		var worst *fieldAccess
		for i := range acc {
			a := &acc[i]
			if a.prepub {
				continue
			}
			n++
			common &= a.held
			if a.held != 0 {
				nLocked++
			} else if worst == nil || (a.write && !worst.write) {
				worst = a
			}
		}
		if common != 0 {
			r.proven(rule, "field "+name, "", fmt.Sprintf("%d request-reachable accesses, all under %s (eligible for this owner)", n, ls.names(common)))
			continue
		}
		// report the access(es) that break the discipline
		majority := map[uint32]int{}
		for _, a := range acc {
			if !a.prepub {
				majority[a.held]++
			}
		}
		pos, detail := "", ""
		if worst != nil {
			kind := "read"
			if worst.write {
				kind = "write"
			}
			pos = posOf(c, worst.ins)
			detail = fmt.Sprintf("%s of %s in %s with no lock held (path %s), while %d of %d accesses hold a lock: data race with the locked accesses", kind, name, shortFn(worst.f), pathTo(ls.pred, worst.f), nLocked, n)
		} else {
			var parts []string
			for m, k := range majority {
				parts = append(parts, fmt.Sprintf("%d under %s", k, ls.names(m)))
			}
			sort.Strings(parts)
			detail = "accesses are guarded by different locks with empty intersection: " + strings.Join(parts, ", ")
		}
		r.viol(rule, "field "+name, pos, detail)
	}
	r.count("shared_mutable_fields", shared)
}

// checkReleaseOnAllExits: at every reachable Return of a request-reachable
// function, every class acquired in that function is released or has a
// deferred unlock.
func checkReleaseOnAllExits(c *Ctx, r *Report, ls *locksets, rule string) {
	for _, f := range c.ModFuncs {
		if !ls.reached[f] {
			continue
		}
		hasLock := false
		eachInstr(f, func(_ *ssa.BasicBlock, _ int, ins ssa.Instruction) {
			if op, ok := ls.ops[ins]; ok && !op.deferred && (op.kind == lkLock || op.kind == lkRLock) {
				hasLock = true
			}
		})
		if !hasLock {
			continue
		}
		entry := ls.entry[f]
		if entry == ^uint32(0) {
			entry = 0
		}
		bad := ""
		pos := ""
		for _, ri := range returnsOf(f) {
			st, ok := ls.stateAt(ri.Ret)
			if !ok {
				continue
			}
			leaked := (st.held &^ st.dfr) &^ entry
			if leaked != 0 {
				bad = "return with " + ls.names(leaked) + " still held: the next request for this subscriber blocks for ever"
				pos = posOf(c, ri.Ret)
			}
		}
		r.check(bad == "", rule, fnKey(f), pos, "every return releases the locks taken here", bad)
	}
}

// checkPoolAtomicity: Load followed by Store on a sync.Map field of a
// mutex-owning struct, with no common lock held.
func checkPoolAtomicity(c *Ctx, r *Report, sa *sharedAnalysis, rule string) {
	ls := sa.ls
	type poolOp struct {
		ins   ssa.Instruction
		store bool
		held  uint32
	}
	// summaries: does f (transitively, inside the module) load / store a sync.Map field?
	direct := func(ins ssa.Instruction) (string, bool, bool) {
		ci, ok := ins.(ssa.CallInstruction)
		if !ok {
			return "", false, false
		}
		cc := ci.Common()
		obj := calleeObj(cc)
		if obj == nil || obj.Pkg() == nil || obj.Pkg().Path() != "sync" || len(cc.Args) == 0 {
			return "", false, false
		}
		fa, ok := cc.Args[0].(*ssa.FieldAddr)
		if !ok || !typeIs(fa.Type().(*types.Pointer).Elem(), "sync", "Map") {
			return "", false, false
		}
		name := fieldName(fa)
		switch funcLocalName(obj) {
		case "Map.Load", "Map.Range":
			return name, false, true
		case "Map.Store", "Map.Swap":
			return name, true, true
		}
		return "", false, false
	}
	loads := map[*ssa.Function]map[string]bool{}
	stores := map[*ssa.Function]map[string]bool{}
	for _, f := range c.ModFuncs {
		eachInstr(f, func(_ *ssa.BasicBlock, _ int, ins ssa.Instruction) {
			if name, st, ok := direct(ins); ok {
				m := loads
				if st {
					m = stores
				}
				if m[f] == nil {
					m[f] = map[string]bool{}
				}
				m[f][name] = true
			}
		})
	}
	for round := 0; round < 4; round++ {
		for _, f := range c.ModFuncs {
			for _, callee := range c.callgraph().out[f] {
				for _, m := range []map[*ssa.Function]map[string]bool{loads, stores} {
					for name := range m[callee] {
						if m[f] == nil {
							m[f] = map[string]bool{}
						}
						m[f][name] = true
					}
				}
			}
		}
	}
	n := 0
	for _, f := range c.ModFuncs {
		if !ls.reached[f] {
			continue
		}
		for pool := range stores[f] {
			if !loads[f][pool] {
				continue
			}
			// collect ops in f itself (direct or via callee)
			var lds, sts []poolOp
			eachInstr(f, func(_ *ssa.BasicBlock, _ int, ins ssa.Instruction) {
				held, _ := ls.heldAt(ins)
				if name, st, ok := direct(ins); ok && name == pool {
					if st {
						sts = append(sts, poolOp{ins, true, held})
					} else {
						lds = append(lds, poolOp{ins, false, held})
					}
					return
				}
				if ci, ok := ins.(ssa.CallInstruction); ok {
					for _, callee := range c.calleesAt(ci) {
						if loads[callee][pool] {
							lds = append(lds, poolOp{ins, false, held})
						}
						if stores[callee][pool] {
							sts = append(sts, poolOp{ins, true, held})
						}
					}
				}
			})
			for _, l := range lds {
				for _, s := range sts {
					if l.ins == s.ins || !canReach(l.ins, s.ins) {
						continue
					}
					// the store must be control-dependent on the load's outcome to be a check-then-act:
					// approximated by "store reachable from load"; a common held lock makes it atomic
					n++
					key := fnKey(f) + "|" + pool
					r.check(l.held&s.held != 0, rule, key, posOf(c, s.ins), "load and store of "+pool+" under a common lock "+ls.names(l.held&s.held),
						"check-then-act on "+pool+": looked up at "+posOf(c, l.ins)+" and stored at "+posOf(c, s.ins)+" with no lock held in between - two concurrent creates for a new subscriber each build a context and one is lost with its session (use LoadOrStore or hold a lock)")
				}
			}
		}
	}
	if n == 0 {
		r.proven(rule, "pool", "", "no function both looks up and stores into a sync.Map pool (LoadOrStore or no check-then-act)")
	}
}
