package main

import (
	"fmt"
	"go/constant"
	"go/token"
	"go/types"
	"sort"
	"strings"

	"golang.org/x/tools/go/ssa"
)

// E7: linear-form value numbering.  Every integer SSA value is given a
// polynomial over atoms (loads by access path, call results, parameters,
// phis that do not agree).  Integer conversions are the identity (assumption:
// no overflow - recorded in the evidence).  Two expressions that compute the
// same polynomial get the same canonical string, whatever their shape.

type poly map[string]int64 // monomial (sorted atom keys joined by monoSep) -> coefficient; "" = constant term

// monoSep joins the atoms of a monomial; it cannot occur inside an atom key.
const monoSep = "\x1f"

type formEval struct {
	f     *ssa.Function
	memo  map[ssa.Value]poly
	atoms map[string]ssa.Value
	ord   map[ssa.Value]int
	// optional override: values for which the caller supplies the form (abstract heap)
	override func(v ssa.Value) (poly, bool)
}

func newFormEval(f *ssa.Function) *formEval {
	fe := &formEval{f: f, memo: map[ssa.Value]poly{}, atoms: map[string]ssa.Value{}, ord: map[ssa.Value]int{}}
	n := 0
	eachInstr(f, func(_ *ssa.BasicBlock, _ int, ins ssa.Instruction) {
		if v, ok := ins.(ssa.Value); ok {
			n++
			fe.ord[v] = n
		}
	})
	return fe
}

func constPoly(k int64) poly {
	if k == 0 {
		return poly{}
	}
	return poly{"": k}
}

func atomPoly(key string) poly { return poly{key: 1} }

func (p poly) clone() poly {
	q := poly{}
	for k, v := range p {
		q[k] = v
	}
	return q
}

func polyAdd(a, b poly, sign int64) poly {
	r := a.clone()
	for k, v := range b {
		r[k] += sign * v
		if r[k] == 0 {
			delete(r, k)
		}
	}
	return r
}

func polyMul(a, b poly) poly {
	r := poly{}
	for ka, va := range a {
		for kb, vb := range b {
			var parts []string
			if ka != "" {
				parts = append(parts, strings.Split(ka, monoSep)...)
			}
			if kb != "" {
				parts = append(parts, strings.Split(kb, monoSep)...)
			}
			sort.Strings(parts)
			k := strings.Join(parts, monoSep)
			r[k] += va * vb
			if r[k] == 0 {
				delete(r, k)
			}
		}
	}
	return r
}

func (p poly) String() string {
	if len(p) == 0 {
		return "0"
	}
	var keys []string
	for k := range p {
		keys = append(keys, k)
	}
	sort.Strings(keys)
	var sb strings.Builder
	for i, k := range keys {
		c := p[k]
		if i > 0 {
			if c >= 0 {
				sb.WriteString(" + ")
			} else {
				sb.WriteString(" - ")
				c = -c
			}
		} else if c < 0 {
			sb.WriteString("-")
			c = -c
		}
		switch {
		case k == "":
			fmt.Fprintf(&sb, "%d", c)
		case c == 1:
			sb.WriteString(strings.ReplaceAll(k, monoSep, " x "))
		default:
			fmt.Fprintf(&sb, "%d x %s", c, strings.ReplaceAll(k, monoSep, " x "))
		}
	}
	return sb.String()
}

func polyEqual(a, b poly) bool {
	if len(a) != len(b) {
		return false
	}
	for k, v := range a {
		if b[k] != v {
			return false
		}
	}
	return true
}

func (p poly) isConst() (int64, bool) {
	if len(p) == 0 {
		return 0, true
	}
	if len(p) == 1 {
		if c, ok := p[""]; ok {
			return c, true
		}
	}
	return 0, false
}

// atomKeyOf names a non-arithmetic value canonically.
func (fe *formEval) atomKeyOf(v ssa.Value) string {
	switch x := v.(type) {
	case *ssa.Parameter:
		return "param:" + x.Name()
	case *ssa.FreeVar:
		return "free:" + x.Name()
	case *ssa.UnOp:
		if x.Op == token.MUL {
			if p, ok := pathOf(x); ok {
				return "mem:" + fe.rootKey(p.Root) + "." + strings.Join(p.Elems, ".")
			}
		}
	case *ssa.Field:
		if p, ok := pathOf(x); ok {
			return "mem:" + fe.rootKey(p.Root) + "." + strings.Join(p.Elems, ".")
		}
	case *ssa.Extract:
		return fe.atomKeyOf(x.Tuple) + fmt.Sprintf("#%d", x.Index)
	case *ssa.Call:
		name := "dynamic"
		if obj := calleeObj(&x.Call); obj != nil {
			name = obj.Name()
		} else if b, ok := x.Call.Value.(*ssa.Builtin); ok {
			name = b.Name()
		}
		return fmt.Sprintf("call:%s@%d", name, fe.callOrdinal(x))
	case *ssa.Phi:
		return fmt.Sprintf("phi:%s@%d", x.Comment, fe.ord[x])
	case *ssa.Lookup:
		return "lookup:" + fe.atomKeyOf(x.X) + "[" + fe.eval(x.Index).String() + "]@" + fmt.Sprint(fe.ord[x])
	}
	return fmt.Sprintf("val:%T@%d", v, fe.ord[v])
}

func (fe *formEval) rootKey(root ssa.Value) string {
	switch r := root.(type) {
	case *ssa.Alloc:
		return "local:" + r.Comment
	case *ssa.Parameter:
		return r.Name()
	case *ssa.FreeVar:
		return r.Name()
	case *ssa.Global:
		return r.Name()
	default:
		return "(" + fe.atomKeyOf(root) + ")"
	}
}

// callOrdinal numbers calls of the same callee in source order.
func (fe *formEval) callOrdinal(call *ssa.Call) int {
	obj := calleeObj(&call.Call)
	n := 0
	res := 0
	eachInstr(fe.f, func(_ *ssa.BasicBlock, _ int, ins ssa.Instruction) {
		if c2, ok := ins.(*ssa.Call); ok && calleeObj(&c2.Call) == obj {
			if b1, ok1 := call.Call.Value.(*ssa.Builtin); ok1 {
				if b2, ok2 := c2.Call.Value.(*ssa.Builtin); !ok2 || b1.Name() != b2.Name() {
					return
				}
			}
			n++
			if c2 == call {
				res = n
			}
		}
	})
	return res
}

func isIntegerType(t types.Type) bool {
	b, ok := t.Underlying().(*types.Basic)
	return ok && b.Info()&types.IsInteger != 0
}

func (fe *formEval) eval(v ssa.Value) poly {
	if p, ok := fe.memo[v]; ok {
		return p
	}
	// guard against cycles through phis
	fe.memo[v] = atomPoly(fe.atomKeyOf(v))
	p := fe.eval1(v)
	fe.memo[v] = p
	// remember which value an atom stands for (only when v IS that atom)
	if len(p) == 1 {
		for k, cf := range p {
			if cf == 1 && k != "" && !strings.Contains(k, monoSep) {
				if _, ok := fe.atoms[k]; !ok {
					fe.atoms[k] = v
				} else if _, isConv := fe.atoms[k].(*ssa.Convert); isConv {
					if _, isConv2 := v.(*ssa.Convert); !isConv2 {
						fe.atoms[k] = v
					}
				}
			}
		}
	}
	return p
}

func (fe *formEval) eval1(v ssa.Value) poly {
	if fe.override != nil {
		if p, ok := fe.override(v); ok {
			return p
		}
	}
	switch x := v.(type) {
	case *ssa.Const:
		if k, ok := constInt(x); ok {
			return constPoly(k)
		}
	case *ssa.Convert:
		if isIntegerType(x.Type()) && isIntegerType(x.X.Type()) {
			return fe.eval(x.X)
		}
		// integer <- float of math.Pow10(n): named by its argument
		if call, ok := x.X.(*ssa.Call); ok && isIntegerType(x.Type()) {
			if obj := calleeObj(&call.Call); isFunc(obj, "math", "Pow10") {
				return atomPoly("Pow10(" + fe.eval(call.Call.Args[0]).String() + ")")
			}
		}
	case *ssa.ChangeType:
		return fe.eval(x.X)
	case *ssa.UnOp:
		if x.Op == token.SUB {
			return polyAdd(poly{}, fe.eval(x.X), -1)
		}
		if x.Op == token.MUL && isIntegerType(x.Type()) {
			if sv, ok := forwardLoad(x); ok {
				return fe.eval(sv)
			}
		}
	case *ssa.BinOp:
		switch x.Op {
		case token.ADD:
			if isIntegerType(x.Type()) {
				return polyAdd(fe.eval(x.X), fe.eval(x.Y), 1)
			}
		case token.SUB:
			return polyAdd(fe.eval(x.X), fe.eval(x.Y), -1)
		case token.MUL:
			return polyMul(fe.eval(x.X), fe.eval(x.Y))
		case token.QUO, token.REM, token.SHL, token.SHR, token.AND, token.OR, token.XOR:
			return atomPoly(fmt.Sprintf("(%s %s %s)", fe.eval(x.X), x.Op, fe.eval(x.Y)))
		}
	case *ssa.Phi:
		if rv, ok := resolvePhiByUses(x); ok {
			return fe.eval(rv)
		}
		var first poly
		same := true
		for i, e := range x.Edges {
			if e == ssa.Value(x) {
				continue
			}
			p := fe.eval(e)
			if i == 0 || first == nil {
				first = p
			} else if !polyEqual(first, p) {
				same = false
			}
		}
		if same && first != nil {
			return first
		}
	case *ssa.Call:
		// pure arithmetic helpers are named by their arguments so that two calls agree
		if obj := calleeObj(&x.Call); obj != nil && obj.Pkg() != nil {
			switch obj.Pkg().Path() + "." + obj.Name() {
			case "math.Pow10":
				return atomPoly("Pow10(" + fe.eval(x.Call.Args[0]).String() + ")")
			}
		}
		if b, ok := x.Call.Value.(*ssa.Builtin); ok && b.Name() == "min" && len(x.Call.Args) == 2 {
			a, bb := fe.eval(x.Call.Args[0]).String(), fe.eval(x.Call.Args[1]).String()
			if a > bb {
				a, bb = bb, a
			}
			return atomPoly("min(" + a + "," + bb + ")")
		}
		if sc := x.Call.StaticCallee(); sc != nil && len(x.Call.Args) == 2 && isMinFunction(sc) {
			a, b := fe.eval(x.Call.Args[0]).String(), fe.eval(x.Call.Args[1]).String()
			if a > b {
				a, b = b, a
			}
			return atomPoly("min(" + a + "," + b + ")")
		}
	}
	return atomPoly(fe.atomKeyOf(v))
}

// ---------------------------------------------------------------------------
// phi leaves

type phiLeaf struct {
	val  ssa.Value
	from *ssa.BasicBlock // the predecessor block the value arrives from
	at   *ssa.BasicBlock // the block of the phi it enters
}

// leavesOf flattens (nested) phis into their reaching definitions.
func leavesOf(v ssa.Value) []phiLeaf {
	var out []phiLeaf
	seen := map[ssa.Value]bool{}
	var walk func(v ssa.Value, from, at *ssa.BasicBlock)
	walk = func(v ssa.Value, from, at *ssa.BasicBlock) {
		ph, ok := v.(*ssa.Phi)
		if !ok {
			// a member of a local struct variable: its reaching definitions are its leaves
			if ld, isLd := v.(*ssa.UnOp); isLd && ld.Op == token.MUL && !seen[v] {
				if _, isLocal := localMemberOf(ld.X); isLocal {
					seen[v] = true
					if sv, ok := forwardLoad(ld); ok {
						walk(sv, from, at)
						return
					}
					if ms := memoryMerge(ld); len(ms) > 1 {
						for _, m := range ms {
							walk(m.val, m.from, m.at)
						}
						return
					}
				}
			}
			out = append(out, phiLeaf{v, from, at})
			return
		}
		if seen[ph] {
			return
		}
		seen[ph] = true
		// a merge all of whose uses lie where only one incoming edge is feasible
		// (a result paired with an ok flag that is tested before every use) is that edge's value
		if rv, ok := resolvePhiByUses(ph); ok {
			walk(rv, from, at)
			return
		}
		for i, e := range ph.Edges {
			walk(e, ph.Block().Preds[i], ph.Block())
		}
	}
	walk(v, nil, nil)
	return out
}

// ---------------------------------------------------------------------------
// enum-set dataflow: possible constant values of a discriminant at each block

type enumSet struct {
	vals   map[int64]bool
	others bool // values not in the compared universe
}

func (s enumSet) String() string {
	var ks []int64
	for k := range s.vals {
		ks = append(ks, k)
	}
	sort.Slice(ks, func(i, j int) bool { return ks[i] < ks[j] })
	var parts []string
	for _, k := range ks {
		parts = append(parts, fmt.Sprint(k))
	}
	if s.others {
		parts = append(parts, "other")
	}
	return "{" + strings.Join(parts, ",") + "}"
}

// enumFlow computes, for every block, the set of values the expression
// identified by isDisc may have on entry to the block, from the equality
// tests against constants along the way.
func enumFlow(f *ssa.Function, isDisc func(v ssa.Value) bool) map[*ssa.BasicBlock]enumSet {
	universe := map[int64]bool{}
	eachInstr(f, func(_ *ssa.BasicBlock, _ int, ins ssa.Instruction) {
		if bo, ok := ins.(*ssa.BinOp); ok && (bo.Op == token.EQL || bo.Op == token.NEQ) {
			if isDisc(bo.X) {
				if k, ok := constInt(bo.Y); ok {
					universe[k] = true
				}
			} else if isDisc(bo.Y) {
				if k, ok := constInt(bo.X); ok {
					universe[k] = true
				}
			}
		}
	})
	full := func() enumSet {
		s := enumSet{vals: map[int64]bool{}, others: true}
		for k := range universe {
			s.vals[k] = true
		}
		return s
	}
	in := map[*ssa.BasicBlock]enumSet{}
	visited := map[*ssa.BasicBlock]bool{}
	union := func(a, b enumSet) (enumSet, bool) {
		changed := false
		r := enumSet{vals: map[int64]bool{}, others: a.others || b.others}
		if r.others != a.others {
			changed = true
		}
		for k := range a.vals {
			r.vals[k] = true
		}
		for k := range b.vals {
			if !r.vals[k] {
				r.vals[k] = true
				changed = true
			}
		}
		return r, changed
	}
	if len(f.Blocks) == 0 {
		return in
	}
	in[f.Blocks[0]] = full()
	visited[f.Blocks[0]] = true
	work := []*ssa.BasicBlock{f.Blocks[0]}
	for len(work) > 0 {
		b := work[0]
		work = work[1:]
		cur := in[b]
		outs := make([]enumSet, len(b.Succs))
		for i := range outs {
			outs[i] = cur
		}
		if len(b.Instrs) > 0 {
			if ifi, ok := b.Instrs[len(b.Instrs)-1].(*ssa.If); ok {
				if bo, ok := ifi.Cond.(*ssa.BinOp); ok && (bo.Op == token.EQL || bo.Op == token.NEQ) {
					var k int64
					have := false
					if isDisc(bo.X) {
						k, have = constInt(bo.Y)
					} else if isDisc(bo.Y) {
						k, have = constInt(bo.X)
					}
					if have {
						eq := enumSet{vals: map[int64]bool{}}
						if cur.vals[k] {
							eq.vals[k] = true
						}
						ne := enumSet{vals: map[int64]bool{}, others: cur.others}
						for v := range cur.vals {
							if v != k {
								ne.vals[v] = true
							}
						}
						if bo.Op == token.EQL {
							outs[0], outs[1] = eq, ne
						} else {
							outs[0], outs[1] = ne, eq
						}
					}
				}
			}
		}
		for i, s := range b.Succs {
			if !visited[s] {
				visited[s] = true
				in[s] = enumSet{vals: map[int64]bool{}}
			}
			n, changed := union(in[s], outs[i])
			if changed || len(in[s].vals) == 0 && !in[s].others && (len(n.vals) > 0 || n.others) {
				in[s] = n
				work = append(work, s)
			} else {
				in[s] = n
			}
		}
	}
	return in
}

// relOnEdge: what is known about (a ? b) when control arrives in block `at`
// coming from `from`: examines the If that ends `from` (if the edge from->at is
// one of its branches) and every If whose edge dominates `from`.
// Returns the set of relations that hold: "<", "<=", ">", ">=", "==", "!=".
func relOnEdge(fe *formEval, a, b poly, from, at *ssa.BasicBlock) map[string]bool {
	out := map[string]bool{}
	f := fe.f
	consider := func(ifb *ssa.BasicBlock, taken bool) {
		ifi, ok := ifb.Instrs[len(ifb.Instrs)-1].(*ssa.If)
		if !ok {
			return
		}
		bo, ok := ifi.Cond.(*ssa.BinOp)
		if !ok {
			return
		}
		x, y := fe.eval(bo.X), fe.eval(bo.Y)
		op := bo.Op
		switch {
		case polyEqual(x, a) && polyEqual(y, b):
		case polyEqual(x, b) && polyEqual(y, a):
			switch op {
			case token.LSS:
				op = token.GTR
			case token.LEQ:
				op = token.GEQ
			case token.GTR:
				op = token.LSS
			case token.GEQ:
				op = token.LEQ
			}
		default:
			return
		}
		if !taken {
			switch op {
			case token.LSS:
				op = token.GEQ
			case token.LEQ:
				op = token.GTR
			case token.GTR:
				op = token.LEQ
			case token.GEQ:
				op = token.LSS
			case token.EQL:
				op = token.NEQ
			case token.NEQ:
				op = token.EQL
			}
		}
		switch op {
		case token.LSS:
			out["<"], out["<="], out["!="] = true, true, true
		case token.LEQ:
			out["<="] = true
		case token.GTR:
			out[">"], out[">="], out["!="] = true, true, true
		case token.GEQ:
			out[">="] = true
		case token.EQL:
			out["=="], out["<="], out[">="] = true, true, true
		case token.NEQ:
			out["!="] = true
		}
	}
	if from != nil && at != nil && len(from.Instrs) > 0 {
		if _, ok := from.Instrs[len(from.Instrs)-1].(*ssa.If); ok {
			// which branch leads to `at`?
			if from.Succs[0] == at && from.Succs[1] != at {
				consider(from, true)
			} else if from.Succs[1] == at && from.Succs[0] != at {
				consider(from, false)
			}
		}
	}
	target := from
	if target == nil {
		target = at
	}
	for _, blk := range f.Blocks {
		if len(blk.Instrs) == 0 || blk == from {
			continue
		}
		if _, ok := blk.Instrs[len(blk.Instrs)-1].(*ssa.If); !ok {
			continue
		}
		if edgeDominates(blk, blk.Succs[0], target) && !edgeDominates(blk, blk.Succs[1], target) {
			consider(blk, true)
		} else if edgeDominates(blk, blk.Succs[1], target) && !edgeDominates(blk, blk.Succs[0], target) {
			consider(blk, false)
		}
	}
	return out
}

// pairFlow: the relational version of enumFlow for two discriminants: the set
// of (a, t) value pairs possible at each block, where "other" (-999) stands for
// every value never compared.  Tests on one discriminant filter the pairs, joins
// take the union, so `a == X` established on one path is not mixed with `t == Y`
// established on another.
type pairSet map[[2]int64]bool

const enumOther = int64(-999)

func pairFlow(f *ssa.Function, isA, isT func(v ssa.Value) bool) (map[*ssa.BasicBlock]pairSet, func(from, to *ssa.BasicBlock) pairSet) {
	univ := func(isD func(v ssa.Value) bool) []int64 {
		set := map[int64]bool{}
		eachInstr(f, func(_ *ssa.BasicBlock, _ int, ins ssa.Instruction) {
			if bo, ok := ins.(*ssa.BinOp); ok && (bo.Op == token.EQL || bo.Op == token.NEQ) {
				if isD(bo.X) {
					if k, ok := constInt(bo.Y); ok {
						set[k] = true
					}
				} else if isD(bo.Y) {
					if k, ok := constInt(bo.X); ok {
						set[k] = true
					}
				}
			}
		})
		out := []int64{enumOther}
		for k := range set {
			out = append(out, k)
		}
		return out
	}
	ua, ut := univ(isA), univ(isT)
	full := pairSet{}
	for _, a := range ua {
		for _, t := range ut {
			full[[2]int64{a, t}] = true
		}
	}
	// the test ending block b, as a filter per successor
	filter := func(b *ssa.BasicBlock, cur pairSet, succ int) pairSet {
		if len(b.Instrs) == 0 || len(b.Succs) != 2 || b.Succs[0] == b.Succs[1] {
			return cur
		}
		ifi, ok := b.Instrs[len(b.Instrs)-1].(*ssa.If)
		if !ok {
			return cur
		}
		bo, ok := ifi.Cond.(*ssa.BinOp)
		if !ok || (bo.Op != token.EQL && bo.Op != token.NEQ) {
			return cur
		}
		which := -1
		var k int64
		var have bool
		switch {
		case isA(bo.X):
			which = 0
			k, have = constInt(bo.Y)
		case isA(bo.Y):
			which = 0
			k, have = constInt(bo.X)
		case isT(bo.X):
			which = 1
			k, have = constInt(bo.Y)
		case isT(bo.Y):
			which = 1
			k, have = constInt(bo.X)
		}
		if which < 0 || !have {
			return cur
		}
		wantEq := (bo.Op == token.EQL) == (succ == 0)
		out := pairSet{}
		for p := range cur {
			if (p[which] == k) == wantEq {
				out[p] = true
			}
		}
		return out
	}
	in := map[*ssa.BasicBlock]pairSet{}
	if len(f.Blocks) == 0 {
		return in, func(from, to *ssa.BasicBlock) pairSet { return pairSet{} }
	}
	in[f.Blocks[0]] = full
	work := []*ssa.BasicBlock{f.Blocks[0]}
	for len(work) > 0 {
		b := work[0]
		work = work[1:]
		for i, s2 := range b.Succs {
			out := filter(b, in[b], i)
			if in[s2] == nil {
				in[s2] = pairSet{}
			}
			changed := false
			for p := range out {
				if !in[s2][p] {
					in[s2][p] = true
					changed = true
				}
			}
			if changed {
				work = append(work, s2)
			}
		}
	}
	onEdge := func(from, to *ssa.BasicBlock) pairSet {
		out := pairSet{}
		for i, s2 := range from.Succs {
			if s2 == to {
				for p := range filter(from, in[from], i) {
					out[p] = true
				}
			}
		}
		return out
	}
	return in, onEdge
}

// enumOnEdge refines the in-set of `from` by the branch taken towards `to`.
func enumOnEdge(in map[*ssa.BasicBlock]enumSet, isDisc func(v ssa.Value) bool, from, to *ssa.BasicBlock) enumSet {
	cur := in[from]
	if len(from.Instrs) == 0 {
		return cur
	}
	ifi, ok := from.Instrs[len(from.Instrs)-1].(*ssa.If)
	if !ok {
		return cur
	}
	bo, ok := ifi.Cond.(*ssa.BinOp)
	if !ok || (bo.Op != token.EQL && bo.Op != token.NEQ) {
		return cur
	}
	var k int64
	have := false
	if isDisc(bo.X) {
		k, have = constInt(bo.Y)
	} else if isDisc(bo.Y) {
		k, have = constInt(bo.X)
	}
	if !have || from.Succs[0] == from.Succs[1] {
		return cur
	}
	eq := enumSet{vals: map[int64]bool{}}
	if cur.vals[k] {
		eq.vals[k] = true
	}
	ne := enumSet{vals: map[int64]bool{}, others: cur.others}
	for v := range cur.vals {
		if v != k {
			ne.vals[v] = true
		}
	}
	taken := from.Succs[0] == to
	if (bo.Op == token.EQL) == taken {
		return eq
	}
	return ne
}

// forwardLoad: store-to-load forwarding along the straight-line path that
// dominates the load: the most recent store to the same access path (same
// root value, same member chain) in the load's block or in its chain of
// unique predecessors, with no intervening call that receives the root.
func forwardLoad(ld *ssa.UnOp) (ssa.Value, bool) {
	// a member of a local struct variable that does not escape: its single reaching definition
	if defs, ok := memLeaves(ld); ok && len(defs) == 1 && defs[0].from == nil {
		if defs[0].val != nil {
			return defs[0].val, true
		}
		if z := zeroConstOf(ld.Type()); z != nil {
			return z, true
		}
	}
	lp, ok := pathOf(ld)
	if !ok || len(lp.Elems) == 0 {
		return nil, false
	}
	want := strings.Join(lp.Elems, ".")
	b := ld.Block()
	idx := instrIndex(ld)
	for hops := 0; hops < 12; hops++ {
		for i := idx - 1; i >= 0; i-- {
			switch x := b.Instrs[i].(type) {
			case *ssa.Store:
				sp, ok := pathOfAddr(x.Addr)
				if ok && sp.Root == lp.Root && strings.Join(sp.Elems, ".") == want {
					return x.Val, true
				}
				if ok && sp.Root == lp.Root && strings.HasPrefix(want, strings.Join(sp.Elems, ".")) && len(sp.Elems) < len(lp.Elems) {
					return nil, false // an enclosing member was replaced
				}
			case ssa.CallInstruction:
				for _, a := range x.Common().Args {
					if stripConv(a) == lp.Root {
						return nil, false
					}
				}
			}
		}
		if len(b.Preds) != 1 {
			return nil, false
		}
		b = b.Preds[0]
		idx = len(b.Instrs)
	}
	return nil, false
}

// pathOfAddr: access path of the location an address denotes.
func pathOfAddr(addr ssa.Value) (accessPath, bool) {
	fa, ok := addr.(*ssa.FieldAddr)
	if !ok {
		return accessPath{}, false
	}
	st := derefStruct(fa.X.Type())
	if st == nil {
		return accessPath{}, false
	}
	base, ok := pathOf(fa.X)
	if !ok {
		return accessPath{}, false
	}
	// pathOf(fa.X) describes the pointer value; when it is itself an Alloc/param the path is the root
	return accessPath{Root: base.Root, Elems: append(append([]string{}, base.Elems...), st.Field(fa.Field).Name())}, true
}

// ---------------------------------------------------------------------------
// memory merges: a load at a join whose value was stored on every incoming path

type formAlt struct {
	form     poly
	from, at *ssa.BasicBlock // the edge the alternative arrives on (nil: unconditional)
	// edges lists, outermost first, the merge edges that were chosen to obtain this
	// alternative (SSA merges only; from/at is the innermost of them)
	edges [][2]*ssa.BasicBlock
}

// phiAlts expands the SSA merges v depends on (through arithmetic, conversions
// and forwarded loads) into one alternative per combination of incoming
// edges: a variable assigned on several branches and stored once after the
// join is described branch by branch.  Bounded: at most 3 nested merges and
// 32 alternatives; nil when the bounds are exceeded.
func (fe *formEval) phiAlts(v ssa.Value) []formAlt {
	type actx struct {
		over  map[ssa.Value]ssa.Value
		edges [][2]*ssa.BasicBlock
	}
	phisIn := func(v ssa.Value, over map[ssa.Value]ssa.Value) []*ssa.Phi {
		var out []*ssa.Phi
		seen := map[ssa.Value]bool{}
		var walk func(v ssa.Value)
		walk = func(v ssa.Value) {
			if v == nil || seen[v] {
				return
			}
			seen[v] = true
			if o, ok := over[v]; ok {
				walk(o)
				return
			}
			switch x := v.(type) {
			case *ssa.UnOp:
				if x.Op == token.MUL {
					if sv, ok := forwardLoad(x); ok {
						walk(sv)
					}
					return
				}
				walk(x.X)
			case *ssa.BinOp:
				walk(x.X)
				walk(x.Y)
			case *ssa.Convert:
				walk(x.X)
			case *ssa.ChangeType:
				walk(x.X)
			case *ssa.Phi:
				out = append(out, x)
			}
		}
		walk(v)
		return out
	}
	var results []actx
	fail := false
	var expand func(ctx actx, depth int)
	expand = func(ctx actx, depth int) {
		if fail {
			return
		}
		phis := phisIn(v, ctx.over)
		if len(phis) == 0 {
			results = append(results, ctx)
			if len(results) > 32 {
				fail = true
			}
			return
		}
		if len(phis) > 1 || depth >= 3 {
			fail = true
			return
		}
		root := phis[0]
		for i, e := range root.Edges {
			over := map[ssa.Value]ssa.Value{}
			for k, val := range ctx.over {
				over[k] = val
			}
			over[root] = e
			edges := append(append([][2]*ssa.BasicBlock{}, ctx.edges...), [2]*ssa.BasicBlock{root.Block().Preds[i], root.Block()})
			if e == ssa.Value(root) {
				continue
			}
			expand(actx{over, edges}, depth+1)
		}
	}
	expand(actx{map[ssa.Value]ssa.Value{}, nil}, 0)
	if fail {
		return nil
	}
	var out []formAlt
	for _, ctx := range results {
		sub := newFormEval(fe.f)
		sub.ord = fe.ord
		over := ctx.over
		sub.override = func(x ssa.Value) (poly, bool) {
			if o, ok := over[x]; ok {
				return sub.eval(o), true
			}
			return nil, false
		}
		fa := formAlt{form: sub.eval(v), edges: ctx.edges}
		if n := len(ctx.edges); n > 0 {
			fa.from, fa.at = ctx.edges[n-1][0], ctx.edges[n-1][1]
		}
		out = append(out, fa)
	}
	return out
}

// storeBefore searches backwards from (b, idx) along unique predecessors for a
// store to the access path of ld.
func storeBefore(ld *ssa.UnOp, b *ssa.BasicBlock, idx int) (ssa.Value, bool) {
	lp, ok := pathOf(ld)
	if !ok || len(lp.Elems) == 0 {
		return nil, false
	}
	want := strings.Join(lp.Elems, ".")
	for hops := 0; hops < 12; hops++ {
		for i := idx - 1; i >= 0; i-- {
			switch x := b.Instrs[i].(type) {
			case *ssa.Store:
				sp, ok := pathOfAddr(x.Addr)
				if ok && sp.Root == lp.Root && strings.Join(sp.Elems, ".") == want {
					return x.Val, true
				}
			case ssa.CallInstruction:
				for _, a := range x.Common().Args {
					if stripConv(a) == lp.Root {
						return nil, false
					}
				}
			}
		}
		if len(b.Preds) != 1 {
			return nil, false
		}
		b = b.Preds[0]
		idx = len(b.Instrs)
	}
	return nil, false
}

// memoryMerge: ld sits in (or below, along unique predecessors) a join block and
// every predecessor path of that join stores the location.
func memoryMerge(ld *ssa.UnOp) []phiLeaf {
	// a member of a non-escaping local struct assigned on several branches
	if defs, ok := memLeaves(ld); ok && len(defs) > 1 {
		var out []phiLeaf
		for _, d := range defs {
			v := d.val
			if v == nil {
				v = zeroConstOf(ld.Type())
				if v == nil {
					return nil
				}
			}
			out = append(out, phiLeaf{val: v, from: d.from, at: d.at})
		}
		return out
	}
	b := ld.Block()
	idx := instrIndex(ld)
	for hops := 0; hops < 12; hops++ {
		if _, ok := storeBefore(ld, b, idx); ok && hops == 0 {
			return nil // plain forwarding applies
		}
		// any store in this block before idx? then not a merge
		if len(b.Preds) >= 2 {
			var out []phiLeaf
			for _, p := range b.Preds {
				v, ok := storeBefore(ld, p, len(p.Instrs))
				if !ok {
					return nil
				}
				out = append(out, phiLeaf{val: v, from: p, at: b})
			}
			return out
		}
		if len(b.Preds) != 1 {
			return nil
		}
		b = b.Preds[0]
		idx = len(b.Instrs)
	}
	return nil
}

// evalAlts evaluates v; when exactly one load under v is a memory merge it
// returns one form per incoming path, otherwise the single form.
func (fe *formEval) evalAlts(v ssa.Value) []formAlt {
	var merges []*ssa.UnOp
	var phis []*ssa.Phi
	seen := map[ssa.Value]bool{}
	var walk func(v ssa.Value)
	walk = func(v ssa.Value) {
		if seen[v] {
			return
		}
		seen[v] = true
		switch x := v.(type) {
		case *ssa.UnOp:
			if x.Op == token.MUL {
				if sv, ok := forwardLoad(x); ok {
					walk(sv)
				} else if m := memoryMerge(x); m != nil {
					merges = append(merges, x)
				}
				return
			}
			walk(x.X)
		case *ssa.BinOp:
			walk(x.X)
			walk(x.Y)
		case *ssa.Convert:
			walk(x.X)
		case *ssa.ChangeType:
			walk(x.X)
		case *ssa.Phi:
			phis = append(phis, x)
		}
	}
	walk(v)
	if len(merges) == 0 && len(phis) == 1 {
		if out := fe.phiAlts(v); len(out) > 1 {
			return out
		}
	}
	if len(merges) != 1 {
		return []formAlt{{form: fe.eval(v)}}
	}
	ld := merges[0]
	var out []formAlt
	for _, alt := range memoryMerge(ld) {
		sub := newFormEval(fe.f)
		sub.ord = fe.ord
		av := alt.val
		sub.override = func(x ssa.Value) (poly, bool) {
			if x == ssa.Value(ld) {
				return fe.eval(av), true
			}
			return nil, false
		}
		out = append(out, formAlt{form: sub.eval(v), from: alt.from, at: alt.at})
	}
	return out
}

// isMinFunction: the function returns its smaller argument: if a < b { return a }; return b.
func isMinFunction(f *ssa.Function) bool {
	if len(f.Params) != 2 || f.Blocks == nil {
		return false
	}
	a, b := ssa.Value(f.Params[0]), ssa.Value(f.Params[1])
	ok := true
	n := 0
	for _, ri := range returnsOf(f) {
		if len(ri.Vals) != 1 {
			return false
		}
		n++
		v := ri.Vals[0]
		blk := ri.At
		// find the dominating comparison edge
		good := false
		for _, bb := range f.Blocks {
			if len(bb.Instrs) == 0 {
				continue
			}
			ifi, isIf := bb.Instrs[len(bb.Instrs)-1].(*ssa.If)
			if !isIf {
				continue
			}
			bo, isBo := ifi.Cond.(*ssa.BinOp)
			if !isBo {
				continue
			}
			for i, s := range bb.Succs {
				if !edgeDominates(bb, s, blk) {
					continue
				}
				taken := i == 0
				// normalise to a OP b
				op := bo.Op
				x, y := bo.X, bo.Y
				if x == b && y == a {
					switch op {
					case token.LSS:
						op = token.GTR
					case token.LEQ:
						op = token.GEQ
					case token.GTR:
						op = token.LSS
					case token.GEQ:
						op = token.LEQ
					}
				} else if !(x == a && y == b) {
					continue
				}
				aSmaller := (taken && (op == token.LSS || op == token.LEQ)) || (!taken && (op == token.GTR || op == token.GEQ))
				bSmaller := (taken && (op == token.GTR || op == token.GEQ)) || (!taken && (op == token.LSS || op == token.LEQ))
				if (v == a && aSmaller) || (v == b && bSmaller) {
					good = true
				}
			}
		}
		if !good {
			ok = false
		}
	}
	return ok && n >= 2
}

// zeroConstOf: the zero value of a basic or pointer-like type as a constant.
func zeroConstOf(t types.Type) ssa.Value {
	switch u := t.Underlying().(type) {
	case *types.Basic:
		switch {
		case u.Info()&types.IsInteger != 0:
			return ssa.NewConst(constant.MakeInt64(0), t)
		case u.Info()&types.IsBoolean != 0:
			return ssa.NewConst(constant.MakeBool(false), t)
		case u.Info()&types.IsString != 0:
			return ssa.NewConst(constant.MakeString(""), t)
		}
	case *types.Pointer, *types.Interface, *types.Slice, *types.Map, *types.Chan, *types.Signature:
		return ssa.NewConst(nil, t)
	}
	return nil
}
