package main

import (
	"fmt"
	"go/constant"
	"go/token"
	"go/types"
	"os"
	"reflect"
	"sort"
	"strconv"
	"strings"

	"golang.org/x/tools/go/ssa"
)

// C04: BER encoder output is well-formed (shape of all schema types, panic
// freedom, three value clauses).   C05: decode(encode(v)) == v (decodability
// of the schema, sibling agreement of the two codec halves).

func init() {
	register("C04", "other", checkC04)
	register("C05", "other", checkC05)
}

// codecFacts: what one half of the codec handles, extracted from its SSA.
type codecFacts struct {
	kinds          map[int64]bool  // reflect.Kind constants compared with Kind()
	specials       map[string]bool // reflect.Type globals compared with the value's type
	convNames      map[string]bool // first-field names tested ("Value", "List", "Present")
	usesParse      bool            // calls parseFieldParameters
	elemTagCleared bool            // list elements are processed with tagNumber == nil
	elemCallFound  bool
}

var kindNames = map[int64]string{}

func init() {
	for k := reflect.Invalid; k <= reflect.UnsafePointer; k++ {
		kindNames[int64(k)] = k.String()
	}
}

func extractCodecFacts(c *Ctx, f *ssa.Function) *codecFacts {
	cf := &codecFacts{kinds: map[int64]bool{}, specials: map[string]bool{}, convNames: map[string]bool{}}
	eachInstr(f, func(_ *ssa.BasicBlock, _ int, ins ssa.Instruction) {
		switch x := ins.(type) {
		case *ssa.BinOp:
			if x.Op != token.EQL && x.Op != token.NEQ {
				return
			}
			for _, pair := range [][2]ssa.Value{{x.X, x.Y}, {x.Y, x.X}} {
				a, b := pair[0], pair[1]
				if call, ok := a.(*ssa.Call); ok && isFunc(calleeObj(&call.Call), "reflect", "Value.Kind") {
					if k, ok := constInt(b); ok {
						cf.kinds[k] = true
					}
				}
				if ld, ok := a.(*ssa.UnOp); ok && ld.Op == token.MUL {
					if g, ok := ld.X.(*ssa.Global); ok && strings.HasSuffix(g.Name(), "Type") {
						cf.specials[g.Name()] = true
					}
				}
				if s, ok := constString(b); ok && s != "" {
					// Field(0).Name == "..."
					for d := range depSet(f, a) {
						if call, ok := d.(*ssa.Call); ok {
							if obj := calleeObj(&call.Call); obj != nil && obj.Name() == "Field" {
								cf.convNames[s] = true
							}
						}
					}
				}
			}
		case *ssa.Call:
			if sc := x.Call.StaticCallee(); sc != nil && sc.Name() == "parseFieldParameters" {
				cf.usesParse = true
			}
			// recursive call on a list element
			if sc := x.Call.StaticCallee(); sc == f && len(x.Call.Args) >= 2 {
				fromIndex := false
				if call, ok := x.Call.Args[0].(*ssa.Call); ok && isFunc(calleeObj(&call.Call), "reflect", "Value.Index") {
					fromIndex = true
				}
				if !fromIndex {
					return
				}
				cf.elemCallFound = true
				pv := x.Call.Args[len(x.Call.Args)-1]
				if ld, ok := pv.(*ssa.UnOp); ok && ld.Op == token.MUL {
					if a, ok := ld.X.(*ssa.Alloc); ok {
						for _, st := range storesToField(a, "tagNumber") {
							if isNilConst(st.Val) && instrDominates(st, x) {
								cf.elemTagCleared = true
							}
						}
					}
				}
			}
		}
	})
	return cf
}

func kindSetString(m map[int64]bool) string {
	var ks []int64
	for k := range m {
		ks = append(ks, k)
	}
	sort.Slice(ks, func(i, j int) bool { return ks[i] < ks[j] })
	var parts []string
	for _, k := range ks {
		parts = append(parts, kindNames[k])
	}
	return strings.Join(parts, ",")
}

// ---------------------------------------------------------------------------
// the `ber:` tag language (mirrors asn.parseFieldParameters; only what the walk needs)

type berParams struct {
	optional   bool
	openType   bool
	tagNumber  *uint64
	explicit   bool
	set        bool
	stringType int
}

func parseBerTag(str string) berParams {
	var p berParams
	for _, part := range strings.Split(str, ",") {
		switch {
		case part == "optional":
			p.optional = true
		case part == "openType":
			p.openType = true
		case strings.HasPrefix(part, "tagNum:"):
			if i, err := strconv.ParseInt(part[7:], 10, 64); err == nil {
				u := uint64(i)
				p.tagNumber = &u
			}
		case part == "explicit":
			p.explicit = true
		case part == "set":
			p.set = true
		case part == "utf8":
			p.stringType = 12
		case part == "ia5":
			p.stringType = 22
		case part == "graphic":
			p.stringType = 25
		}
	}
	return p
}

// ---------------------------------------------------------------------------
// schema walker

type schemaWalker struct {
	c        *Ctx
	r        *Report
	enc, dec *codecFacts
	asn      *types.Package
	special  map[string]types.Type // global name -> type
	visited  map[string]bool
	nTypes   int
	nNodes   int
	forC05   bool
	ruleEnc  string
	ruleDec  string
}

func kindOf(t types.Type) int64 {
	switch u := t.Underlying().(type) {
	case *types.Basic:
		switch u.Kind() {
		case types.Bool:
			return int64(reflect.Bool)
		case types.Int:
			return int64(reflect.Int)
		case types.Int8:
			return int64(reflect.Int8)
		case types.Int16:
			return int64(reflect.Int16)
		case types.Int32:
			return int64(reflect.Int32)
		case types.Int64:
			return int64(reflect.Int64)
		case types.Uint:
			return int64(reflect.Uint)
		case types.Uint8:
			return int64(reflect.Uint8)
		case types.Uint16:
			return int64(reflect.Uint16)
		case types.Uint32:
			return int64(reflect.Uint32)
		case types.Uint64:
			return int64(reflect.Uint64)
		case types.Float32:
			return int64(reflect.Float32)
		case types.Float64:
			return int64(reflect.Float64)
		case types.String:
			return int64(reflect.String)
		}
	case *types.Struct:
		return int64(reflect.Struct)
	case *types.Slice:
		return int64(reflect.Slice)
	case *types.Pointer:
		return int64(reflect.Ptr)
	case *types.Map:
		return int64(reflect.Map)
	case *types.Array:
		return int64(reflect.Array)
	case *types.Interface:
		return int64(reflect.Interface)
	case *types.Chan:
		return int64(reflect.Chan)
	case *types.Signature:
		return int64(reflect.Func)
	}
	return 0
}

func nillableKind(k int64) bool {
	switch reflect.Kind(k) {
	case reflect.Ptr, reflect.Slice, reflect.Map, reflect.Interface, reflect.Chan, reflect.Func:
		return true
	}
	return false
}

func (w *schemaWalker) specialName(t types.Type) string {
	for name, st := range w.special {
		if !w.enc.specials[name] && !w.dec.specials[name] {
			continue // a reflect.Type global that no type switch uses (plain string kinds)
		}
		if types.Identical(t, st) {
			return name
		}
	}
	return ""
}

// isSchemaStruct: a named struct of the schema package that is not a Value/List wrapper.
func (w *schemaWalker) isSchemaStruct(t types.Type) bool {
	n, ok := t.(*types.Named)
	if !ok || n.Obj().Pkg() == nil || n.Obj().Pkg().Path() != cdrTypePath {
		return false
	}
	st, ok := n.Underlying().(*types.Struct)
	if !ok || st.NumFields() == 0 {
		return false
	}
	first := st.Field(0).Name()
	return first != "Value" && first != "List"
}

func (w *schemaWalker) viol(rule, key, pos, msg string) {
	if rule != "" {
		w.r.viol(rule, key, pos, msg)
	}
}

// walk mirrors makeField / ParseField on the static type.
func (w *schemaWalker) walk(t types.Type, p berParams, path string, pos token.Pos, depth int) {
	w.nNodes++
	c := w.c
	if depth > 40 {
		w.viol(w.ruleEnc, path+"|depth", c.rel(pos), "wrapper chain does not terminate")
		return
	}
	if pt, ok := t.Underlying().(*types.Pointer); ok {
		w.walk(pt.Elem(), p, path, pos, depth+1)
		return
	}
	if depth > 0 && w.isSchemaStruct(t) {
		return // walked as a type of its own
	}
	if sn := w.specialName(t); sn != "" {
		if !w.enc.specials[sn] {
			w.viol(w.ruleEnc, path+"|special", c.rel(pos), "special type "+sn+" is not handled by the encoder")
		}
		if w.forC05 && !w.dec.specials[sn] {
			w.viol(w.ruleDec, path+"|special", c.rel(pos), "special type "+sn+" is not handled by the decoder")
		}
		return
	}
	k := kindOf(t)
	switch reflect.Kind(k) {
	case reflect.Struct:
		st := t.Underlying().(*types.Struct)
		if st.NumFields() == 0 {
			w.viol(w.ruleEnc, path+"|empty struct", c.rel(pos), "struct without fields: the codec evaluates Field(0) unconditionally and reflect panics")
			return
		}
		first := st.Field(0).Name()
		switch {
		case first == "Value" || first == "List":
			w.walk(st.Field(0).Type(), p, path+"."+first, st.Field(0).Pos(), depth+1)
		case first == "Present":
			if kk := reflect.Kind(kindOf(st.Field(0).Type())); kk != reflect.Int && kk != reflect.Int32 && kk != reflect.Int64 && kk != reflect.Int8 && kk != reflect.Int16 {
				w.viol(w.ruleEnc, path+"|Present kind", c.rel(st.Field(0).Pos()), "Present is not a signed integer: Value.Int() panics")
			}
			if p.openType || st.NumFields() == 1 {
				return // open type: both halves return an error
			}
			seen := map[uint64]string{}
			for i := 1; i < st.NumFields(); i++ {
				f := st.Field(i)
				fp := parseBerTag(reflect.StructTag(st.Tag(i)).Get("ber"))
				key := path + "." + f.Name()
				if w.forC05 {
					if fp.tagNumber == nil {
						w.viol(w.ruleDec, key+"|untagged alternative", c.rel(f.Pos()), "CHOICE alternative without tagNum: the decoder selects alternatives by context tag only and never selects this one (a value using it encodes but does not decode)")
					} else if other, dup := seen[*fp.tagNumber]; dup {
						w.viol(w.ruleDec, key+"|duplicate tag", c.rel(f.Pos()), fmt.Sprintf("alternatives %s and %s share tag %d", other, f.Name(), *fp.tagNumber))
					} else {
						seen[*fp.tagNumber] = f.Name()
					}
				}
				w.walk(f.Type(), fp, key, f.Pos(), depth+1)
			}
		default:
			seen := map[uint64]string{}
			for i := 0; i < st.NumFields(); i++ {
				f := st.Field(i)
				fp := parseBerTag(reflect.StructTag(st.Tag(i)).Get("ber"))
				key := path + "." + f.Name()
				if !f.Exported() {
					w.viol(w.ruleEnc, key+"|unexported", c.rel(f.Pos()), "unexported member: reflect cannot read it (Interface/Set panic)")
					continue
				}
				if fp.optional && !nillableKind(kindOf(f.Type())) {
					w.viol(w.ruleEnc, key+"|optional kind", c.rel(f.Pos()), "member tagged optional is of a kind IsNil panics on")
				}
				if w.forC05 {
					if fp.tagNumber == nil {
						w.viol(w.ruleDec, key+"|untagged member", c.rel(f.Pos()), "SEQUENCE/SET member without tagNum: the decoder matches members by context tag only, so a value of this type encodes but cannot be decoded (\"corresponding type not found\")")
					} else if other, dup := seen[*fp.tagNumber]; dup {
						w.viol(w.ruleDec, key+"|duplicate tag", c.rel(f.Pos()), fmt.Sprintf("members %s and %s share tag %d", other, f.Name(), *fp.tagNumber))
					} else {
						seen[*fp.tagNumber] = f.Name()
					}
				}
				if fp.openType {
					continue
				}
				w.walk(f.Type(), fp, key, f.Pos(), depth+1)
			}
		}
	case reflect.Slice:
		ep := p
		ep.tagNumber = nil
		w.walk(t.Underlying().(*types.Slice).Elem(), ep, path+"[]", pos, depth+1)
	case reflect.String:
		if !w.enc.kinds[k] {
			w.viol(w.ruleEnc, path+"|kind", c.rel(pos), "kind string is not handled by the encoder")
		}
		if p.tagNumber == nil && p.stringType == 0 {
			w.viol(w.ruleEnc, path+"|string without tag", c.rel(pos), "a string reached without a context tag and without a string type is emitted with universal tag number 0")
		}
	default:
		if !w.enc.kinds[k] {
			w.viol(w.ruleEnc, path+"|kind", c.rel(pos), "leaf of kind "+kindNames[k]+" is not handled by the encoder's kind switch: the content encoder stays nil and BerMarshal panics")
		}
		if w.forC05 && !w.dec.kinds[k] {
			w.viol(w.ruleDec, path+"|kind", c.rel(pos), "leaf of kind "+kindNames[k]+" is not handled by the decoder")
		}
	}
}

func newSchemaWalker(c *Ctx, r *Report, forC05 bool) *schemaWalker {
	w := &schemaWalker{c: c, r: r, forC05: forC05, special: map[string]types.Type{}, visited: map[string]bool{}}
	w.enc = extractCodecFacts(c, c.fn("cdr/asn", "makeField"))
	w.dec = extractCodecFacts(c, c.fn("cdr/asn", "ParseField"))
	// the reflect.Type globals
	initFn := c.SSA[asnPath].Func("init")
	eachInstr(initFn, func(_ *ssa.BasicBlock, _ int, ins ssa.Instruction) {
		st, ok := ins.(*ssa.Store)
		if !ok {
			return
		}
		g, ok := st.Addr.(*ssa.Global)
		if !ok {
			return
		}
		call, ok := st.Val.(*ssa.Call)
		if !ok || !isFunc(calleeObj(&call.Call), "reflect", "TypeOf") {
			return
		}
		if mi, ok := call.Call.Args[0].(*ssa.MakeInterface); ok {
			w.special[g.Name()] = mi.X.Type()
		}
	})
	if len(w.special) < 5 {
		broken("anchor: special reflect.Type globals of cdr/asn not found")
	}
	return w
}

func (w *schemaWalker) walkSchema() {
	p := w.c.pkg("cdr/cdrType")
	names := p.Types.Scope().Names()
	for _, name := range names {
		tn, ok := p.Types.Scope().Lookup(name).(*types.TypeName)
		if !ok || tn.IsAlias() {
			continue
		}
		w.nTypes++
		before := len(w.r.Obs)
		top := berParams{}
		if st, ok := tn.Type().Underlying().(*types.Struct); ok && st.NumFields() > 0 && (st.Field(0).Name() == "Value" || st.Field(0).Name() == "List") {
			// wrapper types are only ever used as members: their tag context is checked at each use
			dummy := uint64(0)
			top.tagNumber = &dummy
		}
		w.walk(tn.Type(), top, name, tn.Pos(), 0)
		// top-level use is always through a context tag or explicit,choice parameters: string leaves of top-level wrappers are not reported per type
		if len(w.r.Obs) == before {
			rule := w.ruleEnc
			if w.forC05 {
				rule = w.ruleDec
			}
			w.r.proven(rule, name, w.c.rel(tn.Pos()), "type walked like the reflection walk: every leaf kind handled, members well-formed")
		}
	}
}

// ---------------------------------------------------------------------------

func checkC04(c *Ctx, r *Report) {
	r.Explanation = "Shape of the encoder decided for every schema type, plus panic freedom and three value clauses: (R1) the kind case list, special types and struct conventions are extracted from makeField's SSA; (R2) every named type of cdr/cdrType is walked exactly as the reflection walk does and every node must be something the encoder handles (non-empty structs, optional members of nillable kind, integer Present, leaf kinds in the extracted case list, strings reached through a context tag) - exhaustive over the schema; (R3) every reflect Field/Index argument in makeField is within range on its path (relational analysis), in particular the CHOICE selector; (R4) the first content octet of a BIT STRING is within 0..7 for every bit length (interval analysis); (R5) BOOLEAN contents are the constants 0xFF / 0x00 on the true / false edge; (R6) errors of the recursive calls are returned, not swallowed, and unsupported constructs return an error; (R9) the number of octets written for a tag number, a content length and an INTEGER value is exactly the minimal number of base-128 / base-256 / two's-complement digits for every value - decided by an exact interval partition of the value range through the counting loops (no value is executed) - and the digits are written most significant first; (R7) on every path of makeField that reaches a use of the content encoder one has been stored (definite assignment; the no-match exit of the kind switch is R2's obligation), so e.g. a SEQUENCE whose OPTIONAL members are all absent is encoded, not a nil-interface panic."
	r.Undecided = []string{"first identifier octet (class / constructed bits) as a value", "children lengths summing to the parent length", "byte equality with an independent encoder (all value-level: no rule is offered)"}
	r.Exhaustive = true
	r.rule("C04.R1", "codec facts extracted from makeField", 3)
	r.rule("C04.R2", "every schema type is encodable by the reflection walk (exhaustive over cdr/cdrType)", 190)
	r.rule("C04.R3", "reflect Field/Index arguments are in range", 4)
	r.rule("C04.R4", "BIT STRING unused-bit count within 0..7", 1)
	r.rule("C04.R5", "BOOLEAN contents 0xFF / 0x00", 2)
	r.rule("C04.R11", "a declared tag number reaches the encoder in full width: the number parsed from the `ber:` tag is neither parsed nor converted in fewer bits than the member that holds it", 1)
	r.rule("C04.R12", "the length a string / octet-string encoder announces is the number of octets it writes: len of the value itself, in octets (not a count of characters)", 2)
	r.rule("C04.R13", "the tag number written for a member comes from its `tagNum:` parameter only (shared with C16.R7)", 1)
	r.rule("C04.R14", "the string-type keywords of the `ber:` tags select the universal tag numbers X.680 gives those types (utf8 12, ia5 22, graphic 25 ...)", 3)
	r.rule("C04.R15", "the digits of a tag number / length are written into the octets that were just appended for them: the index of every such write starts at the number of octets the header already has", 0)
	r.rule("C04.R16", "the octets of an element header are the slice appendTagAndLen returns (or a buffer that holds the longest header, 20 octets)", 2)
	r.rule("C04.R17", "descending into a pointer or a wrapper type (struct{Value}/struct{List}) makeField passes on the member's own tag number and EXPLICIT flag", 4)
	r.rule("C04.R18", "a BIT STRING announces 1 + len(Bytes) or 1 + ceil(BitLength/8) octets", 1)
	r.rule("C04.R6", "errors are returned: recursive calls, unsupported constructs, top level", 4)
	r.rule("C04.R7", "the content encoder is stored on every path that uses it (no nil-interface call)", 2)
	r.rule("C04.R9", "tag-number, length and INTEGER octet counts are exactly the minimal number of digits for every value (exact interval partition), digits written most significant first", 6)
	r.rule("C04.R10", "identifier and length octets have the bit layout of X.690 8.1.2 / 8.1.3: class<<6 | constructed 0x20 | tag number or 11111; continuation bit on all but the last tag octet; short length = the length, long = 0x80|count", 6)
	r.rule("C04.R8", "the encoding depends on the value, its type and the parameters only: no mutable package-level state on the encode path (memo tables keyed by reflect.Type identity excepted)", 8)

	w := newSchemaWalker(c, r, false)
	w.ruleEnc = "C04.R2"
	mk := c.fn("cdr/asn", "makeField")
	// the kinds the package documents as supported (Unmarshal's doc comment: bool, int, int32, int64, strings, structs, slices, pointers)
	missing := []string{}
	for _, k := range []reflect.Kind{reflect.Bool, reflect.Int, reflect.Int32, reflect.Int64, reflect.String, reflect.Struct, reflect.Slice, reflect.Ptr} {
		if !w.enc.kinds[int64(k)] {
			missing = append(missing, k.String())
		}
	}
	r.check(len(missing) == 0, "C04.R1", "kinds", c.rel(mk.Pos()), "kinds handled: "+kindSetString(w.enc.kinds), "the encoder's kind switch no longer handles "+strings.Join(missing, ",")+": a value of that kind leaves the content encoder nil and BerMarshal panics")
	r.check(len(w.enc.specials) >= 5, "C04.R1", "special types", c.rel(mk.Pos()), "special types: "+strings.Join(sortedKeysB(w.enc.specials), ","), "special-type switch of makeField not found")
	r.check(w.enc.convNames["Value"] && w.enc.convNames["List"] && w.enc.convNames["Present"], "C04.R1", "struct conventions", c.rel(mk.Pos()), "first-field conventions Value / List / Present", "struct conventions of makeField not found")
	w.walkSchema()
	r.count("schema_types", w.nTypes)
	r.count("schema_nodes_walked", w.nNodes)

	// ---- R3 reflect index safety
	c04ReflectIndex(c, r, mk, "C04.R3")
	c04ContentAssigned(c, r, mk, "C04.R7")
	c04DigitCounts(c, r, "C04.R9")
	berHeaderEncoder(c, r, "C04.R10")
	codecPurity(c, r, []*ssa.Function{c.fn("cdr/asn", "BerMarshalWithParams"), c.fn("cdr/asn", "BerMarshal")}, modPath+"/cdr/asn", "C04.R8", "encode")

	// ---- R4 bit string
	{
		f := c.fn("cdr/asn", "bitStringEncoder.Encode")
		re := newRangeEval(f)
		n := 0
		eachInstr(f, func(_ *ssa.BasicBlock, _ int, ins ssa.Instruction) {
			st, ok := ins.(*ssa.Store)
			if !ok {
				return
			}
			ia, ok := st.Addr.(*ssa.IndexAddr)
			if !ok {
				return
			}
			if k, ok := constInt(ia.Index); !ok || k != 0 {
				return
			}
			n++
			v := st.Val
			if cv, ok := v.(*ssa.Convert); ok {
				v = cv.X
			}
			rr := re.evalAt(v, st)
			r.check(rr.within(0, 7), "C04.R4", fnKey(f)+"|unused bits", posOf(c, st), fmt.Sprintf("initial octet within [%d,%d]", rr.lo, rr.hi),
				fmt.Sprintf("the initial octet (number of unused bits) ranges over [%d,%d]: X.690 allows 0..7 only - a bit length that is a multiple of 8 yields 8", rr.lo, rr.hi))
		})
		if n == 0 {
			r.viol("C04.R4", fnKey(f)+"|unused bits", c.rel(f.Pos()), "the initial octet of a BIT STRING is not written")
		}
	}

	// ---- R5 boolean
	{
		n := 0
		eachInstr(mk, func(_ *ssa.BasicBlock, _ int, ins ssa.Instruction) {
			mi, ok := ins.(*ssa.MakeInterface)
			if !ok || !typeIs(mi.X.Type(), asnPath, "byteEncoder") {
				return
			}
			v, isC := constInt(stripConv(mi.X))
			// which edge of v.Bool()?
			onTrue, onFalse := false, false
			for _, b := range mk.Blocks {
				if len(b.Instrs) == 0 {
					continue
				}
				ifi, ok := b.Instrs[len(b.Instrs)-1].(*ssa.If)
				if !ok {
					continue
				}
				call, ok := ifi.Cond.(*ssa.Call)
				if !ok || !isFunc(calleeObj(&call.Call), "reflect", "Value.Bool") {
					continue
				}
				if edgeDominates(b, b.Succs[0], mi.Block()) {
					onTrue = true
				}
				if edgeDominates(b, b.Succs[1], mi.Block()) {
					onFalse = true
				}
			}
			n++
			switch {
			case onTrue:
				r.check(isC && v == 0xff, "C04.R5", "BOOLEAN true", posOf(c, mi), "0xFF on the true edge", fmt.Sprintf("TRUE is encoded as %#x, DER/X.690 8.2.2 (as produced by the reference encoder) is 0xFF", v))
			case onFalse:
				r.check(isC && v == 0, "C04.R5", "BOOLEAN false", posOf(c, mi), "0x00 on the false edge", fmt.Sprintf("FALSE is encoded as %#x, must be 0x00", v))
			default:
				r.viol("C04.R5", "BOOLEAN other", posOf(c, mi), "a BOOLEAN content octet is produced outside the true/false edges")
			}
		})
		if n < 2 {
			r.viol("C04.R5", "BOOLEAN", c.rel(mk.Pos()), "BOOLEAN content constants not found")
		}
	}

	// ---- R6 error propagation
	checkParseWidths(c, r, "C04.R11", c.fn("cdr/asn", "parseFieldParameters"))
	c04LenIsOctetCount(c, r, "C04.R12")
	c04StringTypeTags(c, r, "C04.R14")
	c04HeaderCursor(c, r, "C04.R15")
	c04HeaderResult(c, r, "C04.R16")
	c04TagParamsPassThrough(c, r, "C04.R17")
	c04BitStringOctets(c, r, "C04.R18")
	c16TagNumberWriters(c, r, "C04.R13")
	c04ErrorPropagation(c, r, mk, "C04.R6")
	top := c.fn("cdr/asn", "BerMarshalWithParams")
	c04ErrorPropagation(c, r, top, "C04.R6")
}

// c04ReflectIndex: arguments of reflect Type.Field / Value.Field / Value.Index.
func c04ReflectIndex(c *Ctx, r *Report, f *ssa.Function, rule string) {
	c04ReflectIndexOpt(c, r, f, rule, false)
}

// lowOnly: decide only that the index cannot be negative (the decoder's element loops advance
// cursors the engine does not bound from above; their upper bounds are loop conditions C16.R3
// looks at)
func c04ReflectIndexOpt(c *Ctx, r *Report, f *ssa.Function, rule string, lowOnly bool) {
	e := newRelEngine(c, f, nil)
	// pure reflect size calls are named by their receiver so that two calls agree
	base := e.fe.override
	e.fe.override = func(v ssa.Value) (poly, bool) {
		if call, ok := v.(*ssa.Call); ok {
			if obj := calleeObj(&call.Call); obj != nil && obj.Pkg() != nil && obj.Pkg().Path() == "reflect" && (obj.Name() == "NumField" || obj.Name() == "Len") {
				var recv ssa.Value
				if call.Call.IsInvoke() {
					recv = call.Call.Value
				} else if len(call.Call.Args) > 0 {
					recv = call.Call.Args[0]
				}
				if recv != nil {
					key := obj.Name() + "(" + e.fe.atomKeyOf(stripLoadOfLocal(recv)) + ")"
					e.lows[key] = 0
					return atomPoly(key), true
				}
			}
		}
		return base(v)
	}
	// evaluate every reflect size call first, so that the set of size atoms does
	// not depend on the order in which index sites are visited
	eachInstr(f, func(_ *ssa.BasicBlock, _ int, ins ssa.Instruction) {
		if call, ok := ins.(*ssa.Call); ok {
			if obj := calleeObj(&call.Call); obj != nil && obj.Pkg() != nil && obj.Pkg().Path() == "reflect" && (obj.Name() == "NumField" || obj.Name() == "Len") {
				e.fe.eval(call)
			}
		}
	})
	cnt := map[string]int{}
	eachInstr(f, func(_ *ssa.BasicBlock, _ int, ins ssa.Instruction) {
		call, ok := ins.(*ssa.Call)
		if !ok {
			return
		}
		obj := calleeObj(&call.Call)
		if obj == nil || obj.Pkg() == nil || obj.Pkg().Path() != "reflect" {
			return
		}
		name := funcLocalName(obj)
		var recv, idx ssa.Value
		size := ""
		switch {
		case name == "Value.Field" || name == "Value.Index":
			recv, idx = call.Call.Args[0], call.Call.Args[1]
			size = "NumField"
			if name == "Value.Index" {
				size = "Len"
			}
		case obj.Name() == "Field" && call.Call.IsInvoke():
			recv, idx = call.Call.Value, call.Call.Args[0]
			size = "NumField"
		default:
			return
		}
		if k, ok := constInt(idx); ok && k == 0 && size == "NumField" {
			return // Field(0): non-emptiness is a schema obligation (R2)
		}
		cnt[name]++
		key := fmt.Sprintf("%s|%s#%d", fnKey(f), name, cnt[name])
		// the size of the receiver: for Value.Field the struct type's NumField
		sizeAtoms := []string{size + "(" + e.fe.atomKeyOf(stripLoadOfLocal(recv)) + ")"}
		// v.Type().NumField() for a reflect.Value receiver: any NumField atom of a type derived from the same value is accepted
		for a := range e.lows {
			if strings.HasPrefix(a, size+"(") {
				sizeAtoms = append(sizeAtoms, a)
			}
		}
		okLow, _ := e.prove(polyAdd(poly{}, e.fe.eval(idx), -1), 0, nil, call.Block())
		okHigh := false
		for _, sa := range sizeAtoms {
			if ok, _ := e.prove(polyAdd(e.fe.eval(idx), atomPoly(sa), -1), -1, nil, call.Block()); ok {
				okHigh = true
			}
		}
		if lowOnly {
			okLow = okLow || signNonNegative(idx, map[ssa.Value]bool{})
			r.check(okLow, rule, key, posOf(c, call), "index not negative on this path", "the reflect "+name+" index "+e.fe.eval(idx).String()+" can be negative where it is used (a look-up that reports `not found` as -1, a counter that starts below zero): reflect panics with `index out of range` instead of the decoder returning an error")
			return
		}
		r.check(okLow && okHigh, rule, key, posOf(c, call), "index within [0, "+size+") on this path", "the reflect "+name+" index "+e.fe.eval(idx).String()+" is used before it is shown to be within [0, "+size+"()): an out-of-range selector (e.g. a CHOICE Present that is negative or too large) panics inside reflect instead of returning an error")
	})
}

func stripLoadOfLocal(v ssa.Value) ssa.Value {
	return v
}

// c04ErrorPropagation: for every call in f that returns an error as last
// result and whose callee is in cdr/asn, the error edge returns a non-nil error.
func c04ErrorPropagation(c *Ctx, r *Report, f *ssa.Function, rule string) {
	n := 0
	eachInstr(f, func(_ *ssa.BasicBlock, _ int, ins ssa.Instruction) {
		call, ok := ins.(*ssa.Call)
		if !ok {
			return
		}
		sc := call.Call.StaticCallee()
		if sc == nil || sc.Pkg == nil || sc.Pkg.Pkg.Path() != asnPath || sc.Name() != "makeField" {
			return
		}
		n++
		key := fmt.Sprintf("%s|makeField#%d", fnKey(f), n)
		// tail call `return makeField(...)` propagates by construction
		direct := len(*call.Referrers()) > 0
		for _, ref := range *call.Referrers() {
			switch x := ref.(type) {
			case *ssa.Return:
			case *ssa.Extract:
				for _, r2 := range *x.Referrers() {
					if _, ok := r2.(*ssa.Return); !ok {
						if _, isDbg := r2.(*ssa.DebugRef); !isDbg {
							direct = false
						}
					}
				}
			case *ssa.DebugRef:
			default:
				direct = false
			}
		}
		if direct {
			r.proven(rule, key, posOf(c, call), "result returned directly")
			return
		}
		from, to := successEdge2(call)
		if to == nil {
			r.viol(rule, key, posOf(c, call), "the error of the recursive call is not tested")
			return
		}
		// the error edge: the other successor
		errEdge := from.Succs[0]
		if errEdge == to {
			errEdge = from.Succs[1]
		}
		ok2 := true
		reach := reachableFrom(errEdge, nil, nil, nil)
		if reach[to] && errEdge != to {
			ok2 = false // falls through to the success path
		}
		for _, ri := range returnsOf(f) {
			if !reach[ri.At] || !edgeDominates(from, errEdge, ri.At) {
				continue
			}
			last := ri.Vals[len(ri.Vals)-1]
			if isNilConst(last) {
				ok2 = false
			}
		}
		r.check(ok2, rule, key, posOf(c, call), "error edge returns a non-nil error", "the error of the nested makeField call is swallowed (printed) and encoding continues with a nil encoder: BerMarshal panics instead of returning the error")
	})
	// unsupported constructs: ObjectIdentifierType case returns an error
	if f.Name() == "makeField" || f.Name() == "ParseField" {
		for _, b := range f.Blocks {
			if len(b.Instrs) == 0 {
				continue
			}
			ifi, ok := b.Instrs[len(b.Instrs)-1].(*ssa.If)
			if !ok {
				continue
			}
			bo, ok := ifi.Cond.(*ssa.BinOp)
			if !ok || bo.Op != token.EQL {
				continue
			}
			isOID := false
			for _, v := range []ssa.Value{bo.X, bo.Y} {
				if ld, ok := v.(*ssa.UnOp); ok && ld.Op == token.MUL {
					if g, ok := ld.X.(*ssa.Global); ok && g.Name() == "ObjectIdentifierType" {
						isOID = true
					}
				}
			}
			if !isOID {
				continue
			}
			okErr := true
			nret := 0
			for _, ri := range returnsOf(f) {
				if edgeDominates(b, b.Succs[0], ri.At) {
					nret++
					if isNilConst(ri.Vals[len(ri.Vals)-1]) {
						okErr = false
					}
				}
			}
			r.check(okErr && nret > 0, rule, fnKey(f)+"|OBJECT IDENTIFIER", posOf(c, ifi), "unsupported OBJECT IDENTIFIER returns an error", "the OBJECT IDENTIFIER case does not return an error")
		}
	}
}

// ---------------------------------------------------------------------------

func checkC05(c *Ctx, r *Report) {
	r.Explanation = "Round-tripping is a law over values; this check decides its structural preconditions: (R1) the two halves of the codec agree - same kind case list (apart from interface values, which only the encoder accepts), same special types, same struct conventions, both use parseFieldParameters, and both process list elements with the list's tag cleared (cross-check of two implementations of one interface); (R2) every type of the schema is decodable by the decoder's matching rule: every SEQUENCE/SET member and every CHOICE alternative carries a tagNum (the decoder matches by context tag only), tags are unique per structure, every leaf kind is in the decoder's case list - exhaustive over cdr/cdrType; (R3) unsupported constructs (OBJECT IDENTIFIER, open types) return an error in both halves; (R4) reflect Set in the decoder's special-type cases is type-correct (shared with C16.R5); (R5) every header the encoder can emit is read back with a non-negative content length and an offset inside the input - the post-conditions of parseTagAndLength, including that long-form length octets are accumulated as an unsigned quantity (shared with C16.R1): a decoder that sign-extends length octets cannot read back members of 128..255 octets."
	r.Undecided = []string{"equality of decoded and original values in general (e.g. the embedded-CHOICE offset uses the inner header length) - value-level, visible by reading, not decidable by a structural rule that would not also reject correct reformulations"}
	r.Exhaustive = true
	r.rule("C05.R1", "encoder and decoder agree on kinds, special types, conventions and element parameters", 5)
	r.rule("C05.R2", "every schema type is decodable: members and alternatives tagged, tags unique, leaf kinds handled (exhaustive)", 190)
	r.rule("C05.R11", "a member the encoder cannot encode makes the whole encoding fail (shared with C04.R6): an error that is dropped leaves the member out or encodes something else, and the value read back differs without any error", 4)
	r.rule("C05.R12", "the decoder refuses no tag number the encoder writes: an error exit decided by the value of the tag number leaves 31..2^21 (everything the high-tag-number form is used for) accepted", 1)
	r.rule("C05.R13", "both halves see the declared tag numbers in full width (shared with C04.R11)", 1)
	r.rule("C05.R14", "the header the decoder reads back has its length octets where the encoder meant them (shared with C04.R15)", 0)
	r.rule("C05.R15", "a BIT STRING announces 1 + len(Bytes) or 1 + ceil(BitLength/8) octets: the decoder takes every contents octet for 8 bits (shared with C04.R18)", 1)
	r.rule("C05.R16", "the encoder passes a member's own tag number and EXPLICIT flag on when it descends into a pointer or wrapper type: the decoder expects the element under the declared tagging (shared with C04.R17)", 4)
	r.rule("C05.R3", "unsupported constructs return an error in both halves", 2)
	r.rule("C05.R4", "decoder stores values of the right type (reflect Set assignability)", 3)
	r.rule("C05.R10", "the decoder takes class, form and tag number from the bits the encoder (and X.690 8.1.2) puts them in", 5)
	r.rule("C05.R9", "what the encoder writes as tag / length / INTEGER octets holds the whole value (shared with C04.R9): otherwise the decoder reads a different value back", 6)
	r.rule("C05.R8", "every recursive descent of the decoder starts at the offset where the header was parsed", 4)
	r.rule("C05.R7", "INTEGER / ENUMERATED contents are decoded as two's complement (sibling of the encoder's signed minimal octets)", 2)
	r.rule("C05.R6", "decoding depends on the bytes, the target type and the parameters only: no mutable package-level state on the decode path (memo tables keyed by reflect.Type identity excepted)", 6)
	r.rule("C05.R5", "the decoder's header parser yields an offset within the input and a non-negative content length (post-conditions proved; shared with C16.R1)", 5)

	w := newSchemaWalker(c, r, true)
	w.ruleDec = "C05.R2"
	mk, pf := c.fn("cdr/asn", "makeField"), c.fn("cdr/asn", "ParseField")
	encK := map[int64]bool{}
	for k := range w.enc.kinds {
		if reflect.Kind(k) != reflect.Interface {
			encK[k] = true
		}
	}
	r.check(kindSetString(encK) == kindSetString(w.dec.kinds), "C05.R1", "kinds", c.rel(pf.Pos()), "both handle "+kindSetString(w.dec.kinds), "the encoder handles kinds {"+kindSetString(encK)+"} but the decoder {"+kindSetString(w.dec.kinds)+"}: values of the difference encode but do not decode (or vice versa)")
	r.check(strings.Join(sortedKeysB(w.enc.specials), ",") == strings.Join(sortedKeysB(w.dec.specials), ","), "C05.R1", "special types", c.rel(pf.Pos()), "both handle "+strings.Join(sortedKeysB(w.dec.specials), ","), "the special types handled differ: encoder {"+strings.Join(sortedKeysB(w.enc.specials), ",")+"} decoder {"+strings.Join(sortedKeysB(w.dec.specials), ",")+"}")
	r.check(strings.Join(sortedKeysB(w.enc.convNames), ",") == strings.Join(sortedKeysB(w.dec.convNames), ","), "C05.R1", "struct conventions", c.rel(pf.Pos()), "both use "+strings.Join(sortedKeysB(w.dec.convNames), ","), "struct conventions differ: encoder {"+strings.Join(sortedKeysB(w.enc.convNames), ",")+"} decoder {"+strings.Join(sortedKeysB(w.dec.convNames), ",")+"}")
	pfp := c.fn("cdr/asn", "parseFieldParameters")
	encReach, _ := c.reach([]*ssa.Function{c.fn("cdr/asn", "makeField")})
	decReach, _ := c.reach([]*ssa.Function{c.fn("cdr/asn", "ParseField")})
	r.check(encReach[pfp] && decReach[pfp], "C05.R1", "tag language", c.rel(pf.Pos()), "both read member tags with parseFieldParameters", "the two halves do not read the `ber:` tags with the same parser")
	r.check(w.enc.elemCallFound && w.dec.elemCallFound && w.enc.elemTagCleared == w.dec.elemTagCleared, "C05.R1", "list element parameters", c.rel(pf.Pos()),
		fmt.Sprintf("both process list elements with tagNumber cleared=%v", w.enc.elemTagCleared),
		fmt.Sprintf("the encoder processes list elements with the list's tag cleared=%v, the decoder with cleared=%v: for a tagged list of CHOICE values the decoder treats each element as an embedded CHOICE and parses a second header out of its contents", w.enc.elemTagCleared, w.dec.elemTagCleared))
	_ = mk
	w.walkSchema()
	r.count("schema_types", w.nTypes)
	r.count("schema_nodes_walked", w.nNodes)

	c04ErrorPropagationOID(c, r, mk, "C05.R3")
	c04ErrorPropagationOID(c, r, pf, "C05.R3")
	c04ErrorPropagation(c, r, mk, "C05.R11")
	c04ErrorPropagation(c, r, c.fn("cdr/asn", "BerMarshalWithParams"), "C05.R11")
	c16ReflectSetRule(c, r, "C05.R4")
	// 6 octets hold 2^48-1, more than any Go slice can be long: the decoder has to accept what the encoder can emit
	c16PostsW(c, r, "C05.R5", 6)
	c05IntegerSigned(c, r, "C05.R7")
	c05DescentOffsets(c, r, "C05.R8")
	c05TagAcceptRange(c, r, "C05.R12")
	checkParseWidths(c, r, "C05.R13", c.fn("cdr/asn", "parseFieldParameters"))
	c04HeaderCursor(c, r, "C05.R14")
	c04BitStringOctets(c, r, "C05.R15")
	c04TagParamsPassThrough(c, r, "C05.R16")
	c04DigitCounts(c, r, "C05.R9")
	berHeaderDecoder(c, r, "C05.R10")
	codecPurity(c, r, []*ssa.Function{c.fn("cdr/asn", "UnmarshalWithParams"), c.fn("cdr/asn", "Unmarshal")}, modPath+"/cdr/asn", "C05.R6", "decode")
}

func c04ErrorPropagationOID(c *Ctx, r *Report, f *ssa.Function, rule string) {
	sub := newReport(r.Prop)
	c04ErrorPropagation(c, sub, f, rule)
	for _, o := range sub.Obs {
		if strings.Contains(o.Key, "OBJECT IDENTIFIER") {
			r.add(o.Rule, strings.TrimPrefix(o.Key, o.Rule+"|"), o.Pos, o.Status, o.Detail)
		}
	}
}

func c16ReflectSetRule(c *Ctx, r *Report, rule string) {
	sub := newReport(r.Prop)
	c16ReflectSet(c, sub)
	for _, o := range sub.Obs {
		r.add(rule, strings.TrimPrefix(o.Key, o.Rule+"|"), o.Pos, o.Status, o.Detail)
	}
}

var _ = constant.Int

// ---- C04.R7: the content encoder is assigned on every path that uses it ----
//
// makeField builds a local berTypeEncoder and, after the type / kind switches,
// calls berType.value.Len(): a path that reaches that use without having stored
// a content encoder calls a method on a nil interface and panics.  Forward
// must-dataflow over the CFG (state: "value stored on every path so far").
// The one path excluded is the no-match exit of the kind switch: it is what
// C04.R1/R2 cover (every schema leaf kind has a case).
func c04ContentAssigned(c *Ctx, r *Report, f *ssa.Function, rule string) {
	// the local object that carries the content encoder: a struct made in the function with a
	// member of an interface type that has a Len method (berTypeEncoder.value today; a builder
	// object that owns the same state is the same thing), and that member is stored here
	type cand struct {
		a   *ssa.Alloc
		idx int
	}
	var cands []cand
	for _, b := range f.Blocks {
		for _, ins := range b.Instrs {
			a, ok := ins.(*ssa.Alloc)
			if !ok {
				continue
			}
			n, ok := a.Type().(*types.Pointer).Elem().(*types.Named)
			if !ok || n.Obj().Pkg() != f.Pkg.Pkg {
				continue
			}
			st, ok := n.Underlying().(*types.Struct)
			if !ok {
				continue
			}
			for i := 0; i < st.NumFields(); i++ {
				it, isIface := st.Field(i).Type().Underlying().(*types.Interface)
				if !isIface || !hasFieldStore(a, i) {
					continue
				}
				hasLen := false
				for m := 0; m < it.NumMethods(); m++ {
					if it.Method(m).Name() == "Len" {
						hasLen = true
					}
				}
				if hasLen {
					cands = append(cands, cand{a, i})
				}
			}
		}
	}
	if len(cands) == 0 {
		r.viol(rule, fnKey(f)+"|anchor", c.rel(f.Pos()), "the local object that carries the content encoder (a struct with a member of the content-encoder interface, stored in "+f.Name()+") was not found")
		return
	}
	// the object whose member is used most is the one the function assembles its result in
	sort.SliceStable(cands, func(i, j int) bool {
		return fieldUseCount(cands[i].a, cands[i].idx) > fieldUseCount(cands[j].a, cands[j].idx)
	})
	enc, fieldIdx := cands[0].a, cands[0].idx
	isValueAddr := func(v ssa.Value) bool {
		fa, ok := v.(*ssa.FieldAddr)
		return ok && fa.X == ssa.Value(enc) && fa.Field == fieldIdx
	}
	isKindCmp := func(b *ssa.BasicBlock) bool {
		if len(b.Instrs) == 0 {
			return false
		}
		iff, ok := b.Instrs[len(b.Instrs)-1].(*ssa.If)
		if !ok {
			return false
		}
		bo, ok := iff.Cond.(*ssa.BinOp)
		if !ok || bo.Op != token.EQL {
			return false
		}
		for _, op := range []ssa.Value{bo.X, bo.Y} {
			if call, ok := op.(*ssa.Call); ok {
				if obj := calleeObj(&call.Call); obj != nil && obj.Name() == "Kind" && obj.Pkg() != nil && obj.Pkg().Path() == "reflect" {
					return true
				}
			}
		}
		return false
	}
	usesValue := func(b *ssa.BasicBlock) bool {
		for _, ins := range b.Instrs {
			if ld, ok := ins.(*ssa.UnOp); ok && ld.Op == token.MUL && (ld.X == ssa.Value(enc) || isValueAddr(ld.X)) {
				return true
			}
		}
		return false
	}
	const (
		unreached = 0
		assigned  = 1
		unset     = 2
	)
	in := make([]int, len(f.Blocks))
	out := make([]int, len(f.Blocks))
	in[0] = unset
	changed := true
	transfer := func(b *ssa.BasicBlock, st int) int {
		for _, ins := range b.Instrs {
			if s, ok := ins.(*ssa.Store); ok && isValueAddr(s.Addr) {
				st = assigned
			}
		}
		return st
	}
	for changed {
		changed = false
		for _, b := range f.Blocks {
			st := in[b.Index]
			if b.Index != 0 {
				st = unreached
				for _, p := range b.Preds {
					ps := out[p.Index]
					if ps == unreached {
						continue
					}
					// the no-match exit of the kind switch is covered by R1/R2
					if isKindCmp(p) && len(p.Succs) == 2 && p.Succs[1] == b && !isKindCmp(b) && usesValue(b) {
						ps = assigned
					}
					if ps == unset || st == unset {
						st = unset
					} else {
						st = assigned
					}
				}
			}
			o := st
			if st != unreached {
				o = transfer(b, st)
			}
			if st != in[b.Index] || o != out[b.Index] {
				in[b.Index], out[b.Index] = st, o
				changed = true
			}
		}
	}
	n := 0
	if os.Getenv("CHFCHECK_DEBUG") != "" {
		for _, b := range f.Blocks {
			fmt.Fprintf(os.Stderr, "blk %d %s in=%d out=%d kindcmp=%v\n", b.Index, b.Comment, in[b.Index], out[b.Index], isKindCmp(b))
		}
	}
	for _, b := range f.Blocks {
		st := in[b.Index]
		if st == unreached {
			continue
		}
		for _, ins := range b.Instrs {
			if s, ok := ins.(*ssa.Store); ok && isValueAddr(s.Addr) {
				st = assigned
			}
			ld, ok := ins.(*ssa.UnOp)
			if !ok || ld.Op != token.MUL {
				continue
			}
			whole := ld.X == ssa.Value(enc)
			if !whole && !isValueAddr(ld.X) {
				continue
			}
			n++
			key := fmt.Sprintf("%s|use of the content encoder#%d", fnKey(f), n)
			// which predecessor paths arrive unset (for the diagnosis)
			why := ""
			if st == unset {
				d := b
				for d != nil && len(d.Preds) < 2 {
					d = d.Idom()
				}
				if d != nil {
					var ps []string
					for _, p := range d.Preds {
						if out[p.Index] == unset && !(isKindCmp(p) && len(p.Succs) == 2 && p.Succs[1] == d && usesValue(d)) {
							ps = append(ps, p.Comment+" block at "+c.rel(blockPos(p)))
						}
					}
					sort.Strings(ps)
					if len(ps) > 0 {
						why = " (arriving from the " + strings.Join(ps, ", ") + ")"
					}
				}
			}
			r.check(st == assigned, rule, key, posOf(c, ld), "a content encoder has been stored on every path reaching this use", "a path reaches this use of berType.value without any content encoder having been stored"+why+": the method call on the nil interface panics (e.g. a SEQUENCE whose members are all OPTIONAL and absent)")
		}
	}
}

// fieldUseCount: loads and stores of one member of a local struct.
func fieldUseCount(a *ssa.Alloc, idx int) int {
	n := 0
	for _, ref := range *a.Referrers() {
		if fa, ok := ref.(*ssa.FieldAddr); ok && fa.Field == idx {
			n += len(*fa.Referrers())
		}
	}
	return n
}

func blockPos(b *ssa.BasicBlock) token.Pos {
	for _, ins := range b.Instrs {
		if ins.Pos().IsValid() {
			return ins.Pos()
		}
	}
	return token.NoPos
}

func hasFieldStore(a *ssa.Alloc, field int) bool {
	for _, ref := range *a.Referrers() {
		if fa, ok := ref.(*ssa.FieldAddr); ok && fa.Field == field {
			for _, r2 := range *fa.Referrers() {
				if st, ok := r2.(*ssa.Store); ok && st.Addr == ssa.Value(fa) {
					return true
				}
			}
		}
	}
	return false
}

// ---- C05.R8: the decoder descends where it parsed ----
//
// ParseField parses a header with parseTagAndLength(bytes[L:]) and later hands
// bytes[O:...] to a recursive ParseField, which parses that header again.  On
// every path the recursion must start at the position the header was found
// (O == L as linear forms over the same symbols): a descent that starts at the
// header's *length* instead of its *position* works only while the two happen
// to be equal (an explicit tag whose header is as long as the inner one) and
// silently yields a wrong value otherwise.
func c05DescentOffsets(c *Ctx, r *Report, rule string) {
	pf := c.fn("cdr/asn", "ParseField")
	ptl := c.fn("cdr/asn", "parseTagAndLength")
	var bytesParam *ssa.Parameter
	for _, p := range pf.Params {
		if isByteSeq(p.Type()) {
			bytesParam = p
		}
	}
	if bytesParam == nil {
		r.viol(rule, fnKey(pf)+"|anchor", c.rel(pf.Pos()), "ParseField has no byte-slice parameter")
		return
	}
	e := newRelEngine(c, pf, nil)
	lowOf := func(v ssa.Value) (ssa.Value, bool, bool) { // low bound value, isWholeInput, ok
		if v == ssa.Value(bytesParam) {
			return nil, true, true
		}
		if sl, ok := v.(*ssa.Slice); ok && sl.X == ssa.Value(bytesParam) {
			return sl.Low, sl.Low == nil, true
		}
		return nil, false, false
	}
	type parse struct {
		call *ssa.Call
		low  poly
	}
	var parses []parse
	eachInstr(pf, func(_ *ssa.BasicBlock, _ int, ins ssa.Instruction) {
		call, ok := ins.(*ssa.Call)
		if !ok || call.Call.StaticCallee() != ptl || len(call.Call.Args) == 0 {
			return
		}
		lv, whole, ok := lowOf(call.Call.Args[0])
		if !ok {
			return
		}
		p := poly{}
		if !whole {
			p = e.fe.eval(lv)
		}
		parses = append(parses, parse{call, p})
	})
	n := 0
	eachInstr(pf, func(_ *ssa.BasicBlock, _ int, ins ssa.Instruction) {
		call, ok := ins.(*ssa.Call)
		if !ok || call.Call.StaticCallee() != pf || len(call.Call.Args) < 2 {
			return
		}
		lv, whole, ok := lowOf(call.Call.Args[1])
		// the octets handed down may be a variable that one path re-slices (`bytes = bytes[k:]` under
		// an explicit tag) and the other leaves alone: every alternative is a slice of the input
		type altArg struct {
			low   ssa.Value
			whole bool
			from  *ssa.BasicBlock
		}
		var alts []altArg
		if !ok {
			ph, isPhi := call.Call.Args[1].(*ssa.Phi)
			if !isPhi {
				return
			}
			for i, ed := range ph.Edges {
				l2, w2, ok2 := lowOf(ed)
				if !ok2 {
					n++
					r.viol(rule, fmt.Sprintf("%s|descent #%d", fnKey(pf), n), posOf(c, call), "undecided: the octets handed to the recursive call are "+describe(ed)+" on one path, not a slice of the input this rule can place")
					return
				}
				alts = append(alts, altArg{l2, w2, ph.Block().Preds[i]})
			}
		}
		n++
		key := fmt.Sprintf("%s|descent #%d", fnKey(pf), n)
		governing := func(at *ssa.BasicBlock, before ssa.Instruction) *parse {
			var best *parse
			for i := range parses {
				p := &parses[i]
				if !(p.call.Block() == at || p.call.Block().Dominates(at)) {
					continue
				}
				if before != nil && p.call.Block() == before.Block() && instrIndex(p.call) > instrIndex(before) {
					continue
				}
				if best == nil || best.call.Block().Dominates(p.call.Block()) {
					best = p
				}
			}
			return best
		}
		// the common case: the very value the header was parsed at
		if g := governing(call.Block(), call); len(alts) == 0 && (g != nil || whole) {
			o := poly{}
			if !whole {
				o = e.fe.eval(lv)
			}
			if (g == nil && whole) || (g != nil && o.String() == g.low.String()) {
				r.proven(rule, key, posOf(c, call), "the recursion starts at the offset where the header was parsed")
				return
			}
		}
		var leaves []phiLeaf
		if len(alts) > 0 {
			for _, a := range alts {
				if a.whole {
					leaves = append(leaves, phiLeaf{val: nil, from: a.from})
					continue
				}
				for _, lf := range leavesOf(a.low) {
					if lf.from == nil {
						lf.from = a.from
					}
					leaves = append(leaves, lf)
				}
			}
		} else if whole {
			leaves = []phiLeaf{{val: nil}}
		} else {
			leaves = leavesOf(lv)
		}
		bad := ""
		for _, lf := range leaves {
			o := poly{}
			if lf.val != nil {
				o = e.fe.eval(lf.val)
			}
			// the header parse that governs this path: the last one that dominates the
			// point the value comes from
			at := call.Block()
			if lf.from != nil {
				at = lf.from
			}
			best := governing(at, call)
			if best == nil {
				bad = "no header parse precedes the descent"
				break
			}
			if o.String() != best.low.String() {
				bad = fmt.Sprintf("on the path through %s the header was parsed at offset %s (%s) but the descent starts at offset %s", at.Comment, polyOrZero(best.low), posOf(c, best.call), polyOrZero(o))
				break
			}
		}
		r.check(bad == "", rule, key, posOf(c, call), "the recursion starts at the offset where the header was parsed, on every path", bad+": the nested value is read from the wrong position whenever the two offsets differ (e.g. an explicitly tagged CHOICE whose outer header is longer than the inner one) - a wrong value, no error")
	})
}

func polyOrZero(p poly) string {
	if s := p.String(); s != "" {
		return s
	}
	return "0"
}

// c05TagAcceptRange (C05.R12): comparisons of the parsed tag number with a constant that
// decide an error exit of the tag parser.  The encoder uses the high-tag-number form for
// every number above 30 (C04.R10), so none of 31..2^21 may be refused.
func c05TagAcceptRange(c *Ctx, r *Report, rule string) {
	f := c.fn("cdr/asn", "parseTagAndLength")
	isTag := func(v ssa.Value) bool {
		seen := map[ssa.Value]bool{}
		var visit func(v ssa.Value, d int) bool
		visit = func(v ssa.Value, d int) bool {
			if v == nil || seen[v] || d > 12 {
				return false
			}
			seen[v] = true
			switch x := v.(type) {
			case *ssa.UnOp:
				if x.Op == token.MUL {
					if fa, ok := x.X.(*ssa.FieldAddr); ok && fieldName(fa) == "tagNumber" {
						return true
					}
				}
			case *ssa.BinOp:
				if x.Op == token.SHL {
					if k, ok := constInt(x.Y); ok && k == 7 {
						return true
					}
				}
				return visit(x.X, d+1) || visit(x.Y, d+1)
			case *ssa.Convert:
				return visit(x.X, d+1)
			case *ssa.ChangeType:
				return visit(x.X, d+1)
			case *ssa.Phi:
				for _, e := range x.Edges {
					if visit(e, d+1) {
						return true
					}
				}
			}
			return false
		}
		return visit(v, 0)
	}
	const lo, hi = 31, 1 << 21
	n := 0
	for _, b := range f.Blocks {
		if len(b.Instrs) == 0 || len(b.Succs) != 2 {
			continue
		}
		iff, ok := b.Instrs[len(b.Instrs)-1].(*ssa.If)
		if !ok {
			continue
		}
		bo, ok := iff.Cond.(*ssa.BinOp)
		if !ok {
			continue
		}
		var k int64
		op := bo.Op
		if kk, isK := constInt(bo.Y); isK && isTag(bo.X) {
			k = kk
		} else if kk, isK := constInt(bo.X); isK && isTag(bo.Y) {
			k = kk
			switch op { // K op x  ->  x op' K
			case token.LSS:
				op = token.GTR
			case token.LEQ:
				op = token.GEQ
			case token.GTR:
				op = token.LSS
			case token.GEQ:
				op = token.LEQ
			}
		} else {
			continue
		}
		// the set of tag numbers for which the condition holds, cut to [lo, hi]
		holds := func(x int64) bool {
			switch op {
			case token.LSS:
				return x < k
			case token.LEQ:
				return x <= k
			case token.GTR:
				return x > k
			case token.GEQ:
				return x >= k
			case token.EQL:
				return x == k
			case token.NEQ:
				return x != k
			}
			return true
		}
		for i, succ := range b.Succs {
			rejects := false
			for _, ri := range returnsOf(f) {
				if len(ri.Vals) == 0 {
					continue
				}
				ev := ri.Vals[len(ri.Vals)-1]
				if call, ok := ev.(*ssa.Call); ok && edgeDominates(b, succ, ri.At) {
					if obj := calleeObj(&call.Call); obj != nil && (obj.Name() == "Errorf" || obj.Name() == "New") {
						rejects = true
					}
				}
			}
			if !rejects {
				continue
			}
			n++
			// witnesses: the ends of the range and the neighbours of the constant
			bad := int64(-1)
			for _, x := range []int64{lo, lo + 1, hi, hi - 1, k - 1, k, k + 1} {
				if x < lo || x > hi {
					continue
				}
				if holds(x) == (i == 0) {
					bad = x
					break
				}
			}
			key := fmt.Sprintf("%s|tag number %s %d", fnKey(f), bo.Op, k)
			r.check(bad < 0, rule, key, c.rel(bo.Pos()), "the refused numbers lie outside 31..2^21", fmt.Sprintf("the decoder refuses tag number %d, which the encoder writes (in the high-tag-number form, X.690 8.1.2.4: every number above 30): a member or alternative with that tag encodes but cannot be read back", bad))
		}
	}
	if n == 0 {
		r.proven(rule, fnKey(f)+"|no refusal by tag value", c.rel(f.Pos()), "no error exit of the tag parser is decided by the value of the tag number")
	}
}

// c04LenIsOctetCount (C04.R12): encoders whose receiver is a string or a []byte write the
// receiver with copy; their Len must be len(receiver) - the octet count - and nothing else.
func c04LenIsOctetCount(c *Ctx, r *Report, rule string) {
	pkg := c.pkg("cdr/asn")
	n := 0
	for _, name := range pkg.Types.Scope().Names() {
		tn, ok := pkg.Types.Scope().Lookup(name).(*types.TypeName)
		if !ok {
			continue
		}
		nt, ok := tn.Type().(*types.Named)
		if !ok {
			continue
		}
		isStr := false
		switch u := nt.Underlying().(type) {
		case *types.Basic:
			isStr = u.Info()&types.IsString != 0
		case *types.Slice:
			if b, ok := u.Elem().Underlying().(*types.Basic); ok && b.Kind() == types.Uint8 {
				isStr = true
			}
		}
		if !isStr {
			continue
		}
		var lenM, encM *ssa.Function
		for _, f := range c.ModFuncs {
			if f.Signature.Recv() == nil || f.Parent() != nil {
				continue
			}
			if rt := namedOf(f.Signature.Recv().Type()); rt == nil || rt.Obj() != tn {
				continue
			}
			switch f.Name() {
			case "Len":
				lenM = f
			case "Encode":
				encM = f
			}
		}
		if lenM == nil || encM == nil || len(lenM.Params) == 0 {
			continue
		}
		n++
		recv := ssa.Value(lenM.Params[0])
		bad := ""
		for _, ri := range returnsOf(lenM) {
			if len(ri.Vals) != 1 {
				continue
			}
			call, ok := stripConv(ri.Vals[0]).(*ssa.Call)
			bi, isB := (*ssa.Builtin)(nil), false
			if ok {
				bi, isB = call.Call.Value.(*ssa.Builtin)
			}
			if !ok || !isB || bi.Name() != "len" || len(call.Call.Args) != 1 {
				bad = "Len does not return len(receiver) (" + describe(ri.Vals[0]) + ")"
				continue
			}
			arg := call.Call.Args[0]
			for {
				if ct, ok := arg.(*ssa.ChangeType); ok {
					arg = ct.X
					continue
				}
				if cv, ok := arg.(*ssa.Convert); ok {
					// string <-> []byte keep the octet count; []rune does not
					okConv := false
					switch u := cv.Type().Underlying().(type) {
					case *types.Basic:
						okConv = u.Info()&types.IsString != 0
					case *types.Slice:
						if b, ok := u.Elem().Underlying().(*types.Basic); ok && b.Kind() == types.Uint8 {
							okConv = true
						}
					}
					if !okConv {
						bad = "Len counts the elements of " + types.TypeString(cv.Type(), nil) + "(receiver), not the octets of the receiver: for a string with multi-byte characters the announced length is smaller than the octets Encode copies - the contents are cut short"
						break
					}
					arg = cv.X
					continue
				}
				break
			}
			if bad == "" && arg != recv {
				bad = "Len returns the length of " + describe(arg) + ", not of the value Encode writes"
			}
		}
		r.check(bad == "", rule, tn.Name()+"|Len = octets written", c.rel(lenM.Pos()), "Len returns len(receiver), the octets Encode copies", tn.Name()+": "+bad)
	}
	if n == 0 {
		r.viol(rule, "encoders", c.rel(pkg.Syntax[0].Pos()), "no string / octet-string encoder with Len and Encode found (anchor moved)")
	}
}

// c04StringTypeTags (C04.R14): keyword of the tag language -> universal tag number (X.680 8.4).
var x680StringTags = map[string]int64{"utf8": 12, "numeric": 18, "printable": 19, "t61": 20, "teletex": 20, "videotex": 21, "ia5": 22, "graphic": 25, "visible": 26, "iso646": 26, "general": 27, "universal": 28, "bmp": 30}

func c04StringTypeTags(c *Ctx, r *Report, rule string) {
	pkg := c.pkg("cdr/asn")
	n := 0
	one := func(keyword string, v ssa.Value, pos string) {
		want, known := x680StringTags[keyword]
		k, isK := constInt(v)
		if !known || !isK {
			return
		}
		n++
		r.check(k == want, rule, "keyword "+keyword, pos, fmt.Sprintf("%s selects universal tag %d", keyword, k), fmt.Sprintf("the keyword %q selects universal tag %d, X.680 gives that string type the tag %d: a value of this type that shows its universal tag (top level, untagged or EXPLICIT member) is encoded as another type", keyword, k, want))
	}
	for _, f := range c.ModFuncs {
		if f.Pkg == nil || f.Pkg.Pkg != pkg.Types {
			continue
		}
		eachInstr(f, func(_ *ssa.BasicBlock, _ int, ins ssa.Instruction) {
			switch x := ins.(type) {
			case *ssa.Store:
				fa, ok := x.Addr.(*ssa.FieldAddr)
				if !ok || fieldName(fa) != "stringType" {
					return
				}
				// the keyword: a string comparison whose matching edge dominates the store
				for _, b := range f.Blocks {
					if len(b.Instrs) == 0 || len(b.Succs) != 2 {
						continue
					}
					iff, ok := b.Instrs[len(b.Instrs)-1].(*ssa.If)
					if !ok {
						continue
					}
					bo, ok := iff.Cond.(*ssa.BinOp)
					if !ok || bo.Op != token.EQL {
						continue
					}
					kw, ok := constString(bo.Y)
					if !ok {
						kw, ok = constString(bo.X)
					}
					if ok && b.Succs[0] != b.Succs[1] && edgeDominates(b, b.Succs[0], x.Block()) {
						one(kw, x.Val, posOf(c, x))
					}
				}
			case *ssa.MapUpdate:
				// a keyword table (map literal of the package)
				if kw, ok := constString(x.Key); ok {
					one(kw, x.Value, posOf(c, x))
				}
			}
		})
	}
	// package-level map literals are filled by the package initialiser
	if init := pkg.Types.Scope(); init != nil {
		for _, m := range c.Prog.Package(pkg.Types).Members {
			fn, ok := m.(*ssa.Function)
			if !ok || fn.Name() != "init" {
				continue
			}
			eachInstr(fn, func(_ *ssa.BasicBlock, _ int, ins ssa.Instruction) {
				if mu, ok := ins.(*ssa.MapUpdate); ok {
					if kw, ok := constString(mu.Key); ok {
						one(kw, mu.Value, posOf(c, mu))
					}
				}
			})
		}
	}
	if n == 0 {
		r.viol(rule, "keywords", c.rel(pkg.Syntax[0].Pos()), "no string-type keyword of the tag language found (anchor moved)")
	}
}

// c04HeaderCursor (C04.R15): appendTagAndLen appends a block of n octets (make([]byte, n)...)
// and then fills it with indexed stores dst[n-1-i+offset].  The stores land in the block only
// if `offset` equals the number of octets appended before the block.  Both quantities are
// computed as linear forms over the SSA values; where they are merged in one block (the short
// / long tag branches) they are compared edge by edge.
func c04HeaderCursor(c *Ctx, r *Report, rule string) {
	f := c.fn("cdr/asn", "appendTagAndLen")
	fe := newFormEval(f)
	if len(f.Params) == 0 {
		return
	}
	dst0 := ssa.Value(f.Params[0])
	// number of octets appended to reach slice value v: alternatives per merge edge
	type alt struct {
		p    poly
		edge *ssa.BasicBlock // predecessor the alternative arrives by (nil: no merge)
		at   *ssa.BasicBlock
	}
	var lenOf func(v ssa.Value, d int) ([]alt, bool)
	lenOf = func(v ssa.Value, d int) ([]alt, bool) {
		if d > 12 {
			return nil, false
		}
		if v == dst0 {
			return []alt{{p: constPoly(0)}}, true
		}
		switch x := v.(type) {
		case *ssa.Phi:
			var out []alt
			for i, e := range x.Edges {
				as, ok := lenOf(e, d+1)
				if !ok || len(as) != 1 {
					return nil, false
				}
				out = append(out, alt{as[0].p, x.Block().Preds[i], x.Block()})
			}
			return out, true
		case *ssa.Call:
			bi, ok := x.Call.Value.(*ssa.Builtin)
			if !ok || bi.Name() != "append" || len(x.Call.Args) != 2 {
				return nil, false
			}
			base, ok := lenOf(x.Call.Args[0], d+1)
			if !ok {
				return nil, false
			}
			var add poly
			switch y := x.Call.Args[1].(type) {
			case *ssa.Slice: // a literal of k elements: new [k]byte, sliced
				if al, ok := y.X.(*ssa.Alloc); ok {
					if arr, ok := al.Type().Underlying().(*types.Pointer).Elem().Underlying().(*types.Array); ok {
						add = constPoly(arr.Len())
					}
				}
			case *ssa.MakeSlice:
				add = fe.eval(y.Len)
			}
			if add == nil {
				return nil, false
			}
			var out []alt
			for _, b := range base {
				out = append(out, alt{polyAdd(b.p, add, 1), b.edge, b.at})
			}
			return out, true
		}
		return nil, false
	}
	n := 0
	eachInstr(f, func(_ *ssa.BasicBlock, _ int, ins ssa.Instruction) {
		st, ok := ins.(*ssa.Store)
		if !ok {
			return
		}
		ia, ok := st.Addr.(*ssa.IndexAddr)
		if !ok || !inCycle(st.Block()) {
			return
		}
		// the slice written: append(prev, make([]byte, n)...)
		call, ok := ia.X.(*ssa.Call)
		if !ok {
			return
		}
		bi, ok := call.Call.Value.(*ssa.Builtin)
		if !ok || bi.Name() != "append" || len(call.Call.Args) != 2 {
			return
		}
		mk, ok := call.Call.Args[1].(*ssa.MakeSlice)
		if !ok {
			return
		}
		n++
		key := fmt.Sprintf("%s|digits block #%d", fnKey(f), n)
		before, ok := lenOf(call.Call.Args[0], 0)
		if !ok {
			r.info(rule, key, posOf(c, st), "not decided here: the octets appended before this block cannot be counted from the shape of the code (C04.R9/R10 and C05.R10 still decide the digits and the bit layout)")
			return
		}
		// index = (n - 1 - i) + cursor : cursor = index - n + 1 + i, with i the loop counter
		idx := fe.eval(ia.Index)
		cur := polyAdd(idx, fe.eval(mk.Len), -1)
		cur = polyAdd(cur, constPoly(1), 1)
		// remove the loop counter (a phi of the store's loop with coefficient -1 in idx)
		for mono, coef := range cur {
			if strings.HasPrefix(mono, "phi:") && coef == 1 {
				// +i after adding i back? the index holds -i: cur still has -i; add it back below
			}
			_ = coef
		}
		for mono, coef := range idx {
			if strings.HasPrefix(mono, "phi:") && coef == -1 && !strings.Contains(mono, monoSep) {
				cur = polyAdd(cur, atomPoly(mono), 1)
			}
		}
		// only the shape dst[(n-1-i) + cursor] is decided: what is left must not vary with the loop
		loopVarying := false
		for mono := range cur {
			for _, part := range strings.Split(mono, monoSep) {
				if ph, ok := fe.atoms[part].(*ssa.Phi); ok {
					for _, sc := range st.Block().Succs {
						_ = sc
					}
					if ph.Block() == st.Block() || (inCycle(ph.Block()) && reachableFrom(ph.Block(), nil, nil, nil)[st.Block()] && reachableFrom(st.Block(), nil, nil, nil)[ph.Block()]) {
						loopVarying = true
					}
				}
			}
		}
		if loopVarying {
			r.info(rule, key, posOf(c, st), "not decided here: the index is not of the form (n-1-i) + cursor (C04.R9/R10 still decide the digits and the bit layout)")
			return
		}
		bad := ""
		undecided := false
		// the cursor's own alternatives: a single phi atom merged in the same block as `before`
		curAlts := func() []alt {
			// cursor = (a value merged where the slice is merged) + what was added since
			for mono, coef := range cur {
				if coef != 1 || strings.Contains(mono, monoSep) {
					continue
				}
				ph, ok := fe.atoms[mono].(*ssa.Phi)
				if !ok || len(before) < 2 || ph.Block() != before[0].at {
					continue
				}
				rest := polyAdd(cur, atomPoly(mono), -1)
				var out []alt
				for i, e := range ph.Edges {
					out = append(out, alt{polyAdd(fe.eval(e), rest, 1), ph.Block().Preds[i], ph.Block()})
				}
				return out
			}
			return []alt{{p: cur}}
		}()
		// account for what the same straight-line code appended after the merge: both sides carry it
		match := func(a, b poly) bool { return polyAdd(a, b, -1).String() == "0" }
		switch {
		case len(before) == 1 && len(curAlts) == 1:
			if !match(before[0].p, curAlts[0].p) {
				bad = fmt.Sprintf("the digits are written from index %s on, the block appended for them starts at %s", curAlts[0].p, before[0].p)
			}
		default:
			// expand `before` over the cursor's merge: find for each cursor edge the before-alternative of the same edge
			for _, ca := range curAlts {
				found := false
				for _, ba := range before {
					if ba.at == ca.at && ba.edge == ca.edge {
						found = true
						// the cursor may have been advanced after the merge by the same constant the slice grew by
						if !match(ba.p, ca.p) {
							bad = fmt.Sprintf("on the path through %s the digits are written from index %s on, but the block appended for them starts at %s", c.rel(blockPos(ca.edge)), ca.p, ba.p)
						}
					}
				}
				if !found && len(before) > 1 {
					undecided = true
				}
			}
		}
		if bad == "" && undecided {
			r.info(rule, key, posOf(c, st), "not decided here: the write cursor and the slice are merged at different places")
			return
		}
		r.check(bad == "", rule, key, posOf(c, st), "written into the block that was appended for them", bad+": the octets land on the wrong positions of the header (the length octets overwrite or fall short of their place), and what the decoder reads as length is something else")
	})
	if n == 0 {
		r.proven(rule, fnKey(f)+"|digits blocks", c.rel(f.Pos()), "the header is assembled without indexed writes into pre-sized blocks (C04.R9/R10 cover the digits appended one by one)")
	}
}

// signNonNegative: v is a counter that starts at a non-negative constant and is only added to,
// a length, or a conversion of such a value (phis: every edge; a cycle contributes nothing new).
func signNonNegative(v ssa.Value, seen map[ssa.Value]bool) bool {
	if seen[v] {
		return true
	}
	seen[v] = true
	switch x := v.(type) {
	case *ssa.Const:
		k, ok := constInt(x)
		return ok && k >= 0
	case *ssa.Phi:
		for _, e := range x.Edges {
			if !signNonNegative(e, seen) {
				return false
			}
		}
		return true
	case *ssa.BinOp:
		if x.Op == token.ADD || x.Op == token.MUL {
			return signNonNegative(x.X, seen) && signNonNegative(x.Y, seen)
		}
	case *ssa.Convert:
		if b, ok := x.X.Type().Underlying().(*types.Basic); ok && b.Info()&types.IsUnsigned != 0 {
			// a widening conversion of an unsigned value
			if sizeOfBasic(x.Type()) > sizeOfBasic(b) {
				return true
			}
		}
		return signNonNegative(x.X, seen)
	case *ssa.Call:
		if b, ok := x.Call.Value.(*ssa.Builtin); ok && (b.Name() == "len" || b.Name() == "cap") {
			return true
		}
		if obj := calleeObj(&x.Call); obj != nil && obj.Pkg() != nil && obj.Pkg().Path() == "reflect" && (obj.Name() == "NumField" || obj.Name() == "Len") {
			return true
		}
	case *ssa.UnOp:
		if x.Op == token.MUL {
			if rv := resolveLocalLoad(x); rv != ssa.Value(x) {
				return signNonNegative(rv, seen)
			}
		}
	}
	return false
}
