package main

import (
	"fmt"
	"go/token"
	"go/types"
	"os"
	"strings"

	"golang.org/x/tools/go/ssa"
)

// C13: with OAuth2 required every route rejects unauthenticated requests.
//
// Structural proof obligations O1..O6 (DESIGN.md §4 C13).

const ginPath = "github.com/gin-gonic/gin"

func init() { register("C13", "proof", checkC13) }

type c13 struct {
	c         *Ctx
	r         *Report
	regNames  map[string]bool
	authMW    map[*ssa.Function]string // memo: "" = ok, otherwise reason
	callersOf map[*ssa.Function][]ssa.CallInstruction
	mwDepth   int
}

func checkC13(c *Ctx, r *Report) {
	r.Explanation = "Structural proof over the resolved program: every gin route registration in the module sits behind a middleware that aborts with 401 unless AuthorizationCheck returns nil, and AuthorizationCheck returns nil under 'OAuth2 required' only if oauth.VerifyOAuth does; no other HTTP server or default mux is served. Quantification over service lists is by construction: the loop body of newRouter is analysed per switch case, independent of the list content."
	r.Trusted = append(r.Trusted, "gin: handlers added with Use before a registration run before the route handler; Abort stops the chain; a group created from a group inherits its handlers",
		"github.com/free5gc/openapi/oauth.VerifyOAuth rejects missing/malformed/unsigned tokens", "httpwrapper.NewHttp2Server serves exactly the handler it is given")
	r.Exhaustive = true
	x := &c13{c: c, r: r, authMW: map[*ssa.Function]string{}}
	r.rule("C13.O1", "every call of a gin registration method in the module has a receiver that traces to a protected group", 5)
	r.rule("C13.O2", "every group reaching a registration is protected by a dominating Use(auth middleware), by Group(prefix, auth middleware) or by its parent", 1)
	r.rule("C13.O3", "an auth middleware calls (*RouterAuthorizationCheck).Check with its own *gin.Context on every path, and never calls Next before", 1)
	r.rule("C13.O4", "in Check, every path passes the call of AuthorizationCheck with the request's token, and every path on its err != nil edge passes c.Abort() and a response with constant status 401", 3)
	r.rule("C13.O5", "every implementation of NFContext.AuthorizationCheck returns nil only on the !OAuth2Required edge, otherwise the result of oauth.VerifyOAuth(token, ...)", 2)
	r.rule("C13.O7", "the flag AuthorizationCheck reads is assigned from the NRF's declaration (customInfo.oauth2 of the registration answer)", 1)
	r.rule("C13.O8", "the declaration is learnt by every registration that can be a process's first: every success exit of the registration function assigns the flag, or the instance id it registers under is a random UUID drawn at start", 1)
	r.rule("C13.O6", "the only HTTP serving calls in the module are on the server built by NewHttp2Server from the router newRouter returns; nothing serves the default mux", 2)

	// registration method names: method set of gin.IRoutes minus Use, plus NoRoute/NoMethod.
	x.regNames = map[string]bool{"NoRoute": true, "NoMethod": true}
	iroutes, ok := c.extObj(ginPath, "IRoutes").Type().Underlying().(*types.Interface)
	if !ok {
		broken("gin.IRoutes is not an interface")
	}
	for i := 0; i < iroutes.NumMethods(); i++ {
		if n := iroutes.Method(i).Name(); n != "Use" {
			x.regNames[n] = true
		}
	}
	if len(x.regNames) < 10 {
		broken("gin.IRoutes method set unexpectedly small: %d", len(x.regNames))
	}
	r.count("gin_registration_methods", len(x.regNames))

	// callers index
	x.callersOf = map[*ssa.Function][]ssa.CallInstruction{}
	for _, f := range c.ModFuncs {
		eachInstr(f, func(_ *ssa.BasicBlock, _ int, ins ssa.Instruction) {
			if ci, ok := ins.(ssa.CallInstruction); ok {
				for _, callee := range c.calleesAt(ci) {
					x.callersOf[callee] = append(x.callersOf[callee], ci)
				}
			}
		})
	}

	// O1/O2
	nreg := 0
	for _, f := range c.ModFuncs {
		eachInstr(f, func(_ *ssa.BasicBlock, _ int, ins ssa.Instruction) {
			ci, ok := ins.(ssa.CallInstruction)
			if !ok {
				return
			}
			cc := ci.Common()
			obj := calleeObj(cc)
			if obj == nil || obj.Pkg() == nil || obj.Pkg().Path() != ginPath || !x.regNames[obj.Name()] {
				return
			}
			sig := obj.Type().(*types.Signature)
			if sig.Recv() == nil {
				return
			}
			rn := namedOf(sig.Recv().Type())
			if rn == nil || (rn.Obj().Name() != "RouterGroup" && rn.Obj().Name() != "Engine" && rn.Obj().Name() != "IRoutes" && rn.Obj().Name() != "IRouter") {
				return
			}
			nreg++
			var recv ssa.Value
			if cc.IsInvoke() {
				recv = cc.Value
			} else if len(cc.Args) > 0 {
				recv = cc.Args[0]
			}
			key := fnKey(f) + "|" + rn.Obj().Name() + "." + obj.Name()
			ok2, why := x.protected(recv, ins, 0, key)
			r.check(ok2, "C13.O1", key, posOf(c, ins), "receiver is a protected group: "+why, "route registered outside a protected group: "+why)
		})
	}
	r.count("registration_call_sites", nreg)

	// O3 positive count is produced inside protected(); O4
	x.checkO4()
	x.checkO5()
	x.checkO6()
	x.checkO7()
}

// protected decides whether group value g is protected at instruction `at`.
func (x *c13) protected(g ssa.Value, at ssa.Instruction, depth int, regKey string) (bool, string) {
	c := x.c
	if depth > 8 {
		return false, "group provenance too deep"
	}
	g = stripGroup(g)
	switch v := g.(type) {
	case *ssa.Parameter:
		f := v.Parent()
		idx := -1
		for i, p := range f.Params {
			if p == v {
				idx = i
			}
		}
		callers := x.callersOf[f]
		if len(callers) == 0 {
			return true, fmt.Sprintf("parameter %s of %s which has no caller in the module (dead code)", v.Name(), shortFn(f))
		}
		var whys []string
		for _, cs := range callers {
			cc := cs.Common()
			if cc.IsInvoke() || idx >= len(cc.Args) {
				return false, "caller passes the group in a way the rule cannot follow"
			}
			ok, why := x.protected(cc.Args[idx], cs, depth+1, regKey)
			if !ok {
				return false, fmt.Sprintf("call %s at %s: %s", shortFn(cs.Parent()), posOf(c, cs), why)
			}
			whys = append(whys, why)
		}
		return true, fmt.Sprintf("parameter of %s; all %d call sites pass a protected group (%s)", shortFn(f), len(callers), strings.Join(whys, "; "))
	case *ssa.Call:
		obj := calleeObj(&v.Call)
		gkey := fnKey(v.Parent()) + "|group@" + groupName(v)
		if obj != nil && obj.Pkg() != nil && obj.Pkg().Path() == ginPath && obj.Name() == "Group" {
			// (ii) middleware given to Group itself
			if len(v.Call.Args) >= 3 {
				for _, h := range variadicElems(v.Call.Args[2]) {
					if why := x.isAuthMW(h); why == "" {
						x.r.proven("C13.O2", gkey, posOf(c, v), "auth middleware passed to Group(prefix, h...)")
						return true, "Group(prefix, auth)"
					}
				}
			}
			// (i) dominating Use on the same value
			if ok, why := x.dominatingUse(v, at); ok {
				x.r.proven("C13.O2", gkey, posOf(c, v), why)
				return true, why
			}
			// (iii) parent
			var parent ssa.Value
			if v.Call.IsInvoke() {
				parent = v.Call.Value
			} else {
				parent = v.Call.Args[0]
			}
			ok, why := x.protected(parent, v, depth+1, regKey)
			if ok {
				x.r.proven("C13.O2", gkey, posOf(c, v), "parent group protected: "+why)
				return true, "parent: " + why
			}
			x.r.viol("C13.O2", gkey, posOf(c, v), "group is not protected: no Use(auth middleware) dominates its use, none passed to Group, parent not protected ("+why+")")
			return false, "group created at " + posOf(c, v) + " has no dominating Use(auth middleware)"
		}
		// an engine constructor
		if isEngine(v.Type()) {
			if ok, why := x.dominatingUse(v, at); ok {
				x.r.proven("C13.O2", gkey, posOf(c, v), why)
				return true, why
			}
			return false, "engine created at " + posOf(c, v) + " has no dominating Use(auth middleware)"
		}
		return false, "group is the result of a call the rule does not know: " + v.String()
	case *ssa.Phi:
		for _, e := range v.Edges {
			if ok, why := x.protected(e, at, depth+1, regKey); !ok {
				return false, why
			}
		}
		return true, "all phi inputs protected"
	}
	return false, fmt.Sprintf("cannot trace the group value (%T %s)", g, g.String())
}

func groupName(v *ssa.Call) string {
	if len(v.Call.Args) >= 2 {
		if s, ok := constString(v.Call.Args[1]); ok {
			return s
		}
		if p, ok := pathOf(v.Call.Args[1]); ok {
			return p.String()
		}
		if g, ok := v.Call.Args[1].(*ssa.Const); ok {
			return g.String()
		}
	}
	return v.Name()
}

// stripGroup: &engine.RouterGroup -> engine; conversions stripped.
func stripGroup(g ssa.Value) ssa.Value {
	for {
		switch v := g.(type) {
		case *ssa.FieldAddr:
			if isEngine(v.X.Type()) {
				g = v.X
				continue
			}
			return g
		case *ssa.ChangeType:
			g = v.X
		case *ssa.MakeInterface:
			g = v.X
		case *ssa.ChangeInterface:
			g = v.X
		default:
			return g
		}
	}
}

func isEngine(t types.Type) bool { return typeIs(t, ginPath, "Engine") }

// dominatingUse: is there a call Use(g, hs...) with the same SSA value g as
// receiver that dominates `at`, with an auth middleware among hs?
func (x *c13) dominatingUse(g ssa.Value, at ssa.Instruction) (bool, string) {
	c := x.c
	refs := g.Referrers()
	if refs == nil {
		return false, ""
	}
	var cands []ssa.Instruction
	for _, ref := range *refs {
		cands = append(cands, ref)
		// &engine.RouterGroup receivers
		if fa, ok := ref.(*ssa.FieldAddr); ok {
			cands = append(cands, *fa.Referrers()...)
		}
	}
	for _, ref := range cands {
		ci, ok := ref.(ssa.CallInstruction)
		if !ok {
			continue
		}
		cc := ci.Common()
		obj := calleeObj(cc)
		if obj == nil || obj.Pkg() == nil || obj.Pkg().Path() != ginPath || obj.Name() != "Use" {
			continue
		}
		var recv ssa.Value
		var hs ssa.Value
		if cc.IsInvoke() {
			recv = cc.Value
			if len(cc.Args) > 0 {
				hs = cc.Args[0]
			}
		} else if len(cc.Args) >= 2 {
			recv, hs = cc.Args[0], cc.Args[1]
		}
		if stripGroup(recv) != g {
			continue
		}
		if ci.Parent() != at.Parent() || !instrDominates(ci, at) {
			continue
		}
		if _, isDefer := ci.(*ssa.Defer); isDefer {
			continue
		}
		if _, isGo := ci.(*ssa.Go); isGo {
			continue
		}
		for _, h := range variadicElems(hs) {
			if why := x.isAuthMW(h); why == "" {
				return true, "Use(auth middleware) at " + posOf(c, ci) + " dominates"
			}
		}
	}
	return false, ""
}

// variadicElems returns the element values of a variadic argument slice built
// at the call site.
func variadicElems(v ssa.Value) []ssa.Value {
	sl, ok := v.(*ssa.Slice)
	if !ok {
		return nil
	}
	alloc, ok := sl.X.(*ssa.Alloc)
	if !ok {
		return nil
	}
	var out []ssa.Value
	for _, ref := range *alloc.Referrers() {
		if ia, ok := ref.(*ssa.IndexAddr); ok {
			for _, r2 := range *ia.Referrers() {
				if st, ok := r2.(*ssa.Store); ok && st.Addr == ia {
					out = append(out, st.Val)
				}
			}
		}
	}
	return out
}

// isAuthMW returns "" when h is an auth middleware, otherwise the reason.
func (x *c13) isAuthMW(h ssa.Value) string {
	h = stripConv(h)
	var f *ssa.Function
	switch v := h.(type) {
	case *ssa.MakeClosure:
		f, _ = v.Fn.(*ssa.Function)
	case *ssa.Function:
		f = v
	case *ssa.Call:
		// a module function that builds the middleware: every value it can return must be one
		sc := v.Call.StaticCallee()
		if sc == nil || !x.c.inModule(sc) || len(sc.Blocks) == 0 {
			return "handler is the result of a call that cannot be resolved to a module function"
		}
		if x.mwDepth > 2 {
			return "middleware constructors nested too deeply"
		}
		x.mwDepth++
		defer func() { x.mwDepth-- }()
		n := 0
		for _, ri := range returnsOf(sc) {
			if len(ri.Vals) != 1 {
				return "middleware constructor " + sc.Name() + " does not return exactly one value"
			}
			n++
			if why := x.isAuthMW(ri.Vals[0]); why != "" {
				return "middleware constructor " + sc.Name() + " can return (at " + posOf(x.c, ri.Ret) + ") a handler that is not an auth middleware: " + why
			}
		}
		if n == 0 {
			return "middleware constructor " + sc.Name() + " has no return"
		}
		return ""
	}
	if f == nil || f.Blocks == nil {
		return "handler is not a function literal or named function of the module"
	}
	if why, ok := x.authMW[f]; ok {
		return why
	}
	c := x.c
	why := func() string {
		if len(f.Params) == 0 {
			return "no *gin.Context parameter"
		}
		ctxParam := f.Params[len(f.Params)-1]
		if !typeIs(ctxParam.Type(), ginPath, "Context") {
			return "last parameter is not *gin.Context"
		}
		var checks []ssa.Instruction
		var nexts []ssa.Instruction
		eachInstr(f, func(_ *ssa.BasicBlock, _ int, ins ssa.Instruction) {
			if cc, ok := callIs(ins, modPath+"/internal/util", "RouterAuthorizationCheck.Check"); ok {
				if _, isCall := ins.(*ssa.Call); isCall && len(cc.Args) >= 2 && cc.Args[1] == ssa.Value(ctxParam) {
					checks = append(checks, ins)
				}
			}
			if _, ok := callIs(ins, ginPath, "Context.Next"); ok {
				nexts = append(nexts, ins)
			}
		})
		if len(checks) == 0 {
			return "does not call (*RouterAuthorizationCheck).Check with its own context"
		}
		rets, _ := exitBlocks(f)
		for _, rb := range rets {
			ret := rb.Instrs[len(rb.Instrs)-1]
			if !mustPassBefore(f, checks, ret) {
				return "a path reaches return at " + posOf(c, ret) + " without calling Check"
			}
		}
		for _, n := range nexts {
			if !mustPassBefore(f, checks, n) {
				return "calls c.Next() before Check at " + posOf(c, n)
			}
		}
		return ""
	}()
	x.authMW[f] = why
	key := fnKey(f)
	if why == "" {
		x.r.proven("C13.O3", key, c.rel(f.Pos()), "every path calls Check(c, ...) with the middleware's own context")
	} else {
		x.r.viol("C13.O3", key, c.rel(f.Pos()), "middleware installed with Use is not an auth middleware: "+why)
	}
	return why
}

// everyPathFromPasses: every path from the start of block `start` to a Return
// passes through one of the instructions `through`.
func everyPathFromPasses(start *ssa.BasicBlock, through []ssa.Instruction) bool {
	avoid := map[*ssa.BasicBlock]bool{}
	for _, t := range through {
		avoid[t.Block()] = true
	}
	if avoid[start] {
		return true
	}
	r := reachableFrom(start, nil, nil, avoid)
	for b := range r {
		if len(b.Instrs) > 0 {
			if _, ok := b.Instrs[len(b.Instrs)-1].(*ssa.Return); ok {
				return false
			}
		}
	}
	return true
}

func (x *c13) checkO4() {
	c, r := x.c, x.r
	f := c.fn("internal/util", "RouterAuthorizationCheck.Check")
	key := fnKey(f)
	// the error value: result of the AuthorizationCheck invoke
	var errVal ssa.Value
	var authCall *ssa.Call
	eachInstr(f, func(_ *ssa.BasicBlock, _ int, ins ssa.Instruction) {
		if call, ok := ins.(*ssa.Call); ok {
			if obj := calleeObj(&call.Call); obj != nil && obj.Name() == "AuthorizationCheck" {
				errVal = call
				authCall = call
			}
		}
	})
	if errVal == nil {
		r.viol("C13.O4", key+"|call", c.rel(f.Pos()), "Check does not call AuthorizationCheck")
		return
	}
	// token argument must come from the Authorization header of the request
	tokOK := false
	if len(authCall.Call.Args) >= 1 {
		for d := range depSet(f, authCall.Call.Args[0]) {
			if call, ok := d.(*ssa.Call); ok {
				// http.Header.Get("Authorization") or gin's (*Context).GetHeader("Authorization")
				if obj := calleeObj(&call.Call); obj != nil && obj.Pkg() != nil && len(call.Call.Args) >= 2 &&
					((obj.Name() == "Get" && (obj.Pkg().Path() == "net/http" || obj.Pkg().Path() == "net/textproto")) || (obj.Name() == "GetHeader" && obj.Pkg().Path() == ginPath)) {
					if s, ok := constString(call.Call.Args[1]); ok && strings.EqualFold(s, "Authorization") {
						tokOK = true
					}
				}
			}
		}
	}
	r.check(tokOK, "C13.O4", key+"|token", posOf(c, authCall), "token passed to AuthorizationCheck is the request's Authorization header", "token passed to AuthorizationCheck is not the request's Authorization header")
	// every way through Check asks: no return is reachable without the verification of this
	// request's token (a remembered verdict outlives the key it was given under)
	{
		avoid := map[*ssa.BasicBlock]bool{authCall.Block(): true}
		free := reachableFrom(f.Blocks[0], nil, nil, avoid)
		bad := ""
		for _, b := range f.Blocks {
			if !free[b] || len(b.Instrs) == 0 {
				continue
			}
			if ret, ok := b.Instrs[len(b.Instrs)-1].(*ssa.Return); ok {
				bad = posOf(c, ret)
			}
		}
		r.check(bad == "", "C13.O4", key+"|always asked", posOf(c, authCall), "every path through Check passes the call of AuthorizationCheck", "Check can return at "+bad+" without having called AuthorizationCheck for this request: the handler runs on a verdict that was not obtained for this request with the NRF key of this moment (a remembered verdict still admits a token whose signing key has been replaced)")
	}
	// find If on err != nil
	found := false
	for _, b := range f.Blocks {
		if len(b.Instrs) == 0 {
			continue
		}
		ifi, ok := b.Instrs[len(b.Instrs)-1].(*ssa.If)
		if !ok {
			continue
		}
		bo, ok := ifi.Cond.(*ssa.BinOp)
		if !ok || (bo.Op != token.NEQ && bo.Op != token.EQL) {
			continue
		}
		var other ssa.Value
		if bo.X == errVal {
			other = bo.Y
		} else if bo.Y == errVal {
			other = bo.X
		} else {
			continue
		}
		if cst, ok := other.(*ssa.Const); !ok || !cst.IsNil() {
			continue
		}
		found = true
		errEdge := b.Succs[0]
		if bo.Op == token.EQL {
			errEdge = b.Succs[1]
		}
		var aborts, resp401 []ssa.Instruction
		eachInstr(f, func(_ *ssa.BasicBlock, _ int, ins ssa.Instruction) {
			ci, ok := ins.(*ssa.Call)
			if !ok {
				return
			}
			obj := calleeObj(&ci.Call)
			if obj == nil || obj.Pkg() == nil || obj.Pkg().Path() != ginPath {
				return
			}
			args := ci.Call.Args
			if len(args) == 0 || args[0] != ssa.Value(f.Params[1]) {
				return
			}
			switch obj.Name() {
			case "Abort":
				aborts = append(aborts, ins)
			case "AbortWithStatus", "AbortWithStatusJSON", "AbortWithError":
				if len(args) >= 2 {
					if n, ok := constInt(args[1]); ok && n == 401 {
						aborts = append(aborts, ins)
						resp401 = append(resp401, ins)
					}
				}
			case "JSON", "String", "Status", "IndentedJSON", "PureJSON", "Data", "XML":
				if len(args) >= 2 {
					if n, ok := constInt(args[1]); ok && n == 401 {
						resp401 = append(resp401, ins)
					}
				}
			}
		})
		// the edge must be a real edge: err-edge block reached only via this If
		okA := edgeOnly(b, errEdge) && everyPathFromPasses(errEdge, aborts)
		okR := edgeOnly(b, errEdge) && everyPathFromPasses(errEdge, resp401)
		r.check(okA, "C13.O4", key+"|abort", posOf(c, ifi), "every path on the err != nil edge calls c.Abort()", "a path on the err != nil edge returns without c.Abort(): the route handler would still run")
		r.check(okR, "C13.O4", key+"|401", posOf(c, ifi), "every path on the err != nil edge answers 401", "a path on the err != nil edge does not answer with constant 401")
	}
	if !found {
		r.viol("C13.O4", key+"|branch", c.rel(f.Pos()), "no branch on the AuthorizationCheck error found")
	}
}

// edgeOnly: `to` is entered only from `from` (so facts of the edge hold in it).
func edgeOnly(from, to *ssa.BasicBlock) bool {
	return len(to.Preds) == 1 && to.Preds[0] == from
}

func (x *c13) checkO5() {
	c, r := x.c, x.r
	iface, ok := c.pkg("internal/context").Types.Scope().Lookup("NFContext").Type().Underlying().(*types.Interface)
	if !ok {
		broken("NFContext is not an interface")
	}
	n := 0
	for _, p := range c.Mod {
		for _, name := range p.Types.Scope().Names() {
			tn, ok := p.Types.Scope().Lookup(name).(*types.TypeName)
			if !ok || tn.IsAlias() {
				continue
			}
			if _, isI := tn.Type().Underlying().(*types.Interface); isI {
				continue
			}
			for _, t := range []types.Type{tn.Type(), types.NewPointer(tn.Type())} {
				if !types.Implements(t, iface) {
					continue
				}
				sel := c.Prog.MethodSets.MethodSet(t).Lookup(p.Types, "AuthorizationCheck")
				if sel == nil {
					sel = c.Prog.MethodSets.MethodSet(t).Lookup(nil, "AuthorizationCheck")
				}
				if sel == nil {
					continue
				}
				fo, _ := sel.Obj().(*types.Func)
				f := c.Prog.FuncValue(fo)
				if f == nil || f.Blocks == nil {
					continue
				}
				n++
				x.checkAuthImpl(f)
				break
			}
		}
	}
	r.count("NFContext_implementations", n)
	if n == 0 {
		r.viol("C13.O5", "implementations", "", "no implementation of NFContext found")
	}
}

func (x *c13) checkAuthImpl(f *ssa.Function) {
	c, r := x.c, x.r
	key := fnKey(f)
	if len(f.Params) < 2 {
		r.viol("C13.O5", key, c.rel(f.Pos()), "unexpected signature")
		return
	}
	tokenParam := f.Params[1]
	// edges on which OAuth2Required is known false
	type edge struct{ from, to *ssa.BasicBlock }
	var notReq []edge
	for _, b := range f.Blocks {
		if len(b.Instrs) == 0 {
			continue
		}
		ifi, ok := b.Instrs[len(b.Instrs)-1].(*ssa.If)
		if !ok {
			continue
		}
		cond := ifi.Cond
		neg := false
		for {
			if u, ok := cond.(*ssa.UnOp); ok && u.Op == token.NOT {
				neg = !neg
				cond = u.X
				continue
			}
			break
		}
		ld, ok := cond.(*ssa.UnOp)
		if !ok || ld.Op != token.MUL {
			continue
		}
		if _, ok := isFieldAddr(ld.X, modPath+"/internal/context", "CHFContext", "OAuth2Required"); !ok {
			continue
		}
		// cond true means required (unless negated)
		if neg {
			notReq = append(notReq, edge{b, b.Succs[0]})
		} else {
			notReq = append(notReq, edge{b, b.Succs[1]})
		}
	}
	okAll := true
	nret := 0
	var checkVal func(v ssa.Value, at *ssa.BasicBlock, ret ssa.Instruction, depth int)
	checkVal = func(v ssa.Value, at *ssa.BasicBlock, ret ssa.Instruction, depth int) {
		if depth > 6 {
			okAll = false
			r.viol("C13.O5", key+"|return", posOf(c, ret), "return value too complex to classify")
			return
		}
		switch y := v.(type) {
		case *ssa.Const:
			if y.IsNil() {
				dom := false
				for _, e := range notReq {
					if edgeDominates(e.from, e.to, at) {
						dom = true
					}
				}
				if !dom {
					okAll = false
					r.viol("C13.O5", key+"|return-nil", posOf(c, ret), "returns nil (authorised) on a path where OAuth2Required may be true")
				}
				return
			}
		case *ssa.Call:
			if obj := calleeObj(&y.Call); isFunc(obj, "github.com/free5gc/openapi/oauth", "VerifyOAuth") {
				if len(y.Call.Args) >= 1 && y.Call.Args[0] == ssa.Value(tokenParam) {
					return
				}
				okAll = false
				r.viol("C13.O5", key+"|verify-arg", posOf(c, y), "VerifyOAuth is not given the request's token")
				return
			}
		case *ssa.Phi:
			for i, e := range y.Edges {
				checkVal(e, y.Block().Preds[i], ret, depth+1)
			}
			return
		}
		okAll = false
		r.viol("C13.O5", key+"|return", posOf(c, ret), "returns a value that is neither nil-under-!OAuth2Required nor the result of oauth.VerifyOAuth: "+v.String())
	}
	rets, _ := exitBlocks(f)
	for _, rb := range rets {
		ret := rb.Instrs[len(rb.Instrs)-1].(*ssa.Return)
		if len(ret.Results) != 1 {
			continue
		}
		nret++
		checkVal(ret.Results[0], rb, ret, 0)
	}
	if okAll && nret > 0 {
		r.proven("C13.O5", key, c.rel(f.Pos()), fmt.Sprintf("%d returns: nil only under !OAuth2Required, otherwise VerifyOAuth(token, ...)", nret))
		r.proven("C13.O5", key+"|returns", c.rel(f.Pos()), fmt.Sprintf("%d return sites classified", nret))
	}
}

func (x *c13) checkO6() {
	c, r := x.c, x.r
	serverRouter := fieldOf(c.namedType("internal/sbi", "Server"), "router")
	_ = serverRouter
	nServe := 0
	for _, f := range c.ModFuncs {
		eachInstr(f, func(_ *ssa.BasicBlock, _ int, ins ssa.Instruction) {
			// &http.Server{} literals
			if a, ok := ins.(*ssa.Alloc); ok {
				if typeIs(a.Type(), "net/http", "Server") {
					r.viol("C13.O6", fnKey(f)+"|http.Server literal", posOf(c, ins), "module code builds its own http.Server; only the server from NewHttp2Server(newRouter) may serve")
				}
				return
			}
			ci, ok := ins.(ssa.CallInstruction)
			if !ok {
				return
			}
			obj := calleeObj(ci.Common())
			if obj == nil || obj.Pkg() == nil {
				return
			}
			switch obj.Pkg().Path() {
			case "net/http":
				name := funcLocalName(obj)
				switch name {
				case "ListenAndServe", "ListenAndServeTLS", "Serve", "ServeTLS", "Handle", "HandleFunc":
					r.viol("C13.O6", fnKey(f)+"|http."+name, posOf(c, ins), "package-level net/http serving/registration call: bypasses the protected router (pprof handlers live on the default mux)")
				case "Server.ListenAndServe", "Server.ListenAndServeTLS", "Server.Serve", "Server.ServeTLS":
					nServe++
					recv := ci.Common().Args[0]
					ok := false
					why := "receiver is not the Server.httpServer field"
					if ld, isLd := recv.(*ssa.UnOp); isLd {
						if _, isF := isFieldAddr(ld.X, modPath+"/internal/sbi", "Server", "httpServer"); isF {
							ok = true
						}
					}
					r.check(ok, "C13.O6", fnKey(f)+"|"+name, posOf(c, ins), "serves Server.httpServer", why)
				}
			case "github.com/free5gc/util/httpwrapper":
				if obj.Name() == "NewHttp2Server" || obj.Name() == "NewHttp1Server" {
					args := ci.Common().Args
					ok := false
					why := "handler argument is not the Server.router field"
					if len(args) >= 3 {
						h := stripConv(args[2])
						if ld, isLd := h.(*ssa.UnOp); isLd {
							if _, isF := isFieldAddr(ld.X, modPath+"/internal/sbi", "Server", "router"); isF {
								// the last store to router dominating this call must be newRouter's result
								ok, why = x.routerFromNewRouter(f, ci)
							}
						} else if call, isCall := h.(*ssa.Call); isCall {
							if sc := call.Call.StaticCallee(); sc != nil && sc.Name() == "newRouter" && c.inModule(sc) {
								ok = true
							}
						}
					}
					r.check(ok, "C13.O6", fnKey(f)+"|"+obj.Name(), posOf(c, ins), "HTTP server is built from the router returned by newRouter", why)
				}
			}
		})
	}
	r.count("http_serve_calls", nServe)
}

// routerFromNewRouter: among the stores to Server.router in f, the last one
// dominating `at` stores the result of newRouter.
func (x *c13) routerFromNewRouter(f *ssa.Function, at ssa.Instruction) (bool, string) {
	c := x.c
	var last *ssa.Store
	eachInstr(f, func(_ *ssa.BasicBlock, _ int, ins ssa.Instruction) {
		st, ok := ins.(*ssa.Store)
		if !ok {
			return
		}
		if _, ok := isFieldAddr(st.Addr, modPath+"/internal/sbi", "Server", "router"); !ok {
			return
		}
		if !instrDominates(st, at) {
			// a store that may or may not precede: unknown
			if canReach(st, at) {
				last = nil
			}
			return
		}
		if last == nil || instrDominates(last, st) {
			last = st
		}
	})
	if last == nil {
		return false, "cannot determine the value of Server.router at the call"
	}
	// no later store between last and at
	if call, ok := last.Val.(*ssa.Call); ok {
		if sc := call.Call.StaticCallee(); sc != nil && sc.Name() == "newRouter" && c.inModule(sc) {
			// newRouter must return the engine it registered on: checked by O1/O2 on all registrations.
			return true, ""
		}
	}
	return false, "Server.router holds " + last.Val.String() + " at the call, not the result of newRouter"
}

// checkO7: the premise "the NRF has declared OAuth2 mandatory" reaches the
// check.  AuthorizationCheck reads CHFContext.OAuth2Required; that member is
// useful only if it is assigned from the NRF's registration answer.  Every
// assignment of the member is inspected: at least one must exist, and each
// value assigned must depend on the look-up of customInfo["oauth2"] in the
// answer (an assignment of a constant, or of a variable that no path connects
// to the answer - e.g. an outer variable shadowed by `:=` - leaves the flag
// false whatever the NRF says).
func (x *c13) checkO7() {
	c, r := x.c, x.r
	n := 0
	for _, f := range c.ModFuncs {
		eachInstr(f, func(_ *ssa.BasicBlock, _ int, ins ssa.Instruction) {
			st, ok := ins.(*ssa.Store)
			if !ok {
				return
			}
			fa, ok := st.Addr.(*ssa.FieldAddr)
			if !ok || !typeIs(fa.X.Type(), ctxPath, "CHFContext") || fieldName(fa) != "OAuth2Required" {
				return
			}
			n++
			key := fmt.Sprintf("%s|assignment of OAuth2Required #%d", fnKey(f), n)
			fromAnswer := false
			for d := range depSet(f, st.Val) {
				var m, k ssa.Value
				switch y := d.(type) {
				case *ssa.Lookup:
					m, k = y.X, y.Index
				default:
					continue
				}
				if s, ok := constString(k); !ok || s != "oauth2" {
					continue
				}
				if p, ok := pathOf(m); ok && len(p.Elems) > 0 && p.Elems[len(p.Elems)-1] == "CustomInfo" {
					fromAnswer = true
				}
			}
			r.check(fromAnswer, "C13.O7", key, posOf(c, st), "the value assigned depends on customInfo[\"oauth2\"] of the NRF's registration answer", "CHFContext.OAuth2Required is assigned "+describe(st.Val)+", which does not depend on customInfo[\"oauth2\"] of the NRF's answer: the flag stays false when the NRF declares OAuth2 mandatory, and every route is served without a token")
		})
	}
	if n == 0 {
		r.viol("C13.O7", "assignment of OAuth2Required", "", "nothing assigns CHFContext.OAuth2Required: AuthorizationCheck always takes the 'not required' branch")
	}
	x.checkO8()
}

// checkO8: the declaration is learnt on every registration that can be the
// process's first.  In the function that assigns the flag, a success exit
// that does not pass the assignment is the "200 OK, profile replaced" answer
// of TS 29.510 5.2.2.2.2: the NRF gives it only when it already holds a
// profile under the instance id of the request.  Such an exit is harmless
// exactly when the id is drawn at random at every start of the process (the
// NRF cannot know it, the first answer is 201 Created and passes the
// assignment); then every assignment of CHFContext.NfId must be a random
// UUID or the id the registration function itself returns.
func (x *c13) checkO8() {
	c, r := x.c, x.r
	isCtor := func(v ssa.Value) bool {
		call, ok := v.(*ssa.Call)
		if !ok {
			return false
		}
		o := calleeObj(&call.Call)
		if o == nil || o.Pkg() == nil {
			return false
		}
		switch o.Pkg().Path() {
		case "errors", "fmt", "github.com/pkg/errors":
			switch o.Name() {
			case "New", "Errorf", "Wrap", "Wrapf", "WithMessage", "WithMessagef", "WithStack":
				return true
			}
		}
		return false
	}
	var regFns []*ssa.Function
	bypass := ""
	otherBypass := ""
	for _, f := range c.ModFuncs {
		avoid := map[*ssa.BasicBlock]bool{}
		eachInstr(f, func(b *ssa.BasicBlock, _ int, ins ssa.Instruction) {
			if st, ok := ins.(*ssa.Store); ok {
				if fa, ok := st.Addr.(*ssa.FieldAddr); ok && typeIs(fa.X.Type(), ctxPath, "CHFContext") && fieldName(fa) == "OAuth2Required" {
					avoid[b] = true
				}
			}
		})
		if len(avoid) == 0 || len(f.Blocks) == 0 {
			continue
		}
		regFns = append(regFns, f)
		reach := reachableFrom(f.Blocks[0], nil, nil, avoid)
		for _, ri := range returnsOf(f) {
			if !reach[ri.At] {
				continue
			}
			failing := false
			for _, v := range ri.Vals {
				if types.Identical(v.Type(), types.Universe.Lookup("error").Type()) && isCtor(v) {
					failing = true
				}
			}
			if !failing && bypass == "" {
				bypass = fmt.Sprintf("%s can return without an error at %s without having assigned the flag", shortFn(f), posOf(c, ri.Point()))
			}
			// the one bypass a random instance id makes harmless is the answer without a Location
			// (200 OK, profile replaced): is this exit reachable any other way?
			if !failing {
				var from, to *ssa.BasicBlock
				for _, b := range f.Blocks {
					if len(b.Instrs) == 0 || len(b.Succs) != 2 {
						continue
					}
					iff, isIf := b.Instrs[len(b.Instrs)-1].(*ssa.If)
					if !isIf {
						continue
					}
					bo, isBo := iff.Cond.(*ssa.BinOp)
					if !isBo || (bo.Op != token.EQL && bo.Op != token.NEQ) {
						continue
					}
					s, isEmpty := constString(bo.Y)
					if !isEmpty || s != "" {
						continue
					}
					isLoc := false
					for d := range depSet(f, bo.X) {
						if fa, ok := d.(*ssa.FieldAddr); ok && fieldName(fa) == "Location" {
							isLoc = true
						}
					}
					if !isLoc {
						continue
					}
					from, to = b, b.Succs[0]
					if bo.Op == token.NEQ {
						to = b.Succs[1]
					}
				}
				if os.Getenv("CHFCHECK_DEBUG") != "" {
					fmt.Fprintf(os.Stderr, "O8: from=%v at=%v\n", from, ri.At)
				}
				// (a return fed directly by the test's block leaves over the no-Location edge itself)
				if from == nil || (ri.At != from && reachableFrom(f.Blocks[0], from, to, avoid)[ri.At]) {
					otherBypass = fmt.Sprintf("%s can report success at %s without having assigned OAuth2Required on a path other than the answer without a Location (the NRF's 200 OK for an instance it already holds): a first registration (201 Created) that takes this path leaves the flag false although the NRF declared OAuth2 mandatory, and every route stays open", shortFn(f), posOf(c, ri.Point()))
				}
			}
		}
	}
	if len(regFns) == 0 {
		return
	}
	if bypass == "" {
		r.proven("C13.O8", "every success exit assigns the flag", "", "no exit of the registration function that reports success bypasses the assignment of OAuth2Required")
		return
	}
	if otherBypass != "" {
		r.viol("C13.O8", "success exit that skips the flag", "", otherBypass)
		return
	}
	isReg := func(f *ssa.Function) bool {
		for _, g := range regFns {
			if g == f {
				return true
			}
		}
		return false
	}
	n := 0
	for _, f := range c.ModFuncs {
		eachInstr(f, func(_ *ssa.BasicBlock, _ int, ins ssa.Instruction) {
			st, ok := ins.(*ssa.Store)
			if !ok {
				return
			}
			fa, ok := st.Addr.(*ssa.FieldAddr)
			if !ok || !typeIs(fa.X.Type(), ctxPath, "CHFContext") || fieldName(fa) != "NfId" {
				return
			}
			n++
			key := fmt.Sprintf("%s|assignment of NfId", fnKey(f))
			random, echoed, derived := false, false, ""
			for d := range depSet(f, st.Val) {
				call, ok := d.(*ssa.Call)
				if !ok {
					continue
				}
				if sc := call.Call.StaticCallee(); sc != nil && isReg(sc) {
					echoed = true
					continue
				}
				for _, callee := range c.calleesAt(call) {
					if isReg(callee) {
						echoed = true
					}
				}
				o := calleeObj(&call.Call)
				if o == nil || o.Pkg() == nil || o.Pkg().Path() != "github.com/google/uuid" {
					continue
				}
				switch o.Name() {
				case "New", "NewString", "NewRandom", "NewUUID", "NewV7":
					random = true
				case "String", "Must", "URN":
				default:
					derived = o.Name()
				}
			}
			ok2 := (random && derived == "") || echoed
			r.check(ok2, "C13.O8", key, posOf(c, st), "the instance id is a random UUID drawn at start (or the id the registration returned): the NRF cannot already hold a profile under it, so the first answer is 201 Created and passes the assignment of the flag",
				"the instance id is assigned "+describe(st.Val)+", which is not a fresh random UUID, while "+bypass+" (the 200 OK answer an NRF gives when it already holds a profile under that id, e.g. after a restart of the CHF): OAuth2Required then keeps its zero value although the NRF declares OAuth2 mandatory, and every route is served without a token")
		})
	}
	if n == 0 {
		r.viol("C13.O8", "assignment of NfId", "", "nothing assigns CHFContext.NfId while "+bypass+": the (empty, constant) instance id is known to the NRF after the first start, and OAuth2Required keeps its zero value")
	}
}
