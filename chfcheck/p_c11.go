package main

import (
	"fmt"
	"go/token"
	"go/types"
	"strings"

	"golang.org/x/tools/go/ssa"
)

// C11: no request crashes the service or wedges a subscriber.

func init() { register("C11", "other", checkC11) }

// httpEntries: the route handler functions only (no Diameter closures).
func httpEntries(c *Ctx) []*ssa.Function {
	var out []*ssa.Function
	for _, f := range requestEntries(c) {
		if rootOf(f).Pkg != nil && rootOf(f).Pkg.Pkg.Path() == modPath+"/internal/sbi" {
			out = append(out, f)
		}
	}
	return out
}

// tableCtx gives boundConstAt access to the loaded program (read-only tables).
var tableCtx *Ctx

func checkC11(c *Ctx, r *Report) {
	tableCtx = c
	r.Explanation = "Panic-freedom and no-wedge clauses decided on go/ssa for every request: (R1) no dereference of an optional (pointer) member of the request model without a dominating non-nil test of the same access path (one call level of caller-side guards accepted); (R2) every index/slice expression in the request path of the API/processor/convert packages is in range by a dominating length test, a range loop, an array bound, the strings.Split lemma or the subscriber-pool prefix invariant (itself checked: every insertion into the pool is dominated by HasPrefix(supi, \"imsi-\")); (R3) no panic/Fatal/os.Exit call site is reachable from a route handler; (R4) every Lock taken in request code is followed by its deferred Unlock before any instruction that may panic, or its critical section contains no instruction that may panic - so a recovered panic cannot leave a subscriber locked; (R5) every problem status is a 4xx constant."
	r.Undecided = []string{"panics inside libraries (gin, openapi, go-diameter, mongo)", "nil members of peer answers (rating/account servers): outside the quantifier", "the BER codec and CDR file encoder reached from the handlers are covered by C04/C16/C03"}
	r.Trusted = append(r.Trusted, "strings.Split(s, sep) returns at least one element for a non-empty sep", "gin recovers handler panics into a 500 (that is exactly why R4 is needed)")
	r.rule("C11.R1", "no unguarded dereference of an optional request member in request-reachable code", 8)
	r.rule("C11.R2", "every index/slice expression on the request path is provably in range", 6)
	r.rule("C11.R2b", "every insertion into the subscriber pool is dominated by the imsi- prefix test on the key", 1)
	r.rule("C11.R3", "no explicit abort (panic, Fatal, os.Exit) reachable from a route handler", 1)
	r.rule("C11.R4", "no wedge: Lock is followed by defer Unlock before anything that may panic, or the critical section cannot panic", 4)
	r.rule("C11.R6", "every assignment to a map entry on the request path is into a map that some function of the module makes", 3)
	r.rule("C11.R7", "the only 5xx answer of the handlers lies behind a failed read of the request body, and what is read is the request's own body: no code of the module replaces http.Request.Body (a size-limiting reader makes the read fail - and the handler answer 500 - for a long but valid request)", 1)
	r.rule("C11.R8", "a recharging path parameter that is not of the form <ueId>_<ratingGroup> is answered 4xx: the parts of the parameter are used only where their number is known to be exactly two", 1)
	r.rule("C11.R9", "no request can block on a lock its own call chain already holds (shared with C09.R3): such a request never returns and keeps its subscriber - and everybody queuing behind the lock - waiting", 1)
	r.rule("C11.R10", "every request body is decoded into an empty object made for this request (encoding/json only sets the members present in the body): the checks on mandatory members look at this request, not at what an earlier one left behind", 3)
	r.rule("C11.R11", "no lock is held across the notification to the consumer (shared with C09.R8): a consumer that updates before it answers would find the subscriber blocked", 1)
	r.rule("C11.R5", "every problem status built in the API/processor is a 4xx constant", 8)

	entries := httpEntries(c)
	reached, pred := c.reach(entries)
	r.count("route_handlers", len(entries))
	r.count("request_reachable_functions", len(reached))

	// ---- R1
	reqT, ok := c.extObj(modelsPath, "ChfConvergedChargingChargingDataRequest").Type().(*types.Named)
	if !ok {
		broken("request model type not found")
	}
	rm := requestModelTypes(reqT)
	if len(rm) < 10 {
		broken("request model closure unexpectedly small: %d", len(rm))
	}
	r.count("request_model_types", len(rm))
	ne := newNilEngine(c, func(owner *types.Named, _ *types.Var) bool { return rm[owner] })
	nsites := 0
	for _, f := range c.ModFuncs {
		if !reached[f] {
			continue
		}
		seen := map[string]int{}
		for _, s := range ne.sites(f) {
			nsites++
			member := strings.Join(s.path.Elems, ".")
			if member == "" {
				member = describe(s.ptr)
			}
			seen[member]++
			key := fmt.Sprintf("%s|%s#%d", fnKey(f), member, seen[member])
			if s.guarded {
				r.proven("C11.R1", key, posOf(c, s.ins), s.how)
			} else {
				r.viol("C11.R1", key, posOf(c, s.ins), "optional request member "+member+" is dereferenced without a non-nil test: a JSON body that omits it panics the handler (path "+pathTo(pred, f)+")")
			}
		}
	}
	r.count("optional_member_dereferences", nsites)

	// ---- R2
	checkIndexSites(c, r, reached, pred)

	// ---- R3
	nAbort := 0
	for _, f := range c.ModFuncs {
		if !reached[f] {
			continue
		}
		idx := 0
		eachInstr(f, func(_ *ssa.BasicBlock, _ int, ins ssa.Instruction) {
			what := ""
			switch x := ins.(type) {
			case *ssa.Panic:
				if !x.Pos().IsValid() {
					return // synthetic: "blocking select matched no case"
				}
				if mi, ok := x.X.(*ssa.MakeInterface); ok {
					if s, ok := constString(mi.X); ok && strings.Contains(s, "select") {
						return
					}
				}
				what = "panic"
			case ssa.CallInstruction:
				obj := calleeObj(x.Common())
				if obj != nil && obj.Pkg() != nil {
					n := obj.Name()
					switch obj.Pkg().Path() {
					case "log", "github.com/sirupsen/logrus":
						if strings.HasPrefix(n, "Fatal") || strings.HasPrefix(n, "Panic") {
							what = obj.Pkg().Name() + "." + n
						}
					case "os":
						if n == "Exit" {
							what = "os.Exit"
						}
					}
				}
			}
			if what == "" {
				return
			}
			// a Fatal inside a deferred recover handler of a goroutine is not on the request path
			idx++
			nAbort++
			r.viol("C11.R3", fmt.Sprintf("%s|%s#%d", fnKey(f), what, idx), posOf(c, ins), what+" is reachable from a route handler ("+pathTo(pred, f)+"): a failing environment (e.g. unwritable CDR file) crashes the request instead of a 4xx")
		})
	}
	if nAbort == 0 {
		r.proven("C11.R3", "none", "", fmt.Sprintf("no abort call site in the %d functions reachable from the route handlers", len(reached)))
	}

	// ---- R4
	checkNoWedge(c, r)

	// ---- R5
	checkProblemStatuses(c, r, "C11.R5")

	// ---- R6
	checkMapWrites(c, r, reached, pred, "C11.R6")

	// ---- R8: the recharging path parameter is <ueId>_<ratingGroup>: exactly two parts
	c11RechargeParamShape(c, r, "C11.R8")
	jsonFreshTargets(c, r, "C11.R10")
	noLockAcrossNotification(c, r, "C11.R11")
	r.shareFrom(c, checkC09, map[string]string{"C09.R3": "C11.R9"})

	// ---- R7
	nBody := 0
	for _, f := range c.ModFuncs {
		eachInstr(f, func(_ *ssa.BasicBlock, _ int, ins ssa.Instruction) {
			st, ok := ins.(*ssa.Store)
			if !ok {
				return
			}
			fa, ok := st.Addr.(*ssa.FieldAddr)
			if !ok || fieldName(fa) != "Body" || !typeIs(fa.X.Type(), "net/http", "Request") {
				return
			}
			if !reached[rootOf(f)] && !reached[f] {
				return
			}
			// putting the octets back after they were read (to log or parse them twice) is harmless
			restored := false
			eachInstr(f, func(_ *ssa.BasicBlock, _ int, i2 ssa.Instruction) {
				call, ok := i2.(*ssa.Call)
				if !ok {
					return
				}
				obj := calleeObj(&call.Call)
				if obj == nil || obj.Pkg() == nil {
					return
				}
				isRead := (obj.Pkg().Path() == ginPath && obj.Name() == "GetRawData") || ((obj.Pkg().Path() == "io" || obj.Pkg().Path() == "io/ioutil") && obj.Name() == "ReadAll")
				if isRead && instrDominates(call, st) {
					restored = true
				}
			})
			if restored {
				return
			}
			nBody++
			r.viol("C11.R7", fnKey(rootOf(f))+"|replaces the request body", posOf(c, ins), "the request body is replaced by "+describe(st.Val)+" before it is read: whatever makes that reader fail (a length limit, a deadline) is answered with the 500 of the body-read error branch although the request is valid")
		})
	}
	if nBody == 0 {
		r.proven("C11.R7", "request body|no writer", "", "no request-reachable function assigns http.Request.Body: the handlers read the body the client sent")
	}
}

// checkMapWrites: an assignment to an entry of a nil map panics (reading one
// does not).  For every map assignment on the request path whose map is a
// member of a state object or a package variable, some function of the module
// must store a made map (make / composite literal) into that member; a
// member that is only ever read, or only ever set to nil, is nil whenever the
// assignment runs.
func checkMapWrites(c *Ctx, r *Report, reached map[*ssa.Function]bool, pred map[*ssa.Function]*ssa.Function, rule string) {
	type slot struct {
		owner *types.Named
		field int
		glob  *ssa.Global
	}
	made := map[slot]string{}
	slotOfAddr := func(addr ssa.Value) (slot, string, bool) {
		switch a := addr.(type) {
		case *ssa.FieldAddr:
			t := a.X.Type()
			if p, ok := t.Underlying().(*types.Pointer); ok {
				t = p.Elem()
			}
			if n, ok := t.(*types.Named); ok {
				return slot{owner: n, field: a.Field}, n.Obj().Name() + "." + fieldName(a), true
			}
		case *ssa.Global:
			return slot{glob: a}, a.Name(), true
		}
		return slot{}, "", false
	}
	var nonNilMap func(v ssa.Value, depth int) bool
	nonNilMap = func(v ssa.Value, depth int) bool {
		if depth > 6 {
			return false
		}
		switch x := v.(type) {
		case *ssa.MakeMap:
			return true
		case *ssa.ChangeType:
			return nonNilMap(x.X, depth+1)
		case *ssa.Phi:
			for _, e := range x.Edges {
				if !nonNilMap(e, depth+1) {
					return false
				}
			}
			return len(x.Edges) > 0
		case *ssa.Const:
			return false
		case *ssa.Call, *ssa.Parameter, *ssa.UnOp, *ssa.Extract, *ssa.Lookup, *ssa.TypeAssert:
			return true // handed in from elsewhere: not known to be nil
		}
		return false
	}
	all := append([]*ssa.Function{}, c.ModFuncs...)
	for _, p := range c.Prog.AllPackages() {
		if p.Pkg != nil && strings.HasPrefix(p.Pkg.Path(), modPath) {
			if init := p.Func("init"); init != nil {
				all = append(all, init)
			}
		}
	}
	for _, f := range all {
		eachInstr(f, func(_ *ssa.BasicBlock, _ int, ins ssa.Instruction) {
			st, ok := ins.(*ssa.Store)
			if !ok {
				return
			}
			if _, isMap := st.Val.Type().Underlying().(*types.Map); !isMap {
				return
			}
			if sl, _, ok := slotOfAddr(st.Addr); ok && nonNilMap(st.Val, 0) {
				if _, dup := made[sl]; !dup {
					made[sl] = posOf(c, st)
				}
			}
		})
	}
	n := 0
	for _, f := range c.ModFuncs {
		if !reached[f] {
			continue
		}
		idx := map[string]int{}
		eachInstr(f, func(_ *ssa.BasicBlock, _ int, ins ssa.Instruction) {
			mu, ok := ins.(*ssa.MapUpdate)
			if !ok {
				return
			}
			m := mu.Map
			if ct, ok := m.(*ssa.ChangeType); ok {
				m = ct.X
			}
			if k, ok := m.(*ssa.Const); ok && k.Value == nil {
				n++
				r.viol(rule, fmt.Sprintf("%s|nil map literal#%d", fnKey(f), n), posOf(c, mu), "assignment to an entry of a map that is the nil constant: panics (path "+pathTo(pred, f)+")")
				return
			}
			ld, ok := m.(*ssa.UnOp)
			if !ok || ld.Op != token.MUL {
				return
			}
			sl, name, ok := slotOfAddr(ld.X)
			if !ok {
				return
			}
			n++
			idx[name]++
			key := fmt.Sprintf("%s|%s#%d", fnKey(f), name, idx[name])
			if at, ok := made[sl]; ok {
				r.proven(rule, key, posOf(c, mu), "the map is made at "+at)
			} else {
				r.viol(rule, key, posOf(c, mu), "assignment to an entry of "+name+", a map that no function of the module ever makes (it is only read elsewhere, which is legal on a nil map): the assignment panics with \"assignment to entry in nil map\" whenever this branch runs, gin turns that into a 500 (path "+pathTo(pred, f)+")")
			}
		})
	}
	r.count("map_assignments_on_request_path", n)
}

// ---------------------------------------------------------------------------
// R2: index sites

var c11IndexScope = map[string]bool{
	modPath + "/internal/sbi":           true,
	modPath + "/internal/sbi/processor": true,
	modPath + "/cdr/cdrConvert":         true,
	modPath + "/internal/context":       true,
}

type lenFact struct{ lo, hi int64 } // hi < 0: unbounded

func checkIndexSites(c *Ctx, r *Report, reached map[*ssa.Function]bool, pred map[*ssa.Function]*ssa.Function) {
	n := 0
	for _, f := range c.ModFuncs {
		if !reached[f] || rootOf(f).Pkg == nil || !c11IndexScope[rootOf(f).Pkg.Pkg.Path()] {
			continue
		}
		cnt := map[string]int{}
		eachInstr(f, func(_ *ssa.BasicBlock, _ int, ins ssa.Instruction) {
			var base, idx, lo, hi ssa.Value
			kind := ""
			switch x := ins.(type) {
			case *ssa.IndexAddr:
				base, idx, kind = x.X, x.Index, "index"
			case *ssa.Index:
				base, idx, kind = x.X, x.Index, "index"
			case *ssa.Lookup:
				if _, isMap := x.X.Type().Underlying().(*types.Map); isMap {
					return
				}
				base, idx, kind = x.X, x.Index, "index"
			case *ssa.Slice:
				if x.Low == nil && x.High == nil {
					return // s[:] never fails
				}
				base, lo, hi, kind = x.X, x.Low, x.High, "slice"
			default:
				return
			}
			// variadic-argument arrays and literals built here are in range by construction
			if a, ok := base.(*ssa.Alloc); ok {
				if arr, ok := a.Type().Underlying().(*types.Pointer).Elem().Underlying().(*types.Array); ok {
					if k, ok := constInt(idx); ok && k >= 0 && k < arr.Len() {
						return
					}
					if kind == "slice" {
						return
					}
				}
			}
			n++
			desc := describe(base)
			cnt[desc+kind]++
			key := fmt.Sprintf("%s|%s %s#%d", fnKey(f), kind, desc, cnt[desc+kind])
			ok, why := indexInRange(c, f, ins, base, idx, lo, hi)
			if ok {
				r.proven("C11.R2", key, posOf(c, ins), why)
			} else {
				r.viol("C11.R2", key, posOf(c, ins), why+" (path "+pathTo(pred, f)+")")
			}
		})
	}
	r.count("index_sites", n)
	// R2b pool invariant
	checkPoolPrefixInvariant(c, r)
}

func indexInRange(c *Ctx, f *ssa.Function, at ssa.Instruction, base, idx, lo, hi ssa.Value) (bool, string) {
	// arrays
	if pt, ok := base.Type().Underlying().(*types.Pointer); ok {
		if arr, ok := pt.Elem().Underlying().(*types.Array); ok {
			if idx != nil {
				if k, ok := constInt(idx); ok && k >= 0 && k < arr.Len() {
					return true, "constant index inside the array type"
				}
			}
			if idx == nil {
				return true, "slice of an array with constant bounds checked by the compiler"
			}
		}
	}
	fact := lenFactsAt(f, base, at)
	if idx != nil {
		if k, ok := constInt(idx); ok {
			if k < 0 {
				return false, "negative constant index"
			}
			if fact.lo > k {
				return true, fmt.Sprintf("len >= %d on every path (dominating length test or library lemma)", fact.lo)
			}
			return false, fmt.Sprintf("index %d is not covered by a dominating length test (len >= %d is all that is known): a shorter input panics with index out of range", k, fact.lo)
		}
		// range-loop index: idx < len(base) on a dominating edge and idx = phi(-1,..)+1 or >= 0 by construction
		if rangeIndex(f, base, idx, at) {
			return true, "range-loop index bounded by len of the same value"
		}
		return false, "non-constant index without a recognised bound"
	}
	// slice s[lo:hi]
	need := int64(0)
	if lo != nil {
		k, ok := boundConstAt(lo, at)
		if !ok {
			return false, "non-constant lower slice bound without a recognised bound"
		}
		need = k
	}
	if hi != nil {
		k, ok := boundConstAt(hi, at)
		if !ok {
			return false, "non-constant upper slice bound without a recognised bound"
		}
		if k > need {
			need = k
		}
	}
	if fact.lo >= need {
		return true, fmt.Sprintf("len >= %d on every path", fact.lo)
	}
	if need <= 5 && isPoolKeyString(f, base, at) {
		return true, "the string is a key found in / stored into the subscriber pool, which only holds keys with the prefix \"imsi-\" (R2b): len >= 5"
	}
	return false, fmt.Sprintf("slice bound %d is not covered by a dominating length test (len >= %d known)", need, fact.lo)
}

// lenFactsAt derives a lower bound for len(base) at instruction `at`.
func lenFactsAt(f *ssa.Function, base ssa.Value, at ssa.Instruction) lenFact {
	fact := lenFact{lo: 0, hi: -1}
	// library lemma: strings.Split with a non-empty constant separator yields >= 1 element
	if call, ok := base.(*ssa.Call); ok {
		if obj := calleeObj(&call.Call); obj != nil && obj.Pkg() != nil && obj.Pkg().Path() == "strings" && (obj.Name() == "Split" || obj.Name() == "SplitN") {
			if sep, ok := constString(call.Call.Args[1]); ok && sep != "" {
				fact.lo = 1
			}
		}
	}
	if ms, ok := base.(*ssa.MakeSlice); ok {
		if k, ok := constInt(ms.Len); ok && k > fact.lo {
			fact.lo = k
		}
	}
	if sl, ok := stripConv(base).(*ssa.Slice); ok {
		// slice of a fixed-size array with constant bounds (make with a constant length, composite literals)
		if pt, ok := sl.X.Type().Underlying().(*types.Pointer); ok {
			if arr, ok := pt.Elem().Underlying().(*types.Array); ok {
				lo, hi := int64(0), arr.Len()
				okc := true
				if sl.Low != nil {
					if k, ok := constInt(sl.Low); ok {
						lo = k
					} else {
						okc = false
					}
				}
				if sl.High != nil {
					if k, ok := constInt(sl.High); ok {
						hi = k
					} else {
						okc = false
					}
				}
				if okc && hi-lo > fact.lo {
					fact.lo = hi - lo
				}
			}
		}
	}
	if ct, ok := base.(*ssa.ChangeType); ok {
		if ms, ok := ct.X.(*ssa.MakeSlice); ok {
			if k, ok := constInt(ms.Len); ok && k > fact.lo {
				fact.lo = k
			}
		}
	}
	basePath, havePath := pathOf(base)
	sameBase := func(v ssa.Value) bool {
		if v == base {
			return true
		}
		if havePath && len(basePath.Elems) > 0 {
			if vp, ok := pathOf(v); ok && vp.Root == basePath.Root && strings.Join(vp.Elems, ".") == strings.Join(basePath.Elems, ".") {
				return true
			}
		}
		return false
	}
	isLenOfBase := func(v ssa.Value) bool {
		call, ok := v.(*ssa.Call)
		if !ok {
			return false
		}
		b, ok := call.Call.Value.(*ssa.Builtin)
		return ok && b.Name() == "len" && len(call.Call.Args) == 1 && sameBase(call.Call.Args[0])
	}
	for _, b := range f.Blocks {
		if len(b.Instrs) == 0 {
			continue
		}
		ifi, ok := b.Instrs[len(b.Instrs)-1].(*ssa.If)
		if !ok {
			continue
		}
		bo, ok := ifi.Cond.(*ssa.BinOp)
		if !ok {
			continue
		}
		var k int64
		op := bo.Op
		if isLenOfBase(bo.X) {
			kk, ok := constInt(bo.Y)
			if !ok {
				continue
			}
			k = kk
		} else if isLenOfBase(bo.Y) {
			kk, ok := constInt(bo.X)
			if !ok {
				continue
			}
			k = kk
			// k op len  ==> len op' k
			switch op {
			case token.LSS:
				op = token.GTR
			case token.LEQ:
				op = token.GEQ
			case token.GTR:
				op = token.LSS
			case token.GEQ:
				op = token.LEQ
			}
		} else {
			continue
		}
		for i, succ := range b.Succs {
			if !edgeDominates(b, succ, at.Block()) {
				continue
			}
			taken := i == 0
			// lower bound implied on this edge
			var lo int64 = -1
			switch op {
			case token.EQL:
				if taken {
					lo = k
				}
			case token.NEQ:
				if !taken {
					lo = k
				}
			case token.GTR:
				if taken {
					lo = k + 1
				}
			case token.GEQ:
				if taken {
					lo = k
				}
			case token.LSS:
				if !taken {
					lo = k
				}
			case token.LEQ:
				if !taken {
					lo = k + 1
				}
			}
			if lo > fact.lo {
				fact.lo = lo
			}
		}
	}
	return fact
}

// rangeIndex: idx is bounded by `idx < len(base)` on an edge dominating `at`,
// and idx is non-negative by construction (phi(-1, idx)+1 or phi(0, idx+1)).
func rangeIndex(f *ssa.Function, base, idx ssa.Value, at ssa.Instruction) bool {
	nonNeg := false
	switch x := idx.(type) {
	case *ssa.BinOp:
		if x.Op == token.ADD {
			if k, ok := constInt(x.Y); ok && k == 1 {
				if ph, ok := x.X.(*ssa.Phi); ok {
					for _, e := range ph.Edges {
						if k2, ok := constInt(e); ok && k2 == -1 {
							nonNeg = true
						}
					}
				}
			}
		}
	case *ssa.Phi:
		for _, e := range x.Edges {
			if k2, ok := constInt(e); ok && k2 >= 0 {
				nonNeg = true
			}
		}
	}
	if !nonNeg {
		return false
	}
	for _, b := range f.Blocks {
		if len(b.Instrs) == 0 {
			continue
		}
		ifi, ok := b.Instrs[len(b.Instrs)-1].(*ssa.If)
		if !ok {
			continue
		}
		bo, ok := ifi.Cond.(*ssa.BinOp)
		if !ok || bo.Op != token.LSS || bo.X != idx {
			continue
		}
		if !boundCoversLen(f, bo.Y, base) {
			continue
		}
		if edgeDominates(b, b.Succs[0], at.Block()) {
			return true
		}
	}
	return false
}

// boundCoversLen: idx < bound implies idx < len(base): bound is len(base) (the
// same value, or the same unassigned access path loaded again, possibly hoisted
// into a local), or base was made with that length.
func boundCoversLen(f *ssa.Function, bound, base ssa.Value) bool {
	lenArg := func(v ssa.Value) ssa.Value {
		call, ok := stripConv(v).(*ssa.Call)
		if !ok {
			return nil
		}
		if bi, ok := call.Call.Value.(*ssa.Builtin); !ok || bi.Name() != "len" || len(call.Call.Args) != 1 {
			return nil
		}
		return call.Call.Args[0]
	}
	if z := lenArg(bound); z != nil && sameSliceValue(f, z, base) {
		return true
	}
	if ms, ok := stripConv(base).(*ssa.MakeSlice); ok {
		if ms.Len == bound || stripConv(ms.Len) == stripConv(bound) {
			return true
		}
		if z, z2 := lenArg(bound), lenArg(ms.Len); z != nil && z2 != nil && sameSliceValue(f, z, z2) {
			return true
		}
	}
	return false
}

// sameSliceValue: a and b are the same SSA value, or loads of the same access
// path that the function never assigns (so both loads see the same slice).
func sameSliceValue(f *ssa.Function, a, b ssa.Value) bool {
	a, b = stripConv(a), stripConv(b)
	if a == b {
		return true
	}
	pa, ok1 := pathOf(a)
	pb, ok2 := pathOf(b)
	if !ok1 || !ok2 || len(pa.Elems) == 0 || pa.Root != pb.Root || strings.Join(pa.Elems, ".") != strings.Join(pb.Elems, ".") {
		return false
	}
	last := pa.Elems[len(pa.Elems)-1]
	assigned := false
	ia, okA := a.(ssa.Instruction)
	ib, okB := b.(ssa.Instruction)
	eachInstr(f, func(_ *ssa.BasicBlock, _ int, ins ssa.Instruction) {
		if st, ok := ins.(*ssa.Store); ok {
			if fa, ok := st.Addr.(*ssa.FieldAddr); ok && fieldName(fa) == last {
				if p, ok := pathOfAddr(fa); ok && p.Root == pa.Root {
					// an assignment matters only if it can happen between the two loads
					if okA && okB && !(canReach(ia, st) && canReach(st, ib)) && !(canReach(ib, st) && canReach(st, ia)) {
						return
					}
					assigned = true
				}
			}
		}
	})
	return !assigned
}

// isPoolKeyString: s is the key of a successful pool look-up dominating `at`,
// or a load of ChfUe.Supi.
func isPoolKeyString(f *ssa.Function, s ssa.Value, at ssa.Instruction) bool {
	s = stripConv(s)
	if ld, ok := s.(*ssa.UnOp); ok && ld.Op == token.MUL {
		if _, ok := isFieldAddr(ld.X, ctxPath, "ChfUe", "Supi"); ok {
			return true
		}
	}
	sp, havePath := pathOf(s)
	found := false
	eachInstr(f, func(_ *ssa.BasicBlock, _ int, ins ssa.Instruction) {
		call, ok := ins.(*ssa.Call)
		if !ok || !isFunc(calleeObj(&call.Call), ctxPath, "CHFContext.ChfUeFindBySupi") || len(call.Call.Args) < 2 {
			return
		}
		k := call.Call.Args[1]
		same := k == s
		if !same && havePath {
			if kp, ok := pathOf(k); ok && kp.Root == sp.Root && len(sp.Elems) > 0 && strings.Join(kp.Elems, ".") == strings.Join(sp.Elems, ".") {
				same = true
			}
		}
		if !same {
			return
		}
		// ok edge dominates
		for _, ref := range *call.Referrers() {
			ex, isEx := ref.(*ssa.Extract)
			if !isEx || ex.Index != 1 {
				continue
			}
			for _, r2 := range *ex.Referrers() {
				ifi, isIf := r2.(*ssa.If)
				if !isIf {
					continue
				}
				if edgeDominates(ifi.Block(), ifi.Block().Succs[0], at.Block()) {
					found = true
				}
			}
		}
	})
	return found
}

// checkPoolPrefixInvariant: every Store / LoadOrStore into a sync.Map field of
// CHFContext has a key for which HasPrefix(key, "imsi-") was tested true on a
// dominating edge (in the function or in every caller of the helper).
func checkPoolPrefixInvariant(c *Ctx, r *Report) {
	n := 0
	var check func(f *ssa.Function, key ssa.Value, at ssa.Instruction, depth int) bool
	callers := map[*ssa.Function][]ssa.CallInstruction{}
	for _, f := range c.ModFuncs {
		eachInstr(f, func(_ *ssa.BasicBlock, _ int, ins ssa.Instruction) {
			if ci, ok := ins.(ssa.CallInstruction); ok {
				if sc := ci.Common().StaticCallee(); sc != nil {
					callers[sc] = append(callers[sc], ci)
				}
			}
		})
	}
	check = func(f *ssa.Function, key ssa.Value, at ssa.Instruction, depth int) bool {
		key = stripConv(key)
		// key may be a load of ue.Supi that was just assigned from a parameter
		if ld, ok := key.(*ssa.UnOp); ok && ld.Op == token.MUL {
			if fa, ok := ld.X.(*ssa.FieldAddr); ok && fieldName(fa) == "Supi" {
				for _, ref := range *fa.X.Referrers() {
					if fa2, ok := ref.(*ssa.FieldAddr); ok && fa2.Field == fa.Field {
						for _, r2 := range *fa2.Referrers() {
							if st, ok := r2.(*ssa.Store); ok && st.Addr == ssa.Value(fa2) && instrDominates(st, at) {
								return check(f, st.Val, at, depth)
							}
						}
					}
				}
			}
		}
		ok := false
		eachInstr(f, func(_ *ssa.BasicBlock, _ int, ins ssa.Instruction) {
			call, isCall := ins.(*ssa.Call)
			if !isCall || !isFunc(calleeObj(&call.Call), "strings", "HasPrefix") || call.Call.Args[0] != key {
				return
			}
			if p, isC := constString(call.Call.Args[1]); !isC || len(p) < 5 {
				return
			}
			for _, ref := range *call.Referrers() {
				if ifi, isIf := ref.(*ssa.If); isIf && edgeDominates(ifi.Block(), ifi.Block().Succs[0], at.Block()) {
					ok = true
				}
			}
		})
		if ok {
			return true
		}
		if prm, isP := key.(*ssa.Parameter); isP && depth < 3 {
			idx := -1
			for i, p := range f.Params {
				if p == prm {
					idx = i
				}
			}
			cs := callers[f]
			if len(cs) == 0 {
				return f.Parent() == nil // no caller in the module: dead helper, nothing is inserted through it
			}
			for _, call := range cs {
				if idx >= len(call.Common().Args) || !check(call.Parent(), call.Common().Args[idx], call, depth+1) {
					return false
				}
			}
			return true
		}
		return false
	}
	for _, f := range c.ModFuncs {
		eachInstr(f, func(_ *ssa.BasicBlock, _ int, ins ssa.Instruction) {
			ci, ok := ins.(ssa.CallInstruction)
			if !ok {
				return
			}
			cc := ci.Common()
			obj := calleeObj(cc)
			if obj == nil || obj.Pkg() == nil || obj.Pkg().Path() != "sync" || len(cc.Args) < 2 {
				return
			}
			name := funcLocalName(obj)
			if name != "Map.Store" && name != "Map.LoadOrStore" && name != "Map.Swap" {
				return
			}
			fa, ok := cc.Args[0].(*ssa.FieldAddr)
			if !ok || !typeIs(fa.X.Type(), ctxPath, "CHFContext") {
				return
			}
			n++
			okc := check(f, cc.Args[1], ins, 0)
			r.check(okc, "C11.R2b", fnKey(f)+"|"+name, posOf(c, ins), "key tested with HasPrefix(key, \"imsi-\") on a dominating edge",
				"a subscriber is stored in the pool under a key that was not tested for the \"imsi-\" prefix: the SUPI slices supi[5:] in the request path rely on that invariant")
		})
	}
	if n == 0 {
		r.viol("C11.R2b", "pool", "", "no insertion into the subscriber pool found (anchor moved)")
	}
}

// ---------------------------------------------------------------------------
// R4: no wedge

func checkNoWedge(c *Ctx, r *Report) {
	ls := newLocksets(c, requestEntries(c))
	for _, f := range c.ModFuncs {
		if !ls.reached[f] {
			continue
		}
		nlock := 0
		eachInstr(f, func(_ *ssa.BasicBlock, _ int, ins ssa.Instruction) {
			op, ok := ls.ops[ins]
			if !ok || op.deferred || (op.kind != lkLock && op.kind != lkRLock) {
				return
			}
			nlock++
			key := fmt.Sprintf("%s|Lock %s#%d", fnKey(f), op.class, nlock)
			// walk the critical section
			bit := uint32(1) << uint(ls.idx[op.class])
			type item struct {
				b *ssa.BasicBlock
				i int
			}
			seen := map[*ssa.BasicBlock]bool{}
			var bad ssa.Instruction
			badWhy := ""
			work := []item{{ins.Block(), instrIndex(ins) + 1}}
			for len(work) > 0 && bad == nil {
				it := work[len(work)-1]
				work = work[:len(work)-1]
				closed := false
				for j := it.i; j < len(it.b.Instrs); j++ {
					x := it.b.Instrs[j]
					if op2, ok := ls.ops[x]; ok && op2.class == op.class {
						if op2.deferred && (op2.kind == lkUnlock || op2.kind == lkRUnlock) {
							closed = true // deferred unlock registered: panics from here on release the lock
							break
						}
						if !op2.deferred && (op2.kind == lkUnlock || op2.kind == lkRUnlock) {
							closed = true
							break
						}
					}
					// a deferred module function that releases the class
					if d, ok := x.(*ssa.Defer); ok {
						rel := false
						for _, callee := range c.calleesAt(d) {
							if ls.sum[callee].rel&bit != 0 {
								rel = true
							}
						}
						if rel {
							closed = true
							break
						}
					}
					if why := mayPanic(c, x); why != "" {
						bad, badWhy = x, why
						break
					}
				}
				if closed || bad != nil {
					continue
				}
				for _, s := range it.b.Succs {
					if !seen[s] {
						seen[s] = true
						work = append(work, item{s, 0})
					}
				}
			}
			if bad == nil {
				r.proven("C11.R4", key, posOf(c, ins), "deferred unlock registered (or section left) before any instruction that may panic")
			} else {
				r.viol("C11.R4", key, posOf(c, ins), "between this Lock and its Unlock/defer, "+badWhy+" at "+posOf(c, bad)+" may panic: gin recovers the panic into a 500 but the lock stays held and every later request of the subscriber blocks for ever (use defer Unlock right after Lock)")
			}
		})
	}
}

// mayPanic classifies an instruction (DESIGN Appendix A6); "" = cannot panic.
func mayPanic(c *Ctx, ins ssa.Instruction) string {
	switch x := ins.(type) {
	case *ssa.Alloc, *ssa.Phi, *ssa.Jump, *ssa.If, *ssa.Return, *ssa.MakeInterface, *ssa.MakeClosure, *ssa.MakeMap,
		*ssa.ChangeType, *ssa.Convert, *ssa.ChangeInterface, *ssa.Extract, *ssa.DebugRef, *ssa.RunDefers, *ssa.Defer, *ssa.Field, *ssa.Lookup, *ssa.Range, *ssa.Next:
		return ""
	case *ssa.MakeSlice:
		if _, ok := constInt(x.Len); ok {
			return ""
		}
		return "make with a computed length"
	case *ssa.BinOp:
		if x.Op == token.QUO || x.Op == token.REM {
			if b, ok := x.X.Type().Underlying().(*types.Basic); ok && b.Info()&types.IsInteger != 0 {
				if k, ok := constInt(x.Y); ok && k != 0 {
					return ""
				}
				return "integer division"
			}
		}
		return ""
	case *ssa.FieldAddr:
		if nonNilPointer(x.X) || derefDominated(x.X, x) {
			return ""
		}
		return "dereference of a pointer not known to be non-nil (" + describe(x.X) + ")"
	case *ssa.UnOp:
		if x.Op != token.MUL {
			return ""
		}
		if nonNilAddr(x.X) {
			return ""
		}
		return "load through a pointer not known to be non-nil"
	case *ssa.Store:
		if nonNilAddr(x.Addr) {
			return ""
		}
		return "store through a pointer not known to be non-nil"
	case *ssa.IndexAddr, *ssa.Index:
		return "indexing"
	case *ssa.Slice:
		return "slicing"
	case *ssa.MapUpdate:
		return "map update (nil map)"
	case *ssa.TypeAssert:
		if x.CommaOk {
			return ""
		}
		return "type assertion"
	case *ssa.Send:
		return "channel send"
	case *ssa.Panic:
		return "panic"
	case *ssa.Go:
		return ""
	case *ssa.Call:
		if b, ok := x.Call.Value.(*ssa.Builtin); ok {
			switch b.Name() {
			case "len", "cap", "append", "copy", "delete", "min", "max", "print", "println", "new", "real", "imag", "complex":
				return ""
			}
			return "builtin " + b.Name()
		}
		obj := calleeObj(&x.Call)
		if obj != nil && obj.Pkg() != nil {
			switch obj.Pkg().Path() + "." + funcLocalName(obj) {
			case "sync.Mutex.Lock", "sync.Mutex.Unlock", "sync.RWMutex.Lock", "sync.RWMutex.Unlock", "sync.RWMutex.RLock", "sync.RWMutex.RUnlock", "time.Now":
				return ""
			}
		}
		if sc := x.Call.StaticCallee(); sc != nil && sc.Blocks != nil && c.inModule(sc) {
			if panicFree(c, sc, 0) {
				return ""
			}
			return "call of " + shortFn(sc) + " (not panic-free)"
		}
		if obj != nil {
			return "call of " + obj.FullName()
		}
		return "dynamic call"
	}
	return fmt.Sprintf("%T", ins)
}

var panicFreeMemo = map[*ssa.Function]int{}

func panicFree(c *Ctx, f *ssa.Function, depth int) bool {
	if v, ok := panicFreeMemo[f]; ok {
		return v == 1
	}
	if depth > 3 {
		return false
	}
	panicFreeMemo[f] = 2
	ok := true
	eachInstr(f, func(_ *ssa.BasicBlock, _ int, ins ssa.Instruction) {
		if ok && mayPanic(c, ins) != "" {
			ok = false
		}
	})
	if ok {
		panicFreeMemo[f] = 1
	}
	return ok
}

// derefDominated: an earlier field access through the same pointer value
// dominates `at`, so the pointer was already dereferenced without a panic.
func derefDominated(p ssa.Value, at ssa.Instruction) bool {
	refs := p.Referrers()
	if refs == nil {
		return false
	}
	for _, ref := range *refs {
		if ref == at {
			continue
		}
		if fa, ok := ref.(*ssa.FieldAddr); ok && fa.X == p && instrDominates(fa, at) {
			return true
		}
	}
	// p is a load of a variable (captured variable, global, local): another load of the
	// same variable, with no store to it in this function, is the same pointer
	ld, ok := p.(*ssa.UnOp)
	if !ok || ld.Op != token.MUL {
		return false
	}
	switch ld.X.(type) {
	case *ssa.FreeVar, *ssa.Global, *ssa.Alloc:
	default:
		return false
	}
	f := at.Parent()
	stored := false
	var others []*ssa.UnOp
	eachInstr(f, func(_ *ssa.BasicBlock, _ int, ins ssa.Instruction) {
		switch x := ins.(type) {
		case *ssa.Store:
			if x.Addr == ld.X {
				if _, isAlloc := ld.X.(*ssa.Alloc); isAlloc && x.Block() == f.Blocks[0] && instrDominates(x, ld) {
					return // initialising store of a local
				}
				stored = true
			}
		case *ssa.UnOp:
			if x.Op == token.MUL && x.X == ld.X && x != ld {
				others = append(others, x)
			}
		}
	})
	if stored {
		return false
	}
	for _, o := range others {
		for _, ref := range *o.Referrers() {
			if fa, ok := ref.(*ssa.FieldAddr); ok && fa.X == ssa.Value(o) && instrDominates(fa, at) {
				return true
			}
		}
	}
	return false
}

// nonNilPointer: the pointer value cannot be nil.
func nonNilPointer(v ssa.Value) bool {
	switch x := v.(type) {
	case *ssa.Alloc, *ssa.Global, *ssa.FieldAddr, *ssa.IndexAddr:
		return true
	case *ssa.Parameter:
		// the receiver of a method being executed was already dereferenced by the caller or is checked there; treat receivers as non-nil
		f := x.Parent()
		return f.Signature.Recv() != nil && len(f.Params) > 0 && f.Params[0] == x
	case *ssa.Call:
		// a function whose every return is the address of a global / fresh allocation
		if sc := x.Call.StaticCallee(); sc != nil && sc.Blocks != nil {
			for _, ri := range returnsOf(sc) {
				if len(ri.Vals) != 1 || !nonNilPointer(ri.Vals[0]) {
					return false
				}
			}
			return true
		}
	case *ssa.FreeVar:
		return false
	}
	return false
}

func nonNilAddr(addr ssa.Value) bool {
	switch x := addr.(type) {
	case *ssa.Alloc, *ssa.Global:
		return true
	case *ssa.FieldAddr:
		return true // the FieldAddr itself was classified
	case *ssa.IndexAddr:
		return true // the IndexAddr itself was classified
	case *ssa.FreeVar:
		return true // address of a captured variable
	default:
		_ = x
	}
	return false
}

// boundConstAt: the value of a slice bound at `at` when it is a constant, or
// len(x) + constant for a string x that equals a constant string of one
// length on every path to `at` (the case of a switch on x).
func boundConstAt(v ssa.Value, at ssa.Instruction) (int64, bool) {
	if k, ok := constInt(v); ok {
		return k, true
	}
	// a member of an element of a read-only table (prefix lengths per SUPI type ...):
	// the largest value the table holds
	if tableCtx != nil {
		if vals, ok := tableFieldValues(tableCtx, v); ok && len(vals) > 0 {
			max := vals[0]
			for _, k := range vals {
				if k > max {
					max = k
				}
				if k < 0 {
					return 0, false
				}
			}
			return max, true
		}
	}
	lenOf := func(v ssa.Value) (int64, bool) {
		call, ok := v.(*ssa.Call)
		if !ok {
			return 0, false
		}
		b, ok := call.Call.Value.(*ssa.Builtin)
		if !ok || b.Name() != "len" || len(call.Call.Args) != 1 {
			return 0, false
		}
		return stringLenAtEntry(call.Call.Args[0], at.Block(), map[*ssa.BasicBlock]bool{})
	}
	if l, ok := lenOf(v); ok {
		return l, true
	}
	if bo, ok := v.(*ssa.BinOp); ok && (bo.Op == token.ADD || bo.Op == token.SUB) {
		if k, ok := constInt(bo.Y); ok {
			if l, ok := lenOf(bo.X); ok {
				if bo.Op == token.SUB {
					return l - k, true
				}
				return l + k, true
			}
		}
		if k, ok := constInt(bo.X); ok && bo.Op == token.ADD {
			if l, ok := lenOf(bo.Y); ok {
				return l + k, true
			}
		}
	}
	return 0, false
}

// stringLenAtEntry: x == <constant string> holds on every edge into b (directly
// or further up), all constants having one length.
func stringLenAtEntry(x ssa.Value, b *ssa.BasicBlock, seen map[*ssa.BasicBlock]bool) (int64, bool) {
	if seen[b] || len(b.Preds) == 0 {
		return 0, false
	}
	seen[b] = true
	length, have := int64(0), false
	for _, p := range b.Preds {
		l, ok := int64(0), false
		if len(p.Instrs) > 0 && len(p.Succs) == 2 && p.Succs[0] != p.Succs[1] {
			if ifi, isIf := p.Instrs[len(p.Instrs)-1].(*ssa.If); isIf {
				if bo, isBo := ifi.Cond.(*ssa.BinOp); isBo && (bo.Op == token.EQL || bo.Op == token.NEQ) {
					var cs string
					var isC bool
					switch {
					case bo.X == x:
						cs, isC = constString(bo.Y)
					case bo.Y == x:
						cs, isC = constString(bo.X)
					}
					eqEdge := p.Succs[0]
					if bo.Op == token.NEQ {
						eqEdge = p.Succs[1]
					}
					if isC && eqEdge == b {
						l, ok = int64(len(cs)), true
					}
				}
			}
		}
		if !ok {
			l, ok = stringLenAtEntry(x, p, seen)
		}
		if !ok || (have && l != length) {
			return 0, false
		}
		length, have = l, true
	}
	return length, have
}

// c11RechargeParamShape (C11.R8): in RechargePut, the result of strings.Split(param, "_") is
// indexed only where the dominating tests of its length admit exactly one length, 2.
func c11RechargeParamShape(c *Ctx, r *Report, rule string) {
	f := c.fn("internal/sbi", "Server.RechargePut")
	var split *ssa.Call
	eachInstr(f, func(_ *ssa.BasicBlock, _ int, ins ssa.Instruction) {
		if call, ok := ins.(*ssa.Call); ok && split == nil {
			if obj := calleeObj(&call.Call); obj != nil && obj.Pkg() != nil && obj.Pkg().Path() == "strings" && (obj.Name() == "Split" || obj.Name() == "SplitN") {
				split = call
			}
		}
	})
	key := fnKey(f) + "|parts of rechargingInfo"
	if split == nil {
		r.proven(rule, key, c.rel(f.Pos()), "the path parameter is not taken apart with strings.Split: no list of parts whose number could be wrong (C11.R2 covers the indexing of whatever is used)")
		return
	}
	isLenOfSplit := func(v ssa.Value) bool {
		call, ok := stripConv(v).(*ssa.Call)
		if !ok {
			return false
		}
		bi, ok := call.Call.Value.(*ssa.Builtin)
		return ok && bi.Name() == "len" && len(call.Call.Args) == 1 && resolveMem(call.Call.Args[0]) == ssa.Value(split)
	}
	// first use of an element
	var use ssa.Instruction
	eachInstr(f, func(_ *ssa.BasicBlock, _ int, ins ssa.Instruction) {
		if ia, ok := ins.(*ssa.IndexAddr); ok && use == nil && resolveMem(ia.X) == ssa.Value(split) {
			use = ia
		}
	})
	if use == nil {
		r.proven(rule, key, c.rel(f.Pos()), "no element of the split parameter is used")
		return
	}
	admitted := []int64{}
	for n := int64(0); n <= 8; n++ {
		ok := true
		for _, b := range f.Blocks {
			if len(b.Instrs) == 0 || len(b.Succs) != 2 {
				continue
			}
			iff, isIf := b.Instrs[len(b.Instrs)-1].(*ssa.If)
			if !isIf {
				continue
			}
			bo, isBo := iff.Cond.(*ssa.BinOp)
			if !isBo {
				continue
			}
			k, isK := constInt(bo.Y)
			if !isK || !isLenOfSplit(bo.X) {
				continue
			}
			var holds bool
			switch bo.Op {
			case token.EQL:
				holds = n == k
			case token.NEQ:
				holds = n != k
			case token.LSS:
				holds = n < k
			case token.LEQ:
				holds = n <= k
			case token.GTR:
				holds = n > k
			case token.GEQ:
				holds = n >= k
			default:
				continue
			}
			for i, sc := range b.Succs {
				if b.Succs[0] != b.Succs[1] && edgeDominates(b, sc, use.Block()) && holds != (i == 0) {
					ok = false
				}
			}
		}
		if ok {
			admitted = append(admitted, n)
		}
	}
	exact := len(admitted) == 1 && admitted[0] == 2
	r.check(exact, rule, key, posOf(c, use), "used only where the parameter has exactly two parts", fmt.Sprintf("the parts of the recharging parameter are used where it may have %v parts: a parameter such as <ueId>_1_2 is not of the form <ueId>_<ratingGroup>, yet it is accepted (answered 204, the recharge is performed) instead of being answered with a 4xx problem", admitted))
}

// jsonFreshTargets (C11.R10 / C12.R12): the request objects of the SBI handlers.
func jsonFreshTargets(c *Ctx, r *Report, rule string) {
	n := freshDecodeTargets(c, r, rule, func(f *ssa.Function, call *ssa.Call) int {
		root := rootOf(f)
		if root.Pkg == nil || !strings.Contains(root.Pkg.Pkg.Path(), "/internal/sbi") {
			return -1
		}
		obj := calleeObj(&call.Call)
		if obj.Pkg() == nil {
			return -1
		}
		switch {
		case obj.Pkg().Path() == "github.com/free5gc/openapi" && obj.Name() == "Deserialize":
			return 0
		case obj.Pkg().Path() == "encoding/json" && obj.Name() == "Unmarshal" && obj.Type().(*types.Signature).Recv() == nil:
			return 1
		case obj.Pkg().Path() == "github.com/gin-gonic/gin" && (obj.Name() == "ShouldBindJSON" || obj.Name() == "BindJSON" || obj.Name() == "ShouldBind" || obj.Name() == "Bind"):
			return len(call.Call.Args) - 1
		}
		return -1
	}, "the request body", "members the body does not carry keep whatever the object held before (a pooled or shared request object)", "a mandatory member missing from this request is found filled in from an earlier one: the request is accepted (2xx) and acts under another consumer's or subscriber's data instead of being answered 4xx")
	if n == 0 {
		r.viol(rule, "request decoding", "", "no JSON decoding of a request body found in internal/sbi (anchor moved)")
	}
}
