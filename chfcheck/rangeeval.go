package main

import (
	"go/token"
	"go/types"
	"math"

	"golang.org/x/tools/go/ssa"
)

// E4 (interval part): a small interval evaluator over SSA values with
// edge-sensitive refinement at phis and library range lemmas.  Values are
// mathematical integers; a conversion to a narrower type whose operand range
// does not fit the target yields the target's full range.

type ival struct {
	lo, hi int64
	ok     bool // false = unknown (top)
}

func top() ival                         { return ival{} }
func rng(lo, hi int64) ival             { return ival{lo, hi, true} }
func (a ival) within(lo, hi int64) bool { return a.ok && a.lo >= lo && a.hi <= hi }

func typeRange(t types.Type) ival {
	b, ok := t.Underlying().(*types.Basic)
	if !ok {
		return top()
	}
	switch b.Kind() {
	case types.Uint8:
		return rng(0, 255)
	case types.Uint16:
		return rng(0, 65535)
	case types.Uint32:
		return rng(0, math.MaxUint32)
	case types.Int8:
		return rng(-128, 127)
	case types.Int16:
		return rng(-32768, 32767)
	case types.Int32:
		return rng(math.MinInt32, math.MaxInt32)
	case types.Int, types.Int64:
		return rng(math.MinInt64, math.MaxInt64)
	case types.Uint, types.Uint64, types.Uintptr:
		return rng(0, math.MaxInt64) // upper bound clipped: only used for lower-bound reasoning
	}
	return top()
}

type rangeEval struct {
	f    *ssa.Function
	memo map[ssa.Value]ival
	// extra facts supplied by the caller (e.g. len lemmas)
	lemma func(v ssa.Value) (ival, bool)
	depth int
}

func newRangeEval(f *ssa.Function) *rangeEval {
	return &rangeEval{f: f, memo: map[ssa.Value]ival{}}
}

func (re *rangeEval) eval(v ssa.Value) ival {
	if r, ok := re.memo[v]; ok {
		return r
	}
	re.memo[v] = typeRange(v.Type()) // cycle breaker
	re.depth++
	r := re.eval1(v)
	re.depth--
	if !r.ok {
		r = typeRange(v.Type())
	} else if tr := typeRange(v.Type()); tr.ok {
		// a value always lies in its type's range
		if r.lo < tr.lo {
			r.lo = tr.lo
		}
		if r.hi > tr.hi {
			r.hi = tr.hi
		}
	}
	re.memo[v] = r
	return r
}

func addSat(a, b int64) int64 {
	s := a + b
	if (b > 0 && s < a) || (b < 0 && s > a) {
		if b > 0 {
			return math.MaxInt64
		}
		return math.MinInt64
	}
	return s
}

func (re *rangeEval) eval1(v ssa.Value) ival {
	if re.depth > 60 {
		return top()
	}
	if re.lemma != nil {
		if r, ok := re.lemma(v); ok {
			return r
		}
	}
	switch x := v.(type) {
	case *ssa.Const:
		if k, ok := constInt(x); ok {
			return rng(k, k)
		}
	case *ssa.Convert:
		src := re.eval(x.X)
		tr := typeRange(x.Type())
		if !isIntegerType(x.X.Type()) {
			return tr
		}
		if src.ok && tr.ok && src.lo >= tr.lo && src.hi <= tr.hi {
			return src
		}
		return tr
	case *ssa.ChangeType:
		return re.eval(x.X)
	case *ssa.UnOp:
		if x.Op == token.SUB {
			a := re.eval(x.X)
			if a.ok && a.lo != math.MinInt64 {
				return rng(-a.hi, -a.lo)
			}
		}
	case *ssa.BinOp:
		a, b := re.eval(x.X), re.eval(x.Y)
		if !a.ok || !b.ok {
			return top()
		}
		switch x.Op {
		case token.ADD:
			return rng(addSat(a.lo, b.lo), addSat(a.hi, b.hi))
		case token.SUB:
			return rng(addSat(a.lo, -b.hi), addSat(a.hi, -b.lo))
		case token.MUL:
			if a.lo >= 0 && b.lo >= 0 && a.hi < 1<<31 && b.hi < 1<<31 {
				return rng(a.lo*b.lo, a.hi*b.hi)
			}
		case token.QUO:
			if b.lo == b.hi && b.lo > 0 {
				// truncated division by a positive constant is monotone
				return rng(a.lo/b.lo, a.hi/b.lo)
			}
		case token.REM:
			if b.lo == b.hi && b.lo > 0 {
				c := b.lo
				if a.lo >= 0 {
					if a.hi < c {
						return a
					}
					return rng(0, c-1)
				}
				if a.hi <= 0 {
					return rng(-(c - 1), 0)
				}
				return rng(-(c - 1), c-1)
			}
		case token.SHL:
			if b.lo == b.hi && b.lo >= 0 && b.lo < 32 && a.lo >= 0 && a.hi < 1<<31 {
				return rng(a.lo<<uint(b.lo), a.hi<<uint(b.lo))
			}
		case token.SHR:
			if b.lo == b.hi && b.lo >= 0 && b.lo < 63 && a.lo >= 0 {
				return rng(a.lo>>uint(b.lo), a.hi>>uint(b.lo))
			}
		case token.AND:
			if b.lo == b.hi && b.lo >= 0 {
				return rng(0, b.lo)
			}
			if a.lo == a.hi && a.lo >= 0 {
				return rng(0, a.lo)
			}
		case token.OR:
			if a.lo >= 0 && b.lo >= 0 {
				// a|b <= a+b, >= max(a,b)
				lo := a.lo
				if b.lo > lo {
					lo = b.lo
				}
				return rng(lo, addSat(a.hi, b.hi))
			}
		}
	case *ssa.Phi:
		var out ival
		first := true
		for i, e := range x.Edges {
			if e == ssa.Value(x) {
				continue
			}
			r := re.evalOnEdge(e, x.Block().Preds[i], x.Block())
			if !r.ok {
				return top()
			}
			if first {
				out, first = r, false
			} else {
				if r.lo < out.lo {
					out.lo = r.lo
				}
				if r.hi > out.hi {
					out.hi = r.hi
				}
			}
		}
		if !first {
			return out
		}
	case *ssa.Extract:
		if call, ok := x.Tuple.(*ssa.Call); ok {
			if obj := calleeObj(&call.Call); isFunc(obj, "time", "Time.Zone") && x.Index == 1 {
				return rng(-86399, 86399) // |UTC offset| < 24 h (time package invariant for real zones)
			}
			if obj := calleeObj(&call.Call); obj != nil && obj.Pkg() != nil && obj.Pkg().Path() == "time" {
				switch funcLocalName(obj) {
				case "Time.Date": // year, month, day
					switch x.Index {
					case 0:
						return rng(0, 9999) // assumption: records are stamped with time.Now()
					case 1:
						return rng(1, 12)
					case 2:
						return rng(1, 31)
					}
				case "Time.Clock": // hour, minute, second
					switch x.Index {
					case 0:
						return rng(0, 23)
					case 1, 2:
						return rng(0, 59)
					}
				}
			}
		}
	case *ssa.Call:
		if obj := calleeObj(&x.Call); obj != nil && obj.Pkg() != nil && obj.Pkg().Path() == "time" {
			switch funcLocalName(obj) {
			case "Time.Year":
				return rng(0, 9999) // assumption: records are stamped with time.Now()
			case "Time.Month":
				return rng(1, 12)
			case "Time.Day":
				return rng(1, 31)
			case "Time.Hour":
				return rng(0, 23)
			case "Time.Minute", "Time.Second":
				return rng(0, 59)
			}
		}
		if b, ok := x.Call.Value.(*ssa.Builtin); ok && (b.Name() == "len" || b.Name() == "cap") {
			return rng(0, math.MaxInt64)
		}
	}
	return top()
}

// evalOnEdge evaluates v as seen when control goes from `from` to `to`,
// refining by comparisons against constants on the dominating edges.
func (re *rangeEval) evalOnEdge(v ssa.Value, from, to *ssa.BasicBlock) ival {
	r := re.eval(v)
	if !r.ok {
		return r
	}
	apply := func(ifb *ssa.BasicBlock, taken bool) {
		ifi, ok := ifb.Instrs[len(ifb.Instrs)-1].(*ssa.If)
		if !ok {
			return
		}
		bo, ok := ifi.Cond.(*ssa.BinOp)
		if !ok {
			return
		}
		// match v or -v' where v = -v'
		subject := v
		neg := false
		if u, ok := v.(*ssa.UnOp); ok && u.Op == token.SUB {
			subject, neg = u.X, true
		}
		var k int64
		op := bo.Op
		if bo.X == subject {
			kk, ok := constInt(bo.Y)
			if !ok {
				return
			}
			k = kk
		} else if bo.Y == subject {
			kk, ok := constInt(bo.X)
			if !ok {
				return
			}
			k = kk
			switch op {
			case token.LSS:
				op = token.GTR
			case token.LEQ:
				op = token.GEQ
			case token.GTR:
				op = token.LSS
			case token.GEQ:
				op = token.LEQ
			}
		} else {
			return
		}
		if !taken {
			switch op {
			case token.LSS:
				op = token.GEQ
			case token.LEQ:
				op = token.GTR
			case token.GTR:
				op = token.LEQ
			case token.GEQ:
				op = token.LSS
			case token.EQL:
				op = token.NEQ
			case token.NEQ:
				op = token.EQL
			}
		}
		// constraint on subject: subject op k ; translate to v
		lo, hi := int64(math.MinInt64), int64(math.MaxInt64)
		switch op {
		case token.LSS:
			hi = k - 1
		case token.LEQ:
			hi = k
		case token.GTR:
			lo = k + 1
		case token.GEQ:
			lo = k
		case token.EQL:
			lo, hi = k, k
		default:
			return
		}
		if neg {
			nlo, nhi := int64(math.MinInt64), int64(math.MaxInt64)
			if hi != math.MaxInt64 {
				nlo = -hi
			}
			if lo != math.MinInt64 {
				nhi = -lo
			}
			lo, hi = nlo, nhi
		}
		if lo > r.lo {
			r.lo = lo
		}
		if hi < r.hi {
			r.hi = hi
		}
	}
	if from != nil && len(from.Instrs) > 0 {
		if _, ok := from.Instrs[len(from.Instrs)-1].(*ssa.If); ok && from.Succs[0] != from.Succs[1] {
			if from.Succs[0] == to {
				apply(from, true)
			} else if from.Succs[1] == to {
				apply(from, false)
			}
		}
	}
	target := from
	if target == nil {
		target = to
	}
	for _, blk := range re.f.Blocks {
		if len(blk.Instrs) == 0 || blk == from {
			continue
		}
		if _, ok := blk.Instrs[len(blk.Instrs)-1].(*ssa.If); !ok {
			continue
		}
		d0 := edgeDominates(blk, blk.Succs[0], target)
		d1 := edgeDominates(blk, blk.Succs[1], target)
		if d0 && !d1 {
			apply(blk, true)
		} else if d1 && !d0 {
			apply(blk, false)
		}
	}
	return r
}

// evalAt evaluates v at instruction `at`, refining by the edges dominating it.
func (re *rangeEval) evalAt(v ssa.Value, at ssa.Instruction) ival {
	return re.evalOnEdge(v, nil, at.Block())
}
