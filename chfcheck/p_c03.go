package main

import (
	"fmt"
	"go/token"
	"strings"

	"golang.org/x/tools/go/ssa"
)

// C03: every CDR file the CHF writes is a well-formed, decodable TS 32.297 file.

func init() { register("C03", "other", checkC03) }

// symWalker: path walk of dumpCdrFile under an assignment of the
// release-identifier tests, with a memory model for the local file structure.
type symWalker struct {
	c         *Ctx
	f         *ssa.Function
	assign    map[string]bool
	mem       map[memKey]ssa.Value
	memSym    map[memKey]string
	phi       map[*ssa.Phi]ssa.Value
	loopSym   map[*ssa.Phi]string
	fe        *formEval
	inLoop    bool
	atLoop    map[string]string // member path -> form when the loop is entered
	delta     map[string]string // member path -> per-iteration increment
	deltaPoly map[string]poly
	final     map[string]string // member path -> form at the end of the walk (header phase)
	appends   []map[string]ssa.Value
	apForms   []map[string]string
	visited   int
	loopOver  ssa.Value
	loaded    map[*ssa.UnOp]loadedVal // value each load saw when it executed
	loopMem   map[memKey]string
	loopBound string
	memAtLoop map[memKey]poly
	head      *ssa.BasicBlock // head of the record loop
	skips     []string        // branches inside the loop that go on to the next element without appending
	breaks    []string        // branches that leave the loop without appending and still reach the file write
	dw        decWalker       // for addrKey / copyStruct helpers
	// a second loop, over the list the first loop appended to (encode first, add up afterwards)
	loopDone bool                 // the first loop has been walked
	second   bool                 // walking the second loop
	listKey  memKey               // the member the records are appended to
	elemRec  map[string]ssa.Value // members of the record appended per iteration of the first loop
	nLoops   int
}

type loadedVal struct {
	val  ssa.Value
	sym  string
	zero bool
}

func (w *symWalker) addrKey(a ssa.Value) (memKey, bool) { return w.dw.addrKey(a) }

func (w *symWalker) newFE() {
	fe := newFormEval(w.f)
	fe.override = func(v ssa.Value) (poly, bool) {
		switch x := v.(type) {
		case *ssa.Phi:
			if c, ok := w.phi[x]; ok {
				return fe.eval(c), true
			}
			if s, ok := w.loopSym[x]; ok {
				return atomPoly(s), true
			}
		case *ssa.UnOp:
			if x.Op == token.MUL {
				if lv, ok := w.loaded[x]; ok {
					switch {
					case lv.sym != "":
						return atomPoly(lv.sym), true
					case lv.val != nil:
						return fe.eval(lv.val), true
					case lv.zero:
						return poly{}, true
					}
				}
				if k, ok := w.addrKey(x.X); ok {
					if s, ok := w.memSym[k]; ok {
						return atomPoly(s), true
					}
					if sv, ok := w.mem[k]; ok {
						return fe.eval(sv), true
					}
					if _, isAlloc := k.root.(*ssa.Alloc); isAlloc && isIntegerType(x.Type()) {
						return poly{}, true // zero value of a local that was never assigned
					}
				}
			}
		case *ssa.Call:
			if b, ok := x.Call.Value.(*ssa.Builtin); ok && b.Name() == "len" {
				return atomPoly("len(" + w.lenName(x.Call.Args[0]) + ")"), true
			}
		case *ssa.Convert:
			if isIntegerType(x.Type()) && isIntegerType(x.X.Type()) {
				return fe.eval(x.X), true
			}
		}
		return nil, false
	}
	w.fe = fe
}

func (w *symWalker) lenName(v ssa.Value) string {
	v = w.resolve(v)
	return w.fe.atomKeyOf(v)
}

func (w *symWalker) resolve(v ssa.Value) ssa.Value {
	for i := 0; i < 32; i++ {
		switch x := v.(type) {
		case *ssa.Phi:
			if c, ok := w.phi[x]; ok {
				v = c
				continue
			}
			return v
		case *ssa.UnOp:
			if x.Op == token.MUL {
				if lv, ok := w.loaded[x]; ok && lv.val != nil && w.second {
					if _, isElem := w.elemPath(x.X); isElem {
						v = lv.val
						continue
					}
				}
				if k, ok := w.addrKey(x.X); ok {
					if sv, ok := w.mem[k]; ok {
						v = sv
						continue
					}
				}
			}
			return v
		default:
			return v
		}
	}
	return v
}

// elemPath: addr is the address of a member of list[i], where list is the member
// the first loop appended its records to: the member path inside the element.
func (w *symWalker) elemPath(addr ssa.Value) (string, bool) {
	if w.elemRec == nil {
		return "", false
	}
	var elems []string
	for depth := 0; depth < 8; depth++ {
		switch x := addr.(type) {
		case *ssa.FieldAddr:
			elems = append([]string{fieldName(x)}, elems...)
			addr = x.X
		case *ssa.IndexAddr:
			ld, ok := x.X.(*ssa.UnOp)
			if !ok || ld.Op != token.MUL {
				return "", false
			}
			k, ok := w.addrKey(ld.X)
			if !ok || k != w.listKey {
				return "", false
			}
			return strings.Join(elems, "."), true
		default:
			return "", false
		}
	}
	return "", false
}

func (w *symWalker) exec(b *ssa.BasicBlock) {
	if w.loaded == nil {
		w.loaded = map[*ssa.UnOp]loadedVal{}
	}
	for _, ins := range b.Instrs {
		if ld, ok := ins.(*ssa.UnOp); ok && ld.Op == token.MUL {
			if path, ok := w.elemPath(ld.X); ok && w.second {
				// a member of the current element of the list: what the first loop put there
				if v, ok := w.elemRec[path]; ok {
					w.loaded[ld] = loadedVal{val: v}
				} else if isIntegerType(ld.Type()) {
					w.loaded[ld] = loadedVal{zero: true}
				}
				continue
			}
			if k, ok := w.addrKey(ld.X); ok {
				if s, ok := w.memSym[k]; ok {
					w.loaded[ld] = loadedVal{sym: s}
				} else if v, ok := w.mem[k]; ok {
					w.loaded[ld] = loadedVal{val: v}
				} else if _, isAlloc := k.root.(*ssa.Alloc); isAlloc && isIntegerType(ld.Type()) {
					w.loaded[ld] = loadedVal{zero: true}
				}
			}
			continue
		}
		st, ok := ins.(*ssa.Store)
		if !ok {
			continue
		}
		dk, ok := w.addrKey(st.Addr)
		if !ok {
			continue
		}
		if isStructValue(st.Val.Type()) {
			if ld, ok := st.Val.(*ssa.UnOp); ok && ld.Op == token.MUL {
				if sk, ok := w.addrKey(ld.X); ok {
					w.dw.mem = w.mem
					w.dw.copyStruct(dk, sk)
				}
			}
			continue
		}
		if fa, ok := st.Addr.(*ssa.FieldAddr); ok && fieldName(fa) == "CdrList" {
			if ap, ok := st.Val.(*ssa.Call); ok {
				if bi, ok := ap.Call.Value.(*ssa.Builtin); ok && bi.Name() == "append" && len(ap.Call.Args) == 2 {
					for _, el := range variadicElems(ap.Call.Args[1]) {
						if ld, ok := el.(*ssa.UnOp); ok && ld.Op == token.MUL {
							if sk, ok := w.addrKey(ld.X); ok {
								rec := map[string]ssa.Value{}
								forms := map[string]string{}
								for mk, v := range w.mem {
									if mk.root == sk.root {
										rec[mk.path] = v
										if isIntegerType(v.Type()) {
											forms[mk.path] = w.fe.eval(v).String()
										}
									}
								}
								w.appends = append(w.appends, rec)
								w.apForms = append(w.apForms, forms)
								w.listKey = dk
								w.elemRec = rec
							}
						}
					}
				}
			}
			continue
		}
		delete(w.memSym, dk)
		w.mem[dk] = st.Val
	}
}

func lastElem(path string) string {
	if i := strings.LastIndex(path, "."); i >= 0 {
		return path[i+1:]
	}
	return path
}

// releaseTestMem: `x == 7` where x is a load of a member named *ReleaseIdentifier.
func (w *symWalker) releaseTestMem(ifi *ssa.If) (string, bool, bool) {
	bo, ok := ifi.Cond.(*ssa.BinOp)
	if !ok || (bo.Op != token.EQL && bo.Op != token.NEQ) {
		return "", false, false
	}
	var x ssa.Value
	if k, ok := constInt(bo.Y); ok && k == 7 {
		x = bo.X
	} else if k, ok := constInt(bo.X); ok && k == 7 {
		x = bo.Y
	} else {
		return "", false, false
	}
	ld, ok := x.(*ssa.UnOp)
	if !ok || ld.Op != token.MUL {
		return "", false, false
	}
	var name string
	if path, ok := w.elemPath(ld.X); ok && w.second {
		name = lastElem(path)
	} else {
		k, ok := w.addrKey(ld.X)
		if !ok {
			return "", false, false
		}
		name = lastElem(k.path)
	}
	switch name {
	case "HighReleaseIdentifier", "LowReleaseIdentifier", "ReleaseIdentifier":
		return name, bo.Op == token.EQL, true
	}
	return "", false, false
}

func (w *symWalker) snapshot(prefix string) map[string]string {
	out := map[string]string{}
	for mk, v := range w.mem {
		if _, isAlloc := mk.root.(*ssa.Alloc); !isAlloc {
			continue
		}
		if !strings.HasPrefix(mk.path, prefix) {
			continue
		}
		if s, ok := w.memSym[mk]; ok {
			out[mk.path] = s
			continue
		}
		if isIntegerType(v.Type()) {
			out[mk.path] = w.fe.eval(v).String()
		}
	}
	return out
}

func (w *symWalker) walk(b, prev *ssa.BasicBlock) {
	w.visited++
	if w.visited > 300 {
		failUndecided("walk of %s does not terminate", shortFn(w.f))
	}
	isHead := false
	for _, p := range b.Preds {
		if b.Dominates(p) && p != b {
			isHead = true
		}
	}
	if isHead && w.inLoop && prev != nil && b.Dominates(prev) && b == w.head {
		// back edge: per-iteration increments of the members that were symbolised
		for mk, sym := range w.loopMem {
			cur := w.fe.eval(w.mem[mk])
			d := poly{}
			if s, still := w.memSym[mk]; !(still && s == sym) {
				d = polyAdd(cur, atomPoly(sym), -1)
			}
			if w.second {
				// the same number of iterations as records appended: the increments add up
				if prevD, ok := w.deltaPoly[mk.path]; ok {
					d = polyAdd(prevD, d, 1)
				}
			}
			if w.deltaPoly == nil {
				w.deltaPoly = map[string]poly{}
			}
			w.deltaPoly[mk.path] = d
			if len(d) == 0 {
				w.delta[mk.path] = "0"
			} else {
				w.delta[mk.path] = d.String()
			}
		}
		return
	}
	if isHead && w.inLoop && w.loopDone && b != w.head {
		// a second loop: it must run over the list the first loop appended to, once per record
		w.nLoops++
		if w.nLoops > 1 || w.elemRec == nil {
			failUndecided("%s: more loops after the record loop than the rule can follow", shortFn(w.f))
		}
		ifi, ok := b.Instrs[len(b.Instrs)-1].(*ssa.If)
		if !ok {
			failUndecided("second loop of %s does not end in a condition", shortFn(w.f))
		}
		over := false
		if bo, ok := ifi.Cond.(*ssa.BinOp); ok && bo.Op == token.LSS {
			if call, ok := bo.Y.(*ssa.Call); ok {
				if bi, ok := call.Call.Value.(*ssa.Builtin); ok && bi.Name() == "len" && len(call.Call.Args) == 1 {
					if ld, ok := call.Call.Args[0].(*ssa.UnOp); ok && ld.Op == token.MUL {
						if k, ok := w.addrKey(ld.X); ok && k == w.listKey {
							over = true
						}
					}
				}
			}
		}
		if !over {
			failUndecided("%s: the loop after the record loop does not run over the list of appended records", posOf(w.c, ifi))
		}
		w.second = true
		w.head = b
		// members stored inside this loop become symbols of their own
		w.loopMem = map[memKey]string{}
		for _, bb := range w.f.Blocks {
			if !(b.Dominates(bb) && reachableFrom(bb, nil, nil, nil)[b]) {
				continue
			}
			for _, ins := range bb.Instrs {
				if st, ok := ins.(*ssa.Store); ok {
					if k, ok := w.addrKey(st.Addr); ok && strings.HasPrefix(k.path, "Hdr") && !isStructValue(st.Val.Type()) {
						w.loopMem[k] = "mem1:" + k.path
					}
				}
			}
		}
		for k, sym := range w.loopMem {
			w.memSym[k] = sym
		}
		for _, ins := range b.Instrs {
			ph, ok := ins.(*ssa.Phi)
			if !ok {
				break
			}
			w.loopSym[ph] = "loop2:" + ph.Comment
			delete(w.phi, ph)
		}
		w.newFE()
		w.exec(b)
		w.walk(b.Succs[0], b)
		return
	}
	if isHead && !w.inLoop {
		w.inLoop = true
		w.head = b
		w.atLoop = w.snapshot("Hdr")
		w.memAtLoop = map[memKey]poly{}
		for mk, v := range w.mem {
			if isIntegerType(v.Type()) {
				w.memAtLoop[mk] = w.fe.eval(v)
			}
		}
		// members stored inside the loop become symbols
		w.loopMem = map[memKey]string{}
		inLoopBlocks := map[*ssa.BasicBlock]bool{}
		for _, bb := range w.f.Blocks {
			if b.Dominates(bb) && reachableFrom(bb, nil, nil, nil)[b] {
				inLoopBlocks[bb] = true
			}
		}
		for bb := range inLoopBlocks {
			for _, ins := range bb.Instrs {
				if st, ok := ins.(*ssa.Store); ok {
					if k, ok := w.addrKey(st.Addr); ok && strings.HasPrefix(k.path, "Hdr") && !isStructValue(st.Val.Type()) {
						sym := "mem0:" + k.path
						w.loopMem[k] = sym
					}
				}
			}
		}
		for k, sym := range w.loopMem {
			w.memSym[k] = sym
		}
		for _, ins := range b.Instrs {
			ph, ok := ins.(*ssa.Phi)
			if !ok {
				break
			}
			w.loopSym[ph] = "loop:" + ph.Comment
			delete(w.phi, ph)
		}
		w.newFE()
		w.exec(b)
		ifi, ok := b.Instrs[len(b.Instrs)-1].(*ssa.If)
		if !ok {
			failUndecided("loop head of %s does not end in a condition", shortFn(w.f))
		}
		// what is iterated: idx < len(X)
		if bo, ok := ifi.Cond.(*ssa.BinOp); ok && bo.Op == token.LSS {
			w.loopBound = w.fe.eval(bo.Y).String()
		}
		w.walk(b.Succs[0], b)
		// the exit path: evaluate what follows the loop with the symbols in place
		w.afterLoop(b.Succs[1])
		return
	}
	if prev != nil {
		changed := false
		for _, ins := range b.Instrs {
			ph, ok := ins.(*ssa.Phi)
			if !ok {
				break
			}
			for i, p := range b.Preds {
				if p == prev {
					w.phi[ph] = ph.Edges[i]
					changed = true
				}
			}
		}
		if changed {
			w.newFE()
		}
	}
	w.exec(b)
	if len(b.Instrs) == 0 {
		return
	}
	switch t := b.Instrs[len(b.Instrs)-1].(type) {
	case *ssa.Jump:
		w.walk(b.Succs[0], b)
	case *ssa.If:
		if name, eq, ok := w.releaseTestMem(t); ok {
			if w.assign[name] == eq {
				w.walk(b.Succs[0], b)
			} else {
				w.walk(b.Succs[1], b)
			}
			return
		}
		// error / limit guards: follow the successor that does not return at once
		s0, s1 := b.Succs[0], b.Succs[1]
		r0, r1 := returnsSoon(s0), returnsSoon(s1)
		switch {
		case r0 && !r1:
			w.walk(s1, b)
		case r1 && !r0:
			w.walk(s0, b)
		case len(s0.Succs) == 1 && s0.Succs[0] == s1 && !hasStore(s0):
			w.walk(s1, b)
		case len(s1.Succs) == 1 && s1.Succs[0] == s0 && !hasStore(s1):
			w.walk(s0, b)
		case w.inLoop && !w.second && w.leavesLoop(s0) && !w.leavesLoop(s1):
			w.noteBreak(b, s0, t)
			w.walk(s1, b)
		case w.inLoop && !w.second && w.leavesLoop(s1) && !w.leavesLoop(s0):
			w.noteBreak(b, s1, t)
			w.walk(s0, b)
		case w.inLoop && w.skipsToHead(s0) && !w.skipsToHead(s1):
			w.skips = append(w.skips, condPos(w.c, t))
			w.walk(s1, b)
		case w.inLoop && w.skipsToHead(s1) && !w.skipsToHead(s0):
			w.skips = append(w.skips, condPos(w.c, t))
			w.walk(s0, b)
		default:
			failUndecided("%s: a branch that is neither a release-identifier test nor an error guard may change the lengths", posOf(w.c, t))
		}
	case *ssa.Return, *ssa.Panic:
	}
}

// leavesLoop: the loop head cannot be reached again from b (a `break`).
func (w *symWalker) leavesLoop(b *ssa.BasicBlock) bool {
	if w.head == nil || b == w.head {
		return false
	}
	return !reachableFrom(b, nil, nil, nil)[w.head]
}

// noteBreak: the record loop is left over the edge from->to without the current
// record having been appended.  That is an error exit only if the file is not
// written afterwards: the write is looked for along the edge, following a
// flag/error variable assigned before the break through the test behind the
// loop (one-step threading).
func (w *symWalker) noteBreak(from, to *ssa.BasicBlock, t *ssa.If) {
	reach := threadedReach(from, to)
	written := false
	for bb := range reach {
		for _, ins := range bb.Instrs {
			if call, ok := ins.(ssa.CallInstruction); ok {
				if sc := call.Common().StaticCallee(); sc != nil && sc.Name() == "Encoding" && w.c.inModule(sc) {
					written = true
				}
				if o := calleeObj(call.Common()); o != nil && o.Pkg() != nil && o.Pkg().Path() == "os" && (o.Name() == "WriteFile" || o.Name() == "Create" || o.Name() == "OpenFile") {
					written = true
				}
			}
		}
	}
	if written {
		w.breaks = append(w.breaks, condPos(w.c, t))
	}
}

// skipsToHead: from b the loop head is reached again through jump-only blocks
// that store nothing into the file structure (a `continue`).
func (w *symWalker) skipsToHead(b *ssa.BasicBlock) bool {
	for i := 0; i < 6; i++ {
		if b == w.head {
			return true
		}
		if hasStore(b) || len(b.Succs) != 1 {
			return false
		}
		b = b.Succs[0]
	}
	return false
}

// returnsSoon: the block (or its chain of single successors without stores to
// the file structure) ends in a return.
func returnsSoon(b *ssa.BasicBlock) bool {
	for i := 0; i < 4; i++ {
		if len(b.Instrs) == 0 {
			return false
		}
		switch b.Instrs[len(b.Instrs)-1].(type) {
		case *ssa.Return, *ssa.Panic:
			return true
		case *ssa.Jump:
			b = b.Succs[0]
		default:
			return false
		}
	}
	return false
}

// afterLoop: what follows the record loop.  Only a second loop over the list of
// appended records matters (lengths added up after all records are encoded);
// the walk ends at the first return.
func (w *symWalker) afterLoop(b *ssa.BasicBlock) {
	w.loopDone = true
	// is there a loop at all behind the exit?
	later := false
	for bb := range reachableFrom(b, nil, nil, nil) {
		for _, p := range bb.Preds {
			if bb.Dominates(p) && p != bb && bb != w.head {
				later = true
			}
		}
	}
	if !later {
		return
	}
	w.walk(b, w.head)
}

func checkC03(c *Ctx, r *Report) {
	r.Explanation = "The function that assembles and writes the subscriber's CDR file (dumpCdrFile) is analysed on go/ssa against the layout extracted from the cdrFile encoders (E5d): (R1) no narrowing conversion into an 8/16-bit length field can truncate - the operand range is proven inside the target range by a dominating guard (so a record over 65535 octets is never written); (R2) for every combination of the release-identifier tests the header length it computes equals the size of the encoded header, the file length at the start equals the header length and grows per record by exactly the encoded record header size plus the payload length, the count field equals the number of records and exactly one record is appended per input record, and each record's length field equals the length of the very byte slice stored as its payload; (R3) the error of the BER marshaller is tested on its own result and no payload is used on the error edge; (R4) the payload is the marshal result itself."
	r.Undecided = []string{"behaviour of the split threshold in the update path over histories", "that the payload is a complete BER record is the subject of C04"}
	r.Trusted = append(r.Trusted, "len() of the marshalled slice is the number of octets written for the payload (encoding/binary.Write of a byte slice)")
	r.rule("C03.R1", "no truncating conversion into a length field", 1)
	r.rule("C03.R2", "length and count formulas agree with the layout of the encoders", 6)
	r.rule("C03.R3", "marshal errors are propagated: no payload is used when marshalling failed", 1)
	r.rule("C03.R4", "payload and record length come from the same marshal result", 1)
	r.rule("C03.R6", "every BER header inside a payload announces its contents with enough (and no more than needed) length / tag / INTEGER octets (shared with C04.R9)", 6)
	r.rule("C03.R7", "the buffers the octets are assembled in are empty at the first write, so the length members count exactly the octets of this file (shared with C15.R6)", 3)
	r.rule("C03.R8", "the file is the header followed by exactly the records the count announces (shape of CDRFile.Encoding, shared with C15.R4): a writer that drops or reorders records has to write the count of what it writes", 1)
	r.rule("C03.R9", "the file and header encoders write the list and the counters they are given (shared with C15.R7): an encoder that cuts the list or corrects a counter on its own leaves the other counters of dumpCdrFile describing another file", 3)
	r.rule("C03.R5", "the file on disk is replaced by exactly the encoded octets, so the file length member equals the file size (shared with C15.R5)", 1)

	f := c.fn("internal/sbi/processor", "dumpCdrFile")
	key := fnKey(f)
	r.shareFrom(c, checkC15, map[string]string{"C15.R4": "C03.R8", "C15.R7": "C03.R9"})

	// ---- R1
	re := newRangeEval(f)
	nconv := 0
	eachInstr(f, func(_ *ssa.BasicBlock, _ int, ins ssa.Instruction) {
		cv, ok := ins.(*ssa.Convert)
		if !ok || !isIntegerType(cv.Type()) || !isIntegerType(cv.X.Type()) {
			return
		}
		ts, ss := sizeOfBasic(cv.Type()), sizeOfBasic(cv.X.Type())
		if !(ts < ss && ts <= 2) {
			return
		}
		nconv++
		src := rangeWithLenGuards(re, cv.X, cv)
		tr := typeRange(cv.Type())
		ok2 := src.ok && src.lo >= tr.lo && src.hi <= tr.hi
		r.check(ok2, "C03.R1", fmt.Sprintf("%s|convert to %s #%d", key, cv.Type().String(), nconv), posOf(c, cv), fmt.Sprintf("operand within [%d,%d] on every path", src.lo, src.hi),
			"a length is converted to "+cv.Type().String()+" without a dominating bound: a record longer than 65535 octets is written with a truncated length field and the file's record boundaries and file length no longer match")
		// ... and the guard refuses nothing the field can hold
		if ok2 && ts == 2 {
			r.check(src.hi >= tr.hi, "C03.R1", fmt.Sprintf("%s|bound of %s #%d is the range of the field", key, cv.Type().String(), nconv), posOf(c, cv), "every length the field can hold passes the guard",
				fmt.Sprintf("the guard in front of the conversion lets only lengths up to %d through although the %s field holds up to %d: a record between these sizes - which the session reaches long before a new record is started - is refused, so every further update and the release of a long session fail after their credit control has run", src.hi, cv.Type().String(), tr.hi))
		}
	})
	// arithmetic carried out in a 16-bit (or narrower) type: the sum of a length and a header size wraps
	nar := 0
	eachInstr(f, func(_ *ssa.BasicBlock, _ int, ins ssa.Instruction) {
		bo, ok := ins.(*ssa.BinOp)
		if !ok || (bo.Op != token.ADD && bo.Op != token.MUL && bo.Op != token.SHL) || !isIntegerType(bo.Type()) || sizeOfBasic(bo.Type()) > 2 {
			return
		}
		nar++
		tr := typeRange(bo.Type())
		// (a member read back right after it was assigned is the value assigned)
		x, y := rangeWithLenGuards(re, resolveMem(stripConvSameSize(bo.X)), bo), rangeWithLenGuards(re, resolveMem(stripConvSameSize(bo.Y)), bo)
		fits := x.ok && y.ok
		if fits {
			switch bo.Op {
			case token.ADD:
				fits = x.hi+y.hi <= tr.hi
			case token.MUL:
				fits = x.hi*y.hi <= tr.hi
			default:
				fits = false
			}
		}
		r.check(fits, "C03.R1", fmt.Sprintf("%s|%s arithmetic #%d", key, bo.Type().String(), nar), posOf(c, bo), "cannot exceed the range of its type", fmt.Sprintf("the expression at %s is computed in %s and can exceed %d: for a record near the 65535-octet limit the sum wraps, and the length it is added to (the file length) is 65536 too small", c.rel(bo.Pos()), bo.Type().String(), tr.hi))
	})
	if nconv == 0 {
		r.proven("C03.R1", key+"|no narrowing", c.rel(f.Pos()), "no narrowing conversion into a length field")
	}

	// ---- R3 / R4
	c03ErrorDiscipline(c, r)

	// ---- R2
	l := loadLayouts(c)
	conds := append(append([]string{}, l.hdrConds...), l.recConds...)
	for _, a := range allAssignments(conds) {
		k := key + "|" + assignString(a)
		diffs, err := c03Lengths(c, f, l, a)
		if err != nil {
			r.viol("C03.R2", k, c.rel(f.Pos()), "undecided: "+err.Error())
			continue
		}
		r.check(len(diffs) == 0, "C03.R2", k, c.rel(f.Pos()), "header length, file length, record length and count agree with the encoded sizes", strings.Join(diffs, "; "))
	}
	fileReplaced(c, r, "C03.R5")
	buffersStartEmpty(c, r, "C03.R7", l.hdrFn, l.recFn, l.fileFn)
	c04DigitCounts(c, r, "C03.R6")
}

// rangeWithLenGuards: range of v at `at`, where comparisons on len(x) of the
// same x refine len(x) (go/ssa does not share the len calls).
func rangeWithLenGuards(re *rangeEval, v ssa.Value, at ssa.Instruction) ival {
	base := re.evalAt(v, at)
	call, ok := v.(*ssa.Call)
	if !ok {
		return base
	}
	b, ok := call.Call.Value.(*ssa.Builtin)
	if !ok || b.Name() != "len" {
		return base
	}
	arg := call.Call.Args[0]
	f := at.Parent()
	// other len(arg) calls compared with constants on dominating edges
	eachInstr(f, func(_ *ssa.BasicBlock, _ int, ins ssa.Instruction) {
		c2, ok := ins.(*ssa.Call)
		if !ok || c2 == call {
			return
		}
		b2, ok := c2.Call.Value.(*ssa.Builtin)
		if !ok || b2.Name() != "len" || c2.Call.Args[0] != arg {
			return
		}
		r2 := re.evalOnEdge(c2, nil, at.Block())
		if r2.ok {
			if r2.lo > base.lo {
				base.lo = r2.lo
			}
			if r2.hi < base.hi {
				base.hi = r2.hi
			}
		}
	})
	return base
}

func c03ErrorDiscipline(c *Ctx, r *Report) {
	n := 0
	for _, f := range c.ModFuncs {
		if rootOf(f).Pkg == nil || rootOf(f).Pkg.Pkg.Path() != procPath {
			continue
		}
		eachInstr(f, func(_ *ssa.BasicBlock, _ int, ins ssa.Instruction) {
			call, ok := ins.(*ssa.Call)
			if !ok || !isFunc(calleeObj(&call.Call), modPath+"/cdr/asn", "BerMarshalWithParams") {
				return
			}
			n++
			key := fmt.Sprintf("%s|marshal #%s", fnKey(f), ordinalOf(f, call, calleeObj(&call.Call)))
			var bytesV, errV ssa.Value
			for _, ref := range *call.Referrers() {
				if ex, ok := ref.(*ssa.Extract); ok {
					if ex.Index == 0 {
						bytesV = ex
					} else {
						errV = ex
					}
				}
			}
			succ := successEdgeOf(call)
			ok2 := errV != nil && succ != nil
			why := "the error of BerMarshalWithParams is not tested"
			if ok2 && bytesV != nil {
				for _, ref := range *bytesV.Referrers() {
					if _, isDbg := ref.(*ssa.DebugRef); isDbg {
						continue
					}
					if ph, isPhi := ref.(*ssa.Phi); isPhi {
						// merged into a result variable next to the error (`return f()` of an inlined
						// helper): the uses of the merged value count
						if pairedWithError(ph, bytesV, errV) {
							for _, r2 := range *ph.Referrers() {
								if _, isDbg := r2.(*ssa.DebugRef); isDbg {
									continue
								}
								if !onSuccessEdge(call, r2.Block()) {
									ok2 = false
									why = "the marshalled bytes are used at " + posOf(c, r2) + " although marshalling may have failed: an empty or partial payload is written"
								}
							}
							continue
						}
						// a use through a phi happens on the incoming edge: its source block must be on the success edge
						okPhi := true
						for i, e := range ph.Edges {
							if e != bytesV {
								continue
							}
							from, to := successEdge2(call)
							pred := ph.Block().Preds[i]
							if pred == from && ph.Block() == to {
								continue // the phi edge is the success edge itself
							}
							if !onSuccessEdge(call, pred) {
								okPhi = false
							}
						}
						if okPhi {
							continue
						}
					}
					if !onSuccessEdge(call, ref.Block()) {
						ok2 = false
						why = "the marshalled bytes are used at " + posOf(c, ref) + " although marshalling may have failed: an empty or partial payload is written"
					}
				}
			}
			r.check(ok2, "C03.R3", key, posOf(c, call), "bytes used only on the err == nil edge", why)
			if f.Name() == "dumpCdrFile" && bytesV != nil {
				// R4: CdrByte is the result itself and CdrLength its len
				payloadOK, lenOK := false, false
				eachInstr(f, func(_ *ssa.BasicBlock, _ int, i2 ssa.Instruction) {
					st, ok := i2.(*ssa.Store)
					if !ok {
						return
					}
					fa, ok := st.Addr.(*ssa.FieldAddr)
					if !ok {
						return
					}
					switch fieldName(fa) {
					case "CdrByte":
						if st.Val == bytesV {
							payloadOK = true
						}
					case "CdrLength":
						if cv, ok := st.Val.(*ssa.Convert); ok {
							if lc, ok := cv.X.(*ssa.Call); ok {
								if b, ok := lc.Call.Value.(*ssa.Builtin); ok && b.Name() == "len" && lc.Call.Args[0] == bytesV {
									lenOK = true
								}
							}
						}
					}
				})
				r.check(payloadOK && lenOK, "C03.R4", fnKey(f)+"|payload", posOf(c, call), "CdrByte is the marshal result and CdrLength its length", "the record's payload / length field are not taken from the same marshal result")
			}
		})
	}
	if n == 0 {
		r.viol("C03.R3", "marshal calls", "", "no BerMarshalWithParams call found in the processor")
	}
}

// substitute replaces val(F) atoms by the given forms (linear substitution on the rendered string is not possible: rebuild).
func substVals(p poly, vals map[string]poly) poly {
	out := poly{}
	for mono, cf := range p {
		term := constPoly(cf)
		if mono != "" {
			term = poly{"": cf}
			for _, a := range strings.Split(mono, monoSep) {
				if strings.HasPrefix(a, "val(") {
					name := strings.TrimSuffix(strings.TrimPrefix(a, "val("), ")")
					if v, ok := vals[name]; ok {
						term = polyMul(term, v)
						continue
					}
				}
				term = polyMul(term, atomPoly(a))
			}
		}
		out = polyAdd(out, term, 1)
	}
	return out
}

func c03Lengths(c *Ctx, f *ssa.Function, l *layouts, a map[string]bool) (diffs []string, err error) {
	defer func() {
		if p := recover(); p != nil {
			if u, ok := p.(undecided); ok {
				err = fmt.Errorf("%s", u.msg)
				return
			}
			panic(p)
		}
	}()
	hsegs, _, e1 := encoderLayout(c, l.hdrFn, a)
	rsegs, _, e2 := encoderLayout(c, l.recFn, a)
	if e1 != nil || e2 != nil {
		return nil, fmt.Errorf("%v %v", e1, e2)
	}
	_, hEnd, e3 := fieldsOf(hsegs, poly{})
	_, rEnd, e4 := fieldsOf(append(append([]seg{}, rsegs...), seg{Kind: "var", Name: "CdrByte", Width: -1}), poly{})
	if e3 != nil || e4 != nil {
		return nil, fmt.Errorf("%v %v", e3, e4)
	}
	w := &symWalker{c: c, f: f, assign: a, mem: map[memKey]ssa.Value{}, memSym: map[memKey]string{}, phi: map[*ssa.Phi]ssa.Value{}, loopSym: map[*ssa.Phi]string{}, delta: map[string]string{}}
	w.dw = decWalker{c: c, f: f}
	w.newFE()
	w.walk(f.Blocks[0], nil)
	if !w.inLoop {
		return nil, fmt.Errorf("dumpCdrFile has no loop over the records")
	}
	get := func(m map[string]string, name string) (string, bool) {
		for k, v := range m {
			if lastElem(k) == name {
				return v, true
			}
		}
		return "", false
	}
	parseForm := func(name string) poly {
		// the forms of the length members at loop entry, as polynomials: re-evaluate from memory
		for mk, v := range w.memAtLoop {
			if lastElem(mk.path) == name {
				return v
			}
		}
		return poly{}
	}
	vals := map[string]poly{
		"LengthOfCdrRouteingFilter": parseForm("LengthOfCdrRouteingFilter"),
		"LengthOfPrivateExtension":  parseForm("LengthOfPrivateExtension"),
	}
	wantHdr := substVals(hEnd, vals).String()
	if got, ok := get(w.atLoop, "HeaderLength"); !ok || got != wantHdr {
		diffs = append(diffs, fmt.Sprintf("HeaderLength is %s, the encoded header has %s octets", got, wantHdr))
	}
	if got, ok := get(w.atLoop, "FileLength"); !ok || got != wantHdr {
		diffs = append(diffs, fmt.Sprintf("FileLength starts at %s, the encoded header has %s octets", got, wantHdr))
	}
	// the routeing filter / private extension contents must have the lengths announced
	for _, pair := range [][2]string{{"CDRRouteingFilter", "LengthOfCdrRouteingFilter"}, {"PrivateExtension", "LengthOfPrivateExtension"}} {
		stored := false
		for mk := range w.mem {
			if lastElem(mk.path) == pair[0] {
				stored = true
			}
		}
		if !stored {
			if k0, isC := vals[pair[1]].isConst(); !isC || k0 != 0 {
				diffs = append(diffs, pair[1]+" is "+vals[pair[1]].String()+" although "+pair[0]+" is left empty")
			}
		}
	}
	if got, ok := get(w.atLoop, "NumberOfCdrsInFile"); ok && got == "0" {
		// counted while appending: one more per appended record
		if d, okd := get(w.delta, "NumberOfCdrsInFile"); !okd || d != "1" {
			diffs = append(diffs, fmt.Sprintf("NumberOfCdrsInFile starts at 0 and grows by %s per appended record (expected 1)", d))
		}
	} else if !ok || got != w.loopBound || !strings.HasPrefix(got, "len(") {
		diffs = append(diffs, fmt.Sprintf("NumberOfCdrsInFile is %s but the file gets one record per element of %s", got, w.loopBound))
	} else if len(w.skips) > 0 {
		diffs = append(diffs, fmt.Sprintf("NumberOfCdrsInFile is %s, but the branch at %s goes on to the next element without appending a record: the header then counts more CDRs than the file contains", got, strings.Join(w.skips, ", ")))
	}
	if len(w.breaks) > 0 {
		diffs = append(diffs, fmt.Sprintf("the branch at %s leaves the loop over the records without appending the current one, and the file is written all the same (no error reaches the test behind the loop): NumberOfCdrsInFile counts records that are not in the file and the operation reports success", strings.Join(w.breaks, ", ")))
	}
	if len(w.appends) != 1 {
		diffs = append(diffs, fmt.Sprintf("%d records appended per iteration (expected exactly one)", len(w.appends)))
		return diffs, nil
	}
	rec := w.appends[0]
	forms := w.apForms[0]
	cdrLen, okL := forms["Hdr.CdrLength"]
	payload := rec["CdrByte"]
	if !okL || payload == nil {
		diffs = append(diffs, "the appended record has no CdrLength / CdrByte")
		return diffs, nil
	}
	wantLen := "len(" + w.lenName(payload) + ")"
	if cdrLen != wantLen {
		diffs = append(diffs, fmt.Sprintf("CdrLength is %s, the payload has %s octets", cdrLen, wantLen))
	}
	// record release identifier consistent with the assignment: the walk took the branch; FileLength delta
	wantDelta := substVals(rEnd, map[string]poly{"CdrLength": atomPoly(wantLen)}).String()
	if got, ok := get(w.delta, "FileLength"); !ok || got != wantDelta {
		diffs = append(diffs, fmt.Sprintf("FileLength grows by %s per record, an encoded record occupies %s", got, wantDelta))
	}
	return diffs, nil
}

func condPos(c *Ctx, t *ssa.If) string {
	if ins, ok := t.Cond.(ssa.Instruction); ok && ins.Pos().IsValid() {
		return c.rel(ins.Pos())
	}
	return posOf(c, t)
}

// pairedWithError: phi merges `val` on exactly the edges on which a sibling phi
// of the same block merges `errV`.
func pairedWithError(ph *ssa.Phi, val, errV ssa.Value) bool {
	if errV == nil {
		return false
	}
	for _, ins := range ph.Block().Instrs {
		sib, ok := ins.(*ssa.Phi)
		if !ok {
			break
		}
		if sib == ph || len(sib.Edges) != len(ph.Edges) {
			continue
		}
		match, any := true, false
		for i := range ph.Edges {
			if (ph.Edges[i] == val) != (sib.Edges[i] == errV) {
				match = false
			}
			if ph.Edges[i] == val {
				any = true
			}
		}
		if match && any {
			return true
		}
	}
	return false
}
