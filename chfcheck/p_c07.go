package main

import (
	"fmt"
	"go/constant"
	"go/token"
	"go/types"
	"reflect"
	"strings"

	"golang.org/x/tools/go/ssa"
)

// C07: account-balance server: grants min(requested, balance), exact debits/refunds.

const (
	cdtPath   = modPath + "/ccs_diameter/datatype"
	mongoPath = "github.com/free5gc/util/mongoapi"
)

func init() { register("C07", "other", checkC07) }

// abmfModel collects the values of interest in the CCR handler closure.
type abmfModel struct {
	c        *Ctx
	f        *ssa.Function
	fe       *formEval
	req      *ssa.Alloc // decoded request
	getOne   *ssa.Call
	putOne   *ssa.Call
	q0       ssa.Value // balance read from the database
	stored   ssa.Value // balance written back
	marshal  *ssa.Call // a.Marshal(&cca)
	writeTo  *ssa.Call // a.WriteTo(c)
	ans      *ssa.Alloc
	actionIn map[*ssa.BasicBlock]enumSet
	typeIn   map[*ssa.BasicBlock]enumSet
}

func constOf(c *Ctx, rel, name string) int64 {
	obj, ok := c.pkg(rel).Types.Scope().Lookup(name).(*types.Const)
	if !ok {
		broken("anchor: constant %s.%s not found", rel, name)
	}
	v, _ := constant.Int64Val(obj.Val())
	return v
}

func buildAbmfModel(c *Ctx) *abmfModel {
	outer := c.fn("pkg/abmf", "handleCCR")
	hs := returnedFuncs(outer)
	if len(hs) != 1 {
		broken("anchor: handleCCR is expected to return one handler function, found %d", len(hs))
	}
	f := hs[0]
	m := &abmfModel{c: c, f: f, fe: newFormEval(f)}
	eachInstr(f, func(_ *ssa.BasicBlock, _ int, ins ssa.Instruction) {
		call, ok := ins.(*ssa.Call)
		if !ok {
			return
		}
		obj := calleeObj(&call.Call)
		switch {
		case isFunc(obj, diamPath, "Message.Unmarshal"):
			if a, ok := stripConv(call.Call.Args[1]).(*ssa.Alloc); ok && m.req == nil {
				m.req = a
			}
		case isFunc(obj, mongoPath, "RestfulAPIGetOne"):
			m.getOne = call
		case isFunc(obj, mongoPath, "RestfulAPIPutOne"):
			m.putOne = call
		case isFunc(obj, diamPath, "Message.Marshal"):
			m.marshal = call
			if a, ok := stripConv(call.Call.Args[1]).(*ssa.Alloc); ok {
				m.ans = a
			}
		case isFunc(obj, diamPath, "Message.WriteTo"):
			m.writeTo = call
		}
	})
	if m.req == nil || m.getOne == nil || m.putOne == nil || m.marshal == nil || m.writeTo == nil || m.ans == nil {
		broken("anchor: handleCCR closure does not have the expected Unmarshal/GetOne/PutOne/Marshal/WriteTo calls")
	}
	// q0: ParseInt of a string that depends on a "quota" look-up of the GetOne result
	eachInstr(f, func(_ *ssa.BasicBlock, _ int, ins ssa.Instruction) {
		call, ok := ins.(*ssa.Call)
		if !ok || !isFunc(calleeObj(&call.Call), "strconv", "ParseInt") || m.q0 != nil {
			return
		}
		fromDB := false
		for d := range depSet(f, call.Call.Args[0]) {
			if lk, ok := d.(*ssa.Lookup); ok {
				if k, ok := constString(lk.Index); ok && k == "quota" {
					for d2 := range depSet(f, lk.X) {
						if d2 == ssa.Value(m.getOne) {
							fromDB = true
						}
					}
				}
			}
		}
		if !fromDB {
			return
		}
		for _, ref := range *call.Referrers() {
			if ex, ok := ref.(*ssa.Extract); ok && ex.Index == 0 {
				m.q0 = ex
			}
		}
	})
	// stored: value formatted into the "quota" member of the document passed to PutOne
	if len(m.putOne.Call.Args) >= 3 {
		doc := stripConv(m.putOne.Call.Args[2])
		if refs := doc.Referrers(); refs != nil {
			for _, ref := range *refs {
				mu, ok := ref.(*ssa.MapUpdate)
				if !ok {
					continue
				}
				if k, ok := constString(mu.Key); !ok || k != "quota" {
					continue
				}
				if call, ok := stripConv(mu.Value).(*ssa.Call); ok {
					if obj := calleeObj(&call.Call); obj != nil && obj.Pkg() != nil {
						switch {
						case obj.Pkg().Path() == "strconv" && (strings.HasPrefix(obj.Name(), "Format") || obj.Name() == "Itoa"):
							m.stored = call.Call.Args[0]
						case obj.Pkg().Path() == "fmt" && obj.Name() == "Sprintf" && len(call.Call.Args) == 2:
							// fmt.Sprintf("%d", x): the decimal rendering of one integer
							if fs, ok := constString(call.Call.Args[0]); ok && (fs == "%d" || fs == "%v") {
								if el := variadicElemsOrdered(call.Call.Args[1]); len(el) == 1 {
									if v := stripConv(el[0]); isIntegerType(v.Type()) {
										m.stored = v
									}
								}
							}
						case obj.Pkg().Path() == "fmt" && obj.Name() == "Sprint" && len(call.Call.Args) == 1:
							if el := variadicElemsOrdered(call.Call.Args[0]); len(el) == 1 {
								if v := stripConv(el[0]); isIntegerType(v.Type()) {
									m.stored = v
								}
							}
						}
					}
				}
			}
		}
	}
	if m.q0 == nil || m.stored == nil {
		broken("anchor: cannot identify the balance read from / written to the database in handleCCR")
	}
	m.actionIn = enumFlow(f, m.isAction)
	m.typeIn = enumFlow(f, m.isType)
	return m
}

func (m *abmfModel) isReqField(v ssa.Value, field string) bool {
	ld, ok := v.(*ssa.UnOp)
	if !ok || ld.Op != token.MUL {
		return false
	}
	fa, ok := ld.X.(*ssa.FieldAddr)
	return ok && fa.X == ssa.Value(m.req) && fieldName(fa) == field
}
func (m *abmfModel) isAction(v ssa.Value) bool { return m.isReqField(v, "RequestedAction") }
func (m *abmfModel) isType(v ssa.Value) bool   { return m.isReqField(v, "CcRequestType") }

// reqAtom: the polynomial is exactly one atom that is a member of the decoded request ending in suffix.
func (m *abmfModel) reqAtom(p poly, suffix string) bool {
	if len(p) != 1 {
		return false
	}
	for k, c := range p {
		if c != 1 {
			return false
		}
		return strings.HasPrefix(k, "mem:local:"+m.req.Comment+".") && strings.HasSuffix(k, suffix)
	}
	return false
}

func checkC07(c *Ctx, r *Report) {
	r.Explanation = "The CCR handler of the account-balance server is analysed symbolically on go/ssa (no execution): the balance written back is a phi over the branches of the Requested-Action / CC-Request-Type switch; for each reaching definition the set of (action, type) values possible on its edge is computed by an enum-set dataflow and its polynomial form (E7: integer conversions are identities) must equal the statement's equation for those values - balance + refund (REFUND_ACCOUNT), balance - used (TERMINATION debit), balance - grant (reservation), unchanged otherwise. The grant written into Granted-Service-Unit must be the same value that is subtracted and be min(request, balance): each of its reaching definitions is the request on an edge where request <= balance or the balance on an edge where request >= balance; the final-unit indication is non-nil exactly on request > balance. Echo of Session-Id / CC-Request-Type / CC-Request-Number must be definitely assigned before the answer is marshalled on every path; the unknown-account edge must not reach the write-back; the write-back dominates the answer."
	r.Undecided = []string{"amounts at or above 2^63 (Unsigned64 to int64 conversion is treated as the identity)", "balances that are already negative in the database", "behaviour of MongoDB and of go-diameter"}
	r.Assumptions = append(r.Assumptions, "integer conversions do not overflow (amounts < 2^63)", "stored balances are non-negative decimal strings")
	r.rule("C07.R1", "the grant is min(request, balance), is the value subtracted from the balance, and the final-unit indication is set exactly when request > balance", 4)
	r.rule("C07.R2", "the written-back balance equals the statement's equation for every (Requested-Action, CC-Request-Type) value possible on each path", 4)
	r.rule("C07.R7", "the stored balance is parsed in 64 bits and the account is looked up under the request's subscriber and rating group exactly (no narrowing of parsed numbers or of look-up keys)", 2)
	r.rule("C07.R8", "amounts, request types and actions mean on the wire what the server computes with: member types match the dictionary's AVP types in full width and the named constants carry the dictionary's item codes (shared with C17.R2/R8)", 100)
	r.rule("C07.R3", "Session-Id, CC-Request-Type and CC-Request-Number of the answer are assigned from the request on every path to Marshal", 3)
	r.rule("C07.R4", "the unknown subscriber / rating group edge returns without writing any balance", 1)
	r.rule("C07.R5", "the balance write-back dominates the answer (store before acknowledge)", 1)
	r.rule("C07.R9", "the account look-up key \"imsi-\"+data is built only for Subscription-Id-Type END_USER_IMSI (a request naming another kind of identity touches no IMSI subscriber's balance)", 1)
	r.rule("C07.R6", "the handler keeps no state between requests (no captured or package-level variable written)", 1)

	abmfRules(c, r, "C07.R1", "C07.R2", "C07.R3", "C07.R4", "C07.R5", "C07.R6")
	abmfWidthRules(c, r, "C07.R7")
	subscriberKeyBehindTypeTest(c, r, "C07.R9", c.fn("pkg/abmf", "handleCCR"))
	r.shareFrom(c, checkC17, map[string]string{"C17.R1": "C07.R8", "C17.R2": "C07.R8", "C17.R8": "C07.R8", "C17.R9": "C07.R8"})
}

// abmfRules runs the account-server rules under the given rule ids ("" = skip).
func abmfRules(c *Ctx, r *Report, R1, R2, R3, R4, R5, R6 string) {
	if R6 == "" {
		R6 = R1
	}
	if !handlerStateless(c, r, R6, "pkg/abmf", "handleCCR") {
		r.blockedBy("the handler keeps state between requests", R1, R2, R3, R4, R5)
		return // the model below assumes per-invocation variables
	}
	m := buildAbmfModel(c)
	fe := m.fe
	f := m.f
	key := fnKey(f)
	q0 := fe.eval(m.q0)

	actDD := constOf(c, "ccs_diameter/datatype", "DIRECT_DEBITING")
	actRefund := constOf(c, "ccs_diameter/datatype", "REFUND_ACCOUNT")
	tInit := constOf(c, "ccs_diameter/datatype", "INITIAL_REQUEST")
	tUpd := constOf(c, "ccs_diameter/datatype", "UPDATE_REQUEST")
	tTerm := constOf(c, "ccs_diameter/datatype", "TERMINATION_REQUEST")

	// the granted value: stored into GrantedServiceUnit.CCTotalOctets of a literal built in f
	var granted ssa.Value
	var fuiVal ssa.Value
	var fuiStore *ssa.Store
	eachInstr(f, func(_ *ssa.BasicBlock, _ int, ins ssa.Instruction) {
		st, ok := ins.(*ssa.Store)
		if !ok {
			return
		}
		fa, ok := st.Addr.(*ssa.FieldAddr)
		if !ok {
			return
		}
		if typeIs(fa.X.Type(), cdtPath, "GrantedServiceUnit") && fieldName(fa) == "CCTotalOctets" {
			granted = st.Val
		}
		if typeIs(fa.X.Type(), cdtPath, "MultipleServicesCreditControl") && fieldName(fa) == "FinalUnitIndication" {
			fuiVal = st.Val
			fuiStore = st
		}
	})

	// ---- R2 (and the reserve part of R1)
	type expect struct {
		name string
		ok   func(p poly) (bool, string)
	}
	unchanged := expect{"balance unchanged", func(p poly) (bool, string) { return polyEqual(p, q0), "" }}
	refund := expect{"balance + refund", func(p poly) (bool, string) {
		d := polyAdd(p, q0, -1)
		return m.reqAtom(d, ".RequestedServiceUnit.CCTotalOctets"), ""
	}}
	termination := expect{"balance - used", func(p poly) (bool, string) {
		d := polyAdd(q0, p, -1)
		return m.reqAtom(d, ".UsedServiceUnit.CCTotalOctets"), ""
	}}
	reserve := expect{"balance - grant", func(p poly) (bool, string) {
		if granted == nil {
			return false, "no Granted-Service-Unit is written"
		}
		d := polyAdd(q0, p, -1)
		return polyEqual(d, fe.eval(granted)), ""
	}}
	expectFor := func(a, t int64) expect {
		switch {
		case a == actRefund:
			return refund
		case a == actDD && (t == tInit || t == tUpd):
			return reserve
		case a == actDD && t == tTerm:
			return termination
		}
		return unchanged
	}
	leaves := leavesOf(stripConv(m.stored))
	pairIn, pairOnEdge := pairFlow(f, m.isAction, m.isType)
	for i, lf := range leaves {
		form := fe.eval(lf.val)
		var aset, tset enumSet
		if lf.from != nil {
			aset = enumOnEdge(m.actionIn, m.isAction, lf.from, lf.at)
			tset = enumOnEdge(m.typeIn, m.isType, lf.from, lf.at)
		} else {
			aset, tset = m.actionIn[m.putOne.Block()], m.typeIn[m.putOne.Block()]
		}
		// enumerate the (action, type) pairs possible on this edge ("other" stands for every
		// value not compared); pairs are tracked together, so a type established under
		// one action is not combined with another action
		var pairs pairSet
		if lf.from != nil {
			pairs = pairOnEdge(lf.from, lf.at)
		} else {
			pairs = pairIn[m.putOne.Block()]
		}
		bad := ""
		names := map[string]bool{}
		for pr := range pairs {
			a, t := pr[0], pr[1]
			ex := expectFor(a, t)
			names[ex.name] = true
			if ok, why := ex.ok(form); !ok {
				bad = fmt.Sprintf("for Requested-Action=%s, CC-Request-Type=%s the statement requires %s but the balance written is %s %s", enumName(a), enumName(t), ex.name, form, why)
			}
		}
		k := fmt.Sprintf("%s|balance definition #%d action%s type%s", key, i+1, aset, tset)
		pos := posOf(c, m.putOne)
		if ins, ok := lf.val.(ssa.Instruction); ok {
			pos = posOf(c, ins)
		}
		r.check(bad == "", R2, k, pos, fmt.Sprintf("written balance = %s = %s", form, strings.Join(sortedKeys(names), " / ")), bad)
	}
	r.count("balance_reaching_definitions", len(leaves))

	// ---- R1 grant = min(request, balance)
	if granted == nil {
		r.viol(R1, key+"|grant", c.rel(f.Pos()), "no Granted-Service-Unit value is written in the reservation branch")
	} else {
		for i, lf := range leavesOf(stripConv(granted)) {
			form := fe.eval(lf.val)
			k := fmt.Sprintf("%s|grant definition #%d", key, i+1)
			pos := c.rel(f.Pos())
			if lf.at != nil && len(lf.at.Instrs) > 0 {
				pos = posOf(c, lf.at.Instrs[0])
			}
			switch {
			case m.reqAtom(form, ".RequestedServiceUnit.CCTotalOctets"):
				rel := relOnEdge(fe, form, q0, lf.from, lf.at)
				r.check(rel["<="], R1, k, pos, "grant = request on an edge where request <= balance", "the full request is granted on an edge where it may exceed the balance: the balance goes negative")
			case polyEqual(form, q0):
				// find the request form: any RequestedServiceUnit atom compared with q0
				rel := m.relReqVsBalance(lf)
				r.check(rel[">="], R1, k, pos, "grant = balance on an edge where request >= balance", "the whole balance is granted although the request may be smaller than the balance")
			default:
				r.viol(R1, k, pos, "the grant "+form.String()+" is neither the request nor the balance: it is not min(request, balance)")
			}
		}
		// final unit indication
		if fuiVal == nil {
			r.viol(R1, key+"|final-unit", c.rel(f.Pos()), "no Final-Unit-Indication member is set in the reservation answer")
		} else {
			leaves := leavesOf(stripConv(fuiVal))
			// a member assigned under a condition (no merge): the condition is the one that
			// dominates the assignment, and where it is bypassed the member stays nil
			if len(leaves) == 1 && leaves[0].from == nil && fuiStore != nil {
				leaves[0].at = fuiStore.Block()
				if base := allocBase(fuiStore.Addr); base != nil {
					if ab, ok := base.(ssa.Instruction); ok && ab.Block() != fuiStore.Block() {
						avoid := map[*ssa.BasicBlock]bool{fuiStore.Block(): true}
						if reachableFrom(ab.Block(), nil, nil, avoid)[m.putOne.Block()] {
							// the edge that bypasses the assignment: the other branch of the test that guards it
							for _, ib := range f.Blocks {
								if len(ib.Succs) != 2 || ib.Succs[0] == ib.Succs[1] {
									continue
								}
								for i := 0; i < 2; i++ {
									if edgeDominates(ib, ib.Succs[i], fuiStore.Block()) && !edgeDominates(ib, ib.Succs[1-i], fuiStore.Block()) && ab.Block().Dominates(ib) {
										leaves = append(leaves, phiLeaf{val: ssa.NewConst(nil, fuiVal.Type()), from: ib, at: ib.Succs[1-i]})
									}
								}
							}
						}
					}
				}
			}
			for i, lf := range leaves {
				k := fmt.Sprintf("%s|final-unit definition #%d", key, i+1)
				rel := m.relReqVsBalance(lf)
				pos := c.rel(f.Pos())
				if ins, ok := lf.val.(ssa.Instruction); ok {
					pos = posOf(c, ins)
				}
				if isNilConst(lf.val) {
					r.check(rel["<="], R1, k, pos, "no final-unit indication on an edge where request <= balance", "the final-unit indication is omitted on an edge where the request may exceed the balance")
				} else {
					// must be a TERMINATE indication
					term := false
					if a, ok := lf.val.(*ssa.Alloc); ok {
						for _, st := range storesToField(a, "FinalUnitAction") {
							if v, ok := constInt(st.Val); ok && v == constOf(c, "ccs_diameter/datatype", "TERMINATE") {
								term = true
							}
						}
					}
					r.check(rel[">"] && term, R1, k, pos, "final-unit indication TERMINATE on an edge where request > balance", "a final-unit indication is sent although the request does not exceed the balance (or it is not TERMINATE)")
				}
			}
		}
	}

	// ---- R3 echo
	for _, fld := range [][2]string{{"SessionId", "SessionId"}, {"CcRequestType", "CcRequestType"}, {"CcRequestNumber", "CcRequestNumber"}} {
		var echo []ssa.Instruction
		collect := func(target ssa.Value, via ssa.Instruction) {
			for _, st := range storesToField(target, fld[0]) {
				if m.isReqField(st.Val, fld[1]) {
					if via != nil {
						echo = append(echo, via)
					} else {
						echo = append(echo, st)
					}
				}
			}
		}
		collect(m.ans, nil)
		// whole-struct assignment *ans = *tmp
		for _, ref := range *m.ans.Referrers() {
			st, ok := ref.(*ssa.Store)
			if !ok || st.Addr != ssa.Value(m.ans) {
				continue
			}
			if ld, ok := st.Val.(*ssa.UnOp); ok && ld.Op == token.MUL {
				if tmp, ok := ld.X.(*ssa.Alloc); ok {
					before := len(echo)
					collect(tmp, st)
					// the field stores into tmp must precede the copy
					_ = before
				}
			}
		}
		ok := len(echo) > 0 && mustPassBefore(f, echo, m.marshal)
		r.check(ok, R3, key+"|echo "+fld[0], posOf(c, m.marshal), "assigned from the request on every path to Marshal",
			"a path reaches Marshal(&answer) without "+fld[0]+" having been copied from the request (e.g. REFUND_ACCOUNT / CHECK_BALANCE / PRICE_ENQUIRY): the client cannot correlate the answer")
		// ... and the copied value is put on the wire whatever it is: go-diameter leaves a member
		// tagged omitempty out when it holds its zero value, and 0 is the first CC-Request-Number
		if st := derefStruct(m.ans.Type()); st != nil {
			for i := 0; i < st.NumFields(); i++ {
				if st.Field(i).Name() != fld[0] {
					continue
				}
				tag := st.Tag(i)
				_, omit := parseAvpTagFull(reflect.StructTag(tag))
				_, isPtr := st.Field(i).Type().Underlying().(*types.Pointer)
				r.check(!omit || isPtr, R3, key+"|echo "+fld[0]+" on the wire", posOf(c, m.marshal), "the member is marshalled for every value (`"+tag+"`)",
					"the answer's "+fld[0]+" is tagged `"+tag+"`, which go-diameter's parseAvpTag takes for omitempty (explicitly, or because the tag carries more than the avp key): it omits the AVP when the member holds its zero value, so the answer to a request whose "+fld[0]+" is 0 / empty carries no such AVP - the identifier is not echoed")
			}
		}
	}

	// ---- R4 unknown account
	{
		var res0 ssa.Value
		for _, ref := range *m.getOne.Referrers() {
			if ex, ok := ref.(*ssa.Extract); ok && ex.Index == 0 {
				res0 = ex
			}
		}
		ok := false
		for _, ref := range *res0.Referrers() {
			bo, isBo := ref.(*ssa.BinOp)
			if !isBo || (bo.Op != token.EQL && bo.Op != token.NEQ) {
				continue
			}
			for _, r2 := range *bo.Referrers() {
				ifi, isIf := r2.(*ssa.If)
				if !isIf {
					continue
				}
				nonNil := ifi.Block().Succs[1]
				if bo.Op == token.NEQ {
					nonNil = ifi.Block().Succs[0]
				}
				isNil := ifi.Block().Succs[0]
				if nonNil == isNil {
					isNil = ifi.Block().Succs[1]
				}
				// the write-back is not reachable from the not-found edge (a flag assigned on that
				// edge and tested behind a merge is followed: one-step threading)
				if edgeDominates(ifi.Block(), nonNil, m.putOne.Block()) || !threadedReach(ifi.Block(), isNil)[m.putOne.Block()] {
					ok = true
				}
			}
		}
		r.check(ok, R4, key+"|unknown-account", posOf(c, m.putOne), "the write-back is dominated by the account-found edge", "the balance write-back is reachable when the account document was not found: a request for an unknown subscriber or rating group creates/changes a balance")
	}
	// ---- R5
	r.check(instrDominates(m.putOne, m.writeTo), R5, key+"|store-before-answer", posOf(c, m.writeTo), "RestfulAPIPutOne dominates the answer's WriteTo", "the answer can be sent before (or without) the balance being written back")
}

// relReqVsBalance: relation request ? balance known on the leaf's edge, for
// whichever request-amount atom is compared with the balance.
func (m *abmfModel) relReqVsBalance(lf phiLeaf) map[string]bool {
	out := map[string]bool{}
	q0 := m.fe.eval(m.q0)
	eachInstr(m.f, func(_ *ssa.BasicBlock, _ int, ins ssa.Instruction) {
		bo, ok := ins.(*ssa.BinOp)
		if !ok {
			return
		}
		for _, v := range []ssa.Value{bo.X, bo.Y} {
			p := m.fe.eval(v)
			if m.reqAtom(p, ".RequestedServiceUnit.CCTotalOctets") {
				for k, b := range relOnEdge(m.fe, p, q0, lf.from, lf.at) {
					if b {
						out[k] = true
					}
				}
			}
		}
	})
	return out
}

func enumValues(s enumSet) []int64 {
	var out []int64
	for k := range s.vals {
		out = append(out, k)
	}
	if s.others {
		out = append(out, -999) // stands for every value that is never compared
	}
	return out
}

func enumName(v int64) string {
	if v == -999 {
		return "<any other value>"
	}
	return fmt.Sprint(v)
}
